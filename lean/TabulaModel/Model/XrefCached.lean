import TabulaModel.Model.XrefFile
/-!
# `Reader.GetObject` WITH its caches, on the bytes of any file

`Model/XrefFile.lean: getObjectB` is `GetObject` without `objCache` / `objStmCache`. This file is
the same function as the code has it (reader/reader.go since 8b2d749), on every byte string:

* `objCache` with `objNeed`, `objStmCache` with `stmNeed`, `reach`, `nestCached`
  (`RSt`, `nestCached`): a cache hit is counted as the load it stands for;
* `getUncompressedObject` (`loadAtC`): the parser re-enters `GetObject` through its resolver at
  most once, for an indirect `/Length`, and it does so as soon as it has read the dictionary
  and the `stream` keyword (core/parser.go `parseStream`) - whatever follows.
  `parseIndirectK` is `XrefFile.parseIndirect` written as such a computation (`Ask`: finished,
  or suspended on the object number asked for); the nested lookup runs on the reader's state,
  the parse is then finished with its answer;
* `getObjectStream` (`openStmC`): the stream object is read by `getUncompressedObject` without
  passing through `GetObject` (it is not counted in `loading`), `core.NewObjectStream`
  validates `/Type`, `/N`, `/First`, `/Extends` (`newObjStmOk`), and the wrapper goes into
  `objStmCache` together with the nested loads its loading took;
* `getCompressedObject` (`compressedC`): `GetObjectByIndex` on the cached wrapper, which is the
  state machine `XrefFile.osGetByIndexK` (lazy decode, kept header error, per-index cache), and
  the number check;
* `GetObject` (`getC`), `ClearCache` (`clearC`).

Nothing is a parameter except zlib (`Reader.Ext`) and `keep` (which failures of
`ObjectStream.decode` are remembered: see `XrefFile.osDecodeK`; the theorems hold for both).
Core Lean only.
-/
namespace Tabula.XrefC
open Tabula.Pdf (Obj PState parseObject newParser fuelFor kwStream)
open Tabula.A1 (atoi)
open Tabula.Reader (Dict dget PVal)
open Tabula.XrefFile

/-- a computation that asks the parser's resolver at most once: finished, or suspended on the
question "what is object `m`" with the rest of the computation -/
inductive Ask (α : Type)
  | fin (r : α)
  | ask (m : Int) (k : Option Int → α)

/-- run it with a resolver -/
def Ask.run {α : Type} (lenOf : Int → Option Int) : Ask α → α
  | .fin r => r
  | .ask m k => k (lenOf m)

/-- the question, if there is one -/
def Ask.asked {α : Type} : Ask α → Option Int
  | .fin _ => none
  | .ask m _ => some m

def Ask.map {α β : Type} (f : α → β) : Ask α → Ask β
  | .fin r => .fin (f r)
  | .ask m k => .ask m (fun a => f (k a))

/-- `parseStream` behind the `/Length` lookup: the mandatory end-of-line marker, `len` bytes of
data, `endstream`, and the parser reloaded -/
def streamWithLen (s : PState) (len? : Option Int) : Option (Str × PState) :=
  match len? with
  | none => none
  | some len =>
    if len < 0 then none
    else
      match skipStreamEOL s.inp with
      | none => none
      | some r =>
        if r.length < len.toNat then none
        else
          match Tabula.Pdf.nextToken (r.drop len.toNat) with
          | some (.keyword k, r') =>
            if k = kwEndstream then
              some (r.take len.toNat,
                (PState.next (PState.next { cur := none, peek := none, inp := r', err := s.err })))
            else none
          | _ => none

/-- `parseStream` (`XrefFile.parseStreamData`) with the resolver call made explicit: an
indirect `/Length` suspends the parse, before anything behind the `stream` keyword is looked
at -/
def parseStreamDataK (kv : Dict) (s : PState) : Ask (Option (Str × PState)) :=
  match dget kv kLength with
  | some (.int v) => .fin (streamWithLen s (some v))
  | some (.ref n _) => .ask n (fun a => streamWithLen s a)
  | _ => .fin none

/-- `XrefFile.indirectBody` with the resolver call made explicit -/
def indirectBodyK (fuel : Nat) (num gen : Int) (s : PState) : Ask (Option (Int × Int × PVal)) :=
  match parseObject fuel 0 s with
  | .error _ => .fin none
  | .ok (o, s4) =>
    if s4.cur = some (.keyword kwStream) then
      match o with
      | .dict kv =>
        (parseStreamDataK kv s4).map fun r =>
          match r with
          | none => none
          | some (data, s5) =>
            if s5.cur = some (.keyword kwEndobj) then some (num, gen, .stream kv data) else none
      | _ => .fin none
    else if s4.cur = some (.keyword kwEndobj) then .fin (some (num, gen, .obj o))
    else .fin none

/-- `ParseIndirectObject` (`XrefFile.parseIndirect`) with the resolver call made explicit: the
parser calls its resolver at most once - for `/Length n g R`, as soon as it has read `N G obj`,
a dictionary and the `stream` keyword - and finishes with the answer -/
def parseIndirectK (inp : Str) : Ask (Option (Int × Int × PVal)) :=
  let s0 := newParser inp
  match s0.cur with
  | some (.integer v) =>
    match atoi v with
    | none => .fin none
    | some num =>
      let s1 := s0.next
      match s1.cur with
      | some (.integer v2) =>
        match atoi v2 with
        | none => .fin none
        | some gen =>
          let s2 := s1.next
          if s2.cur = some (.keyword kwObj) then indirectBodyK (fuelFor inp) num gen s2.next
          else .fin none
      | _ => .fin none
  | _ => .fin none

/-- `getUncompressedObject` (`XrefFile.uncompressedAt`) with the resolver call made explicit -/
def uncompressedAtK (file : Str) (n off : Int) : Ask (Option PVal) :=
  if off < 0 then .fin none
  else
    (parseIndirectK (file.drop off.toNat)).map fun r =>
      match r with
      | some (num, _, v) => if num = n then some v else none
      | none => none

/-- what `parseStream` makes of the resolver's answer: it must be an integer -/
def lenInt : Option PVal → Option Int
  | some (.obj (.int i)) => some i
  | _ => none

/-- `core.NewObjectStream`: `/Type /ObjStm`, `/N` and `/First` non-negative integers, no
`/Extends` (the part of `Reader.mkObjStm` in front of the decoding) -/
def newObjStmOk (kv : Dict) : Bool :=
  match dget kv Reader.kType, dget kv Reader.kN, dget kv Reader.kFirst with
  | some (.name t), some (.int n), some (.int first) =>
    if t ≠ Reader.kObjStm ∨ n < 0 ∨ first < 0 ∨ (dget kv Reader.kExtends).isSome then false else true
  | _, _, _ => false

/-- an entry of `objStmCache`: the stream the `*core.ObjectStream` wraps, `stmNeed`, and the
wrapper's own mutable state -/
structure StmEntry where
  kv : Dict
  data : Str
  need : Nat
  os : OSStateK

/-- `objCache` + `objNeed`, `objStmCache` + `stmNeed`, `reach`. Go maps: the binding found
first counts, a new binding is put in front. -/
structure RSt where
  obj : List (Int × (PVal × Nat)) := []
  stm : List (Int × StmEntry) := []
  reach : Nat := 0

/-- `nestCached(need)` with `L` objects being loaded -/
def nestCached (need L : Nat) (st : RSt) : Bool × RSt :=
  if maxNestedLoads < L + need then (false, st)
  else (true, { st with reach := max st.reach (L + need) })

/-- `getUncompressedObject(n, entry)`: seek (a negative offset is refused), parse the indirect
object there with the reader as resolver (`nested` = `GetObject` at the present nesting), check
the number -/
def loadAtC (file : Str) (nested : Int → RSt → Option PVal × RSt) (n off : Int) (st : RSt) :
    Option PVal × RSt :=
  match uncompressedAtK file n off with
  | .fin r => (r, st)
  | .ask m k =>
    let r := nested m st
    (k (lenInt r.1), r.2)

/-- `getObjectStream(s)` with `Lnow` objects being loaded (the member included) -/
def openStmC (file : Str) (x : RawSection) (nested : Int → RSt → Option PVal × RSt) (Lnow : Nat)
    (s : Int) (st : RSt) : Option StmEntry × RSt :=
  match st.stm.lookup s with
  | some se =>
    let r := nestCached se.need Lnow st
    (if r.1 then some se else none, r.2)
  | none =>
    match getLastI x s with
    | none => (none, st)
    | some xe =>
      if xe.kind = .compressed then (none, st)
      else
        -- outer := r.reach; r.reach = len(r.loading); getUncompressedObject
        let r := loadAtC file nested s xe.f1 { st with reach := Lnow }
        let need := r.2.reach - Lnow
        let st3 : RSt := { r.2 with reach := max r.2.reach st.reach }
        match r.1 with
        | some (.stream kv data) =>
          if newObjStmOk kv then
            let se : StmEntry := { kv := kv, data := data, need := need, os := {} }
            (some se, { st3 with stm := (s, se) :: st3.stm })
          else (none, st3)
        | _ => (none, st3)

/-- `getCompressedObject(n, entry)` -/
def compressedC (ext : Reader.Ext) (keep : Bool) (file : Str) (x : RawSection)
    (nested : Int → RSt → Option PVal × RSt) (Lnow : Nat) (n : Int) (e : RawEntry) (st : RSt) :
    Option PVal × RSt :=
  match openStmC file x nested Lnow e.f1 st with
  | (none, st') => (none, st')
  | (some se, st') =>
    let r := osGetByIndexK keep (Reader.mkObjStm ext se.kv se.data) se.os e.f2
    let st'' : RSt := { st' with stm := (e.f1, { se with os := r.2 }) :: st'.stm }
    match r.1 with
    | none => (none, st'')
    | some (num, o) => if num = n then (some (.obj o), st'') else (none, st'')

/-- `(*Reader).GetObject(n)` with `loading` being loaded. `fuel`: one per nested `GetObject`
(`maxNestedLoads + 1 - loading.length` is never used up). -/
def getC (ext : Reader.Ext) (keep : Bool) (file : Str) (x : RawSection) :
    Nat → List Int → Int → RSt → Option PVal × RSt
  | 0, _, _, st => (none, st)
  | fuel + 1, loading, n, st =>
    match st.obj.lookup n with
    | some (v, need) =>
      let r := nestCached need loading.length st
      (if r.1 then some v else none, r.2)
    | none =>
      match getLastI x n with
      | none => (none, st)
      | some e =>
        if e.kind = .free then (none, st)
        else if loading.contains n then (none, st)
        else if loading.length ≥ maxNestedLoads then (none, st)
        else
          -- r.loading[objNum] = true; outer := r.reach; r.reach = len(r.loading)
          let st1 : RSt := { st with reach := loading.length + 1 }
          let nested := fun m s => getC ext keep file x fuel (n :: loading) m s
          let r :=
            if e.kind = .inUse then loadAtC file nested n e.f1 st1
            else compressedC ext keep file x nested (loading.length + 1) n e st1
          -- r.objCache[objNum] = obj; r.objNeed[objNum] = r.reach - len(r.loading) + 1
          let st4 : RSt :=
            match r.1 with
            | some v => { r.2 with obj := (n, (v, r.2.reach - (loading.length + 1) + 1)) :: r.2.obj }
            | none => r.2
          (r.1, { st4 with reach := max st4.reach st.reach })

/-- `GetObject(n)` called from outside -/
def getTop (ext : Reader.Ext) (keep : Bool) (file : Str) (x : RawSection) (n : Int) (st : RSt) :
    Option PVal × RSt :=
  getC ext keep file x (maxNestedLoads + 1) [] n st

/-- `ClearCache()`: the four maps are made anew, `reach` stays -/
def clearC (st : RSt) : RSt := { reach := st.reach }

end Tabula.XrefC
