import TabulaModel.Model.Builder
/-
C03, mechanism "option chaining copies configuration" (`tabula.(*Extractor).clone`,
`ExtractOptions.clone`) at the level where the copy matters: `options.pages` is a Go slice — a
header (backing array, length, capacity) — and `append` writes into the backing array in place
whenever the capacity allows.  Two Extractors whose page lists share a backing array overwrite
each other's selections (the seeded change r3m2, `ExtractOptions.clone` reduced to `return o`).

The heap is a map from array identities to contents; `Heap.next` is the next fresh identity.
`grow` is the capacity the runtime picks when `append` must reallocate (Go's growth policy: any
value at least the needed length) — the theorems hold for every such policy, which is why the
value-level model (`Model/Builder.lean`: a page list is a `List Int`, `clone` the identity) is
sound.  Core Lean only.
-/
namespace Tabula.OptHeap
open Tabula.Builder

/-- a Go slice header -/
structure Slice where
  arr : Nat
  len : Nat
  cap : Nat
  deriving DecidableEq, Repr

structure Heap where
  arr : Nat → List Int     -- contents of every backing array (length = its capacity)
  next : Nat               -- identities below `next` are in use

def Heap.empty : Heap := { arr := fun _ => [], next := 0 }

/-- `make([]int, …)`: a fresh backing array with the given contents -/
def Heap.alloc (H : Heap) (a : List Int) : Heap × Nat :=
  ({ arr := fun i => if i = H.next then a else H.arr i, next := H.next + 1 }, H.next)

/-- the elements a slice shows -/
def readSlice (H : Heap) (s : Slice) : List Int := (H.arr s.arr).take s.len

/-- `e.options.pages` as a value; a nil slice has no elements -/
def readOpt (H : Heap) : Option Slice → List Int
  | none => []
  | some s => readSlice H s

/-- `a[pos:pos+len(xs)] = xs` -/
def writeAt (a : List Int) (pos : Nat) (xs : List Int) : List Int :=
  a.take pos ++ xs ++ a.drop (pos + xs.length)

/-- `append(s, xs...)` -/
def appendSlice (grow : Nat → Nat → Nat) (H : Heap) (s : Option Slice) (xs : List Int) : Heap × Option Slice :=
  match s with
  | none =>
    if xs.isEmpty then (H, none)
    else
      let cap := max (grow 0 xs.length) xs.length
      let (H1, id) := H.alloc (xs ++ List.replicate (cap - xs.length) 0)
      (H1, some ⟨id, xs.length, cap⟩)
  | some s =>
    if s.len + xs.length ≤ s.cap then
      -- room left: written in place, every slice on the same array sees it
      ({ H with arr := fun i => if i = s.arr then writeAt (H.arr s.arr) s.len xs else H.arr i },
       some { s with len := s.len + xs.length })
    else
      let need := s.len + xs.length
      let cap := max (grow s.cap need) need
      let (H1, id) := H.alloc (readSlice H s ++ xs ++ List.replicate (cap - need) 0)
      (H1, some ⟨id, need, cap⟩)

/-- `for i := start; i <= end; i++ { pages = append(pages, i) }` -/
def appendEach (grow : Nat → Nat → Nat) : Heap → Option Slice → List Int → Heap × Option Slice
  | H, s, [] => (H, s)
  | H, s, x :: xs => let (H1, s1) := appendSlice grow H s [x]; appendEach grow H1 s1 xs

/-- `ExtractOptions.clone`: `if o.pages != nil { newOpts.pages = make([]int, len(o.pages)); copy(…) }` -/
def cloneDeep (H : Heap) : Option Slice → Heap × Option Slice
  | none => (H, none)
  | some s => let (H1, id) := H.alloc (readSlice H s); (H1, some ⟨id, s.len, s.len⟩)

/-- the seeded change r3m2: `func (o ExtractOptions) clone() ExtractOptions { return o }` — the
header is copied, the backing array shared -/
def cloneShallow (H : Heap) (s : Option Slice) : Heap × Option Slice := (H, s)

/-- an Extractor with its page list on the heap (`e.opts.pages` of the `Ext` part is not used) -/
structure HExt where
  sl : Option Slice
  e : Ext
  deriving DecidableEq, Repr

/-- the Extractor as a value -/
def absExt (H : Heap) (x : HExt) : Ext := { x.e with opts := { x.e.opts with pages := readOpt H x.sl } }

/-- a configuration method on the heap: `clone()`, then the method's own change -/
def hderiveWith (clone : Heap → Option Slice → Heap × Option Slice) (grow : Nat → Nat → Nat)
    (H : Heap) (x : HExt) (c : BCall) : Heap × HExt :=
  let (H1, s1) := clone H x.sl
  let e1 := applyCall c x.e.clone
  match c with
  | .pages ps => let (H2, s2) := appendSlice grow H1 s1 ps; (H2, { sl := s2, e := e1 })
  | .pageRange a b =>
    if a > b then (H1, { sl := s1, e := e1 })
    else let (H2, s2) := appendEach grow H1 s1 (rangeList a b); (H2, { sl := s2, e := e1 })
  | _ => (H1, { sl := s1, e := e1 })

def hderive := hderiveWith cloneDeep

def hderiveShallow := hderiveWith cloneShallow

/-- a family of Extractors on one heap -/
structure HFam where
  H : Heap
  xs : List HExt

/-- `x_new := x_i.c` -/
def HFam.derive (grow : Nat → Nat → Nat) (F : HFam) (i : Nat) (c : BCall) : HFam :=
  match F.xs[i]? with
  | none => F
  | some x => let (H1, y) := hderive grow F.H x c; { H := H1, xs := F.xs ++ [y] }

def HFam.deriveShallow (grow : Nat → Nat → Nat) (F : HFam) (i : Nat) (c : BCall) : HFam :=
  match F.xs[i]? with
  | none => F
  | some x => let (H1, y) := hderiveShallow grow F.H x c; { H := H1, xs := F.xs ++ [y] }

/-- the family as values -/
def HFam.abs (F : HFam) : List Ext := F.xs.map (absExt F.H)

/-- a history of configuration calls `(i, c)`: `x_new := x_i.c` -/
def HFam.run (grow : Nat → Nat → Nat) : HFam → List (Nat × BCall) → HFam
  | F, [] => F
  | F, (i, c) :: rest => HFam.run grow (F.derive grow i c) rest

def HFam.runShallow (grow : Nat → Nat → Nat) : HFam → List (Nat × BCall) → HFam
  | F, [] => F
  | F, (i, c) :: rest => HFam.runShallow grow (F.deriveShallow grow i c) rest

/-- the same history on values (`Model/Builder.lean`) -/
def runValues : List Ext → List (Nat × BCall) → List Ext
  | es, [] => es
  | es, (i, c) :: rest =>
    runValues (match es[i]? with | some e => es ++ [e.derive c] | none => es) rest

/-- Go's growth for small slices: double -/
def growDouble (oldCap need : Nat) : Nat := max (2 * oldCap) need

/-- `tabula.Open(f)`: no pages selected, a nil slice -/
def hbase (e : Ext) : HFam := { H := Heap.empty, xs := [{ sl := none, e := e }] }

end Tabula.OptHeap
