import TabulaModel.Model.ChunkLayout
import TabulaModel.Model.ChunkSent
import TabulaModel.Model.ChunkIntro
import TabulaModel.Model.Split
/-!
# RAG chunking (property C12), part 10: the whole `ChunkMetadata` of the layout-based chunker

`Model/ChunkLayout.lean` keeps of a chunk what the statement of C12 names. `Chunker.createChunk` /
`NewChunk` (`rag/chunker.go`) fill more: `SectionTitle`, `HeadingLevel` (from the section),
`Level` (section / paragraph / sentence, by the path that made the chunk), `ElementTypes`,
`HasList` (tracked by the loops of `chunkSection` and `splitSectionByParagraphs`; `HasTable` and
`HasImage` stay false, a section's content holds headings, paragraphs and lists only),
`CharCount`, `WordCount`, `EstimatedTokens`, `TextWithContext` (functions of text and title, also
after a merge into the previous chunk).

Here the loops are repeated with that bookkeeping, as the code has it — including its
peculiarities: an introducing paragraph kept with its list sets `HasList` but adds no element
type; what an over-long atomic block leaves in `currentText` adds neither; a merged orphan leaves
the previous chunk's types and flag alone; a blank `currentText` is not flushed and keeps its
types. `Lemmas/ChunkLayoutX.lean` proves that forgetting the bookkeeping gives `chunk`.
-/
namespace Tabula.ChunkLayoutX
open Tabula.Chunk Tabula.ChunkLayout

/-- `ChunkLevelSection` 1, `ChunkLevelParagraph` 2, `ChunkLevelSentence` 3 -/
structure LMeta where
  types : List Str
  hasList : Bool
  level : Nat
  deriving Repr, DecidableEq

/-- a chunk with the bookkeeping of the loop that made it -/
structure LX where
  c : Chunk
  m : LMeta
  deriving Repr, DecidableEq

/-- … and the section it was made for (`createChunk` copies `Title` and `HeadingLevel` from it) -/
structure LXS where
  x : LX
  info : SecInfo
  deriving Repr, DecidableEq

/-- `model.ElementType.String()` -/
def kindName : Kind → Str
  | .heading => ofString "Heading"
  | .para => ofString "Paragraph"
  | .list => ofString "List"

/-- the "found" loop: append the type name unless it is there -/
def addType (ts : List Str) (t : Str) : List Str := if ts.contains t then ts else ts ++ [t]

def typesOf (es : List CE) : List Str := es.foldl (fun ts e => addType ts (kindName e.kind)) []

def anyList (es : List CE) : Bool := es.any fun e => e.kind == .list

/-- `createChunk` + the `Level` the caller sets -/
def createX (cfg : Cfg) (info : SecInfo) (text : Str) (idx : Nat) (types : List Str) (hasList : Bool) (level : Nat) : LX :=
  ⟨createChunk cfg info text idx, ⟨types, hasList, level⟩⟩

/-- state of the loops: chunks, `currentText`, `chunkIndex`, `elementTypes`, `hasList` -/
structure LSX where
  chunks : List LX
  cur : Str
  idx : Nat
  types : List Str
  hasList : Bool

/-- `splitBySentences`: one chunk of the pending sentences: `[]string{elem.Type.String()}`, no flag, `ChunkLevelSentence` -/
def sentEmitX (cfg : Cfg) (info : SecInfo) (k : Kind) (t : Str) (s : LSX) : LSX :=
  if decide (cfg.maxSize < (s.cur.length : Int) + ((t.length : Int) + (if s.cur.isEmpty then 0 else 1))) && !s.cur.isEmpty
  then { s with chunks := s.chunks ++ [createX cfg info s.cur s.idx [kindName k] false 3], cur := [], idx := s.idx + 1 } else s

def sentAddX (t : Str) (s : LSX) : LSX :=
  { s with cur := if s.cur.isEmpty then t else s.cur ++ [32] ++ t }

def sentLoopX (cfg : Cfg) (info : SecInfo) (k : Kind) : List Str → LSX → LSX
  | [], s => if s.cur.isEmpty then s
      else { s with chunks := s.chunks ++ [createX cfg info s.cur s.idx [kindName k] false 3], cur := [], idx := s.idx + 1 }
  | t :: ts, s => sentLoopX cfg info k ts (sentAddX t (sentEmitX cfg info k t s))

/-- `splitBySentences`: the caller's `currentText`, `elementTypes`, `hasList` are untouched -/
def splitBySentencesX (cfg : Cfg) (info : SecInfo) (k : Kind) (sents : List Str) (s : LSX) : LSX :=
  let r := sentLoopX cfg info k sents { s with cur := [] }
  { s with chunks := r.chunks, idx := r.idx }

def setLastTextX : List LX → Str → List LX
  | [], _ => []
  | [x], t => [{ x with c := { x.c with text := t } }]
  | x :: xs, t => x :: setLastTextX xs t

/-- `flushChunk` -/
def flushChunkX (cfg : Cfg) (info : SecInfo) (s : LSX) : LSX :=
  if (trim s.cur).isEmpty then s
  else match s.chunks.getLast? with
    | some prev =>
      if decide ((s.cur.length : Int) < cfg.minSize) &&
         decide ((prev.c.text.length : Int) + (s.cur.length : Int) + 2 ≤ cfg.maxSize) then
        ⟨setLastTextX s.chunks (prev.c.text ++ [10, 10] ++ s.cur), [], s.idx, [], false⟩
      else ⟨s.chunks ++ [createX cfg info s.cur s.idx s.types s.hasList 2], [], s.idx + 1, [], false⟩
    | none => ⟨s.chunks ++ [createX cfg info s.cur s.idx s.types s.hasList 2], [], s.idx + 1, [], false⟩

def flushIfPendingX (cfg : Cfg) (info : SecInfo) (s : LSX) : LSX :=
  if s.cur.isEmpty then s else flushChunkX cfg info s

/-- an atomic block above the maximum: what goes to `currentText` adds no type and no flag -/
def atomicOversizeX (cfg : Cfg) (info : SecInfo) : List CE → LSX → LSX
  | [], s => s
  | e :: es, s =>
    if lenGt e.text cfg.maxSize then atomicOversizeX cfg info es (splitBySentencesX cfg info e.kind e.sents s)
    else atomicOversizeX cfg info es { s with cur := joinPara s.cur e.text }

/-- an atomic block: a chunk of its own with the block's own types and flag, `ChunkLevelParagraph`,
appended directly (no orphan merging); the running types and flag are not touched -/
def atomicBlockX (cfg : Cfg) (info : SecInfo) (es : List CE) (s : LSX) : LSX :=
  let s := flushIfPendingX cfg info s
  let str := es.foldl (fun acc e => joinPara acc e.text) []
  if lenGt str cfg.maxSize then atomicOversizeX cfg info es s
  else { s with chunks := s.chunks ++ [createX cfg info str s.idx (typesOf es) (anyList es) 2], idx := s.idx + 1 }

def flushIfOverX (cfg : Cfg) (info : SecInfo) (added : Int) (s : LSX) : LSX :=
  if decide (cfg.maxSize < (s.cur.length : Int) + added) && !s.cur.isEmpty then flushChunkX cfg info s else s

def plainElemX (cfg : Cfg) (info : SecInfo) (e : CE) (s : LSX) : LSX :=
  let s := flushIfOverX cfg info ((e.text.length : Int) + (if s.cur.isEmpty then 0 else 2)) s
  if lenGt e.text cfg.maxSize then
    splitBySentencesX cfg info e.kind e.sents (flushIfPendingX cfg info s)
  else { s with cur := joinPara s.cur e.text, types := addType s.types (kindName e.kind),
                hasList := s.hasList || e.kind == .list }

/-- the main loop of `splitSectionByParagraphs` -/
def paraLoopX (cfg : Cfg) (info : SecInfo) : List CE → LSX → LSX
  | [], s => s
  | [e], s =>
    if cfg.keepLists && e.kind == .list then atomicBlockX cfg info [e] s
    else plainElemX cfg info e s
  | e :: n :: rest, s =>
    if cfg.keepLists && e.kind == .list then
      paraLoopX cfg info (n :: rest) (atomicBlockX cfg info [e] s)
    else if e.kind == .para && n.kind == .list && e.intro then
      if cfg.keepLists then paraLoopX cfg info rest (atomicBlockX cfg info [e, n] s)
      else
        let s := flushIfOverX cfg info ((e.text.length : Int) + 2 + (n.text.length : Int)) s
        -- intro and list are added; `hasList = true`; no element type is recorded
        paraLoopX cfg info rest { s with cur := joinPara s.cur e.text ++ [10, 10] ++ n.text, hasList := true }
    else paraLoopX cfg info (n :: rest) (plainElemX cfg info e s)

def splitSectionByParagraphsX (cfg : Cfg) (info : SecInfo) (content : List CE) (idx : Nat) : List LX :=
  (flushChunkX cfg info (paraLoopX cfg info content ⟨[], [], idx, [], false⟩)).chunks

/-- `chunkSection`: one chunk (`ChunkLevelSection`) with the types and flag of the whole content, or the split -/
def chunkSectionX (cfg : Cfg) (info : SecInfo) (content : List CE) (idx : Nat) : List LX :=
  let text := content.foldl (fun acc e => joinPara acc e.text) []
  if (trim text).isEmpty then []
  else if !lenGt text cfg.maxSize then [createX cfg info text idx (typesOf content) (anyList content) 1]
  else splitSectionByParagraphsX cfg info content idx

/-- the sections in the order `chunkSectionTree` visits them -/
def chunkFlatX (cfg : Cfg) : List (SecInfo × List CE) → Nat → List LXS
  | [], _ => []
  | (info, content) :: rest, idx =>
    let own := chunkSectionX cfg info content idx
    own.map (⟨·, info⟩) ++ chunkFlatX cfg rest (idx + own.length)

mutual
def flatTreeM : Sec → List (SecInfo × List CE)
  | .mk info content children => (info, content) :: flatForestM children
def flatForestM : List Sec → List (SecInfo × List CE)
  | [] => []
  | s :: ss => flatTreeM s ++ flatForestM ss
end

def chunkByParagraphsX (cfg : Cfg) (title : Str) (d : LDoc) : List LXS :=
  match (fallbackContent d).head?, (fallbackContent d).getLast? with
  | some a, some b =>
    (splitSectionByParagraphsX cfg ⟨title, 0, [], a.page, b.page⟩ (fallbackContent d) 0).map
      (⟨·, ⟨title, 0, [], a.page, b.page⟩⟩)
  | _, _ => []

def setTotalLX (xs : List LXS) : List LXS :=
  xs.map fun y => { y with x := { y.x with c := { y.x.c with total := xs.length } } }

/-- `Chunker.Chunk`, every chunk with its section and bookkeeping -/
def chunkX (cfg : Cfg) (title : Str) (d : LDoc) : List LXS :=
  let xs := chunkFlatX cfg (flatForestM (buildSections cfg d)) 0
  let xs := if xs.isEmpty then chunkByParagraphsX cfg title d else xs
  setTotalLX xs

/-- … with sentences and list introductions computed by the model -/
def chunkXSI (low : Str → Bool) (cfg : Cfg) (title : Str) (d : LDoc) : List LXS :=
  chunkX cfg title (Tabula.ChunkSent.withSents low (Tabula.ChunkIntro.withIntro d))

/-! ## the fields `createChunk` / `NewChunk` compute from section and text -/

def LXS.c (y : LXS) : Chunk := y.x.c
def LXS.title (y : LXS) : Str := y.info.title
def LXS.headingLevel (y : LXS) : Int := y.info.level
def LXS.charCount (y : LXS) : Nat := y.x.c.text.length
def LXS.wordCount (y : LXS) : Nat := Tabula.Split.countWords y.x.c.text
def LXS.estimatedTokens (y : LXS) : Nat := y.x.c.text.length / 4

/-- `generateContextualText`: `[<SectionTitle>]\n\n<Text>`, the text alone without a title -/
def LXS.textWithContext (y : LXS) : Str :=
  if y.info.title = [] then y.x.c.text else [91] ++ y.info.title ++ [93, 10, 10] ++ y.x.c.text

end Tabula.ChunkLayoutX
