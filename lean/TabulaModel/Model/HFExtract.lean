import TabulaModel.Model.HeaderFooter
import TabulaModel.Model.TextPipe
/-
Model of the extractor-level path of header/footer exclusion (extractor.go, layout/analyzer.go):
how a request `tabula.Open(f).c₁…cₙ.<terminal>()` turns into calls of the C11 mechanism
(`Model/HeaderFooter.lean`).  Core Lean only.

* `(*Extractor).collectAllPages`     → `collectAllPages`  (pages that cannot be read are skipped)
* `(*Extractor).detectHeaderFooter`  → `detectHeaderFooter` (default configuration, `PageIndex = i`)
* the block `if e.options.excludeHeaders || e.options.excludeFooters { allPages, err :=
  e.collectAllPages(); if err == nil && len(allPages) > 0 { … } }` that every page-level
  terminal operation carries                                      → `hfResult`
* `if headerFooterResult != nil { fragments = headerFooterResult.FilterFragments(pd.index,
  fragments, height) }` in the page loops                        → `filterWith`, `pageInput`
* the page loops of `Lines`, `Paragraphs`, `Blocks`, `ReadingOrder`, `Headings`, `Lists`
  (per-page detector on the page's input, results appended)      → `layoutOf`
* `Fragments` (never filters)                                    → `fragmentsOp`
* `Document` (`Layout.Stats.FragmentCount`, `Number`), `Analyze` (`Stats.FragmentCount`)
                                                                  → `documentCounts`, `analyzeCount`
* `Text` = C10's `TextPipe.pageText` with the filter slot filled by this model → `textEnv`, `textOp`
* whole calls on a chain of configuration calls (C10's `Builder`)  → `layoutCall`, `textCallOf`, …
* one operation inside a call history on one source               → `histLayout`
* `layout.(*Analyzer).AnalyzeWithHeaderFooterFiltering`           → `analyzeWithHFInput`

The page-level detectors (line / paragraph / block / reading order / heading / list detection,
the four text assemblers, the two layout tests, OCR) are C09's subject or external and stay
parameters.  Reading a page (`GetPage` + `ExtractTextFragments`, C01/C08) is the `Source`.
-/
namespace Tabula.HFX
open Tabula.HF Tabula.PageSel Tabula.Builder Tabula.TextPipe

/-- byte strings (`HF.Str` and `PageSel.Str` are both `List Nat`) -/
abbrev Str := List Nat

/-- what the reader yields for one page: `page.Height()` (0 when it fails: `height, _ :=`) and
`ExtractTextFragments(page)` -/
structure RawPage where
  height : Rat
  frags : List Frag
  /-- `page.Width()` (only `Text` looks at it: `detectMultiColumn`, `extractPreserveLayout`) -/
  width : Rat := 612
deriving DecidableEq, Repr

/-- the document as the extractor sees it: entry `k` is `some` when `GetPage(k)` and
`ExtractTextFragments` both succeed and `none` when one of them fails; the length is
`reader.PageCount()` -/
abbrev Source := List (Option RawPage)

/-- `GetPage(k)` then `ExtractTextFragments(page)` inside a page loop: a failure fails the call -/
def readPage (src : Source) (k : Nat) : Except E RawPage :=
  match src[k]? with
  | some (some rp) => .ok rp
  | _ => .error .page

/-- the loop of `collectAllPages` from page index `i` on: `continue` on pages that cannot be
read, `extractedPage{index: i, …}` for the others -/
def collectFrom : Nat → Source → List Page
  | _, [] => []
  | i, none :: rest => collectFrom (i + 1) rest
  | i, some rp :: rest => { index := (i : Int), height := rp.height, frags := rp.frags } :: collectFrom (i + 1) rest

/-- `(*Extractor).collectAllPages` (its only error is that of `PageCount`, which `resolvePages`
has met before) -/
def collectAllPages (src : Source) : List Page := collectFrom 0 src

/-- `(*Extractor).detectHeaderFooter`: `layout.NewHeaderFooterDetector().Detect` on
`PageFragments{PageIndex: pd.index, Fragments: pd.fragments, PageHeight: height}` -/
def detectHeaderFooter (all : List Page) : Result := detect defaultConfig all

/-- the `headerFooterResult` variable of a terminal operation: `nil` unless a flag is set and
at least one page could be read -/
def hfResult (o : Options) (src : Source) : Option Result :=
  if needHF o then
    let all := collectAllPages src
    if all.isEmpty then none else some (detectHeaderFooter all)
  else none

/-- `if headerFooterResult != nil { fragments = headerFooterResult.FilterFragments(index,
fragments, height) }` -/
def filterWith (res : Option Result) (k : Nat) (rp : RawPage) : List Frag :=
  match res with
  | none => rp.frags
  | some r => filterFragments r (k : Int) rp.frags rp.height

/-- the fragments of page index `k` that a page-level detector is handed under options `o` -/
def pageInput (o : Options) (src : Source) (k : Nat) : Except E (List Frag) :=
  match readPage src k with
  | .error e => .error e
  | .ok rp => .ok (filterWith (hfResult o src) k rp)

/-- the inputs of all requested pages, in order (any unreadable requested page fails the call;
`Lines`/`Paragraphs`/`Text` read the requested pages before they detect, `ReadingOrder`/
`Analyze`/`Headings`/`Lists`/`Blocks`/`Document` after — the result is the same) -/
def inputsOf (o : Options) (src : Source) (idx : List Nat) : Except E (List (List Frag)) :=
  collect (pageInput o src) idx

/-- page loop of `Lines`, `Paragraphs`, `Blocks`, `ReadingOrder`, `Headings`, `Lists`:
`det k fs` is what the page-level detector returns for page `k` on fragments `fs`; the
per-page results are appended -/
def layoutOf {α : Type} (det : Nat → List Frag → List α) (o : Options) (src : Source)
    (idx : List Nat) : Except E (List α) :=
  fragmentsOf (fun k => (pageInput o src k).map (det k)) idx

/-- `Fragments()`: the page loop appends `ExtractTextFragments(page)` as it is — the exclusion
flags are not consulted -/
def fragmentsOp (src : Source) (idx : List Nat) : Except E (List Frag) :=
  fragmentsOf (fun k => (readPage src k).map (·.frags)) idx

/-- `Document()`: per requested page `(modelPage.Number, Layout.Stats.FragmentCount)` =
`(pageNum + 1, len(fragments))` after filtering; an empty request is "no pages to process" -/
def documentCounts (o : Options) (src : Source) (idx : List Nat) : Except E (List (Nat × Nat)) :=
  if idx.isEmpty then .error .nopages
  else match inputsOf o src idx with
    | .ok ins => .ok ((idx.zip ins).map fun p => (p.1 + 1, p.2.length))
    | .error e => .error e

/-- `Analyze()`: `combined.Stats.FragmentCount` = the sum of `len(fragments)` after filtering -/
def analyzeCount (o : Options) (src : Source) (idx : List Nat) : Except E Nat :=
  if idx.isEmpty then .error .nopages
  else match inputsOf o src idx with
    | .ok ins => .ok (ins.map List.length).sum
    | .error e => .error e

/-! ## Text -/

/-- what `Text` asks of C09 and of the OCR engine -/
structure Renderers where
  /-- `extractTextViaOCR(page, index+1)` -/
  ocr : Nat → Option Str
  /-- `layout.NewReadingOrderDetector().Detect(fragments, width, height).ColumnCount > 1` -/
  columnsGt1 : Nat → List Frag → Bool
  /-- the four assemblers -/
  render : Mode → Nat → List Frag → Str

/-- `tabula.isCharacterLevel` (extractor.go; NOT the detector's test of the same name): at least 10
fragments, more than 60 % of them at most one byte long after `strings.TrimSpace`
(`float64(single)/float64(n) > 0.6` ⇔ `5·single > 3·n`: the quotient of two small integers is never
strictly between 3/5 and the double nearest to 0.6) -/
def charLevelRoot (fs : List Frag) : Bool :=
  if fs.length < 10 then false
  else decide (5 * (fs.filter fun f => (trimSpace f.text).length ≤ 1).length > 3 * fs.length)

/-- `tabula.detectMultiColumn`: fewer than 20 fragments or no page width: no; else the reading
order detector's column count -/
def multiColRoot (R : Renderers) (width : Rat) (k : Nat) (fs : List Frag) : Bool :=
  if fs.length < 20 || width == 0 then false else R.columnsGt1 k fs

/-- `page.Height()` of page `k` -/
def heightOf (src : Source) (k : Nat) : Rat :=
  match src[k]? with
  | some (some rp) => rp.height
  | _ => 0

/-- `page.Width()` of page `k` -/
def widthOf (src : Source) (k : Nat) : Rat :=
  match src[k]? with
  | some (some rp) => rp.width
  | _ => 0

/-- the flags as `Text` sees them when it decides to detect -/
def exclOn : Options := { excludeHeaders := true }

/-- C10's page environment with the filter slot filled by the C11 model: the result is detected
on ALL readable pages of `src`, whatever is requested -/
def textEnv (R : Renderers) (src : Source) : PageEnv (List Frag) where
  frags k := (readPage src k).map (·.frags)
  filt k raw := filterWith (hfResult exclOn src) k { height := heightOf src k, frags := raw }
  isEmpty _ fs := fs.isEmpty
  ocr := R.ocr
  charLevel _ fs := charLevelRoot fs
  multiCol k fs := multiColRoot R (widthOf src k) k fs
  render := R.render

/-- `Text()` of a PDF extractor with options `o` on `src` -/
def textOp (R : Renderers) (o : Options) (src : Source) : Except E Str :=
  textFull (textEnv R src) o src.length

/-! ## whole calls on a chain of configuration calls -/

/-- a PDF that opens and has `src.length` pages -/
def worldOf (src : Source) : World := ⟨true, some src.length⟩

/-- `tabula.Open(pdf)` / `tabula.FromReader(r)` -/
def baseOpen : Ext := {}
def baseReader : Ext := { hasFile := false, reader := some 0, owns := false, opened := true }

/-- `x.<T>()` for `x = base.c₁…cₙ` and a page-level layout operation `T` -/
def layoutCall {α : Type} (t : Term) (det : Nat → List Frag → List α) (src : Source) (e0 : Ext)
    (cs : List BCall) : Except E (List α) :=
  viaFrame (layoutOf det (chainFrom e0 cs).opts src) (termStatic (worldOf src) t (chainFrom e0 cs))

/-- the per-page inputs of `x.<T>()` -/
def inputsCall (t : Term) (src : Source) (e0 : Ext) (cs : List BCall) : Except E (List (List Frag)) :=
  viaFrame (inputsOf (chainFrom e0 cs).opts src) (termStatic (worldOf src) t (chainFrom e0 cs))

/-- `x.Fragments()` -/
def fragmentsCallOf (src : Source) (e0 : Ext) (cs : List BCall) : Except E (List Frag) :=
  viaFrame (fragmentsOp src) (termStatic (worldOf src) .fragments (chainFrom e0 cs))

/-- `x.Document()` reduced to `(Number, FragmentCount)` per page -/
def documentCall (src : Source) (e0 : Ext) (cs : List BCall) : Except E (List (Nat × Nat)) :=
  viaFrame (documentCounts (chainFrom e0 cs).opts src) (termStatic (worldOf src) .document (chainFrom e0 cs))

/-- `x.Analyze()` reduced to `Stats.FragmentCount` -/
def analyzeCall (src : Source) (e0 : Ext) (cs : List BCall) : Except E Nat :=
  viaFrame (analyzeCount (chainFrom e0 cs).opts src) (termStatic (worldOf src) .analyze (chainFrom e0 cs))

/-- `x.Text()` -/
def textCallOf (R : Renderers) (src : Source) (e0 : Ext) (cs : List BCall) : Except E Str :=
  textCall (pageText (textEnv R src) (chainFrom e0 cs).opts) (worldOf src) e0 cs

/-! ## one operation inside a history -/

/-- terminal operation `t` on extractor `i` of a family in state `s`: the new state and the
per-page inputs the operation's detector saw (the configuration is read off the receiver) -/
def histInputs (src : Source) (t : Term) (s : Store) (i : Nat) : Store × Except E (List (List Frag)) :=
  let sr := terminal (worldOf src) t s i
  (sr.1, match s.exts[i]? with
    | some e => viaFrame (inputsOf e.opts src) sr.2
    | none => .error .builder)

/-- a script step: an operation of the family, terminal operations answering with their inputs -/
def histStep (src : Source) (s : Store) : Op → Store × Option (Except E (List (List Frag)))
  | .term i t => let r := histInputs src t s i; (r.1, some r.2)
  | op => ((step (worldOf src) s op).1, none)

/-- run a script on one source, collecting the answers of the terminal operations -/
def histRun (src : Source) : Store → List Op → List (Option (Except E (List (List Frag))))
  | _, [] => []
  | s, op :: ops => let r := histStep src s op; r.2 :: histRun src r.1 ops

/-! ## deleting first, extracting afterwards -/

/-- the document whose readable pages carry only what exclusion keeps (regions detected on all
readable pages of `src`) -/
def filteredFrom (res : Option Result) : Nat → Source → Source
  | _, [] => []
  | i, none :: rest => none :: filteredFrom res (i + 1) rest
  | i, some rp :: rest => some { rp with frags := filterWith res i rp } :: filteredFrom res (i + 1) rest

def filteredSource (src : Source) : Source := filteredFrom (hfResult exclOn src) 0 src

/-! ## `layout.(*Analyzer).AnalyzeWithHeaderFooterFiltering` -/

/-- the fragments `AnalyzeWithHeaderFooterFiltering(pageFragments, pageIndex)` analyses: `none`
when it returns the empty result (no pages, or `pageIndex` out of range).  The target page is
found by POSITION, the filter is asked about page number `pageIndex`, the regions carry the
pages' `PageIndex` fields. -/
def analyzeWithHFInput (pages : List Page) (i : Int) : Option (List Frag) :=
  if pages.isEmpty || decide (i < 0) || decide (i ≥ (pages.length : Int)) then none
  else match pages[i.toNat]? with
    | some p => some (filterFragments (detect defaultConfig pages) i p.frags p.height)
    | none => none

end Tabula.HFX
