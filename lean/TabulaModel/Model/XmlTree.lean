/-
XML element tree as delivered by `encoding/xml` (the tokenisation itself is a
parameter of the model: the harness sends the authored tree on the op line).
Core Lean only. Strings are `Str` = lists of byte values.

A tag or attribute name is written `prefix:local`; `encoding/xml` matches struct
fields by the local name only, which `localName` extracts.
-/
namespace Tabula.Xml

abbrev Str := List Nat

inductive Node where
  | elem (tag : Str) (attrs : List (Str × Str)) (kids : List Node)
  | text (s : Str)
deriving Repr, Inhabited

/-- `xml.Name.Local`: the part after the first colon (the whole name without one). -/
def localName (tag : Str) : Str :=
  match tag.dropWhile (· ≠ 58) with
  | [] => tag
  | _ :: rest => rest

def Node.tag : Node → Str
  | .elem t _ _ => t
  | .text _ => []

def Node.loc (n : Node) : Str := localName n.tag

def Node.kids : Node → List Node
  | .elem _ _ k => k
  | .text _ => []

def Node.attrs : Node → List (Str × Str)
  | .elem _ a _ => a
  | .text _ => []

def Node.isElem : Node → Bool
  | .elem _ _ _ => true
  | .text _ => false

/-- is an element whose local name is `l` (a struct field tagged `xml:"l"`) -/
def Node.named (n : Node) (l : Str) : Bool := n.isElem && n.loc == l

/-- value of the attribute with local name `l` (`xml:"l,attr"`); "" when absent -/
def attrOf (attrs : List (Str × Str)) (l : Str) : Str :=
  match attrs.find? (fun a => localName a.1 == l) with
  | some a => a.2
  | none => []

def Node.attr (n : Node) (l : Str) : Str := attrOf n.attrs l

/-- direct child elements with local name `l`, in source order (`[]T xml:"l"`) -/
def childrenNamed (kids : List Node) (l : Str) : List Node := kids.filter (·.named l)

/-- first direct child element with local name `l` (`T xml:"l"`; duplicates are not generated) -/
def childNamed (kids : List Node) (l : Str) : Option Node := kids.find? (·.named l)

/-- `xml:",chardata"`: the character data directly inside the element, concatenated -/
def chardata : List Node → Str
  | [] => []
  | .text s :: rest => s ++ chardata rest
  | .elem _ _ _ :: rest => chardata rest

/-- attribute `val` of the child element `l` of `n` ("" when either is absent) -/
def childVal (kids : List Node) (l : Str) : Str :=
  match childNamed kids l with
  | some c => c.attr [118, 97, 108]
  | none => []

/-- decimal digits only (what the generated attribute values contain); `none` otherwise -/
def parseNat? : Str → Option Nat
  | [] => none
  | s => s.foldl (fun acc c => match acc with
      | none => none
      | some v => if 48 ≤ c ∧ c ≤ 57 then some (v * 10 + (c - 48)) else none) (some 0)

/-- `strconv.Atoi`: an optional sign (`+` / `-`), then one or more decimal digits, nothing
else; `none` where Go returns an error (empty, no digit, any other character, value outside
the 64-bit `int` range) -/
def atoi? (s : Str) : Option Int :=
  let neg := match s with
    | 45 :: _ => true
    | _ => false
  let ds := match s with
    | 45 :: r => r
    | 43 :: r => r
    | _ => s
  match parseNat? ds with
  | none => none
  | some v =>
    if neg then (if v ≤ 9223372036854775808 then some (-(Int.ofNat v)) else none)
    else (if v ≤ 9223372036854775807 then some (Int.ofNat v) else none)

/-- `maxCellSpan` (docx/tables.go, odt/tables.go): the largest span / column repetition accepted -/
abbrev maxCellSpan : Nat := 1024

/-- a span or repetition attribute: `strconv.Atoi` succeeds and the value lies in
`1..maxCellSpan`; anything else (empty, not a number, zero, negative, larger) leaves the
default 1 (`err == nil && span > 0 && span <= maxCellSpan`) -/
def boundedSpan (s : Str) : Nat :=
  match atoi? s with
  | some v => if 0 < v ∧ v ≤ 1024 then v.toNat else 1
  | none => 1

/-- ASCII lower-casing (`strings.ToLower` on the ASCII names the generator uses) -/
def lower (s : Str) : Str := s.map fun c => if 65 ≤ c ∧ c ≤ 90 then c + 32 else c

def isPrefix : Str → Str → Bool
  | [], _ => true
  | _ :: _, [] => false
  | a :: as, b :: bs => a == b && isPrefix as bs

/-- `strings.Contains` -/
def containsSub : Str → Str → Bool
  | s, sub => isPrefix sub s || match s with
    | [] => false
    | _ :: rest => containsSub rest sub

def joinWith (sep : Str) : List Str → Str
  | [] => []
  | [a] => a
  | a :: rest => a ++ sep ++ joinWith sep rest

end Tabula.Xml
