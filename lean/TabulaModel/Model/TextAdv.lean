import TabulaModel.Model.GState
/-
The displacement of the text matrix by a shown string and by a `TJ` number, as the code
computes it (branch agent-C08 after 6121d81): the function that `Model/GState.lean` takes as
the parameter `adv`.

  * `text.(*Extractor).showText`:
        textWidth = f.GetStringWidth(decodedText) * e.gs.GetFontSize() / 1000.0
                    (no font selected: len(decodedText) * fontSize * 0.5)
        e.gs.ShowTextWithWidth(string(data), textWidth * hScale)        hScale = Th / 100
  * `graphicsstate.(*GraphicsState).ShowTextWithWidth(text, width)`:
        scale = Th / 100
        total = width + numSpaces * Tw * scale + numChars * Tc * scale
        AdvanceText(total)
    where numChars = len(text) (bytes) and numSpaces = the number of bytes 0x20 in it;
  * `text.(*Extractor).showTextArray`, a number `v`:
        AdvanceText(-v * fontSize * hScale / 1000)

Over a field (exact rational arithmetic in the driver); floats are a stated assumption.
External code (parameter): `font.GetStringWidth` and `font.DecodeString` — a string
arrives as `StrInfo`: its width in thousandths of the font size, its length in bytes and its
number of space bytes.  Core Lean only.
-/
namespace Tabula.TextAdv
open Tabula Tabula.GState

variable {α : Type}

/-- what `showText` uses of a string operand -/
structure StrInfo (α : Type) where
  /-- `f.GetStringWidth(decodedText)`: sum of glyph widths, in 1/1000 of the font size
  (no font selected: `500 · len(decodedText)`) -/
  w0 : α
  /-- `len(data)` -/
  n : α
  /-- number of bytes `0x20` in `data` -/
  sp : α
deriving DecidableEq, Repr

section
variable [Lean.Grind.Field α]

/-- `Th / 100` -/
def hScale (t : TextState α) : α := t.hScaling / 100

/-- the displacement handed to `AdvanceText` for a shown string -/
def strAdvance (t : TextState α) (i : StrInfo α) : α :=
  i.w0 * t.fontSize / 1000 * hScale t + i.sp * t.wordSpacing * hScale t + i.n * t.charSpacing * hScale t

/-- the displacement handed to `AdvanceText` for a number of a `TJ` array -/
def numAdvance (t : TextState α) (v : α) : α := -v * t.fontSize * hScale t / 1000

/-- the parameter `adv` of `Model/GState.lean` as the code computes it -/
def advance (info : Nat → StrInfo α) : Adv α
  | t, .str sid => strAdvance t (info sid)
  | t, .num v => numAdvance t v

/-! ### ISO 32000-1 9.4.4, glyph by glyph -/

/-- one glyph of a simple font: its width in 1/1000 of the font size, and whether its
(single-byte) code is 32 -/
structure Glyph (α : Type) where
  w : α
  isSpace : Bool

/-- `tx = ((w0 − Tj/1000) · Tfs + Tc + Tw) · Th` for one glyph (`Tj` = 0 here, `w0 = w/1000`,
`Th` as a fraction) -/
def glyphTx (t : TextState α) (g : Glyph α) : α :=
  (g.w / 1000 * t.fontSize + t.charSpacing + (if g.isSpace then t.wordSpacing else 0)) * hScale t

/-- a number of a `TJ` array: `tx = (−Tj/1000 · Tfs) · Th` -/
def numTx (t : TextState α) (v : α) : α := (-(v / 1000) * t.fontSize) * hScale t

/-- ISO: after each glyph `Tm := T(tx,0) × Tm` -/
def isoShowGlyphs (t : TextState α) : List (Glyph α) → Matrix α → Matrix α
  | [], m => m
  | g :: rest, m => isoShowGlyphs t rest ((Matrix.translate (glyphTx t g) 0).mul m)

/-- what the font package reports for a string made of these glyphs -/
def summarize : List (Glyph α) → StrInfo α
  | [] => ⟨0, 0, 0⟩
  | g :: rest =>
    let r := summarize rest
    ⟨g.w + r.w0, 1 + r.n, (if g.isSpace then 1 else 0) + r.sp⟩

end
end Tabula.TextAdv
