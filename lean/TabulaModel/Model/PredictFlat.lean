import TabulaModel.Model.FiltersLit
/-!
Buffer-level ("flat") models of the two predictors of `internal/filters/flate.go`.

`Model/Filters.lean` decodes row by row and hands each row loop the previous decoded row
(`prev : Option Str`) and the decoded prefix of the current one (`done`). The Go code works on
flat buffers instead: `applyPNGPredictor` allocates `result := make([]byte, numRows*columns*colors)`
once, cuts `rowData := data[rowStart+1 : rowStart+rowSize]`, lets `decodePNGRow` read the rows above
out of that same buffer by index (`prevRows[(rowNum-1)*rowLength+i]`,
`prevRows[(rowNum-1)*rowLength+i-bytesPerPixel]`), and `copy`s the decoded row back;
`applyTIFFPredictor2` writes `result[idx] = data[idx] + result[idx-colors]` into one buffer of
`len(data)` bytes with `idx = rowStart + col`. That index arithmetic is transcribed here: buffers
are lists of their full length, written with `goSet` / `goCopy` and read with `[k]?`; every slice
expression and every index is checked (`none` = the Go run-time panic "index out of range" /
"slice bounds out of range").

`Lemmas/PredictFlatPng.lean` proves `applyPNGPredictorFlat = applyPNGPredictor` for all data and
parameters and `Lemmas/PredictFlatTiff.lean` `applyTIFFPredictor2Flat = applyTIFFPredictor2` for all
byte strings and parameters, so none of the
panics can happen and the row-wise model is what the buffer code computes; the harness compares
the flat models with the implementation too (`c05.flat`). Core Lean only.
-/
namespace Tabula.Filters

/-- `s[k] = v` on a Go slice; `none` = index out of range -/
def goSet (s : Str) (k v : Nat) : Option Str := if k < s.length then some (s.set k v) else none

/-- `s[lo:hi]`; `none` = slice bounds out of range -/
def goSlice (s : Str) (lo hi : Nat) : Option Str :=
  if lo ≤ hi ∧ hi ≤ s.length then some ((s.take hi).drop lo) else none

/-- `copy(dst[lo:hi], src)`: the first `min(hi-lo, len(src))` bytes of `src` go to `dst[lo:]` -/
def goCopy (dst : Str) (lo hi : Nat) (src : Str) : Option Str :=
  if lo ≤ hi ∧ hi ≤ dst.length then
    some (dst.take lo ++ src.take (min (hi - lo) src.length) ++ dst.drop (lo + min (hi - lo) src.length))
  else none

/-- `if i >= bytesPerPixel { left = result[i-bytesPerPixel] }` (else the zero value) -/
def leftFlat (bpp : Nat) (result : Str) (i : Nat) : Option Nat :=
  if i ≥ bpp then result[i - bpp]? else some 0

/-- `if rowNum > 0 { up = prevRows[(rowNum-1)*rowLength+i] }` -/
def upFlat (rowNum : Nat) (prevRows : Str) (rowLength i : Nat) : Option Nat :=
  if rowNum > 0 then prevRows[(rowNum - 1) * rowLength + i]? else some 0

/-- `if rowNum > 0 { …; if i >= bytesPerPixel { upLeft = prevRows[(rowNum-1)*rowLength+i-bytesPerPixel] } }` -/
def upLeftFlat (bpp rowNum : Nat) (prevRows : Str) (rowLength i : Nat) : Option Nat :=
  if rowNum > 0 then (if i ≥ bpp then prevRows[(rowNum - 1) * rowLength + i - bpp]? else some 0) else some 0

/-- the `switch predictor` of `filters.decodePNGRow` at position `i`, reading the row's own buffer
`result` and the flat buffer `prevRows`; `byte((int(left) + int(up)) / 2)` for Average -/
def pngPredictedFlat (tag bpp rowNum : Nat) (prevRows : Str) (rowLength : Nat) (result : Str) (i : Nat) : Option Nat :=
  match tag with
  | 0 => some 0
  | 1 => leftFlat bpp result i
  | 2 => upFlat rowNum prevRows rowLength i
  | 3 =>
    match leftFlat bpp result i, upFlat rowNum prevRows rowLength i with
    | some left, some up => some (toByte ((left + up) / 2))
    | _, _ => none
  | 4 =>
    match leftFlat bpp result i, upFlat rowNum prevRows rowLength i, upLeftFlat bpp rowNum prevRows rowLength i with
    | some left, some up, some ul => some (paeth left up ul)
    | _, _, _ => none
  | _ => none

/-- `for i := 0; i < len(rowData); i++ { …; result[i] = rowData[i] + predicted }` with `k`
iterations left -/
def pngRowFlatLoop (rowData : Str) (tag bpp rowNum : Nat) (prevRows : Str) (rowLength : Nat) :
    Nat → Nat → Str → Option Str
  | 0, _, result => some result
  | k + 1, i, result =>
    match pngPredictedFlat tag bpp rowNum prevRows rowLength result i with
    | none => none
    | some predicted =>
      match rowData[i]? with
      | none => none
      | some r =>
        match goSet result i (toByte (r + predicted)) with
        | none => none
        | some result' => pngRowFlatLoop rowData tag bpp rowNum prevRows rowLength k (i + 1) result'

/-- `filters.decodePNGRow(rowData, predictor, bytesPerPixel, rowNum, prevRows, rowLength)`:
`result := make([]byte, len(rowData))`, then the loop -/
def decodePNGRowFlat (rowData : Str) (tag bpp rowNum : Nat) (prevRows : Str) (rowLength : Nat) : Option Str :=
  pngRowFlatLoop rowData tag bpp rowNum prevRows rowLength rowData.length 0 (List.replicate rowData.length 0)

/-- `for row := 0; row < numRows; row++ { … }` of `filters.applyPNGPredictor` with `k` rows left;
`cc` is `columns*colors` -/
def pngFlatLoop (data : Str) (rowSize bpp cc : Nat) : Nat → Nat → Str → Option Str
  | 0, _, result => some result
  | k + 1, row, result =>
    -- rowStart := row * rowSize; predictorByte := data[rowStart]
    match data[row * rowSize]? with
    | none => none
    | some predictorByte =>
      -- rowData := data[rowStart+1 : rowStart+rowSize]
      match goSlice data (row * rowSize + 1) (row * rowSize + rowSize) with
      | none => none
      | some rowData =>
        match decodePNGRowFlat rowData predictorByte bpp row result cc with
        | none => none
        | some decodedRow =>
          -- copy(result[row*columns*colors:(row+1)*columns*colors], decodedRow)
          match goCopy result (row * cc) ((row + 1) * cc) decodedRow with
          | none => none
          | some result' => pngFlatLoop data rowSize bpp cc k (row + 1) result'

/-- `filters.applyPNGPredictor`, buffer by buffer -/
def applyPNGPredictorFlat (data : Str) (p : Params) : Option Str :=
  let columns := p.columns.getD 1
  let colors := p.colors.getD 1
  let bpc := p.bpc.getD 8
  if bpc ≠ 8 then none
  else match predictorRowBytes columns colors with
    | none => none
    | some rowBytes =>
      let rowSize := rowBytes + 1
      if data.length % rowSize ≠ 0 then none
      else
        let numRows := data.length / rowSize
        pngFlatLoop data rowSize colors.toNat rowBytes numRows 0 (List.replicate (numRows * rowBytes) 0)

/-! ### TIFF predictor 2 -/

/-- `for col := 0; col < rowSize; col++ { idx := rowStart + col; … }` with `k` columns left -/
def tiffColLoop (data : Str) (colors rowStart : Nat) : Nat → Nat → Str → Option Str
  | 0, _, result => some result
  | k + 1, col, result =>
    match data[rowStart + col]? with
    | none => none
    | some d =>
      if col < colors then
        -- First pixel in row - no prediction: result[idx] = data[idx]
        match goSet result (rowStart + col) d with
        | none => none
        | some result' => tiffColLoop data colors rowStart k (col + 1) result'
      else
        -- result[idx] = data[idx] + result[idx-colors]
        match result[rowStart + col - colors]? with
        | none => none
        | some l =>
          match goSet result (rowStart + col) (toByte (d + l)) with
          | none => none
          | some result' => tiffColLoop data colors rowStart k (col + 1) result'

/-- `for row := 0; row < len(data)/rowSize; row++ { rowStart := row * rowSize; … }` with `k` rows left -/
def tiffRowLoop (data : Str) (rowSize colors : Nat) : Nat → Nat → Str → Option Str
  | 0, _, result => some result
  | k + 1, row, result =>
    match tiffColLoop data colors (row * rowSize) rowSize 0 result with
    | none => none
    | some result' => tiffRowLoop data rowSize colors k (row + 1) result'

/-- `filters.applyTIFFPredictor2`, on the one buffer `result := make([]byte, len(data))` -/
def applyTIFFPredictor2Flat (data : Str) (p : Params) : Option Str :=
  let columns := p.columns.getD 1
  let colors := p.colors.getD 1
  let bpc := p.bpc.getD 8
  if bpc ≠ 8 then none
  else match predictorRowBytes columns colors with
    | none => none
    | some rowSize =>
      if data.length % rowSize ≠ 0 then none
      else tiffRowLoop data rowSize colors.toNat (data.length / rowSize) 0 (List.replicate data.length 0)

/-- the part of `filters.FlateDecode` after decompression, on the flat predictors -/
def flatePostFlat (params : Option Params) (dec : Str) : Option Str :=
  match params with
  | none => some dec
  | some p =>
    match p.predictor with
    | none => some dec
    | some pr =>
      if pr ≠ 1 then
        (if pr = 1 then some dec
         else if pr = 2 then applyTIFFPredictor2Flat dec p
         else if pr ≥ 10 ∧ pr ≤ 15 then applyPNGPredictorFlat dec p
         else none)
      else some dec

end Tabula.Filters
