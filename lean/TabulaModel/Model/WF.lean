import TabulaModel.Model.Spell
/-
Well-formed objects: the objects the property speaks about (what a PDF file can
denote and tabula's value types can hold).  Core Lean only.
-/
namespace Tabula.Pdf

mutual
/-- integers in the int64 range; reals in normal form (no trailing fractional zero, no negative
zero); string and name bytes < 256; dictionary keys distinct; reference numbers in 0..maxInt64 -/
def Obj.WF : Obj → Prop
  | .null => True
  | .bool _ => True
  | .int i => -(2 ^ 63 : Int) ≤ i ∧ i < (2 ^ 63 : Int)
  | .real neg m s => (s = 0 ∨ m % 10 ≠ 0) ∧ (neg = true → m ≠ 0)
  | .str s => ∀ b ∈ s, b < 256
  | .name s => ∀ b ∈ s, b < 256
  | .arr xs => WFList xs
  | .dict kv => WFKV kv ∧ (keysKV kv).Nodup
  | .ref n g => 0 ≤ n ∧ n ≤ (Tabula.A1.maxInt64 : Int) ∧ 0 ≤ g ∧ g ≤ (Tabula.A1.maxInt64 : Int)
def WFList : List Obj → Prop
  | [] => True
  | x :: xs => x.WF ∧ WFList xs
def WFKV : List (Str × Obj) → Prop
  | [] => True
  | (k, v) :: r => (∀ b ∈ k, b < 256) ∧ v.WF ∧ WFKV r
def keysKV : List (Str × Obj) → List Str
  | [] => []
  | (k, _) :: r => k :: keysKV r
end

end Tabula.Pdf
