import TabulaModel.Model.Session
import TabulaModel.Model.MapOrder
import TabulaModel.Model.MapOrderCsv
import TabulaModel.Model.Process
/-
C03 end to end: what a call on the public API returns, written as a function of
  * the document (its pages: font dictionary, content stream, the fragments and lines the
    layout heuristics look at),
  * the options (through `Model/Process.lean`: which pages a call processes, how many warnings), and
  * the RUNTIME: everything the Go runtime decides and the program does not — the order of every
    range over a map, the algorithm behind every stdlib sort.
The composition theorems (`Props/C03Statement.lean`) say that the runtime does not show.
Core Lean only.
-/
namespace Tabula.Extraction
open Tabula.Session Tabula.MapOrder Tabula.Process Tabula.Builder
open Tabula.Csv (Str)

/-- the choices of the Go runtime on the way to a result -/
structure Runtime where
  fontOrder : List (Name × Nat) → List (Name × Nat)     -- range over the /Font dictionary
  yOrder : List Int → List Int                          -- range over the set of baselines
  voteOrder : List (Int × Int) → List (Int × Int)       -- range over a counting map
  keyOrder : List Str → List Str                        -- range over a metadata map / key set
  sortY : List Int → List Int                           -- sort.Float64s (positions)
  sortG : List Int → List Int                           -- sort.Float64s (gaps)
  sortS : List Str → List Str                           -- sort.Strings

/-- what the language and the stdlib promise about those choices, and nothing more -/
structure Runtime.Ok (ρ : Runtime) : Prop where
  font : ∀ l, (ρ.fontOrder l).Perm l
  y : ∀ l, (ρ.yOrder l).Perm l
  vote : ∀ l, (ρ.voteOrder l).Perm l
  key : ∀ l, (ρ.keyOrder l).Perm l
  sy : IsSort leInt ρ.sortY
  sg : IsSort leInt ρ.sortG
  ss : IsSort Export.strLe ρ.sortS

/-- the runtime of the model's reference run: maps are ranged over in the order they were written
down, sorts are insertion sorts -/
def Runtime.ref : Runtime :=
  { fontOrder := id, yOrder := id, voteOrder := id, keyOrder := id,
    sortY := sortInts, sortG := sortInts, sortS := Export.sortStrings }

/-- a runtime that ranges over every map backwards -/
def Runtime.rev : Runtime :=
  { Runtime.ref with fontOrder := List.reverse, yOrder := List.reverse, voteOrder := List.reverse,
                     keyOrder := List.reverse }

/-- one page, as far as the mechanisms of C03 look at it -/
structure PageInput where
  fontDict : List (Name × Nat)     -- the /Font resources: name ↦ font (names distinct: it is a dictionary)
  tokens : List Tok                -- the content stream as operand grouping sees it
  frags : List (Int × Int)         -- `(int(Y*10), Height in tenths)` of the fragments
  lineXs : List Int                -- `BBox.X` of the lines
  aligns : List Int                -- alignment of the lines
  paras : List (Int × Int)         -- `(AverageFontSize in half points, number of lines)` of the paragraphs

/-- what those mechanisms hand to the rest of the pipeline -/
structure PageFacts where
  ops : List Operation             -- `contentstream.NewParser(data).Parse()`
  fonts : FontMap                  -- `RegisterFontsFromResources`
  tol : Tol                        -- `calculateAdaptiveTolerance`
  margin : Int                     -- `detectLeftMargin`
  align : Int                      -- `detectDominantAlignment`
  bodySize : Option Int            -- `detectBodyFontSize`

def pageFacts (ρ : Runtime) (pg : PageInput) : PageFacts :=
  { ops := parseOwn pg.tokens
    fonts := registerAll (ρ.fontOrder pg.fontDict)
    tol := toleranceVia ρ.sortY ρ.sortG pg.frags (ρ.yOrder (ySet (pg.frags.map Prod.fst)))
    margin := detectLeftMarginVia pg.lineXs (ρ.voteOrder (marginCounts pg.lineXs))
    align := detectDominantAlignmentVia pg.aligns (ρ.voteOrder (alignCounts pg.aligns))
    bodySize := detectBodyFontSizeVia pg.paras (ρ.voteOrder (fontCounts pg.paras)) }

/-- the header of a CSV/TSV export of a chunk collection under a runtime -/
def exportColumns (ρ : Runtime) (cfg : Export.Config) (chunks : List Export.Chunk) : List Str :=
  collectCSVColumnsVia ρ.sortS cfg
    (ρ.keyOrder (collectKeysVia (fun c => ρ.keyOrder (Export.chunkKeys cfg c)) chunks []))

/-- what a call returns to its caller -/
inductive Out where
  | none | closed | flag | err | bad
  | count (n : Nat)
  | whole (warnings : Nat)
  | pages (rendered : List (Option Str)) (warnings : Nat)   -- one rendering per page processed
  deriving DecidableEq, Repr

/-- the result of a call from its answer (`Model/Process.lean`: result class, pages processed,
warnings), the pages of the document and the rest of the pipeline `render` (the text / Markdown /
chunk rendering of a page from its facts: the models of C07–C13) -/
def outOf (render : PageFacts → Str) (ρ : Runtime) (content : List PageInput) : Ans → Out
  | (.none, _) => .none
  | (.closed, _) => .closed
  | (.flag, _) => .flag
  | (.err, _) => .err
  | (.bad, _) => .bad
  | (.count n, _) => .count n
  | (.whole, w) => .whole w
  | (.pages idx, w) => .pages (idx.map fun p => (content[p]?).map fun pg => render (pageFacts ρ pg)) w

/-- the results of a list of answers, the `i`-th under the runtime `ρ i` (every call meets its own
map orders) -/
def outsFrom (render : PageFacts → Str) (ρ : Nat → Runtime) (content : List PageInput) :
    Nat → List Ans → List Out
  | _, [] => []
  | i, a :: as => outOf render (ρ i) content a :: outsFrom render ρ content (i + 1) as

/-- everything family `d` is returned in a schedule: `runtimes i` is the runtime the `i`-th of its
calls happens to meet -/
def familyOutputs (render : PageFacts → Str) (runtimes : Nat → Runtime) (docs : List Doc)
    (content : List PageInput) (sched : List Call) (d : Nat) : List Out :=
  outsFrom render runtimes content 0 (projectAns d sched (procRun docs (proc0 docs) sched))

/-- the same calls on a process that has only this document, in the reference runtime -/
def aloneOutputs (render : PageFacts → Str) (doc : Doc) (content : List PageInput) (ops : List Op) : List Out :=
  (aloneRun doc [[]] ops).map (outOf render Runtime.ref content)

end Tabula.Extraction
