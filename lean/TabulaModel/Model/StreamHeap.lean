import TabulaModel.Model.StreamDict
/-!
Histories of calls on `*core.Stream` values **with the buffers they share** (`core/stream.go`,
`core/object.go`).

`Model/StreamDict.lean` (`Store`, `runSession`) treats the result of `Decode()` as a value. In Go it
is a slice, and a slice can share its backing array with the stream: `Decode()` returns `s.Data`
itself when there is no `Filter` (`return s.Data, nil`), and `decodeWithFilter` returns its
argument for `/DCTDecode`, `/DCT` and `/JPXDecode` (`return data, nil`), so a chain consisting of
such names only (or an empty `Filter` array) hands the stream's own `Data` to the caller as well.
Every other successful stage allocates: `bytes.Buffer.Bytes()` in `ASCIIHexDecode` /
`ASCII85Decode` / `zlibDecompress`, `make([]byte, …)` in the predictors, `io.ReadAll` in
`CCITTFaxDecode`. `(*Stream).Decoded()` — the stub next to `Decode` — returns `s.Data` in every case
(its cache field `decoded` is never assigned for a `Stream`).

A caller that writes into a slice it was given changes `Data` exactly when the slice is such an
alias. This file models that: a heap of buffers (the streams' `Data` and the buffers allocated by
`Decode`), operations `decode i`, `decoded i` and `write r k v` (the caller writes byte `v` at
position `k` of the `r`-th result it received), and the run of a history. `Props/C05Alias.lean`
proves what histories can and cannot change. Core Lean only.
-/
namespace Tabula.Filters

/-- the names `decodeWithFilter` passes through (`return data, nil`) -/
def isPassName (n : Str) : Bool := n == nDCTDecode || n == nDCT || n == nJPXDecode

/-- does a *successful* `Decode()` with this `Filter` entry return `s.Data` itself? No filter, or
only pass-through names (an empty array included). -/
def passThrough : Filter → Bool
  | .absent => true
  | .one (.name n) => isPassName n
  | .one .other => false
  | .array fs => fs.all fun f => match f with
    | .name n => isPassName n
    | .other => false

/-- a slice as the caller holds it: the `Data` of stream `i`, or the `n`-th buffer a `Decode`
call allocated -/
inductive Ref where
  | data (i : Nat)
  | fresh (n : Nat)
deriving Repr, DecidableEq, Inhabited

/-- the streams (their dictionaries and the current contents of their `Data`), the buffers
allocated so far (oldest first), and the results the caller has received so far (oldest first;
`none` = that call returned an error) -/
structure Heap where
  streams : Store
  bufs : List Str
  results : List (Option Ref)
deriving Inhabited

inductive HOp where
  | decode (i : Nat)          -- `out, err := streams[i].Decode()`
  | decoded (i : Nat)         -- `out, err := streams[i].Decoded()`
  | write (r k v : Nat)       -- `results[r][k] = v` by the caller (skipped when it has no such byte)
deriving Repr, DecidableEq, Inhabited

/-- the bytes a reference currently points at -/
def Heap.deref (h : Heap) : Ref → Option Str
  | .data i => h.streams[i]?.map (·.data)
  | .fresh n => h.bufs[n]?

/-- `Decode()` on stream `i`: an error, the stream's own `Data`, or a newly allocated buffer -/
def stepDecodeH (ext : Ext) (h : Heap) (i : Nat) : Heap :=
  match h.streams[i]? with
  | none => { h with results := h.results ++ [none] }
  | some s =>
    match streamDecodeD ext s.dict s.data with
    | none => { h with results := h.results ++ [none] }
    | some out =>
      if passThrough (objToFilter (dictGet s.dict kFilter)) then
        { h with results := h.results ++ [some (.data i)] }
      else
        { h with bufs := h.bufs ++ [out], results := h.results ++ [some (.fresh h.bufs.length)] }

/-- `Decoded()` on stream `i`: always the stream's own `Data`, never an error -/
def stepDecodedH (h : Heap) (i : Nat) : Heap :=
  match h.streams[i]? with
  | none => { h with results := h.results ++ [none] }
  | some _ => { h with results := h.results ++ [some (.data i)] }

/-- the caller writes `v` at position `k` of a buffer -/
def writeAt (b : Str) (k v : Nat) : Str := if k < b.length then b.set k v else b

/-- `results[r][k] = v` -/
def stepWriteH (h : Heap) (r k v : Nat) : Heap :=
  match h.results[r]? with
  | some (some (.data i)) =>
    { h with streams := h.streams.modify i fun s => { s with data := writeAt s.data k v } }
  | some (some (.fresh n)) => { h with bufs := h.bufs.modify n fun b => writeAt b k v }
  | _ => h

def stepH (ext : Ext) (h : Heap) : HOp → Heap
  | .decode i => stepDecodeH ext h i
  | .decoded i => stepDecodedH h i
  | .write r k v => stepWriteH h r k v

/-- a history, oldest operation first -/
def runHeap (ext : Ext) : Heap → List HOp → Heap
  | h, [] => h
  | h, op :: ops => runHeap ext (stepH ext h op) ops

/-- what the caller sees of a result right after the call: the bytes, and whether they are the
stream's own `Data` (`none` = an error) -/
def Heap.lastResult (h : Heap) : Option (Str × Bool) :=
  match h.results.getLast? with
  | some (some r) => (h.deref r).map fun b => (b, match r with | .data _ => true | .fresh _ => false)
  | _ => none

/-- the observations of a history: after every `decode` / `decoded` the result as the caller sees
it at that moment (`write`s give `none`) -/
def traceHeap (ext : Ext) : Heap → List HOp → List (Option (Str × Bool))
  | _, [] => []
  | h, op :: ops =>
    let h' := stepH ext h op
    (match op with
     | .write _ _ _ => none
     | _ => h'.lastResult) :: traceHeap ext h' ops

def Heap.init (st : Store) : Heap := { streams := st, bufs := [], results := [] }

end Tabula.Filters
