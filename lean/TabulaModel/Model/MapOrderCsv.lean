import TabulaModel.Model.Export
import TabulaModel.Model.MapOrder
/-
C03, mechanism "map-ordered data is sorted before it influences output", the site the property
names first: `rag.(*Exporter).collectCSVColumns` ranges over the filtered metadata map of every
chunk and then over the `metadataKeys` set, and sorts (`sort.Strings`) before the keys become
columns.  The model of the function itself is `Export.collectCSVColumns` (C14); here the iteration
orders and the sort are made explicit.  Core Lean only.
-/
namespace Tabula.MapOrder
open Tabula.Export
open Tabula.Csv (Str)

/-- `for _, chunk := range chunks { … for key := range filtered { … } }` with the order in which
the keys of each chunk's map are yielded given by `enum` -/
def collectKeysVia {χ : Type} (enum : χ → List Str) : List χ → List Str → List Str
  | [], keys => keys
  | c :: cs, keys => collectKeysVia enum cs (addKeys (enum c) keys)

/-- `collectCSVColumns`: `enum` as above, `itKeys` the order in which `for key := range metadataKeys`
yields the collected set, `sortS` the `sort.Strings` call -/
def collectCSVColumnsVia (sortS : List Str → List Str) (cfg : Config) (itKeys : List Str) : List Str :=
  fixedColumns cfg ++ ((if cfg.includeMetadata then sortS itKeys else []).map (kMeta ++ ·)) ++
  (if cfg.includeEmbeddings then [kEmbeddings] else [])

end Tabula.MapOrder
