/-
Model of how tabula walks a container document (C18): `xlsx/reader.go`
(parseRelationships, parseWorkbook, parseWorksheets), `pptx/reader.go`
(parseRelationships, parsePresentation, declaredSlidePaths, parseSlides,
extractSlideNumber), `epubdoc/container.go` (parseContainer), `epubdoc/opf.go`
(parseOPF, convertManifest, convertSpine), `epubdoc/reader.go` (loadChapters,
resolveHref) — the Go code as it is after the three `fix:` commits of C18 and after
`fix: a resource listed several times in an EPUB spine is one chapter` (c53b79e:
`loadChapters` keeps the set of resolved hrefs already loaded).

Core Lean only. Strings are byte lists (`Str = List Nat`). An archive is the
list of ZIP members `(name, content-id)` in archive order. `archive/zip` and
`encoding/xml` are parameters: a parse table `Docs` says what each content id
unmarshals to. Every reader function is written against `look : Str → Option Nat`
(= `getFileContent` / `readFile`: first member with that name), so that the
dependence on the archive is explicit.
-/
namespace Tabula.Package

abbrev Str := List Nat

/-- archive order list of (member name, content id) -/
abbrev Archive := List (Str × Nat)

/-- `getFileContent` / `readFile`: the first member whose name is equal -/
def lookup : Archive → Str → Option Nat
  | [], _ => none
  | (n, c) :: rest, name => if n = name then some c else lookup rest name

/-- what `xml.Unmarshal` makes of a member (the XML library is a parameter) -/
inductive Doc where
  /-- any other content (XHTML chapter, styles, CSS, …) -/
  | opaque
  /-- not well-formed: `xml.Unmarshal` fails whatever the target type -/
  | bad
  /-- root element `worksheet` -/
  | sheet
  /-- root element `sld` -/
  | slide
  /-- `workbook`: the `<sheet name r:id>` list in document order -/
  | workbook (sheets : List (Str × Str))
  /-- `Relationships`: `(Id, Target)` in document order -/
  | rels (rs : List (Str × Str))
  /-- `presentation`: the `r:id`s of `sldIdLst` (`none`: no `sldIdLst` element) -/
  | presentation (ids : Option (List Str))
  /-- `container`: `(full-path, media-type)` of each rootfile -/
  | container (roots : List (Str × Str))
  /-- `package`: manifest `(id, href)` in document order, spine idrefs -/
  | opf (manifest : List (Str × Str)) (spine : List Str)
  /-- `Relationships` with the `Type` attribute kept: `(Id, Type, Target)` in document
  order (the relationship part of a slide: `parseSlideNotes` selects by `Type`) -/
  | relsT (rs : List (Str × Str × Str))
  /-- root element `notes` (a notes slide) -/
  | notes
  deriving DecidableEq, Repr

/-- what unmarshalling into `relationshipsXML` yields, `Type` dropped: `(Id, Target)` -/
def Doc.relPairs? : Doc → Option (List (Str × Str))
  | .rels rs => some rs
  | .relsT rs => some (rs.map fun r => (r.1, r.2.2))
  | _ => none

/-- what unmarshalling into `relationshipsXML` yields, `Type` kept (a part given as
`.rels` carries no types: `""`) -/
def Doc.relTriples? : Doc → Option (List (Str × Str × Str))
  | .rels rs => some (rs.map fun r => (r.1, [], r.2))
  | .relsT rs => some rs
  | _ => none

abbrev Docs := Nat → Doc

/-! ### string helpers (package `strings`, `path`, `net/url`, `fmt`) -/

/-- `"[Content_Types].xml"` -/
def sCT : Str := [91, 67, 111, 110, 116, 101, 110, 116, 95, 84, 121, 112, 101, 115, 93, 46, 120, 109, 108]
/-- `"xl/workbook.xml"` -/
def sWorkbook : Str := [120, 108, 47, 119, 111, 114, 107, 98, 111, 111, 107, 46, 120, 109, 108]
/-- `"xl/_rels/workbook.xml.rels"` -/
def sXlRels : Str := [120, 108, 47, 95, 114, 101, 108, 115, 47, 119, 111, 114, 107, 98, 111, 111, 107, 46, 120, 109, 108, 46, 114, 101, 108, 115]
/-- `"xl/_rels/workbook.rels"` -/
def sXlRelsAlt : Str := [120, 108, 47, 95, 114, 101, 108, 115, 47, 119, 111, 114, 107, 98, 111, 111, 107, 46, 114, 101, 108, 115]
/-- `"xl/"` -/
def sXl : Str := [120, 108, 47]
/-- `"worksheets/sheet"` -/
def sSheetPre : Str := [119, 111, 114, 107, 115, 104, 101, 101, 116, 115, 47, 115, 104, 101, 101, 116]
/-- `".xml"` -/
def sXml : Str := [46, 120, 109, 108]
/-- `"ppt/presentation.xml"` -/
def sPres : Str := [112, 112, 116, 47, 112, 114, 101, 115, 101, 110, 116, 97, 116, 105, 111, 110, 46, 120, 109, 108]
/-- `"ppt/_rels/presentation.xml.rels"` -/
def sPresRels : Str := [112, 112, 116, 47, 95, 114, 101, 108, 115, 47, 112, 114, 101, 115, 101, 110, 116, 97, 116, 105, 111, 110, 46, 120, 109, 108, 46, 114, 101, 108, 115]
/-- `"ppt"` -/
def sPpt : Str := [112, 112, 116]
/-- `"ppt/slides/slide"` -/
def sSlidePre : Str := [112, 112, 116, 47, 115, 108, 105, 100, 101, 115, 47, 115, 108, 105, 100, 101]
/-- `"_rels"` -/
def sRelsDir : Str := [95, 114, 101, 108, 115]
/-- `"META-INF/container.xml"` -/
def sContainer : Str := [77, 69, 84, 65, 45, 73, 78, 70, 47, 99, 111, 110, 116, 97, 105, 110, 101, 114, 46, 120, 109, 108]
/-- `"application/oebps-package+xml"` -/
def sOebps : Str := [97, 112, 112, 108, 105, 99, 97, 116, 105, 111, 110, 47, 111, 101, 98, 112, 115, 45, 112, 97, 99, 107, 97, 103, 101, 43, 120, 109, 108]
/-- `"."` and `".."` -/
def sDot : Str := [46]
def sDotDot : Str := [46, 46]

def hasPrefix (p s : Str) : Bool := p.isPrefixOf s
def hasSuffix (p s : Str) : Bool := p.reverse.isPrefixOf s.reverse
/-- `strings.TrimPrefix` -/
def trimPrefix (p s : Str) : Str := if hasPrefix p s then s.drop p.length else s
/-- `strings.TrimSuffix` -/
def trimSuffix (p s : Str) : Str := if hasSuffix p s then s.take (s.length - p.length) else s
/-- `strings.Contains` -/
def hasSub (pat : Str) : Str → Bool
  | [] => pat.isEmpty
  | c :: rest => hasPrefix pat (c :: rest) || hasSub pat rest

/-- decimal digits of a natural number (`%d`) -/
def dec (n : Nat) : Str := (Nat.toDigits 10 n).map Char.toNat

/-- a Go `map[string]string` filled by assignment in document order and read with
`m[k]`: the last entry with that key, `""` when absent -/
def mapLast (rs : List (Str × Str)) (k : Str) : Str :=
  rs.foldl (fun acc e => if e.1 = k then e.2 else acc) []

/-- the same with the comma-ok form `v, ok := m[k]` -/
def mapLast? (rs : List (Str × Str)) (k : Str) : Option Str :=
  rs.foldl (fun acc e => if e.1 = k then some e.2 else acc) none

/-! #### `path.Clean`, `path.Join`, `path.Dir` -/

/-- split on `/` (always at least one segment) -/
def splitSlash : Str → List Str
  | [] => [[]]
  | c :: rest =>
    if c = 47 then [] :: splitSlash rest
    else match splitSlash rest with
      | [] => [[c]]
      | s :: ss => (c :: s) :: ss

/-- join segments with `/` -/
def joinSlash : List Str → Str
  | [] => []
  | [s] => s
  | s :: rest => s ++ 47 :: joinSlash rest

/-- the element loop of `path.Clean` over the segments; the stack holds the kept
segments, newest first -/
def cleanSegs (rooted : Bool) : List Str → List Str → List Str
  | [], st => st
  | s :: rest, st =>
    if s = [] ∨ s = sDot then cleanSegs rooted rest st
    else if s = sDotDot then
      match st with
      | top :: st' =>
        if top = sDotDot then cleanSegs rooted rest (sDotDot :: st)
        else cleanSegs rooted rest st'
      | [] => if rooted then cleanSegs rooted rest [] else cleanSegs rooted rest [sDotDot]
    else cleanSegs rooted rest (s :: st)

/-- `path.Clean` -/
def clean (p : Str) : Str :=
  if p = [] then sDot else
  let rooted := p.head? = some 47
  let out := joinSlash (cleanSegs rooted (splitSlash p) []).reverse
  if rooted then 47 :: out else if out = [] then sDot else out

/-- `path.Join(a, b)` -/
def join2 (a b : Str) : Str :=
  if a = [] then (if b = [] then [] else clean b)
  else if b = [] then clean a else clean (a ++ 47 :: b)

/-- everything up to and including the last `/` (`path.Split`'s dir) -/
def splitDir (p : Str) : Str :=
  (p.reverse.dropWhile (· ≠ 47)).reverse

/-- `path.Dir` followed by parseOPF's `if baseDir == "." { baseDir = "" }` -/
def baseDirOf (opfPath : Str) : Str :=
  let d := clean (splitDir opfPath)
  if d = sDot then [] else d

/-! #### `url.PathUnescape` -/

def hexVal (c : Nat) : Option Nat :=
  if 48 ≤ c ∧ c ≤ 57 then some (c - 48)
  else if 97 ≤ c ∧ c ≤ 102 then some (c - 87)
  else if 65 ≤ c ∧ c ≤ 70 then some (c - 55)
  else none

/-- `url.PathUnescape`: `none` = EscapeError (a `%` not followed by two hex digits);
`+` is an ordinary character -/
def pathUnescape : Str → Option Str
  | [] => some []
  | c :: rest =>
    if c = 37 then
      match rest with
      | h :: l :: rest' =>
        match hexVal h, hexVal l with
        | some a, some b => (pathUnescape rest').map (fun r => (a * 16 + b) :: r)
        | _, _ => none
      | _ => none
    else (pathUnescape rest).map (fun r => c :: r)

/-- `(*epubdoc.Reader).resolveHref`: percent-decode (keep the raw href when that
fails), then `path.Join(baseDir, href)` -/
def resolveHref (base href : Str) : Str :=
  let h := match pathUnescape href with
    | some d => d
    | none => href
  join2 base h

/-! ### the skip-on-failure loop shared by the three readers -/

/-- `for i, e := range l { v, err := f(i, e); if err != nil { continue }; out = append(out, v) }`
(the index keeps counting over skipped entries) -/
def loopIdx {α β : Type} (f : Nat → α → Option β) : Nat → List α → List β
  | _, [] => []
  | i, e :: rest =>
    match f i e with
    | some v => v :: loopIdx f (i + 1) rest
    | none => loopIdx f (i + 1) rest

/-! ### XLSX -/

/-- one presented sheet: declared position (`Sheet.Index`), content id, name -/
abbrev SheetPart := Nat × Nat × Str

/-- `parseRelationships`: `xl/_rels/workbook.xml.rels`, else `xl/_rels/workbook.rels`,
else no relationships at all (they are optional); unmarshal failure is an error -/
def xlsxRels (look : Str → Option Nat) (x : Docs) : Option (List (Str × Str)) :=
  match look sXlRels with
  | some c => (x c).relPairs?
  | none => match look sXlRelsAlt with
    | some c => (x c).relPairs?
    | none => some []

/-- the target path `parseWorksheets` asks for first: relationship target or the
default name `worksheets/sheet<i+1>.xml`, then "Normalize path" -/
def xlsxTarget (rels : List (Str × Str)) (i : Nat) (rid : Str) : Str :=
  let t := mapLast rels rid
  let t := if t = [] then sSheetPre ++ dec (i + 1) ++ sXml else t
  let t := if !hasPrefix sXl t && !hasPrefix [47] t then sXl ++ t else t
  trimPrefix [47] t

/-- the second attempt: `"xl/" + TrimPrefix(target, "xl/")` -/
def xlsxAlt (t : Str) : Str := sXl ++ trimPrefix sXl t

/-- the two `getFileContent` calls of one loop iteration -/
def xlsxRead (look : Str → Option Nat) (t : Str) : Option Nat :=
  match look t with
  | some c => some c
  | none => look (xlsxAlt t)

/-- one declared sheet: found and unmarshals as a worksheet, or skipped -/
def xlsxPart (look : Str → Option Nat) (x : Docs) (rels : List (Str × Str)) (i : Nat) (s : Str × Str) :
    Option SheetPart :=
  match xlsxRead look (xlsxTarget rels i s.2) with
  | none => none
  | some c => if x c = .sheet then some (i, c, s.1) else none

/-- the loop of `parseWorksheets` (`continue` on an unreadable sheet) -/
def xlsxLoop (look : Str → Option Nat) (x : Docs) (rels : List (Str × Str)) : Nat → List (Str × Str) → List SheetPart :=
  loopIdx (xlsxPart look x rels)

/-- the workbook's declared sheet list, or `none` when `Open` fails before the loop
(`validate`, `parseRelationships`, `parseWorkbook`) -/
def xlsxDeclared (look : Str → Option Nat) (x : Docs) : Option (List (Str × Str) × List (Str × Str)) :=
  match look sCT, look sWorkbook with
  | some _, some w =>
    match xlsxRels look x with
    | none => none
    | some rels => match x w with
      | .workbook sheets => some (rels, sheets)
      | _ => none
  | _, _ => none

/-- `xlsx.Open` up to the sheet list: `none` = error (incl. "no worksheets found") -/
def xlsxOpenL (look : Str → Option Nat) (x : Docs) : Option (List SheetPart) :=
  match xlsxDeclared look x with
  | none => none
  | some (rels, sheets) =>
    let parts := xlsxLoop look x rels 0 sheets
    if parts = [] then none else some parts

def xlsxOpen (a : Archive) (x : Docs) : Option (List SheetPart) := xlsxOpenL (lookup a) x

/-! ### PPTX -/

/-- one presented slide: position in the slide path list (`Slide.Index`), content id -/
abbrev SlidePart := Nat × Nat

/-- `parseRelationships`: the relationship part is optional -/
def pptxRels (look : Str → Option Nat) (x : Docs) : Option (Option (List (Str × Str))) :=
  match look sPresRels with
  | none => some none
  | some c => match (x c).relPairs? with
    | some rs => some (some rs)
    | none => none

/-- one `sldId`: its relationship target resolved against `ppt/` (absolute targets
against the package root); no target, no path -/
def slidePath (rels : List (Str × Str)) (rid : Str) : Option Str :=
  let t := mapLast rels rid
  if t = [] then none
  else if hasPrefix [47] t then some ((clean t).drop 1)
  else some (join2 sPpt t)

/-- `declaredSlidePaths` -/
def declaredSlidePaths (ids : Option (List Str)) (rels : Option (List (Str × Str))) : List Str :=
  match ids, rels with
  | some ids, some rels => ids.filterMap (slidePath rels)
  | _, _ => []

/-- digits accepted by `fmt`'s `%d` scanner -/
def isScanDigit (c : Nat) : Bool := 48 ≤ c && c ≤ 57

def digitsVal (ds : Str) : Nat := ds.foldl (fun acc d => acc * 10 + (d - 48)) 0

/-- `fmt.Sscanf(name, "%d", &num)` with the error ignored: leading blanks, optional
sign, the maximal run of decimal digits (scanning stops at anything else, `_`
included); no digits or an int64 overflow leave `num = 0` -/
def scanInt (s : Str) : Int :=
  let s := s.dropWhile (fun c => c = 32 || c = 9 || c = 13)
  let (neg, s) := match s with
    | 45 :: r => (true, r)
    | 43 :: r => (false, r)
    | r => (false, r)
  let ds := s.takeWhile isScanDigit
  if ds = [] then 0
  else
    let v := digitsVal ds
    if neg then (if v ≤ 9223372036854775808 then -(v : Int) else 0)
    else (if v ≤ 9223372036854775807 then (v : Int) else 0)

/-- `extractSlideNumber` -/
def extractSlideNumber (p : Str) : Int :=
  scanInt (trimSuffix sXml (trimPrefix sSlidePre p))

/-- insertion into a list sorted by `k`, after every element that is not greater -/
def insertBy (k : Str → Int) (v : Str) : List Str → List Str
  | [] => [v]
  | y :: ys => if k v < k y then v :: y :: ys else y :: insertBy k v ys

/-- `sort.Slice` by slide number. For at most 12 elements `sort.Slice` is an
insertion sort, which is what this is; for more elements the results agree
whenever the numbers are distinct. -/
def sortByNumber (l : List Str) : List Str :=
  l.foldl (fun acc v => insertBy extractSlideNumber v acc) []

/-- the file-name discovery used when nothing is declared -/
def fallbackSlidePaths (names : List Str) : List Str :=
  sortByNumber (names.filter fun n => hasPrefix sSlidePre n && hasSuffix sXml n && !hasSub sRelsDir n)

/-- one slide path: `parseSlide` (`continue` when missing or not a `sld`) -/
def pptxPart (look : Str → Option Nat) (x : Docs) (i : Nat) (p : Str) : Option SlidePart :=
  match look p with
  | none => none
  | some c => if x c = .slide then some (i, c) else none

/-- the loop of `parseSlides` -/
def pptxLoop (look : Str → Option Nat) (x : Docs) : Nat → List Str → List SlidePart :=
  loopIdx (pptxPart look x)

/-- the slide list as declared (`validate`, `parseRelationships`, `parsePresentation`,
`declaredSlidePaths`); `none` = `Open` fails before `parseSlides` -/
def pptxDeclared (look : Str → Option Nat) (x : Docs) : Option (List Str) :=
  match look sCT, look sPres with
  | some _, some pc =>
    match pptxRels look x with
    | none => none
    | some rels => match x pc with
      | .presentation ids => some (declaredSlidePaths ids rels)
      | _ => none
  | _, _ => none

/-- `pptx.Open` up to the slide list; `names` = member names in archive order (only
the fallback looks at them) -/
def pptxOpenL (look : Str → Option Nat) (names : List Str) (x : Docs) : Option (List SlidePart) :=
  match pptxDeclared look x with
  | none => none
  | some declared =>
    let paths := if declared = [] then fallbackSlidePaths names else declared
    let parts := pptxLoop look x 0 paths
    if parts = [] then none else some parts

def pptxOpen (a : Archive) (x : Docs) : Option (List SlidePart) :=
  pptxOpenL (lookup a) (a.map Prod.fst) x

/-! ### EPUB -/

/-- one chapter: spine position (`Chapter.Index`), content id, resolved href, manifest id -/
abbrev ChapterPart := Nat × Nat × Str × Str

/-- the rootfile choice of `parseContainer` -/
def pickRootfile (roots : List (Str × Str)) : Option Str :=
  match roots.find? (fun rf => (rf.2 = sOebps ∨ rf.2 = []) ∧ rf.1 ≠ []) with
  | some rf => some rf.1
  | none => match roots with
    | rf :: _ => some rf.1
    | [] => none

/-- `parseContainer` -/
def parseContainer (look : Str → Option Nat) (x : Docs) : Option Str :=
  match look sContainer with
  | none => none
  | some c => match x c with
    | .container roots => pickRootfile roots
    | _ => none

/-- `parseOPF`: base directory, manifest, spine (`ErrEmptySpine` when empty) -/
def parseOPF (look : Str → Option Nat) (x : Docs) (opfPath : Str) :
    Option (Str × List (Str × Str) × List Str) :=
  match look opfPath with
  | none => none
  | some c => match x c with
    | .opf manifest spine => if spine = [] then none else some (baseDirOf opfPath, manifest, spine)
    | _ => none

/-- the archive name a spine entry stands for: manifest item (last one with that id)
→ href → `resolveHref`; `none` when the id is not in the manifest -/
def chapterPath (base : Str) (manifest : List (Str × Str)) (idref : Str) : Option Str :=
  (mapLast? manifest idref).map (resolveHref base)

/-- one spine entry of `loadChapters` once it is past the `loaded` check: read the
member the entry resolves to (`continue` when the id is not in the manifest or the
member is missing) -/
def epubPart (look : Str → Option Nat) (base : Str) (manifest : List (Str × Str)) (i : Nat) (idref : Str) :
    Option ChapterPart :=
  match chapterPath base manifest idref with
  | none => none
  | some p => match look p with
    | none => none
    | some c => some (i, c, p, idref)

/-- the loop of `loadChapters` (after `fix: a resource listed several times in an EPUB
spine is one chapter`). `seen` is the Go map `loaded`: the RESOLVED hrefs
(`r.resolveHref(item.Href)`) of the spine entries met so far. An entry whose id is not
in the manifest is skipped without touching `loaded`; an entry whose resolved href is
in `loaded` is skipped (`continue // already a chapter`); otherwise the href is marked
BEFORE the member is read, so a missing member marks it too. `Chapter.Index` stays the
spine position `i` (the index keeps counting over skipped entries). -/
def epubLoopS (look : Str → Option Nat) (base : Str) (manifest : List (Str × Str)) :
    List Str → Nat → List Str → List ChapterPart
  | _, _, [] => []
  | seen, i, idref :: rest =>
    match chapterPath base manifest idref with
    | none => epubLoopS look base manifest seen (i + 1) rest
    | some p =>
      if p ∈ seen then epubLoopS look base manifest seen (i + 1) rest
      else match look p with
        | none => epubLoopS look base manifest (p :: seen) (i + 1) rest
        | some c => (i, c, p, idref) :: epubLoopS look base manifest (p :: seen) (i + 1) rest

/-- `loadChapters`: the loop started with an empty `loaded` map -/
def epubLoop (look : Str → Option Nat) (base : Str) (manifest : List (Str × Str)) : Nat → List Str → List ChapterPart :=
  epubLoopS look base manifest []

/-- container → package document → (base, manifest, spine) -/
def epubDeclared (look : Str → Option Nat) (x : Docs) : Option (Str × List (Str × Str) × List Str) :=
  match parseContainer look x with
  | none => none
  | some opfPath => parseOPF look x opfPath

/-- `(*Reader).init` up to the chapter list (`ErrEmptySpine` when none loads) -/
def epubOpenL (look : Str → Option Nat) (x : Docs) : Option (List ChapterPart) :=
  match epubDeclared look x with
  | none => none
  | some (base, manifest, spine) =>
    let parts := epubLoop look base manifest 0 spine
    if parts = [] then none else some parts

def epubOpen (a : Archive) (x : Docs) : Option (List ChapterPart) := epubOpenL (lookup a) x

end Tabula.Package
