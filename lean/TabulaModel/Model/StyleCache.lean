import TabulaModel.Model.Docx
import TabulaModel.Model.Odt
/-
The style resolvers' cache (`StyleResolver.resolved`, docx/resolver.go and
odt/resolver.go): `Resolve(id)` answers from the map when the id was resolved before and
stores what it computes otherwise. While a package is opened the readers call `Resolve`
once per body paragraph, once more per run that has text (`ResolveRun`), and once per
paragraph of every table cell, in document order - a call history that depends on the
document. This file models the cache and the readers' passes with it. Core Lean only.
-/
namespace Tabula.Docx
open Tabula.Xml

/-- `sr.resolved` as far as headings go: style id ↦ (IsHeading, HeadingLevel) of the cached style -/
abbrev Cache := List (Str × Option Nat)

def cacheGet (c : Cache) (id : Str) : Option (Option Nat) := (c.find? (·.1 == id)).map (·.2)

/-- `Resolve(styleID)` with the cache: the empty id is answered without the map; a cached id
from the map; any other id is computed (`resolveHeading`) and stored -/
def resolveCached (st : Styles) (c : Cache) (id : Str) : Option Nat × Cache :=
  if id = [] then (none, c)
  else match cacheGet c id with
    | some h => (h, c)
    | none => (resolveHeading st id, (id, resolveHeading st id) :: c)

/-- a history of `Resolve` calls on one resolver: the answers in call order, and the cache after -/
def resolveSeq (st : Styles) : Cache → List Str → List (Option Nat) × Cache
  | c, [] => ([], c)
  | c, id :: rest =>
    let r := resolveCached st c id
    let rs := resolveSeq st r.2 rest
    (r.1 :: rs.1, rs.2)

/-- `p.Properties.Style.Val` -/
def styleIdOf (p : Node) : Str := childVal ((childNamed p.kids sPPr).map (·.kids) |>.getD []) sPStyle

/-- `processParagraph` given what `Resolve(styleID)` answered -/
def processParagraphH (h0 : Option Nat) (p : Node) : Para :=
  let ppr := (childNamed p.kids sPPr).map (·.kids) |>.getD []
  let outline := childVal ppr sOutlineLvl
  let heading := match h0 with
    | some l => some l
    | none => if outline ≠ [] then (parseOutlineLevel outline).map (· + 1) else none
  let numPr := (childNamed ppr sNumPr).map (·.kids) |>.getD []
  let numId := childVal numPr sNumId
  let list := if numId ≠ [] ∧ numId ≠ [48] then some (numId, parseListLevel (childVal numPr sIlvl)) else none
  { text := paraText p, heading := heading, list := list }

/-- the further `Resolve` calls of `processParagraph`: one per run that has text (`ResolveRun`) -/
def runCalls (p : Node) : List Str :=
  ((runsOfList p.kids).filter fun r => extractRunText r != []).map fun _ => styleIdOf p

/-- the `Resolve` calls of `ParseTable`: one per paragraph of every cell (`parseCellParagraph`) -/
def cellCalls (tbl : Node) : List Str :=
  (childrenNamed tbl.kids sTr).flatMap fun tr => (childrenNamed tr.kids sTc).flatMap fun tc =>
    (cellParas tc).map styleIdOf

/-- `processElementsInOrder` on one body element, with the resolver's cache -/
def processElementC (st : Styles) (n : Node) (c : Cache) : Elem × Cache :=
  if n.loc == sTbl then (.table (parseTable n), (resolveSeq st c (cellCalls n)).2)
  else
    let r := resolveCached st c (styleIdOf n)
    (.para (processParagraphH r.1 n), (resolveSeq st r.2 (runCalls n)).2)

/-- the reader's pass over the body elements with one resolver -/
def processAllC (st : Styles) : List Node → Cache → List Elem
  | [], _ => []
  | n :: rest, c => (processElementC st n c).1 :: processAllC st rest (processElementC st n c).2

/-- `r.elements` as the reader computes it: one style resolver, empty cache at the start -/
def elementsC (doc : Node) (styles : Option Node) : List Elem :=
  processAllC (stylesOf styles) (parseBodyElementsInOrder doc) []

end Tabula.Docx

namespace Tabula.Odt
open Tabula.Xml

abbrev Cache := List (Str × Option Nat)

def cacheGet (c : Cache) (name : Str) : Option (Option Nat) := (c.find? (·.1 == name)).map (·.2)

/-- `Resolve(styleName)` with the cache (odt/resolver.go) -/
def resolveCached (defs : List StyleDef) (c : Cache) (name : Str) : Option Nat × Cache :=
  if name = [] then (none, c)
  else match cacheGet c name with
    | some h => (h, c)
    | none => (resolveHeading defs name, (name, resolveHeading defs name) :: c)

def resolveSeq (defs : List StyleDef) : Cache → List Str → List (Option Nat) × Cache
  | c, [] => ([], c)
  | c, n :: rest =>
    let r := resolveCached defs c n
    let rs := resolveSeq defs r.2 rest
    (r.1 :: rs.1, rs.2)

end Tabula.Odt
