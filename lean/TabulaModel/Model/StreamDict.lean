import TabulaModel.Model.Filters
/-!
The stream *dictionary* side of `(*core.Stream).Decode` (`core/stream.go`, `core/object.go`,
`internal/filters/flate.go`): what `Model/Filters.lean` takes as already-digested input
(`Filter`, `DParms`, `Params`) is computed here from the dictionary as tabula holds it:

* `Obj`            — `core.Object` (Null, Bool, Int, Real, String, Name, Array, Dict; `other` =
                     `*core.Stream` / `core.IndirectRef`, which `Decode` never resolves; `nil` = a
                     Go nil interface value inside a Dict or Array)
* `dictGet`        — `core.Dict.Get` (Go `nil` = `none`)
* `dictToParams`   — `core.dictToParams` (Int → int, Real → float64, Bool → bool,
                     String/Name → string, anything else kept)
* `getIntParam`    — `filters.getIntParam` (int / float64 → `int(v)`, anything else → default)
* `getBoolParam`   — `filters.getBoolParam` (bool, anything else → default)
* `toParams`       — the four `getIntParam` reads of FlateDecode / applyPNGPredictor /
                     applyTIFFPredictor2 gathered in the `Params` record of `Model/Filters.lean`
* `objToFilter`, `objToDParms`, `objToPObj` — the type switches of `Decode` /
                     `paramsObjToDict` on the `Filter` and `DecodeParms` entries
* `streamDecodeD`  — `(*core.Stream).Decode` on `(Dict, Data)`
* `Session`/`runSession` — a history of `Decode()` calls on a set of streams

A Real is a float64; the model carries the dyadic rational `m / 2^e` (every finite float64 is
one). `int(v)` truncates toward zero; values outside the int64 range (where Go's conversion is
implementation-defined) are outside the model (the harness keeps |m| < 2^53). Core Lean only.
-/
namespace Tabula.Filters

/-- `core.Object` -/
inductive Obj where
  | nil                            -- a Go nil interface stored as a value (only a program can do that)
  | null
  | bool (b : Bool)
  | int (n : Int)
  | real (m : Int) (e : Nat)
  | str (s : Str)
  | name (s : Str)
  | array (xs : List Obj)
  | dict (kvs : List (Str × Obj))
  | other
deriving Inhabited

/-- `core.Dict`: a Go map, here its key/value pairs (keys distinct; the first binding counts) -/
abbrev Dict := List (Str × Obj)

/-- `core.Dict.Get`: the value, Go `nil` (= `none`) when the key is missing -/
def dictGet (d : Dict) (key : Str) : Option Obj := d.lookup key

def kFilter : Str := [70, 105, 108, 116, 101, 114]
def kDecodeParms : Str := [68, 101, 99, 111, 100, 101, 80, 97, 114, 109, 115]
def kPredictor : Str := [80, 114, 101, 100, 105, 99, 116, 111, 114]
def kColors : Str := [67, 111, 108, 111, 114, 115]
def kColumns : Str := [67, 111, 108, 117, 109, 110, 115]
def kBitsPerComponent : Str :=
  [66, 105, 116, 115, 80, 101, 114, 67, 111, 109, 112, 111, 110, 101, 110, 116]
def kRows : Str := [82, 111, 119, 115]
def kK : Str := [75]
def kBlackIs1 : Str := [66, 108, 97, 99, 107, 73, 115, 49]

/-- a value of `filters.Params` (`map[string]interface{}`) as `dictToParams` fills it -/
inductive PVal where
  | int (n : Int)               -- Go int
  | float (m : Int) (e : Nat)   -- Go float64 = m / 2^e
  | bool (b : Bool)
  | string (s : Str)
  | obj                         -- any other core.Object, kept as it is
deriving Repr, DecidableEq, Inhabited

abbrev GoParams := List (Str × PVal)

/-- the `switch obj := v.(type)` of `core.dictToParams` -/
def toPVal : Obj → PVal
  | .int n => .int n
  | .real m e => .float m e
  | .bool b => .bool b
  | .str s => .string s
  | .name s => .string s
  | _ => .obj

/-- `core.dictToParams` for a non-nil Dict (a nil Dict gives nil Params: `Option.map`) -/
def dictToParams (d : Dict) : GoParams := d.map fun kv => (kv.1, toPVal kv.2)

/-- Go's `int(v)` for the float64 `v = m / 2^e`: truncation toward zero -/
def truncReal (m : Int) (e : Nat) : Int := Int.tdiv m ((2 : Int) ^ e)

/-- the type switch of `filters.getIntParam` without the default: `none` = "use the default"
(key missing, or a value that is neither int nor float64) -/
def intOpt (ps : GoParams) (key : Str) : Option Int :=
  match ps.lookup key with
  | some (.int n) => some n
  | some (.float m e) => some (truncReal m e)
  | _ => none

/-- `filters.getIntParam(params, key, defaultValue)`; `none` = nil Params -/
def getIntParam (ps : Option GoParams) (key : Str) (dflt : Int) : Int :=
  match ps with
  | none => dflt
  | some ps => (intOpt ps key).getD dflt

/-- the type switch of `filters.getBoolParam` without the default: only a Go bool counts -/
def boolOpt (ps : GoParams) (key : Str) : Option Bool :=
  match ps.lookup key with
  | some (.bool b) => some b
  | _ => none

/-- `filters.getBoolParam(params, key, defaultValue)` -/
def getBoolParam (ps : Option GoParams) (key : Str) (dflt : Bool) : Bool :=
  match ps with
  | none => dflt
  | some ps => (boolOpt ps key).getD dflt

/-- the reads `getIntParam(params, "Predictor" | "Colors" | "Columns" | "BitsPerComponent", _)`
of `FlateDecode`, `applyPNGPredictor` and `applyTIFFPredictor2`, and `getIntParam(params,
"Columns" | "Rows" | "K", _)`, `getBoolParam(params, "BlackIs1", _)` of `CCITTFaxDecode`, each
still without its default (the users apply 1, 1, 1, 8 resp. 1728, 0, 0, false with `getD`). A
`Predictor` that is present but no number reads as the default 1, which `FlateDecode` treats like
an absent one. -/
def toParams (ps : GoParams) : Params :=
  { predictor := intOpt ps kPredictor
    colors := intOpt ps kColors
    columns := intOpt ps kColumns
    bpc := intOpt ps kBitsPerComponent
    rows := intOpt ps kRows
    k := intOpt ps kK
    blackIs1 := boolOpt ps kBlackIs1 }

/-- `core.paramsObjToDict` followed by `dictToParams`, on a value of `DecodeParms` (or an
element of the `DecodeParms` array); `none` = Go `nil` (key missing) -/
def objToPObj : Option Obj → PObj
  | none => .absent
  | some .nil => .absent
  | some .null => .null
  | some (.dict kvs) => .dict (toParams (dictToParams kvs))
  | some _ => .other

/-- `paramsObj.(Array)` in `Decode` -/
def objToDParms : Option Obj → DParms
  | some (.array xs) => .array (xs.map fun o => objToPObj (some o))
  | o => .one (objToPObj o)

/-- `filter.(Name)` on an element of the `Filter` array -/
def objToFObj : Obj → FObj
  | .name s => .name s
  | _ => .other

/-- the `Filter` entry: nil, a Name, an Array, anything else -/
def objToFilter : Option Obj → Filter
  | none => .absent
  | some .nil => .absent
  | some (.name s) => .one (.name s)
  | some (.array xs) => .array (xs.map objToFObj)
  | some _ => .one .other

/-- `(*core.Stream).Decode` on the stream's dictionary and data -/
def streamDecodeD (ext : Ext) (d : Dict) (data : Str) : Option Str :=
  streamDecode ext (objToFilter (dictGet d kFilter)) (objToDParms (dictGet d kDecodeParms)) data

/-! ### histories of `Decode()` calls -/

/-- a `*core.Stream` as far as `Decode` reads it -/
structure StreamObj where
  dict : Dict
  data : Str
deriving Inhabited

/-- the streams a program holds; an operation `decode i` calls `Decode()` on the i-th one.
`Decode` neither writes to the stream nor keeps anything between calls, so a step leaves the
store as it is and its result is that of a fresh call. -/
abbrev Store := List StreamObj

/-- one `Decode()` call on stream `i` of the store: the new store and the result
(`none` also for an index outside the store) -/
def stepDecode (ext : Ext) (st : Store) (i : Nat) : Store × Option Str :=
  match st[i]? with
  | none => (st, none)
  | some s => (st, streamDecodeD ext s.dict s.data)

/-- a history of calls, oldest first; the results in call order -/
def runSession (ext : Ext) : Store → List Nat → List (Option Str)
  | _, [] => []
  | st, i :: is =>
    let r := stepDecode ext st i
    r.2 :: runSession ext r.1 is

end Tabula.Filters
