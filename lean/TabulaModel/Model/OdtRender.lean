import TabulaModel.Model.Odt
import TabulaModel.Model.DocRender
/-
Model of the public views of tabula's ODT reader (odt/reader.go, lists.go, tables.go,
resolver.go): `TextWithOptions` / `Text`, `MarkdownWithOptions` / `Markdown`,
`MarkdownWithRAGOptions` (heading offset and cap; YAML front matter and table of contents
are not modelled), `Document`, `ModelTables`, the list-style resolver, the header / footer
texts of the master pages, and the streaming body walk WITH the list style it carries from
one list to the next (`currentListStyle`); `odt.Open` fails (`openReader?` = `none`) when a
paragraph nests inline elements beyond `maxInlineDepth`. Core Lean only.

Inputs: the authored trees of content.xml and styles.xml.
-/
namespace Tabula.Odt
open Tabula.Xml Tabula.Render

def sListStyle : Str := [108, 105, 115, 116, 45, 115, 116, 121, 108, 101]
def sBulletLevel : Str := [108, 105, 115, 116, 45, 108, 101, 118, 101, 108, 45, 115, 116, 121, 108, 101, 45, 98, 117, 108, 108, 101, 116]
def sNumberLevel : Str := [108, 105, 115, 116, 45, 108, 101, 118, 101, 108, 45, 115, 116, 121, 108, 101, 45, 110, 117, 109, 98, 101, 114]
def sLevel : Str := [108, 101, 118, 101, 108]
def sBulletChar : Str := [98, 117, 108, 108, 101, 116, 45, 99, 104, 97, 114]
def sMasterStyles : Str := [109, 97, 115, 116, 101, 114, 45, 115, 116, 121, 108, 101, 115]
def sMasterPage : Str := [109, 97, 115, 116, 101, 114, 45, 112, 97, 103, 101]
def sHeader : Str := [104, 101, 97, 100, 101, 114]
def sHeaderLeft : Str := [104, 101, 97, 100, 101, 114, 45, 108, 101, 102, 116]
def sHeaderFirst : Str := [104, 101, 97, 100, 101, 114, 45, 102, 105, 114, 115, 116]
def sFooter : Str := [102, 111, 111, 116, 101, 114]
def sFooterLeft : Str := [102, 111, 111, 116, 101, 114, 45, 108, 101, 102, 116]
def sFooterFirst : Str := [102, 111, 111, 116, 101, 114, 45, 102, 105, 114, 115, 116]

/-! ### list styles: NewStyleResolver (listStyles map) / ResolveListLevel -/

structure ListStyle where
  name : Str
  bulletLevels : List (Str × Str)      -- (text:level, text:bullet-char), source order
  numberLevels : List Str              -- text:level, source order
deriving Repr, Inhabited, DecidableEq

def listStylesIn (container : Option Node) : List ListStyle :=
  match container with
  | none => []
  | some c => (childrenNamed c.kids sListStyle).map fun n =>
      { name := n.attr sName,
        bulletLevels := (childrenNamed n.kids sBulletLevel).map fun b => (b.attr sLevel, b.attr sBulletChar),
        numberLevels := (childrenNamed n.kids sNumberLevel).map fun b => b.attr sLevel }

/-- the `listStyles` map in insertion order: styles.xml named styles, styles.xml automatic
styles, content.xml automatic styles; a later entry replaces an earlier one of the same name -/
def allListStyles (content : Node) (styles : Option Node) : List ListStyle :=
  let fromStyles := match styles with
    | none => []
    | some s => listStylesIn (childNamed s.kids sStyles) ++ listStylesIn (childNamed s.kids sAutoStyles)
  fromStyles ++ listStylesIn (childNamed content.kids sAutoStyles)

/-- `ResolveListLevel(listStyleName, level)`: (IsBullet, BulletChar) -/
def resolveListLevel (ls : List ListStyle) (styleName : Str) (level : Nat) : Bool × Str :=
  if styleName = [] then (true, bulletDot)
  else match ls.reverse.find? (·.name == styleName) with
    | none => (true, bulletDot)
    | some st =>
      let lv := natToDec (level + 1)
      match st.bulletLevels.find? (·.1 == lv) with
      | some b => (true, if b.2 ≠ [] then b.2 else bulletDot)
      | none => if st.numberLevels.contains lv then (false, bulletDot) else (true, bulletDot)

/-! ### header / footer texts of the master pages: parseHeadersAndFooters -/

/-- `extractMasterParagraphText`: the paragraph's own character data, then that of its
`text:span` children (the two typed fields of `masterParagraphXML`) -/
def masterParaText (p : Node) : Str :=
  chardata p.kids ++ (childrenNamed p.kids sSpan).flatMap fun sp => chardata sp.kids

/-- `extractMasterHeaderText` / `extractMasterFooterText` -/
def masterPartText (part : Option Node) : Str :=
  match part with
  | none => []
  | some h => joinWith [10] (((childrenNamed h.kids sP).map masterParaText).filter (· ≠ []))

def masterPages (styles : Option Node) : List Node :=
  match styles with
  | none => []
  | some s => match childNamed s.kids sMasterStyles with
    | none => []
    | some ms => childrenNamed ms.kids sMasterPage

/-- `r.headerTexts`: per master page header, header-left, header-first, the non-empty ones -/
def headerTexts (styles : Option Node) : List Str :=
  ((masterPages styles).flatMap fun mp =>
    [masterPartText (childNamed mp.kids sHeader), masterPartText (childNamed mp.kids sHeaderLeft),
     masterPartText (childNamed mp.kids sHeaderFirst)]).filter (· ≠ [])

/-- `r.footerTexts` -/
def footerTexts (styles : Option Node) : List Str :=
  ((masterPages styles).flatMap fun mp =>
    [masterPartText (childNamed mp.kids sFooter), masterPartText (childNamed mp.kids sFooterLeft),
     masterPartText (childNamed mp.kids sFooterFirst)]).filter (· ≠ [])

/-! ### the streaming walk with the list style it carries -/

/-- an element as the views read it: the paragraph / table of `Elem`, plus the style name the
list writers look at (`parsedParagraph.StyleName`: for the items of a list the list's style)
and, for a table, the number of column widths -/
structure ElemX where
  elem : Elem
  style : Str
  cols : Nat
deriving Repr, Inhabited, BEq, DecidableEq

structure WalkX where
  inBody : Bool
  failed : Bool := false  -- `parseBodyElements` has returned the depth error (`Walk.failed`)
  listStyle : Str         -- `currentListStyle`: set by a list that has a style name, kept otherwise
  acc : List ElemX
deriving Repr, Inhabited

/-- `for _, attr := range t.Attr { if attr.Name.Local == "style-name" { currentListStyle = attr.Value; break } }` -/
def listStyleAfter (attrs : List (Str × Str)) (cur : Str) : Str :=
  match attrs.find? (fun a => localName a.1 == sStyleName) with
  | some a => a.2
  | none => cur

mutual
/-- `parseBodyElements` on one subtree (as `walkNode`, with style names). A body element the
decoder gives up in (`decodes` false) makes `parseBodyElements` return the depth error. -/
def walkNodeX (defs : List StyleDef) : Node → WalkX → WalkX
  | .text _, w => w
  | .elem tag attrs kids, w =>
    if w.failed then w
    else if tag == sOfficeText then
      { walkListX defs kids { w with inBody := true } with inBody := false }
    else if !w.inBody then walkListX defs kids w
    else if localName tag == sP then
      (if decodes (.inline 0) kids
       then { w with acc := w.acc ++ [⟨.para (processParagraph (.elem tag attrs kids)), attrOf attrs sStyleName, 0⟩] }
       else { w with failed := true })
    else if localName tag == sH then
      (if decodes (.inline 0) kids
       then { w with acc := w.acc ++ [⟨.para (processHeading defs (.elem tag attrs kids)), attrOf attrs sStyleName, 0⟩] }
       else { w with failed := true })
    else if localName tag == sList then
      let st := listStyleAfter attrs w.listStyle
      (if decodes .list kids
       then { w with listStyle := st, acc := w.acc ++ (listElems (.elem tag attrs kids)).map fun e => ⟨e, st, 0⟩ }
       else { w with listStyle := st, failed := true })
    else if localName tag == sTable then
      (if decodes .table kids
       then { w with acc := w.acc ++ [⟨.table (parseTable (.elem tag attrs kids)), [], columnCount (.elem tag attrs kids)⟩] }
       else { w with failed := true })
    else walkListX defs kids w
def walkListX (defs : List StyleDef) : List Node → WalkX → WalkX
  | [], w => w
  | n :: rest, w => walkListX defs rest (walkNodeX defs n w)
end

/-- what the views read of an `*odt.Reader` -/
structure Reader where
  elements : List ElemX
  listStyles : List ListStyle
  headerTexts : List Str
  footerTexts : List Str
deriving Repr, Inhabited

/-- the walk of `parseBodyElements` over content.xml, with style names -/
def bodyWalkX (content : Node) (styles : Option Node) : WalkX :=
  walkNodeX (allStyles content styles) content { inBody := false, listStyle := [], acc := [] }

/-- the reader `odt.Open` builds when `parseContent` succeeds -/
def openReader (content : Node) (styles : Option Node) : Reader :=
  { elements := (bodyWalkX content styles).acc,
    listStyles := allListStyles content styles,
    headerTexts := headerTexts styles, footerTexts := footerTexts styles }

/-- `odt.Open` as far as the views go: `none` = `Open` returns the error of `parseContent` (a
paragraph of a body element nests `text:span` / `text:a` deeper than `maxInlineDepth`);
`tabula.Open(f).Text()` / `.ToMarkdown()` / `.Document()` then return that error -/
def openReader? (content : Node) (styles : Option Node) : Option Reader :=
  if (bodyWalkX content styles).failed then none else some (openReader content styles)

/-- the exclusion options (`odt.ExtractOptions`) -/
structure ExtractOptions where
  excludeHeaders : Bool := false
  excludeFooters : Bool := false

/-- `shouldExcludeParagraph` (the model of C11) -/
def excluded (opts : ExtractOptions) (hdr ftr : List Str) (text : Str) : Bool :=
  Tabula.HF.shouldExcludeParagraph text hdr ftr opts.excludeHeaders opts.excludeFooters

def rcell (c : Cell) : RCell := { text := c.text, colSpan := c.colSpan, covered := c.covered }
def rrows (rows : List (List Cell)) : List (List RCell) := rows.map (·.map rcell)

/-- `listCounters[styleName][level]` -/
abbrev Counters := List ((Str × Nat) × Int)
def ctrGet (cs : Counters) (k : Str × Nat) : Int := ((cs.find? (·.1 == k)).map (·.2)).getD 0
def ctrSet (cs : Counters) (k : Str × Nat) (v : Int) : Counters := (k, v) :: cs.filter (·.1 != k)

/-! ### Text / TextWithOptions -/

/-- `writeParagraphText` -/
def writeParagraphText (ls : List ListStyle) (p : Para) (style : Str) (cs : Counters) : Str × Counters :=
  match p.list with
  | none => (p.text, cs)
  | some level =>
    let r := if style ≠ [] then resolveListLevel ls style level else (true, bulletDot)   -- (IsBullet, BulletChar)
    if !r.1 then
      let c := ctrGet cs (style, level) + 1
      (indent level ++ intToDec c ++ [46, 32] ++ p.text, ctrSet cs (style, level) c)
    else (indent level ++ r.2 ++ [32] ++ p.text, cs)

def textPiece (rd : Reader) (opts : ExtractOptions) (e : ElemX) (cs : Counters) : Str × Counters :=
  match e.elem with
  | .para p => if excluded opts rd.headerTexts rd.footerTexts p.text then ([], cs) else writeParagraphText rd.listStyles p e.style cs
  | .table rows => (tableToText (rrows rows), cs)

def textPieces (rd : Reader) (opts : ExtractOptions) : List ElemX → Counters → List Str
  | [], _ => []
  | e :: rest, cs => (textPiece rd opts e cs).1 :: textPieces rd opts rest (textPiece rd opts e cs).2

/-- `TextWithOptions` -/
def textWithOptions (rd : Reader) (opts : ExtractOptions) : Str := joinWith [10] (textPieces rd opts rd.elements [])

/-- `Text()` -/
def text (rd : Reader) : Str := textWithOptions rd {}

/-! ### Markdown -/

structure MdOptions where
  offset : Int := 0
  maxLevel : Int := 0
deriving Repr, Inhabited

/-- the number of `#` of a heading line (same steps as in the DOCX reader) -/
def mdHeadingLevel (o : MdOptions) (level : Nat) : Nat :=
  let l0 : Int := if level < 1 then 1 else level
  let l1 := l0 + o.offset
  let l2 := if l1 < 1 then 1 else l1
  let l3 := if o.maxLevel > 0 ∧ l2 > o.maxLevel then o.maxLevel else l2
  let l4 := if l3 > 6 then 6 else l3
  l4.toNat

structure MdState where
  out : Str
  inList : Bool
  cs : Counters
deriving Repr, Inhabited

/-- `writeMarkdownListItem` -/
def mdListItem (ls : List ListStyle) (text style : Str) (level : Nat) (cs : Counters) : Str × Counters :=
  let isBullet := if style ≠ [] then (resolveListLevel ls style level).1 else true
  if !isBullet then
    let c := ctrGet cs (style, level) + 1
    (indent level ++ intToDec c ++ [46, 32] ++ text ++ [10], ctrSet cs (style, level) c)
  else (indent level ++ [45, 32] ++ text ++ [10], cs)

def mdStep (rd : Reader) (opts : ExtractOptions) (o : MdOptions) (i : Nat) (e : ElemX) (s : MdState) : MdState :=
  match e.elem with
  | .para p =>
    if excluded opts rd.headerTexts rd.footerTexts p.text then s
    else
      let s := if i > 0 && s.out != [] && s.inList && !p.list.isSome
        then { s with out := s.out ++ [10], inList := false } else s
      match p.heading, p.list with
      | some l, _ =>
        { s with out := s.out ++ repeatStr [35] (mdHeadingLevel o l) ++ [32] ++ p.text ++ [10, 10], inList := false }
      | none, some level =>
        let r := mdListItem rd.listStyles p.text e.style level s.cs
        { s with out := s.out ++ r.1, inList := true, cs := r.2 }
      | none, none =>
        if p.text != [] then { s with out := s.out ++ p.text ++ [10, 10], inList := false } else s
  | .table rows =>
    let s := if s.inList then { s with out := s.out ++ [10], inList := false } else s
    { s with out := s.out ++ tableToMarkdown (rrows rows) ++ [10] }

def mdLoop (rd : Reader) (opts : ExtractOptions) (o : MdOptions) : List ElemX → Nat → MdState → MdState
  | [], _, s => s
  | e :: rest, i, s => mdLoop rd opts o rest (i + 1) (mdStep rd opts o i e s)

def markdownRaw (rd : Reader) (opts : ExtractOptions) (o : MdOptions) : Str :=
  (mdLoop rd opts o rd.elements 0 { out := [], inList := false, cs := [] }).out

/-- `MarkdownWithRAGOptions` without metadata block and table of contents -/
def markdownWithRAGOptions (rd : Reader) (opts : ExtractOptions) (o : MdOptions) : Str := trimNL (markdownRaw rd opts o)

/-- `MarkdownWithOptions` -/
def markdownWithOptions (rd : Reader) (opts : ExtractOptions) : Str := markdownWithRAGOptions rd opts {}

/-- `Markdown()` -/
def markdown (rd : Reader) : Str := markdownWithOptions rd {}

/-! ### ToModelTable / Document -/

/-- the grid columns a parsed cell takes in `ToModelTable`: a covered placeholder one -/
def gridWidth (c : Cell) : Nat := if c.covered then 1 else c.colSpan

/-- the widest row, a covered placeholder counting one column -/
def modelColCount (rows : List (List Cell)) : Nat :=
  rows.foldl (fun m row => max m (row.foldl (fun s c => s + gridWidth c) 0)) 0


/-- the model cell of a parsed cell -/
def mcellOf (c : Cell) : MCell := { text := c.text, rowSpan := c.rowSpan, colSpan := c.colSpan }

def fillRow (colCount rowIdx : Nat) : List Cell → Nat → List (List MCell) → List (List MCell) :=
  fillRowG gridWidth (·.covered) mcellOf colCount rowIdx

def fillRows (colCount : Nat) : List (List Cell) → Nat → List (List MCell) → List (List MCell) :=
  fillRowsG gridWidth (·.covered) mcellOf colCount

/-- the column count `ToModelTable` starts from: the number of declared column widths
(`len(pt.ColWidths)`, `cols`), unless rows x declared columns exceed `maxTableGridCells`
(`if colCount > 0 && len(pt.Rows) > maxTableGridCells/colCount { colCount = 0 }`, integer
division) - then 0, which means "count the cells" -/
def declaredCols (nrows cols : Nat) : Nat :=
  if cols > 0 ∧ nrows > maxTableGridCells / cols then 0 else cols

/-- the columns of the document-model grid: the declared ones if they are believed, else the
widest row counted from its cells -/
def gridCols (rows : List (List Cell)) (cols : Nat) : Nat :=
  if declaredCols rows.length cols ≠ 0 then declaredCols rows.length cols else modelColCount rows

/-- `ToModelTable` -/
def toModelTable (rows : List (List Cell)) (cols : Nat) : List (List MCell) :=
  if rows = [] then []
  else fillRows (gridCols rows cols) rows 0 (newGrid rows.length (gridCols rows cols))

/-- `ToModelTable` before the repair 3b0df50: the declared columns were believed whatever their
number (128 `table:table-column` elements repeated 1024 times over 128 one-cell rows: a grid of
16.7 million cells) -/
def toModelTableOld (rows : List (List Cell)) (cols : Nat) : List (List MCell) :=
  if rows = [] then []
  else
    let colCount := if cols ≠ 0 then cols else modelColCount rows
    fillRows colCount rows 0 (newGrid rows.length colCount)

/-- `ModelTables()` -/
def modelTables (rd : Reader) : List (List (List MCell)) :=
  rd.elements.filterMap fun e => match e.elem with
    | .table rows => some (toModelTable rows e.cols)
    | .para _ => none

structure DItem where
  text : Str
  level : Nat
  bullet : Str
deriving Repr, Inhabited, BEq, DecidableEq

inductive DocElem where
  | para (text : Str)
  | heading (level : Nat) (text : Str)
  | list (ordered : Bool) (items : List DItem)
  | table (grid : List (List MCell))
deriving Repr, Inhabited, BEq, DecidableEq

/-- `currentList` (nil, or the list being built) and the page so far -/
structure DocState where
  page : List DocElem
  cur : Option (Bool × List DItem)
deriving Repr, Inhabited

def finalizeList (s : DocState) : DocState :=
  match s.cur with
  | some (o, items) => if items ≠ [] then { page := s.page ++ [.list o items], cur := none } else { s with cur := none }
  | none => s

def docStep (ls : List ListStyle) (e : ElemX) (s : DocState) : DocState :=
  match e.elem with
  | .para p =>
    if p.text = [] then s
    else match p.list with
      | some level =>
        let r := if e.style ≠ [] then resolveListLevel ls e.style level else (true, bulletDot)   -- (IsBullet, BulletChar)
        let l : Bool × List DItem := match s.cur with
          | some l => l
          | none => (!r.1, [])
        { s with cur := some (l.1, l.2 ++ [⟨p.text, level, r.2⟩]) }
      | none =>
        let s := finalizeList s
        match p.heading with
        | some lv => { s with page := s.page ++ [.heading lv p.text] }
        | none => { s with page := s.page ++ [.para p.text] }
  | .table rows =>
    let s := finalizeList s
    let g := toModelTable rows e.cols
    if g.length > 0 then { s with page := s.page ++ [.table g] } else s

def docLoop (ls : List ListStyle) : List ElemX → DocState → DocState
  | [], s => s
  | e :: rest, s => docLoop ls rest (docStep ls e s)

/-- `Document()`: the elements of its single page -/
def document (rd : Reader) : List DocElem :=
  (finalizeList (docLoop rd.listStyles rd.elements { page := [], cur := none })).page

/-! ### the public API: `tabula.Open(f).Text()` / `.ToMarkdown()` / `.Document()` (extractor.go) -/

/-- the exclusion switches of the extractor (`ExcludeHeaders()`, `ExcludeFooters()`,
`ExcludeHeadersAndFooters()`); none called: both off -/
structure ApiOptions where
  excludeHeaders : Bool := false
  excludeFooters : Bool := false

/-- `Extractor.Text()`: the reader's `TextWithOptions` with the extractor's switches -/
def apiText (rd : Reader) (a : ApiOptions) : Str :=
  textWithOptions rd { excludeHeaders := a.excludeHeaders, excludeFooters := a.excludeFooters }

/-- `Extractor.ToMarkdown()`: `MarkdownWithRAGOptions` with `rag.DefaultMarkdownOptions()`
(no metadata block, no table of contents, offset 0, `MaxHeadingLevel` 6) -/
def apiMarkdown (rd : Reader) (a : ApiOptions) : Str :=
  markdownWithRAGOptions rd { excludeHeaders := a.excludeHeaders, excludeFooters := a.excludeFooters } { offset := 0, maxLevel := 6 }

/-- `Extractor.Document()` -/
def apiDocument (rd : Reader) : List DocElem := document rd

end Tabula.Odt
