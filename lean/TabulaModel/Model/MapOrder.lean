/-
Models for C03, mechanism "map-ordered data is sorted before it influences output":
every place of the library where a Go `map` is ranged over on the way to a result.  A Go map is
an association list with distinct keys; ONE iteration of it is ANY permutation of that list
(the model functions take the iteration as an argument `it`), and a stdlib sort is ANY function
that returns its input rearranged and in order (`IsSort`; stability is not assumed).

  layout/paragraph.go   detectLeftMargin, detectDominantAlignment   (vote over a counting map)
  layout/heading.go     detectBodyFontSize                          (vote over a counting map)
  layout/line.go        calculateAdaptiveTolerance                  (set of baselines -> sort -> gaps)
  text/extractor.go     mergeResources, invokeXObject (outerFonts / restoreFonts)
  core/stream.go        dictToParams          pages/pages.go   withInherited
  core/xref.go          MergeXRefTables       font/font.go     loadStandardWidths
  font/encoding.go      NewCustomEncodingFromGlyphs
  reader/reader.go      resolveDeep (dictionary case), resolver/resolver.go resolve
  docx/reader.go, rag/document_integration.go   "delete the counters of deeper levels"
  epubdoc/navigation.go findNavDocument, findNCX                    (first match in a map)
  reader/image.go       ExtractPageImages                           (list built in map order)
  layout/header_footer.go findRepeatingPatterns                     (list built in map order, then sorted)
Core Lean only.
-/
namespace Tabula.MapOrder

/-! ## what a sort promises -/

/-- the contract of `sort.Float64s`, `sort.Ints`, `sort.Strings`, `sort.Slice`, `sort.SliceStable`:
the result is a rearrangement of the input and is in order -/
structure IsSort {α : Type} (le : α → α → Bool) (sort : List α → List α) : Prop where
  perm : ∀ l, (sort l).Perm l
  sorted : ∀ l, (sort l).Pairwise (fun a b => le a b = true)

def leInt (a b : Int) : Bool := decide (a ≤ b)

def insertInt (x : Int) : List Int → List Int
  | [] => [x]
  | y :: ys => if x ≤ y then x :: y :: ys else y :: insertInt x ys

/-- the sort the handlers run: insertion sort (any other `IsSort` gives the same result,
`sort_unique`) -/
def sortInts : List Int → List Int
  | [] => []
  | x :: xs => insertInt x (sortInts xs)

/-! ## finite maps as functions (what a Go map is once iteration order is forgotten) -/

abbrev FMap (κ β : Type) := κ → Option β

def FMap.empty {κ β : Type} : FMap κ β := fun _ => none

def FMap.set {κ β : Type} [DecidableEq κ] (m : FMap κ β) (k : κ) (v : β) : FMap κ β :=
  fun x => if x = k then some v else m x

def FMap.erase {κ β : Type} [DecidableEq κ] (m : FMap κ β) (k : κ) : FMap κ β :=
  fun x => if x = k then none else m x

/-- `for k, v := range src { dst[k] = f(v) }` — `dictToParams`, the dictionary cases of
`resolveDeep` / `resolve` (with `f` the resolution of one value), `withInherited`,
`MergeXRefTables` (one table), `loadStandardWidths`, the `outerFonts` snapshot and
`restoreFonts` of `invokeXObject`, every loop of `mergeResources` -/
def copyAll {κ β γ : Type} [DecidableEq κ] (f : β → γ) (it : List (κ × β)) (dst : FMap κ γ) : FMap κ γ :=
  it.foldl (fun m e => m.set e.1 (f e.2)) dst

/-- `for k, v := range src { if w, ok := f(v); ok { dst[k] = w } }` —
`NewCustomEncodingFromGlyphs` (glyph names without a Unicode value are skipped) -/
def copySome {κ β γ : Type} [DecidableEq κ] (f : β → Option γ) (it : List (κ × β)) (dst : FMap κ γ) : FMap κ γ :=
  it.foldl (fun m e => match f e.2 with | some w => m.set e.1 w | none => m) dst

/-- first value stored under `k` in an association list -/
def assocGet {κ β : Type} [DecidableEq κ] : List (κ × β) → κ → Option β
  | [], _ => none
  | (a, v) :: rest, k => if k = a then some v else assocGet rest k

/-- `delete(counters, k)` on a map kept as an association list -/
def eraseKey (m : List (Int × Int)) (k : Int) : List (Int × Int) := m.filter fun e => e.1 ≠ k

/-- `for lvl := range counters { if lvl > level { delete(counters, lvl) } }` —
`writeMarkdownListItem`, `(*Reader).Document` (docx), `createListChunk` (rag): deleting from
a map while ranging over it is allowed in Go; `it` is the order in which the keys present when
the loop starts are visited -/
def deleteDeeper (level : Int) (it : List (Int × Int)) (m : List (Int × Int)) : List (Int × Int) :=
  it.foldl (fun m e => if e.1 > level then eraseKey m e.1 else m) m

/-- `counters[k]` with Go's zero value for a missing key -/
def countOf (m : List (Int × Int)) (k : Int) : Int :=
  match assocGet m k with
  | some c => c
  | none => 0

/-! ## text/extractor.go: mergeResources -/

/-- a resources value: a sub-dictionary (`/Font`, `/XObject`, …: name ↦ object id) or anything else -/
inductive RVal where
  | dict (entries : List (List Nat × Nat))
  | other (id : Nat)
  deriving DecidableEq, Repr

/-- a merged value: sub-dictionaries become maps -/
inductive MVal where
  | dict (m : FMap (List Nat) Nat)
  | other (id : Nat)

/-- the value stored for one child entry `(k, v)`:
`if parentSub, ok := parent[k].(Dict); ok { if childSub, ok := v.(Dict); ok { merged sub } }; merged[k] = v`;
`itP` / `itC` are the iterations of the two sub-dictionaries -/
def mergeEntry (parentAt : Option RVal) (v : RVal)
    (itP itC : List (List Nat × Nat)) : MVal :=
  match parentAt, v with
  | some (.dict _), .dict _ => .dict (copyAll id itC (copyAll id itP FMap.empty))
  | _, .dict c => .dict (copyAll id c FMap.empty)
  | _, .other i => .other i

def toMVal : RVal → MVal
  | .dict c => .dict (copyAll id c FMap.empty)
  | .other i => .other i

/-- `(*Extractor).mergeResources(parent, child)` with both non-nil: `itParent`, `itChild` are the
iterations of the two dictionaries, `subP k` / `subC k` those of the sub-dictionaries stored under
`k`; `parent[k]` inside the second loop is a map look-up -/
def mergeResourcesVia (parent itParent itChild : List (List Nat × RVal))
    (subP subC : List Nat → List (List Nat × Nat)) : FMap (List Nat) MVal :=
  itChild.foldl (fun m e => m.set e.1 (mergeEntry (assocGet parent e.1) e.2 (subP e.1) (subC e.1)))
    (copyAll toMVal itParent FMap.empty)

/-- the declared sub-dictionary under `k`, if there is one -/
def subOf (d : List (List Nat × RVal)) (k : List Nat) : List (List Nat × Nat) :=
  match assocGet d k with
  | some (.dict c) => c
  | _ => []

def mergeResources (parent child : List (List Nat × RVal)) : FMap (List Nat) MVal :=
  mergeResourcesVia parent parent child (subOf parent) (subOf child)

/-- the same from the declared contents (`parent`, `child` in any fixed order) — the
specification: child entries win, sub-dictionaries present on both sides are overlaid -/
def mergeResourcesSpec (parent child : List (List Nat × RVal)) (k : List Nat) : Option MVal :=
  match assocGet child k with
  | some (.dict c) =>
    (match assocGet parent k with
     | some (.dict p) => some (.dict (copyAll id c (copyAll id p FMap.empty)))
     | _ => some (.dict (copyAll id c FMap.empty)))
  | some (.other i) => some (.other i)
  | none => (assocGet parent k).map toMVal

/-! ## majority votes over a counting map -/

/-- `m[k] += w` on an association list (insertion order kept; it is irrelevant) -/
def bump : List (Int × Int) → Int → Int → List (Int × Int)
  | [], k, w => [(k, w)]
  | (a, c) :: rest, k, w => if a = k then (a, c + w) :: rest else (a, c) :: bump rest k w

/-- `for _, x := range xs { counts[bucket(x)] += weight(x) }` -/
def countInto (xs : List (Int × Int)) : List (Int × Int) :=
  xs.foldl (fun m x => bump m x.1 x.2) []

/-- one item of the numbering loop of `createListChunk` (ordered list): the counters map and
`lastLevel` before, the item's level; `iter` says in which order Go ranges over the map at that
moment.  Result: the state after, and the number the item gets. -/
def numberStep (iter : List (Int × Int) → List (Int × Int)) (st : List (Int × Int) × Int) (lvl : Int) :
    (List (Int × Int) × Int) × Int :=
  let m1 := if lvl ≤ st.2 then deleteDeeper lvl (iter st.1) st.1 else st.1
  let m2 := bump m1 lvl 1
  ((m2, lvl), countOf m2 lvl)

/-- the numbers of the items of an ordered list whose items have the given levels
(`levelCounters := map[int]int{}`, `lastLevel := -1`) -/
def numberFrom (iter : List (Int × Int) → List (Int × Int)) : List (Int × Int) × Int → List Int → List Int
  | _, [] => []
  | st, lvl :: rest => let r := numberStep iter st lvl; r.2 :: numberFrom iter r.1 rest

def numberItems (iter : List (Int × Int) → List (Int × Int)) (levels : List Int) : List Int :=
  numberFrom iter ([], -1) levels

/-- one round of `for bucket, count := range counts { if count > maxCount || (count == maxCount
&& bucket < mostCommonBucket) { maxCount = count; mostCommonBucket = bucket } }`
(after ce3fc9b); the accumulator is `(maxCount, mostCommonBucket)` -/
def voteStep (acc : Int × Int) (e : Int × Int) : Int × Int :=
  if e.2 > acc.1 ∨ (e.2 = acc.1 ∧ e.1 < acc.2) then (e.2, e.1) else acc

/-- the vote loop, started as the code starts it (`maxCount := 0`, bucket `0` / `AlignUnknown`) -/
def vote (it : List (Int × Int)) : Int × Int := it.foldl voteStep (0, 0)

/-- the loop before ce3fc9b: `if count > maxCount` only -/
def voteStepPinned (acc : Int × Int) (e : Int × Int) : Int × Int :=
  if e.2 > acc.1 then (e.2, e.1) else acc

def votePinned (it : List (Int × Int)) : Int × Int := it.foldl voteStepPinned (0, 0)

/-- `int(x / tolerance)` for an integer coordinate and an integer tolerance: Go's conversion
truncates toward zero -/
def bucketOf (tol : Int) (x : Int) : Int := Int.tdiv x tol

/-- `(*ParagraphDetector).detectLeftMargin`: `xs` are the lines' `BBox.X` (integers), the result is
the winning bucket (the code returns `float64(bucket) * 5`); `it` is the iteration of `marginCounts` -/
def detectLeftMarginVia (xs : List Int) (it : List (Int × Int)) : Int :=
  if xs.isEmpty then 0 else (vote it).2

def marginCounts (xs : List Int) : List (Int × Int) := countInto (xs.map fun x => (bucketOf 5 x, 1))

def detectLeftMargin (xs : List Int) : Int := detectLeftMarginVia xs (marginCounts xs)

/-- `(*ParagraphDetector).detectDominantAlignment`: `as` are the lines' alignments as their enum values -/
def alignCounts (as : List Int) : List (Int × Int) := countInto (as.map fun a => (a, 1))

def detectDominantAlignmentVia (as : List Int) (it : List (Int × Int)) : Int :=
  if as.isEmpty then 0 else (vote it).2

def detectDominantAlignment (as : List Int) : Int := detectDominantAlignmentVia as (alignCounts as)

/-- `(*HeadingDetector).detectBodyFontSize`: one entry per paragraph, `(AverageFontSize in half
points, len(Lines))`; bucket = `int(size / 0.5)` = the size in half points; `none` = the default 12.0 -/
def fontCounts (ps : List (Int × Int)) : List (Int × Int) := countInto ps

def detectBodyFontSizeVia (ps : List (Int × Int)) (it : List (Int × Int)) : Option Int :=
  if ps.isEmpty then none else some (vote it).2

def detectBodyFontSize (ps : List (Int × Int)) : Option Int := detectBodyFontSizeVia ps (fontCounts ps)

/-! ## layout/line.go: calculateAdaptiveTolerance -/

/-- the result of `calculateAdaptiveTolerance`, symbolically -/
inductive Tol where
  | dflt                 -- no fragments: 2.0
  | std                  -- avgHeight * LineHeightTolerance
  | floor                -- 0.15
  | gap (g : Int)        -- minInterLineGap * 0.2, `g` in tenths
  deriving DecidableEq, Repr

/-- `yPositions[roundedY] = true` — the key set, first occurrences in fragment order -/
def ySet (ys : List Int) : List Int := ys.eraseDups

/-- `for i := 1; i < len(u); i++ { gap := abs(u[i]-u[i-1]); if gap > 0.1 { gaps = append(gaps, gap) } }`
(positions in tenths, so `0.1` is `1`) -/
def gapsOf : List Int → List Int
  | a :: b :: rest =>
    let g := (b - a).natAbs
    if (g : Int) > 1 then (g : Int) :: gapsOf (b :: rest) else gapsOf (b :: rest)
  | _ => []

/-- everything after the gaps are known: the 10th percentile, the comparison with half the average
height (`minGap < avgHeight * 0.5` is `2 * n * g < total` with heights in tenths), the floor -/
def decide10 (sortedGaps : List Int) (totalH : Int) (n : Nat) : Tol :=
  match sortedGaps[sortedGaps.length / 10]? with
  | none => .std
  | some g =>
    if 2 * (n : Int) * g < totalH ∧ g > 1 then
      (if 2 * g < 15 then .floor else .gap g)
    else .std

/-- `(*LineDetector).calculateAdaptiveTolerance`: fragments are `(int(Y*10), Height in tenths)`;
`it` is the iteration of the `yPositions` map; `sortY`, `sortG` are the two `sort.Float64s` calls -/
def toleranceVia (sortY sortG : List Int → List Int) (frags : List (Int × Int)) (it : List Int) : Tol :=
  if frags.isEmpty then .dflt
  else if (ySet (frags.map Prod.fst)).length < 3 then .std
  else
    let gaps := gapsOf (sortY it)
    if gaps.isEmpty then .std
    else decide10 (sortG gaps) ((frags.map Prod.snd).foldl (· + ·) 0) frags.length

def tolerance (frags : List (Int × Int)) : Tol :=
  toleranceVia sortInts sortInts frags (ySet (frags.map Prod.fst))

/-- the seeded change r4m1: the distinct positions are not sorted before the gaps are taken -/
def toleranceUnsorted (frags : List (Int × Int)) (it : List Int) : Tol :=
  toleranceVia id sortInts frags it

/-! ## first match in a map (epubdoc/navigation.go) -/

/-- `for _, item := range manifest { if p(item) { return &item } }; return nil` — the pinned tree -/
def firstMatch {κ β : Type} (p : β → Bool) (it : List (κ × β)) : Option (κ × β) := it.find? fun e => p e.2

/-- after the repair: the keys of the matching items are collected, sorted, and the item under
the smallest one is returned -/
def minMatch {κ β : Type} [DecidableEq κ] (sortK : List κ → List κ) (p : β → Bool) (it : List (κ × β)) :
    Option (κ × β) :=
  match sortK ((it.filter fun e => p e.2).map Prod.fst) with
  | [] => none
  | k :: _ => (assocGet it k).map fun v => (k, v)

/-! ## lists built while ranging over a map (reader/image.go, layout/header_footer.go) -/

/-- `for name, x := range xobjects { if img, ok := f(name, x); ok { images = append(images, img) } }`
— the pinned tree: the list is in iteration order -/
def collectPinned {κ β γ : Type} (f : κ → β → Option γ) (it : List (κ × β)) : List γ :=
  it.filterMap fun e => f e.1 e.2

/-- after the repair: the keys are sorted first (`sortK` any sort of the keys), then visited in order -/
def collectSorted {κ β γ : Type} [DecidableEq κ] (sortK : List κ → List κ) (f : κ → β → Option γ)
    (it : List (κ × β)) : List γ :=
  (sortK (it.map Prod.fst)).filterMap fun k => (assocGet it k).bind (f k)

/-- stable insertion (an element goes before the later ones of equal score) into a list ordered by
descending score — `sort.SliceStable(regions, conf_i > conf_j)` -/
def insertDesc {γ : Type} (score : γ → Int) (x : γ) : List γ → List γ
  | [] => [x]
  | y :: ys => if score y > score x then y :: insertDesc score x ys else x :: y :: ys

def stableDesc {γ : Type} (score : γ → Int) : List γ → List γ
  | [] => []
  | x :: xs => insertDesc score x (stableDesc score xs)

/-- `findRepeatingPatterns` after the repair: groups visited in key order, regions stably sorted
by confidence -/
def regionsSorted {κ β γ : Type} [DecidableEq κ] (sortK : List κ → List κ) (f : κ → β → Option γ)
    (score : γ → Int) (it : List (κ × β)) : List γ :=
  stableDesc score (collectSorted sortK f it)

end Tabula.MapOrder
