import TabulaModel.Model.Builder
/-
Model of what a PROCESS that uses tabula holds between calls, for C03 ("the result of an
extraction depends only on the document bytes and the options … whether it runs alone, after
any other extractions, …").  Core Lean only.

The regenerated facts of C03 say that no library package keeps mutable state at package level.
What is left is reachable from the values a caller holds:

* a `tabula.Extractor` — its `ExtractOptions` (copied by every configuration method,
  `Model/OptHeap.lean` shows the copy at the level of Go slices), the reader it opened or was
  given, and `warnings`, the list the terminal operations of one Extractor append to;
* a `reader.Reader` — object cache, object-stream cache, page tree (`readCached` below; the
  byte-level reader is `Model/Xref.lean` / `Model/Reader.lean`);
* a `text.Extractor` — graphics state, font table, resources: created per page by
  `(*Reader).extractTextWithFragments` and dropped when the page is done, so nothing of it
  survives a call (`Model/FormFonts.lean`, `Model/XDoc.lean` model one such run).

A process is a list of FAMILIES: one per `Open(f)` / `FromReader(r)` base, each the `Store` of
`Model/Builder.lean` (extractors derived from the base and the readers they opened) plus the
warning counts.  A call names its family and its extractor.
-/
namespace Tabula.Process
open Tabula.Builder

/-- one document the process works on -/
structure Doc where
  world : World            -- does it open; how many pages
  fmt : Fmt := .pdf        -- the format its extension promises
  fromReader : Bool := false   -- base made by `FromReader(r)` (reader owned by the caller) instead of `Open(f)`
  messy : List Bool := []  -- per page index: `checkMessyPDF` finds traits when this page is the first processed
  deriving Repr

/-- the base extractor of a family: `Open(filename)` or `FromReader(r)` -/
def Doc.base (d : Doc) : Ext :=
  if d.fromReader then { hasFile := false, reader := some 0, owns := false, opened := true }
  else { format := d.fmt }

/-- the store of a family before any call -/
def Doc.store0 (d : Doc) : Store :=
  if d.fromReader then readerBase else openBaseF d.fmt

/-- a family: the extractors derived from one base, with `len(e.warnings)` of each -/
structure Fam where
  st : Store
  warns : List Nat
  deriving DecidableEq, Repr

def Doc.fam0 (d : Doc) : Fam := { st := d.store0, warns := [0] }

/-- the terminal operations that run a page loop with `checkMessyPDF` and return `e.warnings`:
`Text`, `Fragments`, `Document` and what is built on `Document` -/
def returnsWarnings : Term → Bool
  | .text | .fragments | .document | .chunks | .toMarkdown | .chunksWithConfig => true
  | _ => false

/-- the warnings ONE run of the page loop produces: the messy-PDF warning when the first page
processed shows the traits -/
def loopWarnings (d : Doc) : Res → Nat
  | .pages (p :: _) => match d.messy[p]? with
    | some true => 1
    | _ => 0
  | _ => 0

/-- did the operation get as far as its page loop (on the error paths before it the operations
return `nil` warnings) -/
def reachedLoop : Res → Bool
  | .pages _ => true
  | _ => false

/-- an answer: the result class of `Model/Builder.lean` and the number of warnings returned -/
abbrev Ans := Res × Nat

/-- a terminal operation on extractor `i` of a family, after 3adabc2: the page loop starts its
own warning list (`e.resetWarnings()`) -/
def famTerminal (d : Doc) (k : Term) (f : Fam) (i : Nat) : Fam × Ans :=
  let (s, r) := terminal d.world k f.st i
  if returnsWarnings k then
    if reachedLoop r then
      let n := loopWarnings d r
      ({ st := s, warns := f.warns.set i n }, (r, n))
    else match r with
      | .whole => ({ st := s, warns := f.warns }, (r, match f.warns[i]? with | some n => n | none => 0))
      | _ => ({ st := s, warns := f.warns }, (r, 0))
  else ({ st := s, warns := f.warns }, (r, 0))

/-- the same before 3adabc2: the loop appends to whatever the Extractor holds already -/
def famTerminalOld (d : Doc) (k : Term) (f : Fam) (i : Nat) : Fam × Ans :=
  let (s, r) := terminal d.world k f.st i
  if returnsWarnings k then
    if reachedLoop r then
      let n := (match f.warns[i]? with | some n => n | none => 0) + loopWarnings d r
      ({ st := s, warns := f.warns.set i n }, (r, n))
    else match r with
      | .whole => ({ st := s, warns := f.warns }, (r, match f.warns[i]? with | some n => n | none => 0))
      | _ => ({ st := s, warns := f.warns }, (r, 0))
  else ({ st := s, warns := f.warns }, (r, 0))

/-- a configuration method: `clone` copies the warnings -/
def famDerive (f : Fam) (i : Nat) (c : BCall) : Fam × Ans :=
  let (s, r) := deriveOp f.st i c
  ({ st := s, warns := match f.warns[i]? with | some n => f.warns ++ [n] | none => f.warns }, (r, 0))

/-- one call on a family -/
def famStep (d : Doc) (f : Fam) : Op → Fam × Ans
  | .derive i c => famDerive f i c
  | .term i k => famTerminal d k f i
  | .nonTerm i k => let (s, r) := nonTerminal d.world k f.st i; ({ f with st := s }, (r, 0))
  | .close i => let (s, r) := closeOp f.st i; ({ f with st := s }, (r, 0))

def famStepOld (d : Doc) (f : Fam) : Op → Fam × Ans
  | .term i k => famTerminalOld d k f i
  | op => famStep d f op

def famRun (d : Doc) : Fam → List Op → List Ans
  | _, [] => []
  | f, op :: ops => let (f1, a) := famStep d f op; a :: famRun d f1 ops

def famRunOld (d : Doc) : Fam → List Op → List Ans
  | _, [] => []
  | f, op :: ops => let (f1, a) := famStepOld d f op; a :: famRunOld d f1 ops

def famExec (d : Doc) : Fam → List Op → Fam
  | f, [] => f
  | f, op :: ops => famExec d (famStep d f op).1 ops

/-! ## the process -/

/-- a call of the process: which family, which operation -/
structure Call where
  fam : Nat
  op : Op
  deriving DecidableEq, Repr

/-- the process state: one family per document -/
abbrev Proc := List Fam

def proc0 (docs : List Doc) : Proc := docs.map Doc.fam0

/-- one call: only the named family is touched; a call on a family that does not exist answers
`bad` -/
def procStep (docs : List Doc) (p : Proc) (c : Call) : Proc × Ans :=
  match docs[c.fam]?, p[c.fam]? with
  | some d, some f => let (f1, a) := famStep d f c.op; (p.set c.fam f1, a)
  | _, _ => (p, (.bad, 0))

def procRun (docs : List Doc) : Proc → List Call → List Ans
  | _, [] => []
  | p, c :: cs => let (p1, a) := procStep docs p c; a :: procRun docs p1 cs

def procExec (docs : List Doc) : Proc → List Call → Proc
  | p, [] => p
  | p, c :: cs => procExec docs (procStep docs p c).1 cs

/-- the calls of a schedule that go to family `d`, in order -/
def project (d : Nat) (cs : List Call) : List Op := (cs.filter fun c => c.fam = d).map (·.op)

/-- the answers of a schedule that belong to family `d`, in order -/
def projectAns (d : Nat) : List Call → List Ans → List Ans
  | c :: cs, a :: as => if c.fam = d then a :: projectAns d cs as else projectAns d cs as
  | _, _ => []

/-- the answer a call gets when its extractor's chain of configuration calls is built on a fresh
base and the operation is run with nothing else going on: a function of the document and the
chain alone (`Builder.staticAnswer` for the result class; the warnings of one loop) -/
def aloneAnswer (d : Doc) (L : List (List BCall)) (op : Op) : Ans :=
  let r := staticAnswer d.world d.base L op
  match op with
  | .term _ k =>
    if returnsWarnings k then (r, loopWarnings d r) else (r, 0)
  | _ => (r, 0)

/-- the answers of a whole program of one family, each predicted from the chain of calls behind
its receiver (the lineage grows with the derivations of the program) -/
def aloneRun (d : Doc) : List (List BCall) → List Op → List Ans
  | _, [] => []
  | L, op :: ops => aloneAnswer d L op :: aloneRun d (lineage L [op]) ops

/-! ## a reader's caches -/

/-- `(*Reader).GetObject`-style look-up through a cache kept on the reader: the cached value if
there is one, else the value the file gives (`spec`), which is then cached.  `spec n = none`
stands for a look-up that fails (failures are not cached). -/
def readCached {κ β : Type} [DecidableEq κ] (spec : κ → Option β) (cache : List (κ × β)) (n : κ) :
    List (κ × β) × Option β :=
  match cache.find? (fun e => e.1 = n) with
  | some e => (cache, some e.2)
  | none => match spec n with
    | some v => ((n, v) :: cache, some v)
    | none => (cache, none)

/-- an access to a reader: a look-up, or `ClearCache` -/
inductive Access (κ : Type) where
  | get (n : κ)
  | clear
  deriving Repr

def accessStep {κ β : Type} [DecidableEq κ] (spec : κ → Option β) (cache : List (κ × β)) :
    Access κ → List (κ × β) × Option β
  | .get n => readCached spec cache n
  | .clear => ([], none)

/-- what the file alone says an access returns -/
def accessSpec {κ β : Type} (spec : κ → Option β) : Access κ → Option β
  | .get n => spec n
  | .clear => none

def accessRun {κ β : Type} [DecidableEq κ] (spec : κ → Option β) :
    List (κ × β) → List (Access κ) → List (κ × β) × List (Option β)
  | c, [] => (c, [])
  | c, a :: as =>
    let (c1, r) := accessStep spec c a
    let (c2, rs) := accessRun spec c1 as
    (c2, r :: rs)

end Tabula.Process
