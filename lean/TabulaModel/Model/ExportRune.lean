import TabulaModel.Model.ExportDecode
import TabulaModel.Model.CsvRune
/-
`(*Exporter).exportCSV / Export / ExportToString` for EVERY value of `ExportConfig.CSVDelimiter`
(a Go `rune`): `Model/Export.lean` follows the one-byte branch of `encoding/csv` only and reports
every delimiter ≥ 0x80 as invalid, which is not what the code does — `csv.Writer` accepts any
valid rune except NUL, `"`, CR, LF and U+FFFD and writes it as its UTF-8 encoding
(`Model/CsvRune.lean`).  Here the export through that writer, and the way back through the
RFC 4180 reader for a multi-byte delimiter.  For delimiters below 0x80 (and for invalid ones) the
functions coincide with those of `Model/ExportJson.lean` (`C14Rune.export_rune_agrees`).

A negative rune (Go's `rune` is `int32`) is as invalid as one above U+10FFFF; the wire format of
the correspondence maps it to 0x110000.  Core Lean only.
-/
namespace Tabula.Export
open Tabula.Csv (Str)

/-- `(*Exporter).exportCSV` as text for any delimiter rune.
`none` = the error `csv: invalid field or comment delimiter` of the first `Write`. -/
def exportCSVR (marshal : MapSV → Str) (cfg : Config) (chunks : List Chunk) : Option Str :=
  let recs := exportCSVRecords marshal cfg chunks
  if recs = [] then some []
  else if Tabula.Csv.validDelimR (delimiter cfg) then
    some (Tabula.Csv.csvWriteR Tabula.Csv.goExtra (Tabula.Csv.runeBytes (delimiter cfg)) recs)
  else none

/-- `(*Exporter).Export` into a buffer = `ExportToString`, any delimiter rune; `none` = error -/
def exportToStringR (cfg : Config) (chunks : List Chunk) : Option Str :=
  match cfg.format with
  | .jsonl => some (exportJSONLText cfg chunks)
  | .json => some (exportJSONText cfg chunks)
  | .csv | .tsv => exportCSVR goMarshal cfg chunks
  | .other => none

/-- the whole way back (`decodeExport`) with the reader for the configured delimiter rune -/
def decodeExportR (cfg : Config) (text : Str) : Option (List Chunk) :=
  match cfg.format with
  | .json =>
    (match Tabula.Json.jsonRead text with
     | some (.arr rs) => decodeRecords rs
     | _ => none)
  | .jsonl => (Tabula.Json.jsonlRead text).bind decodeRecords
  | .csv | .tsv =>
    if cfg.includeHeader then
      (match Tabula.Csv.csvReadR (Tabula.Csv.runeBytes (delimiter cfg)) text with
       | some (h :: rows) => decodeTable cfg h rows
       | _ => none)
    else none
  | .other => none

end Tabula.Export
