import TabulaModel.Model.CSParser
/-
The two parser models of property C06, instrumented: every function of the
recursive knot returns, besides its result, the PEAK of `p.depth` during the
call - the largest number of arrays and dictionaries open at once, which is the
number of `parseArray`/`parseDict` activations on the Go stack at that moment
(each activation holds exactly one `enter()`; the deferred `p.depth--` gives it
back).  Nothing else is changed: the code is the code of Model/Parser.lean and
Model/CSParser.lean arm by arm, and `Lemmas/PdfBound.lean` proves that the first
component IS the uninstrumented parser.  Core Lean only.
-/
namespace Tabula.Pdf

mutual
/-- `parseObject` with the peak of `p.depth` (the depth at entry when no container is opened) -/
def parseObjectT : Nat → Nat → PState → Except PErr (Obj × PState) × Nat
  | 0, d, _ => (.error .err, d)
  | f + 1, d, s =>
    match s.cur with
    | none => (.error .err, d)
    | some .eof => (if s.err then .error .err else .error .eof, d)
    | some (.keyword v) =>
      (if v = kwNull then .ok (.null, s.next)
       else if v = kwTrue then .ok (.bool true, s.next)
       else if v = kwFalse then .ok (.bool false, s.next)
       else .error .err, d)
    | some (.integer v) => (parseNumber s v, d)
    | some (.real v) =>
      (match parseReal v with
       | none => .error .err
       | some o => .ok (o, s.next), d)
    | some (.str v) => (.ok (.str v, s.next), d)
    | some (.hexstr v) => (.ok (.str (hexPairs v), s.next), d)
    | some (.name v) => (.ok (.name v, s.next), d)
    | some .arrStart =>
      if maxNestingDepth ≤ d then (.error .err, d) else parseArrayT f (d + 1) s.next []
    | some .dictStart =>
      if maxNestingDepth ≤ d then (.error .err, d) else parseDictT f (d + 1) s.next []
    | some _ => (.error .err, d)
/-- `parseArray` with the peak of `p.depth` (at least `d`: this array is open) -/
def parseArrayT : Nat → Nat → PState → List Obj → Except PErr (Obj × PState) × Nat
  | 0, d, _, _ => (.error .err, d)
  | f + 1, d, s, acc =>
    match s.cur with
    | none => (.error .err, d)
    | some .arrEnd => (.ok (.arr acc, s.next), d)
    | some .eof => (.error .err, d)
    | some _ =>
      match parseObjectT f d s with
      | (.error _, p) => (.error .err, p)
      | (.ok (o, s'), p) =>
        ((parseArrayT f d s' (acc ++ [o])).1, max p (parseArrayT f d s' (acc ++ [o])).2)
/-- `parseDict` with the peak of `p.depth` -/
def parseDictT : Nat → Nat → PState → List (Str × Obj) → Except PErr (Obj × PState) × Nat
  | 0, d, _, _ => (.error .err, d)
  | f + 1, d, s, acc =>
    match s.cur with
    | none => (.error .err, d)
    | some .dictEnd => (.ok (.dict acc, s.next), d)
    | some .eof => (.error .err, d)
    | some (.name k) =>
      match parseObjectT f d s.next with
      | (.error _, p) => (.error .err, p)
      | (.ok (o, s'), p) =>
        ((parseDictT f d s' (dictSet acc k o)).1, max p (parseDictT f d s' (dictSet acc k o)).2)
    | some _ => (.error .err, d)
end

/-- `core.NewParser(r).ParseObject()` with the peak of `p.depth` -/
def coreParseT (inp : Str) : Except PErr (Obj × PState) × Nat :=
  parseObjectT (fuelFor inp) 0 (newParser inp)

namespace CS

mutual
/-- `parseOperand` with the peak of `p.depth` -/
def parseOperandT : Nat → Nat → Str → Option (Obj × Str) × Nat
  | 0, d, _ => (none, d)
  | f + 1, d, inp =>
    match skipSpace inp with
    | [] => (none, d)
    | c :: r =>
      if c = 45 ∨ c = 43 ∨ c = 46 ∨ isDigit c then (parseNumber (c :: r), d)
      else if c = 40 then
        (match strLoop 1 r with
         | none => none
         | some (v, r') => some (.str v, r'), d)
      else if c = 60 ∧ r ≠ [] ∧ r.head? ≠ some 60 then
        (match hexLoop r with
         | none => none
         | some (v, r') => some (.str v, r'), d)
      else if c = 47 then (some (.name (nameLoop r).1, (nameLoop r).2), d)
      else if c = 91 then
        if maxNestingDepth ≤ d then (none, d) else parseArrayT f (d + 1) r []
      else if c = 60 ∧ r.head? = some 60 then
        if maxNestingDepth ≤ d then (none, d) else parseDictT f (d + 1) (r.drop 1) []
      else if c = 116 ∨ c = 102 ∨ c = 110 then
        (let t := regularToken (c :: r)
         if t = kwTrue then some (.bool true, (c :: r).drop t.length)
         else if t = kwFalse then some (.bool false, (c :: r).drop t.length)
         else if t = kwNull then some (.null, (c :: r).drop t.length)
         else none, d)
      else (none, d)
/-- `parseArray` with the peak of `p.depth` -/
def parseArrayT : Nat → Nat → Str → List Obj → Option (Obj × Str) × Nat
  | 0, d, _, _ => (none, d)
  | f + 1, d, inp, acc =>
    if inp = [] then (some (.arr acc, []), d) else
    match skipSpace inp with
    | [] => (none, d)
    | c :: r =>
      if c = 93 then (some (.arr acc, r), d)
      else
        match parseOperandT f d (c :: r) with
        | (none, p) => (none, p)
        | (some (o, r'), p) =>
          ((parseArrayT f d r' (acc ++ [o])).1, max p (parseArrayT f d r' (acc ++ [o])).2)
/-- `parseDict` with the peak of `p.depth` -/
def parseDictT : Nat → Nat → Str → List (Str × Obj) → Option (Obj × Str) × Nat
  | 0, d, _, _ => (none, d)
  | f + 1, d, inp, acc =>
    if inp = [] then (some (.dict acc, []), d) else
    match skipSpace inp with
    | [] => (none, d)
    | c :: r =>
      if c = 62 ∧ r.head? = some 62 then (some (.dict acc, r.drop 1), d)
      else if c ≠ 47 then (none, d)
      else
        match parseOperandT f d (nameLoop r).2 with
        | (none, p) => (none, p)
        | (some (o, r'), p) =>
          ((parseDictT f d r' (dictSet acc (nameLoop r).1 o)).1,
            max p (parseDictT f d r' (dictSet acc (nameLoop r).1 o)).2)
end

/-- `parseLoop` with the peak of `p.depth` over all operands (`pk`: the peak so far) -/
def parseLoopT : Nat → Nat → Str → List Obj → List Operation → Nat → Option (List Operation) × Nat
  | 0, _, _, _, _, pk => (none, pk)
  | n + 1, fuel, inp, stack, ops, pk =>
    match skipSpace inp with
    | [] => (some ops, pk)
    | c :: r =>
      if (isLetter c && !isKeywordObject (regularToken (c :: r))) || c = 39 || c = 34 then
        if (opName false (c :: r)).1 = [] then (none, pk)
        else parseLoopT n fuel (opName false (c :: r)).2 []
          (ops ++ [{ op := (opName false (c :: r)).1, operands := stack }]) pk
      else
        match parseOperandT fuel 0 (c :: r) with
        | (none, p) => (none, max pk p)
        | (some (o, r'), p) => parseLoopT n fuel r' (stack ++ [o]) ops (max pk p)

/-- `contentstream.NewParser(b).Parse()` with the peak of `p.depth` -/
def csParseT (inp : Str) : Option (List Operation) × Nat :=
  parseLoopT (inp.length + 2) (fuelFor inp) inp [] [] 0

end CS
end Tabula.Pdf
