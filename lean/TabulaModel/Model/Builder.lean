import TabulaModel.Model.PageSel
/-
Model of the fluent builder and of the reader life cycle of `tabula.Extractor`
(options.go, extractor.go: clone, Pages, PageRange, Exclude*, ByColumn,
PreserveLayout, JoinParagraphs, ensureReader, Close, and the
`ensureReader … defer e.Close()` frame of every terminal operation), as the code
is after the C10 fixes.  Core Lean only.

Go pointers become indices: an `Extractor` value is an entry of `Store.exts`, a
`*reader.Reader` is an index into `Store.readers`, whose entry says whether the
underlying `*os.File` is still open.  `fdCount` is the number of open files.
-/
namespace Tabula.Builder
open Tabula.PageSel

/-- `tabula.ExtractOptions` -/
structure Options where
  pages : List Int := []
  excludeHeaders : Bool := false
  excludeFooters : Bool := false
  byColumn : Bool := false
  preserveLayout : Bool := false
  joinParagraphs : Bool := false
  deriving DecidableEq, Repr

/-- `defaultOptions()` -/
def defaultOptions : Options := {}

/-- `ExtractOptions.clone` (deep copy: a list is a value) -/
def Options.clone (o : Options) : Options := { o with pages := o.pages }

/-- `format.Format` -/
inductive Fmt where
  | pdf | docx | odt | xlsx | pptx | html | epub | unknown
  deriving DecidableEq, Repr

/-- the fields of `tabula.Extractor` that C10 talks about -/
structure Ext where
  opts : Options := {}
  err : Bool := false            -- `e.err != nil`
  hasFile : Bool := true         -- `e.filename != ""`
  reader : Option Nat := none    -- `e.reader` (index into `Store.readers`)
  owns : Bool := false           -- `e.ownsReader`
  opened : Bool := false         -- `e.readerOpened`
  format : Fmt := .pdf           -- `e.format` (`format.Detect(filename)`; `format.PDF` for `FromReader`)
  deriving DecidableEq, Repr

/-- `(*Extractor).clone` after the fix: a reader that `e` opened from its file
stays with `e`; the copy starts unopened and opens its own on demand.  Readers
handed in by the caller (`FromReader`, `ownsReader = false`) and readers that
cannot be re-opened (`filename == ""`) are shared as before. -/
def Ext.clone (e : Ext) : Ext :=
  if e.opened && !(e.owns && e.hasFile) then { e with opts := e.opts.clone }
  else { e with opts := e.opts.clone, reader := none, owns := false, opened := false }

/-- `(*Extractor).clone` of the pinned tree: every field is copied, so the copy
also "owns" (and will close) the parent's reader -/
def Ext.cloneOld (e : Ext) : Ext := { e with opts := e.opts.clone }

/-- the `for i := start; i <= end; i++` loop of `PageRange` -/
def rangeList (s e : Int) : List Int :=
  (List.range (e - s + 1).toNat).map fun (i : Nat) => s + (i : Int)

/-- the configuration methods -/
inductive BCall where
  | pages (ps : List Int)
  | pageRange (s e : Int)
  | excludeHeaders | excludeFooters | excludeHeadersAndFooters
  | joinParagraphs | byColumn | preserveLayout
  deriving DecidableEq, Repr

/-- apply a configuration method to the fresh clone -/
def applyCall (c : BCall) (e : Ext) : Ext :=
  match c with
  | .pages ps => { e with opts := { e.opts with pages := e.opts.pages ++ ps } }
  | .pageRange s t =>
    -- after the fix an inverted range is an error of the derived extractor
    if s > t then { e with err := true }
    else { e with opts := { e.opts with pages := e.opts.pages ++ rangeList s t } }
  | .excludeHeaders => { e with opts := { e.opts with excludeHeaders := true } }
  | .excludeFooters => { e with opts := { e.opts with excludeFooters := true } }
  | .excludeHeadersAndFooters =>
    { e with opts := { e.opts with excludeHeaders := true, excludeFooters := true } }
  | .joinParagraphs => { e with opts := { e.opts with joinParagraphs := true } }
  | .byColumn => { e with opts := { e.opts with byColumn := true } }
  | .preserveLayout => { e with opts := { e.opts with preserveLayout := true } }

/-- `PageRange` of the pinned tree (an inverted range appends nothing, which
then means "all pages") -/
def applyCallOld (c : BCall) (e : Ext) : Ext :=
  match c with
  | .pageRange s t => { e with opts := { e.opts with pages := e.opts.pages ++ rangeList s t } }
  | c => applyCall c e

/-- a configuration method: clone, then modify the clone -/
def Ext.derive (e : Ext) (c : BCall) : Ext := applyCall c e.clone

/-- the file behind `Open(filename)`, as far as the life cycle is concerned -/
structure World where
  openOk : Bool            -- validateFormat and reader.Open succeed
  pageCount : Option Nat   -- reader.PageCount() on an open reader
  deriving DecidableEq, Repr

/-- what the code outside C10 says about the file: `os.Open`, `format.DetectFromReader`
(C20's subject) and the parser of the extension's format -/
structure FileFacts where
  present : Bool            -- `os.Open(filename)` succeeds
  detected : Option Fmt     -- `format.DetectFromReader`; `none` = it returned an error
  parseOk : Bool            -- `reader.Open` / `docx.Open` / … of the extension's format succeeds
  deriving DecidableEq, Repr

/-- `(*Extractor).validateFormat`: the file opens, detection does not fail, and the detected
format is unknown or the one the extension promised -/
def validateFormat (f : FileFacts) (fmt : Fmt) : Bool :=
  f.present && (match f.detected with
    | none => false
    | some .unknown => true
    | some d => d == fmt)

/-- the part of `ensureReader` after the `readerOpened` / `filename` tests: `validateFormat`,
then the `switch e.format` whose `default` is "unsupported file format" -/
def openOkOf (f : FileFacts) (fmt : Fmt) : Bool :=
  validateFormat f fmt && fmt != .unknown && f.parseOk

structure Store where
  readers : List Bool := []   -- reader id ↦ its file is open
  exts : List Ext := []
  deriving DecidableEq, Repr

/-- number of open files -/
def Store.fdCount (s : Store) : Nat := s.readers.count true

/-- `(*Extractor).ensureReader` for extractor `i` (current value `e`) -/
def ensureReader (w : World) (s : Store) (i : Nat) (e : Ext) : Except E (Store × Ext) :=
  if e.opened then .ok (s, e)
  else if !e.hasFile then .error .open
  else if !w.openOk then .error .open
  else
    let e' := { e with reader := some s.readers.length, owns := true, opened := true }
    .ok ({ readers := s.readers ++ [true], exts := s.exts.set i e' }, e')

/-- `(*Extractor).Close` for extractor `i` (current value `e`) -/
def closeExt (s : Store) (i : Nat) (e : Ext) : Store :=
  if e.owns then
    match e.reader with
    | some r =>
      { readers := s.readers.set r false,
        exts := s.exts.set i { e with reader := none, owns := false, opened := false } }
    | none => s
  else s

/-- can `e` read from its reader (is the file behind it open)? -/
def readerLive (s : Store) (e : Ext) : Bool :=
  match e.reader with
  | some r => s.readers[r]? == some true
  | none => false

inductive Term where
  | text | fragments | document | chunks
  | lines | paragraphs | readingOrder | analyze | elements | headings | lists | blocks
  | toMarkdown | chunksWithConfig
  deriving DecidableEq, Repr

inductive NonTerm where
  | pageCount | isMultiColumn | isCharacterLevel
  deriving DecidableEq, Repr

/-- the operations that open their reader with `ensurePDFReader` -/
def Term.pdfOnly : Term → Bool
  | .fragments | .lines | .paragraphs | .readingOrder | .analyze | .elements
  | .headings | .lists | .blocks => true
  | _ => false

def NonTerm.pdfOnly : NonTerm → Bool
  | .pageCount => false
  | _ => true

/-- the operations with `if len(pageIndices) == 0 { "no pages to process" }`: `Document` (and
through it `Chunks`, `ChunksWithConfig`, the PDF branch of `ToMarkdown`), `ReadingOrder`,
`Analyze` (and through it `Elements`) -/
def Term.needsPages : Term → Bool
  | .document | .chunks | .chunksWithConfig | .toMarkdown
  | .readingOrder | .analyze | .elements => true
  | _ => false

/-- does the operation start with `if e.err != nil { return }`?  `ToMarkdownWithOptions`
dispatches on the format first and reaches that test only through `Chunks` for a PDF -/
def Term.checksErr (k : Term) (f : Fmt) : Bool := !(k == .toMarkdown && f != .pdf)

/-- what an operation returns, reduced to what is compared -/
inductive Res where
  | none                   -- derive
  | closed                 -- Close returned nil
  | count (n : Nat)        -- PageCount
  | flag                   -- IsMultiColumn returned a value
  | pages (l : List Nat)   -- a terminal operation succeeded on these page indices
  | whole                  -- a terminal operation succeeded on a non-PDF document (no selection there)
  | err
  | bad                    -- no such extractor (malformed op)
  deriving DecidableEq, Repr

/-- body of a terminal operation once the reader is open -/
def termBody (w : World) (k : Term) (o : Options) : Res :=
  match w.pageCount with
  | none => .err
  | some n =>
    match resolvePages o.pages n with
    | .error _ => .err
    | .ok idx =>
      if k.needsPages && idx.isEmpty then .err else .pages idx

/-- the same for any format: the DOCX / ODT / XLSX / PPTX / HTML / EPUB branches of `Text`,
`Document` and `ToMarkdownWithOptions` hand the whole document to the format's reader and never
look at `options.pages` -/
def termBodyF (w : World) (k : Term) (e : Ext) : Res :=
  if e.format = .pdf then termBody w k e.opts
  else match w.pageCount with
    | none => .err
    | some _ => .whole

/-- body of `PageCount` / `IsMultiColumn` (reads page 1) -/
def nonTermBody (w : World) (k : NonTerm) : Res :=
  match w.pageCount with
  | none => .err
  | some n =>
    match k with
    | .pageCount => .count n
    | .isMultiColumn | .isCharacterLevel => if n = 0 then .err else .flag

/-- `ensurePDFReader` on an extractor of another format (after the fix): `ensureReader` runs,
the format error follows, and for a file-based extractor the deferred `Close` releases
whatever is open; a failing `ensureReader` returns first, the deferred `Close` still runs -/
def mismatchStore (w : World) (s : Store) (i : Nat) (e : Ext) : Store :=
  match ensureReader w s i e with
  | .error _ => if e.hasFile then closeExt s i e else s
  | .ok (s1, e1) => if e.hasFile then closeExt s1 i e1 else s1

/-- the same path before the fix: the reader `ensureReader` opened stays open -/
def mismatchStoreOld (w : World) (s : Store) (i : Nat) (e : Ext) : Store :=
  match ensureReader w s i e with
  | .error _ => s
  | .ok (s1, _) => s1

/-- every terminal operation (`Text`, `Fragments`, `Document`, `Chunks`, `ChunksWithConfig`,
`ToMarkdown`, `Lines`, `Paragraphs`, `ReadingOrder`, `Analyze`, `Elements`, `Headings`, `Lists`,
`Blocks`):
`if e.err != nil {return}; if err := e.ensure[PDF]Reader(); err != nil {return}; defer e.Close(); …` -/
def terminal (w : World) (k : Term) (s : Store) (i : Nat) : Store × Res :=
  match s.exts[i]? with
  | none => (s, .bad)
  | some e =>
    if k.checksErr e.format && e.err then (s, .err)
    else if k.pdfOnly && e.format != .pdf then (mismatchStore w s i e, .err)
    else match ensureReader w s i e with
      | .error _ => (s, .err)
      | .ok (s1, e1) =>
        (closeExt s1 i e1, if readerLive s1 e1 then termBodyF w k e1 else .err)

/-- `PageCount` / `IsMultiColumn` / `IsCharacterLevel`: same frame without the deferred Close -/
def nonTerminal (w : World) (k : NonTerm) (s : Store) (i : Nat) : Store × Res :=
  match s.exts[i]? with
  | none => (s, .bad)
  | some e =>
    if e.err then (s, .err)
    else if k.pdfOnly && e.format != .pdf then (mismatchStore w s i e, .err)
    else match ensureReader w s i e with
      | .error _ => (s, .err)
      | .ok (s1, e1) => (s1, if readerLive s1 e1 then nonTermBody w k else .err)

def closeOp (s : Store) (i : Nat) : Store × Res :=
  match s.exts[i]? with
  | none => (s, .bad)
  | some e => (closeExt s i e, .closed)

/-- a configuration method on extractor `i`: the result is a new extractor -/
def deriveOp (s : Store) (i : Nat) (c : BCall) : Store × Res :=
  match s.exts[i]? with
  | none => (s, .bad)
  | some e => ({ s with exts := s.exts ++ [e.derive c] }, .none)

inductive Op where
  | derive (i : Nat) (c : BCall)
  | term (i : Nat) (k : Term)
  | nonTerm (i : Nat) (k : NonTerm)
  | close (i : Nat)
  deriving DecidableEq, Repr

/-- the extractor an operation is invoked on -/
def Op.target : Op → Nat
  | .derive i _ => i | .term i _ => i | .nonTerm i _ => i | .close i => i

/-- does the operation mutate its receiver?  (a configuration method does not) -/
def Op.mutates : Op → Bool
  | .derive _ _ => false | _ => true

def step (w : World) (s : Store) : Op → Store × Res
  | .derive i c => deriveOp s i c
  | .term i k => terminal w k s i
  | .nonTerm i k => nonTerminal w k s i
  | .close i => closeOp s i

/-- run a sequence, collecting each result together with the fd count after it -/
def run (w : World) : Store → List Op → Store × List (Res × Nat)
  | s, [] => (s, [])
  | s, op :: ops =>
    let (s1, r) := step w s op
    let (s2, rs) := run w s1 ops
    (s2, (r, s1.fdCount) :: rs)

/-- final store only -/
def exec (w : World) : Store → List Op → Store
  | s, [] => s
  | s, op :: ops => exec w (step w s op).1 ops

/-- `tabula.Open(filename)` -/
def openBase : Store := { readers := [], exts := [{}] }

/-- `tabula.Open(filename)` for a file name whose extension says `f` -/
def openBaseF (f : Fmt) : Store := { readers := [], exts := [{ format := f }] }

/-- the descriptors behind the open readers of a family of extractors on one file:
`htmldoc.Open` reads the file and closes it before it returns, every other reader keeps
its file until `Close` -/
def fdHeld (f : Fmt) (s : Store) : Nat := if f = .html then 0 else s.fdCount

/-- `tabula.FromReader(r)` with `r` opened by the caller -/
def readerBase : Store :=
  { readers := [true], exts := [{ hasFile := false, reader := some 0, owns := false, opened := true }] }

/-- the pinned tree's `step` (only `derive` differs) for the counterexamples -/
def stepOld (w : World) (s : Store) : Op → Store × Res
  | .derive i c =>
    match s.exts[i]? with
    | none => (s, .bad)
    | some e => ({ s with exts := s.exts ++ [applyCallOld c e.cloneOld] }, .none)
  | op => step w s op

/-- a PDF-only terminal operation before the `ensurePDFReader` fix -/
def terminalLeaky (w : World) (k : Term) (s : Store) (i : Nat) : Store × Res :=
  match s.exts[i]? with
  | none => (s, .bad)
  | some e =>
    if k.pdfOnly && e.format != .pdf && !e.err then (mismatchStoreOld w s i e, .err)
    else terminal w k s i

def runOld (w : World) : Store → List Op → Store × List (Res × Nat)
  | s, [] => (s, [])
  | s, op :: ops =>
    let (s1, r) := stepOld w s op
    let (s2, rs) := runOld w s1 ops
    (s2, (r, s1.fdCount) :: rs)

/-! ## histories: chains of calls, and answers as functions of the configuration -/

/-- `Open(f).c₁.c₂…` / `FromReader(r).c₁.c₂…` as one extractor value -/
def chainFrom (e0 : Ext) (cs : List BCall) : Ext := cs.foldl Ext.derive e0

/-- the operations `x₁ := x₀.c₁; x₂ := x₁.c₂; …` that build a chain from extractor `j`,
each on the extractor the previous one returned -/
def freshChainFrom (j : Nat) : List BCall → List Op
  | [] => []
  | c :: cs => .derive j c :: freshChainFrom (j + 1) cs

/-- the chain of configuration calls behind every extractor of a history
(`L` = the chains of the extractors that exist already) -/
def lineage : List (List BCall) → List Op → List (List BCall)
  | L, [] => L
  | L, .derive i c :: ops =>
    lineage (match L[i]? with
      | some cs => L ++ [cs ++ [c]]
      | none => L) ops
  | L, _ :: ops => lineage L ops

/-- the page numbers a chain of calls has accumulated: every `Pages` argument and every
non-inverted `PageRange`, in call order -/
def selOf : List BCall → List Int
  | [] => []
  | .pages ps :: cs => ps ++ selOf cs
  | .pageRange s t :: cs => (if s > t then [] else rangeList s t) ++ selOf cs
  | _ :: cs => selOf cs

/-- some `PageRange` of the chain was inverted (the chain is an error value) -/
def badRange : List BCall → Bool
  | [] => false
  | .pageRange s t :: cs => decide (s > t) || badRange cs
  | _ :: cs => badRange cs

/-- the answer of a terminal operation on an extractor with the configuration of `e`
(options, builder error, format, file name present), in any state that the family of
extractors grown from `Open(f)` or `FromReader(r)` can reach: no reference to the store -/
def termStatic (w : World) (k : Term) (e : Ext) : Res :=
  if k.checksErr e.format && e.err then .err
  else if k.pdfOnly && e.format != .pdf then .err
  else if !e.hasFile || w.openOk then termBodyF w k e
  else .err

def nonTermStatic (w : World) (k : NonTerm) (e : Ext) : Res :=
  if e.err then .err
  else if k.pdfOnly && e.format != .pdf then .err
  else if !e.hasFile || w.openOk then nonTermBody w k
  else .err

/-- the answer to `op` predicted from the receiver's chain of calls alone -/
def staticAnswer (w : World) (e0 : Ext) (L : List (List BCall)) : Op → Res
  | .derive i _ => if (L[i]?).isSome then .none else .bad
  | .close i => if (L[i]?).isSome then .closed else .bad
  | .term i k => match L[i]? with
    | some cs => termStatic w k (chainFrom e0 cs)
    | none => .bad
  | .nonTerm i k => match L[i]? with
    | some cs => nonTermStatic w k (chainFrom e0 cs)
    | none => .bad

/-- the answers to a whole history, each predicted from the chain of calls that built its
receiver (the lineage is extended as the history goes) -/
def staticRun (w : World) (e0 : Ext) : List (List BCall) → List Op → List Res
  | _, [] => []
  | L, op :: ops => staticAnswer w e0 L op :: staticRun w e0 (lineage L [op]) ops

/-- `Close` on each of the listed extractors -/
def closeAll (idx : List Nat) : List Op := idx.map Op.close

/-! ## whole calls: `Open(f).c₁…cₙ.Text()` and friends -/

/-- the page loop of a terminal operation runs on the pages its frame resolved, and only if
the frame got that far -/
def viaFrame {α : Type} (loop : List Nat → Except E α) : Res → Except E α
  | .pages idx => loop idx
  | _ => .error .builder

/-- `x.Text()` for the extractor `x = base.c₁…cₙ` (in any reachable state, `termStatic`):
`pg k` is the text of page index `k` under the options of the chain -/
def textCall (pg : Nat → Except E Str) (w : World) (e0 : Ext) (cs : List BCall) : Except E Str :=
  viaFrame (textOf pg) (termStatic w .text (chainFrom e0 cs))

/-- `x.Fragments()` -/
def fragmentsCall {F : Type} (pg : Nat → Except E (List F)) (w : World) (e0 : Ext) (cs : List BCall) :
    Except E (List F) :=
  viaFrame (fragmentsOf pg) (termStatic w .fragments (chainFrom e0 cs))

/-- `x.Document()` (page numbers and sources) -/
def documentCall (w : World) (e0 : Ext) (cs : List BCall) : Except E (List MPage) :=
  viaFrame documentOf (termStatic w .document (chainFrom e0 cs))

/-- the page indices any terminal operation `k` of `x` works on -/
def pagesCall (k : Term) (w : World) (e0 : Ext) (cs : List BCall) : Except E (List Nat) :=
  viaFrame (fun idx => .ok idx) (termStatic w k (chainFrom e0 cs))

end Tabula.Builder
