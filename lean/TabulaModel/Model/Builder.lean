import TabulaModel.Model.PageSel
/-
Model of the fluent builder and of the reader life cycle of `tabula.Extractor`
(options.go, extractor.go: clone, Pages, PageRange, Exclude*, ByColumn,
PreserveLayout, JoinParagraphs, ensureReader, Close, and the
`ensureReader … defer e.Close()` frame of every terminal operation), as the code
is after the C10 fixes.  Core Lean only.

Go pointers become indices: an `Extractor` value is an entry of `Store.exts`, a
`*reader.Reader` is an index into `Store.readers`, whose entry says whether the
underlying `*os.File` is still open.  `fdCount` is the number of open files.
-/
namespace Tabula.Builder
open Tabula.PageSel

/-- `tabula.ExtractOptions` -/
structure Options where
  pages : List Int := []
  excludeHeaders : Bool := false
  excludeFooters : Bool := false
  byColumn : Bool := false
  preserveLayout : Bool := false
  joinParagraphs : Bool := false
  deriving DecidableEq, Repr

/-- `defaultOptions()` -/
def defaultOptions : Options := {}

/-- `ExtractOptions.clone` (deep copy: a list is a value) -/
def Options.clone (o : Options) : Options := { o with pages := o.pages }

/-- the fields of `tabula.Extractor` that C10 talks about -/
structure Ext where
  opts : Options := {}
  err : Bool := false            -- `e.err != nil`
  hasFile : Bool := true         -- `e.filename != ""`
  reader : Option Nat := none    -- `e.reader` (index into `Store.readers`)
  owns : Bool := false           -- `e.ownsReader`
  opened : Bool := false         -- `e.readerOpened`
  deriving DecidableEq, Repr

/-- `(*Extractor).clone` after the fix: a reader that `e` opened from its file
stays with `e`; the copy starts unopened and opens its own on demand.  Readers
handed in by the caller (`FromReader`, `ownsReader = false`) and readers that
cannot be re-opened (`filename == ""`) are shared as before. -/
def Ext.clone (e : Ext) : Ext :=
  if e.opened && !(e.owns && e.hasFile) then { e with opts := e.opts.clone }
  else { e with opts := e.opts.clone, reader := none, owns := false, opened := false }

/-- `(*Extractor).clone` of the pinned tree: every field is copied, so the copy
also "owns" (and will close) the parent's reader -/
def Ext.cloneOld (e : Ext) : Ext := { e with opts := e.opts.clone }

/-- the `for i := start; i <= end; i++` loop of `PageRange` -/
def rangeList (s e : Int) : List Int :=
  (List.range (e - s + 1).toNat).map fun (i : Nat) => s + (i : Int)

/-- the configuration methods -/
inductive BCall where
  | pages (ps : List Int)
  | pageRange (s e : Int)
  | excludeHeaders | excludeFooters | excludeHeadersAndFooters
  | joinParagraphs | byColumn | preserveLayout
  deriving DecidableEq, Repr

/-- apply a configuration method to the fresh clone -/
def applyCall (c : BCall) (e : Ext) : Ext :=
  match c with
  | .pages ps => { e with opts := { e.opts with pages := e.opts.pages ++ ps } }
  | .pageRange s t =>
    -- after the fix an inverted range is an error of the derived extractor
    if s > t then { e with err := true }
    else { e with opts := { e.opts with pages := e.opts.pages ++ rangeList s t } }
  | .excludeHeaders => { e with opts := { e.opts with excludeHeaders := true } }
  | .excludeFooters => { e with opts := { e.opts with excludeFooters := true } }
  | .excludeHeadersAndFooters =>
    { e with opts := { e.opts with excludeHeaders := true, excludeFooters := true } }
  | .joinParagraphs => { e with opts := { e.opts with joinParagraphs := true } }
  | .byColumn => { e with opts := { e.opts with byColumn := true } }
  | .preserveLayout => { e with opts := { e.opts with preserveLayout := true } }

/-- `PageRange` of the pinned tree (an inverted range appends nothing, which
then means "all pages") -/
def applyCallOld (c : BCall) (e : Ext) : Ext :=
  match c with
  | .pageRange s t => { e with opts := { e.opts with pages := e.opts.pages ++ rangeList s t } }
  | c => applyCall c e

/-- a configuration method: clone, then modify the clone -/
def Ext.derive (e : Ext) (c : BCall) : Ext := applyCall c e.clone

/-- the file behind `Open(filename)`, as far as the life cycle is concerned -/
structure World where
  openOk : Bool            -- validateFormat and reader.Open succeed
  pageCount : Option Nat   -- reader.PageCount() on an open reader
  deriving DecidableEq, Repr

structure Store where
  readers : List Bool := []   -- reader id ↦ its file is open
  exts : List Ext := []
  deriving DecidableEq, Repr

/-- number of open files -/
def Store.fdCount (s : Store) : Nat := s.readers.count true

/-- `(*Extractor).ensureReader` for extractor `i` (current value `e`) -/
def ensureReader (w : World) (s : Store) (i : Nat) (e : Ext) : Except E (Store × Ext) :=
  if e.opened then .ok (s, e)
  else if !e.hasFile then .error .open
  else if !w.openOk then .error .open
  else
    let e' := { e with reader := some s.readers.length, owns := true, opened := true }
    .ok ({ readers := s.readers ++ [true], exts := s.exts.set i e' }, e')

/-- `(*Extractor).Close` for extractor `i` (current value `e`) -/
def closeExt (s : Store) (i : Nat) (e : Ext) : Store :=
  if e.owns then
    match e.reader with
    | some r =>
      { readers := s.readers.set r false,
        exts := s.exts.set i { e with reader := none, owns := false, opened := false } }
    | none => s
  else s

/-- can `e` read from its reader (is the file behind it open)? -/
def readerLive (s : Store) (e : Ext) : Bool :=
  match e.reader with
  | some r => s.readers[r]? == some true
  | none => false

inductive Term where
  | text | fragments | document | chunks
  deriving DecidableEq, Repr

inductive NonTerm where
  | pageCount | isMultiColumn
  deriving DecidableEq, Repr

/-- what an operation returns, reduced to what is compared -/
inductive Res where
  | none                   -- derive
  | closed                 -- Close returned nil
  | count (n : Nat)        -- PageCount
  | flag                   -- IsMultiColumn returned a value
  | pages (l : List Nat)   -- a terminal operation succeeded on these page indices
  | err
  | bad                    -- no such extractor (malformed op)
  deriving DecidableEq, Repr

/-- body of a terminal operation once the reader is open -/
def termBody (w : World) (k : Term) (o : Options) : Res :=
  match w.pageCount with
  | none => .err
  | some n =>
    match resolvePages o.pages n with
    | .error _ => .err
    | .ok idx =>
      match k with
      | .text | .fragments => .pages idx
      | .document | .chunks => if idx.isEmpty then .err else .pages idx

/-- body of `PageCount` / `IsMultiColumn` (reads page 1) -/
def nonTermBody (w : World) (k : NonTerm) : Res :=
  match w.pageCount with
  | none => .err
  | some n =>
    match k with
    | .pageCount => .count n
    | .isMultiColumn => if n = 0 then .err else .flag

/-- `Text` / `Fragments` / `Document` / `Chunks`:
`if e.err != nil {return}; if err := e.ensureReader(); err != nil {return}; defer e.Close(); …` -/
def terminal (w : World) (k : Term) (s : Store) (i : Nat) : Store × Res :=
  match s.exts[i]? with
  | none => (s, .bad)
  | some e =>
    if e.err then (s, .err)
    else match ensureReader w s i e with
      | .error _ => (s, .err)
      | .ok (s1, e1) =>
        (closeExt s1 i e1, if readerLive s1 e1 then termBody w k e1.opts else .err)

/-- `PageCount` / `IsMultiColumn`: same frame without the deferred Close -/
def nonTerminal (w : World) (k : NonTerm) (s : Store) (i : Nat) : Store × Res :=
  match s.exts[i]? with
  | none => (s, .bad)
  | some e =>
    if e.err then (s, .err)
    else match ensureReader w s i e with
      | .error _ => (s, .err)
      | .ok (s1, e1) => (s1, if readerLive s1 e1 then nonTermBody w k else .err)

def closeOp (s : Store) (i : Nat) : Store × Res :=
  match s.exts[i]? with
  | none => (s, .bad)
  | some e => (closeExt s i e, .closed)

/-- a configuration method on extractor `i`: the result is a new extractor -/
def deriveOp (s : Store) (i : Nat) (c : BCall) : Store × Res :=
  match s.exts[i]? with
  | none => (s, .bad)
  | some e => ({ s with exts := s.exts ++ [e.derive c] }, .none)

inductive Op where
  | derive (i : Nat) (c : BCall)
  | term (i : Nat) (k : Term)
  | nonTerm (i : Nat) (k : NonTerm)
  | close (i : Nat)
  deriving DecidableEq, Repr

/-- the extractor an operation is invoked on -/
def Op.target : Op → Nat
  | .derive i _ => i | .term i _ => i | .nonTerm i _ => i | .close i => i

/-- does the operation mutate its receiver?  (a configuration method does not) -/
def Op.mutates : Op → Bool
  | .derive _ _ => false | _ => true

def step (w : World) (s : Store) : Op → Store × Res
  | .derive i c => deriveOp s i c
  | .term i k => terminal w k s i
  | .nonTerm i k => nonTerminal w k s i
  | .close i => closeOp s i

/-- run a sequence, collecting each result together with the fd count after it -/
def run (w : World) : Store → List Op → Store × List (Res × Nat)
  | s, [] => (s, [])
  | s, op :: ops =>
    let (s1, r) := step w s op
    let (s2, rs) := run w s1 ops
    (s2, (r, s1.fdCount) :: rs)

/-- final store only -/
def exec (w : World) : Store → List Op → Store
  | s, [] => s
  | s, op :: ops => exec w (step w s op).1 ops

/-- `tabula.Open(filename)` -/
def openBase : Store := { readers := [], exts := [{}] }

/-- `tabula.FromReader(r)` with `r` opened by the caller -/
def readerBase : Store :=
  { readers := [true], exts := [{ hasFile := false, reader := some 0, owns := false, opened := true }] }

/-- the pinned tree's `step` (only `derive` differs) for the counterexamples -/
def stepOld (w : World) (s : Store) : Op → Store × Res
  | .derive i c =>
    match s.exts[i]? with
    | none => (s, .bad)
    | some e => ({ s with exts := s.exts ++ [applyCallOld c e.cloneOld] }, .none)
  | op => step w s op

def runOld (w : World) : Store → List Op → Store × List (Res × Nat)
  | s, [] => (s, [])
  | s, op :: ops =>
    let (s1, r) := stepOld w s op
    let (s2, rs) := runOld w s1 ops
    (s2, (r, s1.fdCount) :: rs)

end Tabula.Builder
