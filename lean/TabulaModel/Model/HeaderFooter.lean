/-
Model of `layout/header_footer.go` (header/footer detection and filtering), of
`docx/odt (*Reader).shouldExcludeParagraph` and of `pptx.isFooterPlaceholder`.
Core Lean only. Coordinates are `Rat`, strings are UTF-8 byte lists (`List Nat`).

The model follows the code as it is after the three C11 fixes:
* `FilterFragments` measures the margin bands with the same reference bounds and
  the same scaling condition as `extractCandidates` (`bands` below is used by both);
* a region remembers the digit-normalised text of its group (`Region.pattern`) and
  `(*HeaderFooterRegion).matches` accepts fragments whose normalised text equals it
  when the region is a page-number region;
* on a character-level page `FilterFragments` assembles the glyph fragments into lines
  exactly as `preprocessPages` does for detection, judges every assembled LINE like a
  word-level fragment and removes the glyphs of the lines that match (`removedLines`);
  the position-only filter it replaces is kept as `filterFragmentsOld` (finding F8).
-/
namespace Tabula.HF

abbrev Str := List Nat

/-! ## Strings -/

/-- ASCII digit, what the regexp class `\d` of Go's RE2 matches. -/
def isDigit (c : Nat) : Bool := 48 ≤ c && c ≤ 57

/-- `regexp.MustCompile(`\d+`).ReplaceAllString(text, "#")`, left to right; the flag
says that the previous byte belonged to a digit run already replaced. -/
def normAux : Bool → Str → Str
  | _, [] => []
  | inRun, c :: cs =>
    if isDigit c then (if inRun then normAux true cs else 35 :: normAux true cs)
    else c :: normAux false cs

/-- `normalizeForComparison` -/
def normalize (s : Str) : Str := normAux false s

/-- UTF-8 encodings of the runes for which `unicode.IsSpace` holds: TAB LF VT FF CR SPACE,
U+0085, U+00A0, U+1680, U+2000–U+200A, U+2028, U+2029, U+202F, U+205F, U+3000. -/
def spaceSeqs : List Str :=
  [[9], [10], [11], [12], [13], [32], [0xC2, 0x85], [0xC2, 0xA0], [0xE1, 0x9A, 0x80],
   [0xE2, 0x80, 0x80], [0xE2, 0x80, 0x81], [0xE2, 0x80, 0x82], [0xE2, 0x80, 0x83],
   [0xE2, 0x80, 0x84], [0xE2, 0x80, 0x85], [0xE2, 0x80, 0x86], [0xE2, 0x80, 0x87],
   [0xE2, 0x80, 0x88], [0xE2, 0x80, 0x89], [0xE2, 0x80, 0x8A], [0xE2, 0x80, 0xA8],
   [0xE2, 0x80, 0xA9], [0xE2, 0x80, 0xAF], [0xE2, 0x81, 0x9F], [0xE3, 0x80, 0x80]]

/-- remove `p` from the front of `s` if it is a prefix -/
def dropPrefix? : Str → Str → Option Str
  | [], s => some s
  | _ :: _, [] => none
  | a :: p, b :: s => if a = b then dropPrefix? p s else none

/-- strip one leading space rune (given the table of encodings) -/
def stripOne : List Str → Str → Option Str
  | [], _ => none
  | q :: qs, s => match dropPrefix? q s with
    | some r => some r
    | none => stripOne qs s

/-- strip leading space runes; the fuel is the length of the string -/
def stripMany (tbl : List Str) : Nat → Str → Str
  | 0, s => s
  | n + 1, s => match stripOne tbl s with
    | some r => stripMany tbl n r
    | none => s

/-- `strings.TrimLeftFunc(s, unicode.IsSpace)` -/
def trimLeft (s : Str) : Str := stripMany spaceSeqs s.length s

/-- `strings.TrimRightFunc(s, unicode.IsSpace)`: the same on the reversed bytes with
reversed encodings. -/
def trimRight (s : Str) : Str :=
  (stripMany (spaceSeqs.map List.reverse) s.length s.reverse).reverse

/-- `strings.TrimSpace` -/
def trimSpace (s : Str) : Str := trimRight (trimLeft s)

def lowerAscii (c : Nat) : Nat := if 65 ≤ c ∧ c ≤ 90 then c + 32 else c

/-- `strings.EqualFold(s, pattern)` for an ASCII pattern without `k`/`s` (no non-ASCII rune
folds to any of its letters): byte-wise comparison after ASCII lower-casing. -/
def equalFoldAscii (s pattern : Str) : Bool := s.map lowerAscii == pattern.map lowerAscii

/-- the `patterns` literal of `isPageNumberPattern`:
"#", "Page #", "page #", "- # -", "# of #", "Page # of #", "#/#", "p. #", "p.#", "pg #", "pg. #" -/
def pagePatterns : List Str :=
  [[35], [80, 97, 103, 101, 32, 35], [112, 97, 103, 101, 32, 35], [45, 32, 35, 32, 45],
   [35, 32, 111, 102, 32, 35], [80, 97, 103, 101, 32, 35, 32, 111, 102, 32, 35], [35, 47, 35],
   [112, 46, 32, 35], [112, 46, 35], [112, 103, 32, 35], [112, 103, 46, 32, 35]]

/-- `isPageNumberPattern` -/
def isPageNumberPattern (normalizedText : Str) : Bool :=
  pagePatterns.any (equalFoldAscii (trimSpace normalizedText))

/-- `textsMatch` -/
def textsMatch (fragText regionText : Str) (isPageNumber : Bool) : Bool :=
  let f := trimSpace fragText
  let r := trimSpace regionText
  if isPageNumber then isPageNumberPattern (normalize f)
  else f == r || normalize f == normalize r

/-- the digit runs of a string, in order (`re.FindAllString(text, -1)` for `\d+`);
`cur` is the run being read, reversed. -/
def digitRunsAux : Str → Str → List Str
  | [], cur => if cur.isEmpty then [] else [cur.reverse]
  | c :: cs, cur =>
    if isDigit c then digitRunsAux cs (c :: cur)
    else if cur.isEmpty then digitRunsAux cs [] else cur.reverse :: digitRunsAux cs []

def digitRuns (s : Str) : List Str := digitRunsAux s []

/-- two's-complement wrap-around of Go's 64-bit `int` -/
def wrap64 (x : Int) : Int := (x + 9223372036854775808) % 18446744073709551616 - 9223372036854775808

/-- `parsePageNumber` on a digit run: `num = num*10 + int(c-'0')` in 64-bit arithmetic -/
def parseDigits (s : Str) : Int := s.foldl (fun (num : Int) (c : Nat) => wrap64 (num * 10 + ((c : Int) - 48))) 0

def insertInt (a : Int) : List Int → List Int
  | [] => [a]
  | b :: l => if a ≤ b then a :: b :: l else b :: insertInt a l

/-- `sort.Ints` (any sorting algorithm gives this result: `≤` on `Int` is a total order) -/
def sortInts (l : List Int) : List Int := l.foldr insertInt []

/-- number of adjacent pairs of the (sorted) list that differ by exactly one -/
def countSequential : List Int → Nat
  | a :: b :: l => (if wrap64 (b - a) = 1 then 1 else 0) + countSequential (b :: l)
  | _ => 0

/-! ## Geometry -/

structure Frag where
  text : Str
  x : Rat
  y : Rat
  w : Rat
  h : Rat
  fs : Rat
deriving DecidableEq, Repr

structure Page where
  index : Int
  height : Rat
  frags : List Frag
deriving DecidableEq, Repr

/-- `HeaderFooterConfig`; the defaults are those of `DefaultHeaderFooterConfig`
(layout/header_footer.go: HeaderRegionHeight 72.0, FooterRegionHeight 72.0,
MinOccurrenceRatio 0.5, PositionTolerance 5.0, XPositionTolerance 10.0, MinPages 2). -/
structure Config where
  headerRegionHeight : Rat := 72
  footerRegionHeight : Rat := 72
  minOccurrenceRatio : Rat := 1 / 2
  positionTolerance : Rat := 5
  xPositionTolerance : Rat := 10
  minPages : Nat := 2
deriving DecidableEq, Repr

def defaultConfig : Config := {}

def absR (x : Rat) : Rat := if x < 0 then -x else x

/-- the `minY, maxY` loop shared by `extractCandidates` and `FilterFragments`:
start from the first fragment's `Y`, then `min Y` and `max (Y+Height)` over all fragments -/
def contentBounds (fs : List Frag) : Rat × Rat :=
  match fs with
  | [] => (0, 0)
  | f0 :: _ =>
    fs.foldl (fun b f => (if f.y < b.1 then f.y else b.1, if f.y + f.h > b.2 then f.y + f.h else b.2))
      (f0.y, f0.y)

/-- where the margin bands of one page lie -/
structure Bands where
  inverted : Bool
  refMin : Rat
  refMax : Rat
  header : Rat
  footer : Rat
deriving Repr

/-- reference bounds and region heights of a page, as computed (identically, after the fix)
at the top of the page loop of `extractCandidates` and in `FilterFragments`: the page edges
and the configured heights, or — when `maxY > pageHeight` ("inverted" coordinates) — the
content bounds and heights scaled by `contentHeight / pageHeight`. -/
def bands (cfg : Config) (fs : List Frag) (pageHeight : Rat) : Bands :=
  let mm := contentBounds fs
  let ch0 := mm.2 - mm.1
  let ch := if ch0 ≤ 0 then pageHeight else ch0
  if mm.2 > pageHeight then
    let scale := ch / pageHeight
    ⟨true, mm.1, mm.2, cfg.headerRegionHeight * scale, cfg.footerRegionHeight * scale⟩
  else
    ⟨false, 0, pageHeight, cfg.headerRegionHeight, cfg.footerRegionHeight⟩

def distTop (b : Bands) (f : Frag) : Rat :=
  if b.inverted then f.y - b.refMin else b.refMax - (f.y + f.h)

def distBottom (b : Bands) (f : Frag) : Rat :=
  if b.inverted then b.refMax - (f.y + f.h) else f.y - b.refMin

/-- the fragment lies in the top (header) band -/
def inTop (b : Bands) (f : Frag) : Bool := distTop b f < b.header

/-- the fragment lies in the bottom (footer) band -/
def inBottom (b : Bands) (f : Frag) : Bool := distBottom b f < b.footer

inductive Kind | header | footer
deriving DecidableEq, Repr

def inRegion : Kind → Bands → Frag → Bool
  | .header, b, f => inTop b f
  | .footer, b, f => inBottom b f

def regionDist : Kind → Bands → Frag → Rat
  | .header, b, f => distTop b f
  | .footer, b, f => distBottom b f

/-! ## Character-level pages -/

def isCont (b : Nat) : Bool := 0x80 ≤ b && b ≤ 0xBF

/-- width in bytes of the rune `utf8.DecodeRune` reads at the head (1 for an invalid byte) -/
def runeWidth : Str → Nat
  | [] => 0
  | b0 :: rest =>
    if b0 < 0x80 then 1
    else if 0xC2 ≤ b0 ∧ b0 ≤ 0xDF then
      (match rest with | b1 :: _ => if isCont b1 then 2 else 1 | _ => 1)
    else if 0xE0 ≤ b0 ∧ b0 ≤ 0xEF then
      (match rest with
       | b1 :: b2 :: _ =>
         let lo := if b0 = 0xE0 then 0xA0 else 0x80
         let hi := if b0 = 0xED then 0x9F else 0xBF
         if lo ≤ b1 ∧ b1 ≤ hi ∧ isCont b2 then 3 else 1
       | _ => 1)
    else if 0xF0 ≤ b0 ∧ b0 ≤ 0xF4 then
      (match rest with
       | b1 :: b2 :: b3 :: _ =>
         let lo := if b0 = 0xF0 then 0x90 else 0x80
         let hi := if b0 = 0xF4 then 0x8F else 0xBF
         if lo ≤ b1 ∧ b1 ≤ hi ∧ isCont b2 ∧ isCont b3 then 4 else 1
       | _ => 1)
    else 1

/-- `len([]rune(s))` -/
def runeCountAux : Nat → Str → Nat
  | 0, _ => 0
  | _ + 1, [] => 0
  | n + 1, s => 1 + runeCountAux n (s.drop (runeWidth s))

def runeCount (s : Str) : Nat := runeCountAux s.length s

/-- `isCharacterLevel`: average fragment length ≤ 2 runes (and at least one fragment) -/
def isCharacterLevel (fs : List Frag) : Bool :=
  !fs.isEmpty && (fs.map (fun f => runeCount f.text)).sum ≤ 2 * fs.length

def insertBy {α : Type} (lt : α → α → Bool) (a : α) : List α → List α
  | [] => [a]
  | b :: l => if lt b a then b :: insertBy lt a l else a :: b :: l

/-- `sort.Slice` with comparator `lt`, modelled by a stable insertion sort. The harness only
generates character-level pages on which the comparator is a strict total order, where every
sorting algorithm returns the same sequence. -/
def sortBy {α : Type} (lt : α → α → Bool) (l : List α) : List α := l.foldr (insertBy lt) []

/-- comparator of the first `sort.Slice` in `assembleFragmentsIntoLines` -/
def lineLess (a b : Frag) : Bool :=
  let d := a.y - b.y
  if absR d > a.h * (1 / 2) then d > 0 else a.x < b.x

/-- the "Group into lines by Y proximity" loop; `cur` is the current line reversed -/
def groupLines : List Frag → List Frag → List (List Frag)
  | [], cur => if cur.isEmpty then [] else [cur.reverse]
  | f :: rest, [] => groupLines rest [f]
  | f :: rest, last :: cur =>
    if absR (f.y - last.y) ≤ last.h * (1 / 2) then groupLines rest (f :: last :: cur)
    else (last :: cur).reverse :: groupLines rest [f]

/-- "Build text with smart spacing": a space when the gap exceeds 30 % of the font size -/
def lineText : List Frag → Option Rat → Str
  | [], _ => []
  | f :: rest, none => f.text ++ lineText rest (some (f.x + f.w))
  | f :: rest, some lastEnd =>
    (if f.x - lastEnd > f.fs * (3 / 10) then [32] else []) ++ f.text ++ lineText rest (some (f.x + f.w))

/-- one assembled line fragment -/
def assembleLine (line0 : List Frag) : Option Frag :=
  let line := sortBy (fun a b => a.x < b.x) line0
  match line, line.getLast? with
  | first :: _, some last =>
    let mm := contentBounds line
    some { text := lineText line none, x := first.x, y := first.y,
           w := (last.x + last.w) - first.x, h := mm.2 - mm.1, fs := first.fs }
  | _, _ => none

/-- `assembleFragmentsIntoLines` -/
def assembleFragmentsIntoLines (fs : List Frag) : List Frag :=
  (groupLines (sortBy lineLess fs) []).filterMap assembleLine

/-- `preprocessPages` -/
def preprocessPage (p : Page) : Page :=
  if isCharacterLevel p.frags then { p with frags := assembleFragmentsIntoLines p.frags } else p

def preprocessPages (pages : List Page) : List Page := pages.map preprocessPage

/-! ## Detection -/

structure Cand where
  text : Str
  x : Rat
  y : Rat
  w : Rat
  h : Rat
  page : Int
deriving DecidableEq, Repr

/-- the candidates one page contributes in `extractCandidates` -/
def pageCandidates (cfg : Config) (k : Kind) (p : Page) : List Cand :=
  let b := bands cfg p.frags p.height
  p.frags.filterMap fun f =>
    if inRegion k b f then
      some { text := trimSpace f.text, x := f.x, y := regionDist k b f, w := f.w, h := f.h, page := p.index }
    else none

/-- `extractCandidates` -/
def extractCandidates (cfg : Config) (k : Kind) (pages : List Page) : List Cand :=
  pages.flatMap (pageCandidates cfg k)

/-- `minOccurrences := int(float64(len(pages)) * ratio); if < 2 then 2` -/
def minOccurrences (cfg : Config) (n : Nat) : Nat :=
  max 2 (((n : Rat) * cfg.minOccurrenceRatio).floor.toNat)

/-- the distinct page indices of a group (`pageSet`) -/
def distinctPages (group : List Cand) : List Int := (group.map (·.page)).eraseDups

/-- `hasConsistentPosition` -/
def hasConsistentPosition (cfg : Config) : List Cand → Bool
  | [] => false
  | [_] => false
  | c0 :: rest =>
    rest.all fun c => !(absR (c.y - c0.y) > cfg.positionTolerance) && !(absR (c.x - c0.x) > cfg.xPositionTolerance)

/-- `containsPageNumberPattern` -/
def containsPageNumberPattern (group : List Cand) : Bool :=
  if group.length < 2 then false
  else
    let numbers := sortInts (group.flatMap fun c => (digitRuns c.text).map parseDigits)
    if numbers.length < 2 then false
    else decide (countSequential numbers ≥ numbers.length / 2)

structure Region where
  kind : Kind
  text : Str
  isPageNumber : Bool
  pages : List Int
  pattern : Str
deriving DecidableEq, Repr

/-- "[Page Number]" -/
def pageNumberLabel : Str := [91, 80, 97, 103, 101, 32, 78, 117, 109, 98, 101, 114, 93]

/-- the group of candidates whose normalised text is `key` (`groups[normalized]`) -/
def groupOf (cands : List Cand) (key : Str) : List Cand := cands.filter fun c => normalize c.text == key

/-- body of the `for normalizedText, group := range groups` loop of `findRepeatingPatterns` -/
def regionOf (cfg : Config) (k : Kind) (nPages : Nat) (cands : List Cand) (key : Str) : Option Region :=
  let group := groupOf cands key
  if key.length ≤ 2 && !isPageNumberPattern key then none
  else if (distinctPages group).length < minOccurrences cfg nPages then none
  else if !hasConsistentPosition cfg group then none
  else
    let isPN := isPageNumberPattern key || containsPageNumberPattern group
    let txt := if isPN then pageNumberLabel else (match group with | c :: _ => c.text | [] => [])
    some { kind := k, text := txt, isPageNumber := isPN, pages := sortInts (distinctPages group), pattern := key }

/-- `findRepeatingPatterns` (the order of the regions — map iteration, then an unstable sort
by confidence — is irrelevant to `FilterFragments`, which only asks whether some region matches) -/
def findRepeatingPatterns (cfg : Config) (k : Kind) (nPages : Nat) (cands : List Cand) : List Region :=
  ((cands.map fun c => normalize c.text).eraseDups).filterMap (regionOf cfg k nPages cands)

structure Result where
  headers : List Region
  footers : List Region
  cfg : Config

/-- `(*HeaderFooterDetector).Detect` -/
def detect (cfg : Config) (pages : List Page) : Result :=
  if pages.length < cfg.minPages then ⟨[], [], cfg⟩
  else
    let pp := preprocessPages pages
    ⟨findRepeatingPatterns cfg .header pp.length (extractCandidates cfg .header pp),
     findRepeatingPatterns cfg .footer pp.length (extractCandidates cfg .footer pp), cfg⟩

/-! ## Filtering -/

/-- `(*HeaderFooterRegion).matches` -/
def regionMatches (r : Region) (fragText : Str) : Bool :=
  textsMatch fragText r.text r.isPageNumber ||
    (r.isPageNumber && !r.pattern.isEmpty && normalize (trimSpace fragText) == r.pattern)

/-- one iteration of the header (resp. footer) loop of `isInHeaderFooter` -/
def regionHits (idx : Int) (inBand : Bool) (f : Frag) (r : Region) : Bool :=
  r.pages.contains idx && inBand && regionMatches r f.text

/-- `isInHeaderFooter`: `f` is a fragment of a word-level page or an assembled line of a
character-level page -/
def isInHeaderFooter (res : Result) (idx : Int) (b : Bands) (f : Frag) : Bool :=
  res.headers.any (regionHits idx (inTop b f) f) ||
    res.footers.any (regionHits idx (inBottom b f) f)

/-- the line groups of a character-level page (`groupCharacterLines`; the second sort, by X
inside each line, is part of `assembleLine` in this model and immaterial for membership) -/
def charLines (fs : List Frag) : List (List Frag) := groupLines (sortBy lineLess fs) []

/-- the assembled line of this group is judged a header or footer (`judged[i]` handed to
`isInHeaderFooter` in the character-level branch of `FilterFragments`) -/
def lineRemoved (res : Result) (idx : Int) (b : Bands) (g : List Frag) : Bool :=
  match assembleLine g with
  | some l => isInHeaderFooter res idx b l
  | none => false

/-- the line groups of a character-level page whose glyphs `FilterFragments` removes; the
bands are measured on the assembled lines (`judged`), as `extractCandidates` measures them
on the preprocessed page -/
def removedLines (res : Result) (idx : Int) (fs : List Frag) (pageHeight : Rat) : List (List Frag) :=
  (charLines fs).filter (lineRemoved res idx (bands res.cfg (assembleFragmentsIntoLines fs) pageHeight))

/-- `(*HeaderFooterResult).FilterFragments`. The code marks the glyphs of a removed line by
index; the model asks whether the glyph occurs in a removed line. Both agree when the glyphs
of a character-level page are pairwise different, which the sort's comparator being a strict
total order (assumed for character-level pages, see `sortBy`) implies. -/
def filterFragments (res : Result) (idx : Int) (fs : List Frag) (pageHeight : Rat) : List Frag :=
  if isCharacterLevel fs then
    let gone := removedLines res idx fs pageHeight
    fs.filter fun f => !(gone.any fun g => g.contains f)
  else
    fs.filter fun f => !isInHeaderFooter res idx (bands res.cfg fs pageHeight) f

/-- the test `FilterFragments` applies to one fragment of the page (see `filterFragments_eq`) -/
def isRemoved (res : Result) (idx : Int) (fs : List Frag) (pageHeight : Rat) (f : Frag) : Bool :=
  if isCharacterLevel fs then (removedLines res idx fs pageHeight).any fun g => g.contains f
  else isInHeaderFooter res idx (bands res.cfg fs pageHeight) f

/-! ### the filter before the repair of F8 (kept for the record: `Props/C11.lean`,
`charlevel_position_only_pinned_counterexample`; nothing else uses it) -/

def regionHitsOld (idx : Int) (inBand charLevel : Bool) (f : Frag) (r : Region) : Bool :=
  r.pages.contains idx && inBand && (charLevel || regionMatches r f.text)

def isInHeaderFooterOld (res : Result) (idx : Int) (b : Bands) (charLevel : Bool) (f : Frag) : Bool :=
  res.headers.any (regionHitsOld idx (inTop b f) charLevel f) ||
    res.footers.any (regionHitsOld idx (inBottom b f) charLevel f)

/-- `FilterFragments` as it was: on a character-level page every glyph in the band of a page
that a region lists went, whatever line it belonged to -/
def filterFragmentsOld (res : Result) (idx : Int) (fs : List Frag) (pageHeight : Rat) : List Frag :=
  fs.filter fun f => !isInHeaderFooterOld res idx (bands res.cfg fs pageHeight) (isCharacterLevel fs) f

/-- what `Extractor` does with exclusion switched on: detect on all pages, filter each requested page -/
def excludePage (cfg : Config) (all : List Page) (p : Page) : List Frag :=
  filterFragments (detect cfg all) p.index p.frags p.height

/-! ## DOCX / ODT / PPTX decision tables -/

/-- `strings.Split(s, "\n")` -/
def splitLines : Str → List Str
  | [] => [[]]
  | c :: cs =>
    match splitLines cs with
    | [] => [[c]]
    | l :: ls => if c = 10 then [] :: l :: ls else (c :: l) :: ls

/-- the inner loops of `shouldExcludeParagraph`: some line of some part equals the paragraph -/
def matchesPartLine (trimmed : Str) (parts : List Str) : Bool :=
  parts.any fun part => (splitLines part).any fun line =>
    let l := trimSpace line
    !l.isEmpty && trimmed == l

/-- `docx.(*Reader).shouldExcludeParagraph` and `odt.(*Reader).shouldExcludeParagraph` (same code) -/
def shouldExcludeParagraph (text : Str) (headerTexts footerTexts : List Str) (exH exF : Bool) : Bool :=
  if text.isEmpty then false
  else
    let t := trimSpace text
    if t.isEmpty then false
    else (exH && matchesPartLine t headerTexts) || (exF && matchesPartLine t footerTexts)

/-- `pptx.isFooterPlaceholder`: "ftr", "dt", "sldNum" -/
def isFooterPlaceholder (ph : Str) : Bool :=
  ph == [102, 116, 114] || ph == [100, 116] || ph == [115, 108, 100, 78, 117, 109]

/-- `pptx.isHeaderPlaceholder`: "hdr" -/
def isHeaderPlaceholder (ph : Str) : Bool := ph == [104, 100, 114]

end Tabula.HF
