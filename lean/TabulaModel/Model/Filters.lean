/-
Model of the stream filters: `internal/filters/ascii.go` (ASCIIHexDecode,
ASCII85Decode, hexDigitToByte, isWhitespace), `internal/filters/flate.go`
(FlateDecode, applyPredictor, applyTIFFPredictor2, applyPNGPredictor,
decodePNGRow, paethPredictor, getIntParam, predictorRowBytes) and
`core/stream.go` ((*Stream).Decode, decodeWithFilter, paramsObjToDict,
dictToParams).  Core Lean only.

Bytes are `Nat` (the harness only sends values < 256), byte strings `List Nat`.
An error return of the Go code is `none` (only the error *class* is compared).
zlib's inflate and x/image/ccitt's reader are parameters (`Ext`); tabula's wrapper
`filters.CCITTFaxDecode` (`internal/filters/ccittfax.go`) around the latter is modelled.

The second half of the file holds the *specification encoders* (the "conforming
encoder" of the property): `hexEncode`, `a85Encode`, `pngPredict`, `tiffPredict`,
written from PDF 32000-1 §7.4.2/7.4.3/7.4.4.4, the PNG specification §9 and
TIFF 6.0 §14 — not from the decoder.
-/
namespace Tabula.Filters

abbrev Str := List Nat

/-- `filters.isWhitespace`: space, \t, \r, \n, \f, NUL -/
def isWs (c : Nat) : Bool := c == 32 || c == 9 || c == 13 || c == 10 || c == 12 || c == 0

/-- `filters.hexDigitToByte` (`none` = "invalid hex digit") -/
def hexVal (c : Nat) : Option Nat :=
  if 48 ≤ c ∧ c ≤ 57 then some (c - 48)
  else if 65 ≤ c ∧ c ≤ 70 then some (c - 65 + 10)
  else if 97 ≤ c ∧ c ≤ 102 then some (c - 97 + 10)
  else none

/-- what `ASCIIHexDecode` returns when it leaves its loop: the output so far plus the
pending high nibble, if any, padded with a zero low nibble (`b1 << 4`). `acc` is the
output reversed. -/
def hexFinish (pending : Option Nat) (acc : Str) : Str :=
  match pending with
  | none => acc.reverse
  | some h => (h * 16 :: acc).reverse

/-- The loop of `filters.ASCIIHexDecode` as one pass over the data. The Go loop has two
program points that read a byte: "before the first digit of a pair" (`pending = none`) and
"after the first digit" (`pending = some b1`, the inner whitespace-skipping loop). At both
points whitespace is skipped, `>` (62) or the end of the data ends decoding (a pending digit
is written as `b1<<4`), an invalid digit is an error. (The special case `i+1 >= len(data)`
in Go — the last byte read as a first digit — is the path `pending = some v` followed by
the end of the data.) -/
def hexGo : Str → Option Nat → Str → Option Str
  | [], pending, acc => some (hexFinish pending acc)
  | c :: rest, pending, acc =>
    if isWs c then hexGo rest pending acc
    else if c = 62 then some (hexFinish pending acc)
    else match hexVal c with
      | none => none
      | some v =>
        match pending with
        | none => hexGo rest (some v) acc
        | some h => hexGo rest none ((h * 16 + v) :: acc)

/-- `filters.ASCIIHexDecode` -/
def hexDecode (data : Str) : Option Str := hexGo data none []

/-! ### ASCII85 -/

/-- `value = value*85 + d` over the digits (in `uint64`, so without wrap-around for five
digits < 256) -/
def a85Value (ds : List Nat) : Nat := ds.foldl (fun v d => v * 85 + d) 0

/-- the big-endian bytes of a 32-bit value: `byte(value >> (24 - j*8))`, j = 0..3 -/
def bytes4 (v : Nat) : List Nat := [v / 16777216 % 256, v / 65536 % 256, v / 256 % 256, v % 256]

/-- The tail of the outer loop body of `ASCII85Decode` for a collected group `ds` of 1..5
digits: pad with 84 to five digits, compute the value, reject a value above 2^32-1, emit the
first `len(ds)-1` bytes. `none` = error. An empty group emits nothing (`len(digits)==0`: break). -/
def a85Flush (ds : List Nat) : Option (List Nat) :=
  if ds = [] then some []
  else
    let v := a85Value (ds ++ List.replicate (5 - ds.length) 84)
    if v > 4294967295 then none
    else some ((bytes4 v).take (ds.length - 1))

/-- leaving the loops of `ASCII85Decode` (at `~>` or at the end of the data) with the
digits `ds` of an unfinished group -/
def a85Finish (ds : List Nat) (acc : Str) : Option Str :=
  match a85Flush ds with
  | none => none
  | some g => some (acc.reverse ++ g)

/-- The two nested loops of `filters.ASCII85Decode` as one pass over the data. `ds` are the
digits of the group being collected (`ds = []`: the program point at the top of the outer
loop; otherwise inside the inner loop), `acc` the output reversed. At both points whitespace
is skipped and `~>` ends decoding; `z` (122) is four zero bytes at the top of the outer loop
only (inside a group it is > 'u', an error); a byte outside `!`..`u` is an error; the fifth
digit completes a group. -/
def a85Go : Str → List Nat → Str → Option Str
  | [], ds, acc => a85Finish ds acc
  | c :: rest, ds, acc =>
    if isWs c then a85Go rest ds acc
    else if c = 126 ∧ rest.head? = some 62 then a85Finish ds acc
    else if ds = [] ∧ c = 122 then a85Go rest [] (0 :: 0 :: 0 :: 0 :: acc)
    else if c < 33 ∨ c > 117 then none
    else
      let ds' := ds ++ [c - 33]
      if ds'.length = 5 then
        match a85Flush ds' with
        | none => none
        | some g => a85Go rest [] (g.reverse ++ acc)
      else a85Go rest ds' acc

/-- `filters.ASCII85Decode` -/
def a85Decode (data : Str) : Option Str := a85Go data [] []

/-! ### predictors -/

/-- decode parameters after `dictToParams`/`getIntParam`: `none` = key absent or not a number -/
structure Params where
  predictor : Option Int := none
  columns : Option Int := none
  colors : Option Int := none
  bpc : Option Int := none
  /-- `Rows`, `K`, `BlackIs1`: read by `filters.CCITTFaxDecode` only -/
  rows : Option Int := none
  k : Option Int := none
  blackIs1 : Option Bool := none
deriving Repr, DecidableEq, Inhabited

/-- `filters.paethPredictor` -/
def paeth (a b c : Nat) : Nat :=
  let p : Int := (a : Int) + (b : Int) - (c : Int)
  let pa := (p - (a : Int)).natAbs
  let pb := (p - (b : Int)).natAbs
  let pc := (p - (c : Int)).natAbs
  if pa ≤ pb ∧ pa ≤ pc then a else if pb ≤ pc then b else c

/-- `result[i-bytesPerPixel]` guarded by `i >= bytesPerPixel`, else 0.
(`none` would be a Go index panic; it cannot happen because `i = len(done)`.) -/
def leftOf (bpp : Nat) (done : Str) : Option Nat :=
  if done.length ≥ bpp then done[done.length - bpp]? else some 0

/-- `prevRows[(rowNum-1)*rowLength+i]` guarded by `rowNum > 0`, else 0; `prev` is the
previous decoded row (`none` on row 0) -/
def upOf (prev : Option Str) (i : Nat) : Option Nat :=
  match prev with
  | none => some 0
  | some pr => pr[i]?

/-- `prevRows[(rowNum-1)*rowLength+i-bytesPerPixel]` guarded by `rowNum > 0 && i >= bytesPerPixel` -/
def upLeftOf (bpp : Nat) (prev : Option Str) (i : Nat) : Option Nat :=
  match prev with
  | none => some 0
  | some pr => if i ≥ bpp then pr[i - bpp]? else some 0

/-- the `switch predictor` inside the loop of `filters.decodePNGRow`: the predicted byte for
position `i = len(done)`, where `done` is `result[0:i]`. `none` for an unknown tag. -/
def pngPredicted (tag bpp : Nat) (prev : Option Str) (done : Str) : Option Nat :=
  match tag with
  | 0 => some 0
  | 1 => leftOf bpp done
  | 2 => upOf prev done.length
  | 3 =>
    match leftOf bpp done, upOf prev done.length with
    | some left, some up => some ((left + up) / 2)
    | _, _ => none
  | 4 =>
    match leftOf bpp done, upOf prev done.length, upLeftOf bpp prev done.length with
    | some left, some up, some ul => some (paeth left up ul)
    | _, _, _ => none
  | _ => none

/-- a row loop `result[i] = rowData[i] + predicted` with the predictor `P` reading the
already decoded prefix -/
def decRow (P : Str → Option Nat) : Str → Str → Option Str
  | [], done => some done
  | f :: fs, done =>
    match P done with
    | none => none
    | some p => decRow P fs (done ++ [(f + p) % 256])

/-- `filters.decodePNGRow` -/
def decodePNGRow (rowData : Str) (tag bpp : Nat) (prev : Option Str) : Option Str :=
  decRow (pngPredicted tag bpp prev) rowData []

/-- the row loop of `filters.applyPNGPredictor` (`n` rows left; `acc` = decoded rows, newest
first). The tag is `data[rowStart]`, the row data `data[rowStart+1 : rowStart+rowSize]`. -/
def pngRows : Nat → Nat → Nat → Str → Option Str → List Str → Option Str
  | 0, _, _, _, _, acc => some acc.reverse.flatten
  | n + 1, rowLen, bpp, data, prev, acc =>
    match data with
    | [] => none
    | tag :: body =>
      match decodePNGRow (body.take rowLen) tag bpp prev with
      | none => none
      | some row => pngRows n rowLen bpp (body.drop rowLen) (some row) (row :: acc)

/-- `filters.predictorRowBytes`: Columns and Colors must be positive and their product
at most 2^31-2 -/
def predictorRowBytes (columns colors : Int) : Option Nat :=
  if columns < 1 ∨ colors < 1 then none
  else if columns > 2147483646 / colors then none
  else some (columns * colors).toNat

/-- `filters.applyPNGPredictor` -/
def applyPNGPredictor (data : Str) (p : Params) : Option Str :=
  let columns := p.columns.getD 1
  let colors := p.colors.getD 1
  let bpc := p.bpc.getD 8
  if bpc ≠ 8 then none
  else match predictorRowBytes columns colors with
    | none => none
    | some rowBytes =>
      let rowSize := rowBytes + 1
      if data.length % rowSize ≠ 0 then none
      else pngRows (data.length / rowSize) rowBytes colors.toNat data none []

/-- the predicted byte of TIFF predictor 2: `result[idx-colors]` for `col >= colors`, else
nothing is added -/
def tiffPredicted (colors : Nat) (done : Str) : Option Nat :=
  if done.length < colors then some 0 else done[done.length - colors]?

/-- the row loop of `filters.applyTIFFPredictor2` -/
def tiffRows : Nat → Nat → Nat → Str → List Str → Option Str
  | 0, _, _, _, acc => some acc.reverse.flatten
  | n + 1, rowSize, colors, data, acc =>
    match decRow (tiffPredicted colors) (data.take rowSize) [] with
    | none => none
    | some row => tiffRows n rowSize colors (data.drop rowSize) (row :: acc)

/-- `filters.applyTIFFPredictor2` -/
def applyTIFFPredictor2 (data : Str) (p : Params) : Option Str :=
  let columns := p.columns.getD 1
  let colors := p.colors.getD 1
  let bpc := p.bpc.getD 8
  if bpc ≠ 8 then none
  else match predictorRowBytes columns colors with
    | none => none
    | some rowSize =>
      if data.length % rowSize ≠ 0 then none
      else tiffRows (data.length / rowSize) rowSize colors.toNat data []

/-- `filters.applyPredictor` -/
def applyPredictor (data : Str) (predictor : Int) (p : Params) : Option Str :=
  if predictor = 1 then some data
  else if predictor = 2 then applyTIFFPredictor2 data p
  else if predictor ≥ 10 ∧ predictor ≤ 15 then applyPNGPredictor data p
  else none

/-- the part of `filters.FlateDecode` after decompression -/
def flatePost (params : Option Params) (dec : Str) : Option Str :=
  match params with
  | none => some dec
  | some p =>
    match p.predictor with
    | none => some dec
    | some pr => if pr ≠ 1 then applyPredictor dec pr p else some dec

/-- `filters.FlateDecode`; `inflate` stands for `zlibDecompress` -/
def flateDecode (inflate : Str → Option Str) (data : Str) (params : Option Params) : Option Str :=
  match inflate data with
  | none => none
  | some dec => flatePost params dec

/-! ### `core/stream.go` -/

/-- the arguments `filters.CCITTFaxDecode` passes to `ccitt.NewReader` (bit order is always MSB):
sub-format Group4 or Group3, `Options.Invert`, width, height (`-1` = `ccitt.AutoDetectHeight`) -/
structure CcittArgs where
  group4 : Bool
  invert : Bool
  columns : Int
  rows : Int
deriving Repr, DecidableEq, Inhabited

/-- external decoders: zlib inflate and x/image/ccitt (`io.ReadAll(ccitt.NewReader(…))`, the whole
image the library would yield, without tabula's size limit) -/
structure Ext where
  inflate : Str → Option Str
  ccitt : CcittArgs → Str → Option Str

/-- `maxCCITTOutput` of `internal/filters/ccittfax.go`: `64 << 20`, the largest decoded image
(in bytes) `CCITTFaxDecode` hands on -/
def maxCCITTOutput : Nat := 67108864

/-- the bytes `io.ReadAll(io.LimitReader(reader, maxCCITTOutput+1))` keeps of what the reader
would yield: its first `maxCCITTOutput + 1` bytes -/
def ccittKept (out : Str) : Str := out.take (maxCCITTOutput + 1)

/-- what the compiled driver runs for `ccittKept`: the same list, without copying an answer that is
short enough already (proved equal, `ccittKept_eq_fast`) -/
def ccittKeptFast (out : Str) : Str :=
  if out.length ≤ maxCCITTOutput + 1 then out else out.take (maxCCITTOutput + 1)

@[csimp] theorem ccittKept_eq_fast : @ccittKept = @ccittKeptFast := by
  funext out
  unfold ccittKept ccittKeptFast
  split
  · rename_i h; exact List.take_of_length_le h
  · rfl

/-- the end of `filters.CCITTFaxDecode` (fix 6dc2783): `out, err := io.ReadAll(io.LimitReader(reader,
maxCCITTOutput+1)); if len(out) > maxCCITTOutput { return nil, error }; return out, err`.
`r` is what `io.ReadAll(reader)` would answer without the limit (`none` = the reader fails somewhere:
before the limit that is `err`, after it the length test fires — an error either way). The
comparison is `>`: an image of exactly `maxCCITTOutput` bytes passes, one byte more is refused,
nothing is truncated. -/
def ccittLimit (r : Option Str) : Option Str :=
  match r with
  | none => none
  | some out =>
    let kept := ccittKept out
    if kept.length > maxCCITTOutput then none else some kept

/-- `filters.CCITTFaxDecode`: Columns (default 1728), Rows (0), K (0), BlackIs1 (false) from the
parameters; Columns < 1 and Rows < 0 are refused (fix 0d4fd26, before the reader is made); K < 0
selects Group 4, otherwise Group 3; Rows = 0 means "detect the height"; the decoded image is read
through `ccittLimit` (at most `maxCCITTOutput` bytes, else an error) -/
def ccittFaxDecode (rd : CcittArgs → Str → Option Str) (data : Str) (params : Option Params) : Option Str :=
  let p := params.getD {}
  let columns := p.columns.getD 1728
  let rows := p.rows.getD 0
  let k := p.k.getD 0
  let blackIs1 := p.blackIs1.getD false
  if columns < 1 then none
  else if rows < 0 then none
  else ccittLimit (rd { group4 := decide (k < 0), invert := blackIs1, columns := columns, rows := if rows = 0 then -1 else rows } data)

def nFlateDecode : Str := [70, 108, 97, 116, 101, 68, 101, 99, 111, 100, 101]
def nFl : Str := [70, 108]
def nASCIIHexDecode : Str := [65, 83, 67, 73, 73, 72, 101, 120, 68, 101, 99, 111, 100, 101]
def nAHx : Str := [65, 72, 120]
def nASCII85Decode : Str := [65, 83, 67, 73, 73, 56, 53, 68, 101, 99, 111, 100, 101]
def nA85 : Str := [65, 56, 53]
def nLZWDecode : Str := [76, 90, 87, 68, 101, 99, 111, 100, 101]
def nLZW : Str := [76, 90, 87]
def nRunLengthDecode : Str := [82, 117, 110, 76, 101, 110, 103, 116, 104, 68, 101, 99, 111, 100, 101]
def nRL : Str := [82, 76]
def nCCITTFaxDecode : Str := [67, 67, 73, 84, 84, 70, 97, 120, 68, 101, 99, 111, 100, 101]
def nCCF : Str := [67, 67, 70]
def nJBIG2Decode : Str := [74, 66, 73, 71, 50, 68, 101, 99, 111, 100, 101]
def nDCTDecode : Str := [68, 67, 84, 68, 101, 99, 111, 100, 101]
def nDCT : Str := [68, 67, 84]
def nJPXDecode : Str := [74, 80, 88, 68, 101, 99, 111, 100, 101]
def nCrypt : Str := [67, 114, 121, 112, 116]

/-- `core.decodeWithFilter` (the `switch filterName`) -/
def decodeWithFilter (ext : Ext) (data : Str) (name : Str) (params : Option Params) : Option Str :=
  if name = nFlateDecode ∨ name = nFl then flateDecode ext.inflate data params
  else if name = nASCIIHexDecode ∨ name = nAHx then hexDecode data
  else if name = nASCII85Decode ∨ name = nA85 then a85Decode data
  else if name = nLZWDecode ∨ name = nLZW then none
  else if name = nRunLengthDecode ∨ name = nRL then none
  else if name = nCCITTFaxDecode ∨ name = nCCF then ccittFaxDecode ext.ccitt data params
  else if name = nJBIG2Decode then none
  else if name = nDCTDecode ∨ name = nDCT then some data
  else if name = nJPXDecode then some data
  else if name = nCrypt then none
  else none

/-- an object found under `DecodeParms` (or inside the `DecodeParms` array) -/
inductive PObj where
  | absent            -- Go `nil`
  | null              -- core.Null
  | dict (p : Params) -- core.Dict
  | other             -- any other object type
deriving Repr, DecidableEq, Inhabited

/-- the `DecodeParms` entry: an array or anything else -/
inductive DParms where
  | one (o : PObj)
  | array (xs : List PObj)
deriving Repr, Inhabited

/-- an element of the `Filter` array / the `Filter` entry itself -/
inductive FObj where
  | name (s : Str)
  | other
deriving Repr, DecidableEq, Inhabited

inductive Filter where
  | absent
  | one (o : FObj)
  | array (xs : List FObj)
deriving Repr, Inhabited

/-- `core.paramsObjToDict` -/
def paramsObjToDict : PObj → Option Params
  | .dict p => some p
  | _ => none

/-- the `params` computed inside the loop of `Decode` for filter number `i` -/
def chainParams (dp : DParms) (i : Nat) : Option Params :=
  match dp with
  | .array xs =>
    match xs[i]? with
    | some o => paramsObjToDict o
    | none => none
  | .one o => paramsObjToDict o

/-- the `for i, filter := range filterArray` loop of `Decode` -/
def decodeChain (ext : Ext) (dp : DParms) : List FObj → Nat → Str → Option Str
  | [], _, data => some data
  | .other :: _, _, _ => none
  | .name n :: fs, i, data =>
    match decodeWithFilter ext data n (chainParams dp i) with
    | none => none
    | some d => decodeChain ext dp fs (i + 1) d

/-- `(*core.Stream).Decode` -/
def streamDecode (ext : Ext) (f : Filter) (dp : DParms) (data : Str) : Option Str :=
  match f with
  | .absent => some data
  | .one (.name n) =>
    decodeWithFilter ext data n
      (match dp with
       | .one o => paramsObjToDict o
       | .array _ => none)
  | .one .other => none
  | .array fs => decodeChain ext dp fs 0 data

/-! ## Specification encoders (the "conforming encoder") -/

/-- lower-case (or upper-case) hexadecimal digit character of a nibble -/
def hexDigit (upper : Bool) (n : Nat) : Nat :=
  if n < 10 then 48 + n else if upper then 55 + n else 87 + n

/-- PDF 32000-1 §7.4.2: two hexadecimal digits per byte, then the EOD marker `>` -/
def hexBody (upper : Bool) : Str → Str
  | [] => []
  | b :: bs => hexDigit upper (b / 16) :: hexDigit upper (b % 16) :: hexBody upper bs

def hexEncode (upper : Bool) (x : Str) : Str := hexBody upper x ++ [62]

/-- the five base-85 digits of a 32-bit value, most significant first, as characters
`!`..`u` (PDF 32000-1 §7.4.3) -/
def a85Digits (v : Nat) : List Nat :=
  [v / 52200625 + 33, v / 614125 % 85 + 33, v / 7225 % 85 + 33, v / 85 % 85 + 33, v % 85 + 33]

def word (a b c d : Nat) : Nat := a * 16777216 + b * 65536 + c * 256 + d

/-- §7.4.3: groups of four bytes become five digits, an all-zero group becomes `z`, a final
group of n = 1..3 bytes is padded with zero bytes and its first n+1 digits are written -/
def a85Body : Str → Str
  | a :: b :: c :: d :: rest =>
    (if a = 0 ∧ b = 0 ∧ c = 0 ∧ d = 0 then [122] else a85Digits (word a b c d)) ++ a85Body rest
  | [a, b, c] => (a85Digits (word a b c 0)).take 4
  | [a, b] => (a85Digits (word a b 0 0)).take 3
  | [a] => (a85Digits (word a 0 0 0)).take 2
  | [] => []

/-- the encoded data followed by the EOD marker `~>` -/
def a85Encode (x : Str) : Str := a85Body x ++ [126, 62]

/-- `HexEnc s x`: `s` is a writing of the bytes `x` that a conforming ASCIIHex encoder may
produce (§7.4.2): two hexadecimal digits per byte, upper or lower case, with white space
allowed anywhere (before, between and after the digits). -/
inductive HexEnc : Str → Str → Prop
  | nil : HexEnc [] []
  | ws (c : Nat) (s x : Str) : isWs c = true → HexEnc s x → HexEnc (c :: s) x
  | byte (h l b : Nat) (w s x : Str) : hexVal h = some (b / 16) → hexVal l = some (b % 16) →
      (∀ c ∈ w, isWs c = true) → HexEnc s x → HexEnc (h :: (w ++ l :: s)) (b :: x)

/-- `A85Writing s x`: `s` is the ASCII85 body of `x` (before the EOD) with white space
interleaved anywhere (§7.4.3: "white-space characters shall be ignored") -/
def A85Writing (s x : Str) : Prop := s.filter (fun c => !isWs c) = a85Body x

/-- PNG §9.4 PaethPredictor -/
def specPaeth (a b c : Nat) : Nat :=
  let p : Int := (a : Int) + (b : Int) - (c : Int)
  let pa := (p - (a : Int)).natAbs
  let pb := (p - (b : Int)).natAbs
  let pc := (p - (c : Int)).natAbs
  if pa ≤ pb ∧ pa ≤ pc then a else if pb ≤ pc then b else c

/-- PNG §9.2: the predictor of filter type `tag` from a = the byte `bpp` positions to the
left, b = the byte above, c = the byte above and to the left -/
def specPred (tag a b c : Nat) : Nat :=
  match tag with
  | 0 => 0
  | 1 => a
  | 2 => b
  | 3 => (a + b) / 2
  | _ => specPaeth a b c

/-- `Raw(x)` / `Prior(x)` with the convention of PNG §9.2: zero for x < 0 (and outside the
scanline) -/
def byteAt (row : Str) (x : Int) : Nat := if x < 0 then 0 else row.getD x.toNat 0

/-- the predictor for position `x = |raw|` where `raw` is the scanline up to `x` and `prior`
the previous unfiltered scanline (all zero on the first scanline): a = Raw(x-bpp), b = Prior(x),
c = Prior(x-bpp) -/
def specPredAt (tag bpp : Nat) (prior raw : Str) : Nat :=
  let x : Int := raw.length
  specPred tag (byteAt raw (x - bpp)) (byteAt prior x) (byteAt prior (x - bpp))

/-- filter a scanline left to right: `Filt(x) = Raw(x) - P(Raw(0..x-1)) mod 256` -/
def encRow (P : Str → Nat) : Str → Str → Str
  | [], _ => []
  | r :: rs, done => (r + 256 - P done % 256) % 256 :: encRow P rs (done ++ [r])

/-- PNG §9: every scanline is preceded by its filter-type byte; `tags` has one entry per
scanline. (`prior` is the previous raw scanline.) -/
def pngPredictRows (bpp rowLen : Nat) : List Nat → Str → Str → Str
  | [], _, _ => []
  | tag :: tags, data, prior =>
    let raw := data.take rowLen
    tag :: encRow (specPredAt tag bpp prior) raw [] ++ pngPredictRows bpp rowLen tags (data.drop rowLen) raw

/-- the conforming PNG-predictor encoder for `colors` components of 8 bits and `columns`
pixels per row, one filter type per row -/
def pngPredict (colors columns : Nat) (tags : List Nat) (data : Str) : Str :=
  pngPredictRows colors (columns * colors) tags data (List.replicate (columns * colors) 0)

/-- TIFF 6.0 §14 horizontal differencing: each sample minus the same component of the pixel
to its left; the first pixel of a row is unchanged -/
def specTiffAt (colors : Nat) (raw : Str) : Nat := byteAt raw ((raw.length : Int) - colors)

def tiffPredictRows (colors rowLen : Nat) : Nat → Str → Str
  | 0, _ => []
  | n + 1, data => encRow (specTiffAt colors) (data.take rowLen) [] ++ tiffPredictRows colors rowLen n (data.drop rowLen)

def tiffPredict (colors columns : Nat) (data : Str) : Str :=
  tiffPredictRows colors (columns * colors) (data.length / (columns * colors)) data

end Tabula.Filters
