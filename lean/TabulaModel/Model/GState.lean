import TabulaModel.Model.Matrix
/-
Model of `graphicsstate.GraphicsState` (graphicsstate/state.go, after the two
`fix:` commits of branch agent-C08) and of the operator dispatch of
`text.(*Extractor).processOperation` / `invokeXObject` / `showText`
(text/extractor.go) and `graphicsstate.(*GraphicsExtractor).processOperation`
(graphicsstate/extractor.go) for the operators

  q Q cm BT ET Tf Tm Td TD T* TL Tc Tw Tz Ts Tj TJ ' "   Do (Form XObject)   m/l/S (one line)

Core Lean only, generic in the number type `α` (a commutative ring with
decidable `=` and `<`).

Not modelled: colours, line width, rendering mode, font names.  The amount by which
a shown string or a `TJ` number displaces the text matrix is a *parameter* here
(`Adv`; `Model/TextAdv.lean` gives the function the code computes, over a field):
`showText` / the number case of `showTextArray` call `AdvanceText(adv …)`, which
sets `Tm := T(tx,0) × Tm` (branch agent-C08 after 6121d81), and the ghost flag `dirty`
records that `Tm` now contains such an amount.  Every operator that assigns the
text matrix clears it.
-/
namespace Tabula.GState
open Tabula

variable {α : Type}

/-- `graphicsstate.TextState` (fields that the operator set can change) -/
structure TextState (α : Type) where
  fontSize : α
  charSpacing : α
  wordSpacing : α
  hScaling : α
  leading : α
  /-- `Rise` (Ts) -/
  rise : α
  tm : Matrix α
  tlm : Matrix α
  /-- ghost: `tm` contains glyph advances or `TJ` adjustments (not a Go field) -/
  dirty : Bool
deriving DecidableEq, Repr

/-- what `Clone()` copies and `Restore()` writes back: CTM and text state
(line width and colours are copied too but nothing in the operator set reads them) -/
structure Frame (α : Type) where
  ctm : Matrix α
  text : TextState α
deriving DecidableEq, Repr

/-- `GraphicsState` plus the extractor's `xobjectDepth`. `stack` has the most recent
`Save` first (Go appends to and pops from the end of its slice). -/
structure State (α : Type) where
  cur : Frame α
  stack : List (Frame α)
  xdepth : Nat
deriving DecidableEq, Repr

/-- one fragment emitted by `showText`: device-space origin, and the three factors of
the reported font size: `FontSize² = fs² · tmScale2 · ctmScale2`. `clean` = the origin
is one the property determines: it does not depend on a glyph advance or `TJ` adjustment
(first show after a positioning step) and the text rise is 0. -/
structure Show (α : Type) where
  x : α
  y : α
  fs : α
  tmScale2 : α
  ctmScale2 : α
  clean : Bool
deriving DecidableEq, Repr

/-- an element of a `TJ` array that `showTextArray` looks at: a string (identified by a
number) or a number; elements of any other type are skipped by its `switch` -/
inductive TJItem (α : Type) where
  | str (sid : Nat)
  | num (v : α)
deriving DecidableEq, Repr

/-- the displacement `tx` handed to `AdvanceText`: for a string the one
`ShowTextWithWidth` computes (font widths, Tc, Tw, Tz), for a `TJ` number
`-v · fontSize · hScale / 1000`; depends on the text state; a black box here, the
code's function in `Model/TextAdv.lean` -/
abbrev Adv (α : Type) := TextState α → TJItem α → α

/-- the operators; `form m body` is `Do` of a name that resolves to a Form XObject
with `/Matrix m` (or none) and content stream `body`; `line` is `x0 y0 m x1 y1 l S`
(seen only by the graphics extractor). Strings are identified by a number. -/
inductive Op (α : Type) where
  | q | Q
  | cm (m : Matrix α)
  | BT | ET
  | Tf (size : α)
  | Tm (m : Matrix α)
  | Td (tx ty : α)
  | TD (tx ty : α)
  | Tstar
  | TL (l : α)
  | Tc (c : α)
  | Tw (w : α)
  | Tz (z : α)
  | Ts (r : α)
  | Tj (sid : Nat)
  | TJ (items : List (TJItem α))
  | quote (sid : Nat)
  | dquote (aw ac : α) (sid : Nat)
  | form (m : Option (Matrix α)) (body : List (Op α))
  | line (x0 y0 x1 y1 : α)

/-- `maxXObjectDepth` of `text.NewExtractor` -/
def maxXObjectDepth : Nat := 10

section
variable [Lean.Grind.CommRing α]

/-- `NewGraphicsState()` inside `text.NewExtractor()` -/
def initText : TextState α :=
  { fontSize := 12, charSpacing := 0, wordSpacing := 0, hScaling := 100, leading := 0, rise := 0,
    tm := Matrix.identity, tlm := Matrix.identity, dirty := false }

def init : State α := { cur := { ctm := Matrix.identity, text := initText }, stack := [], xdepth := 0 }

namespace State

def mapText (s : State α) (f : TextState α → TextState α) : State α :=
  { s with cur := { s.cur with text := f s.cur.text } }

/-- `Save` (with `Clone`) -/
def save (s : State α) : State α := { s with stack := s.cur :: s.stack }

/-- `Restore`; `none` = "graphics state stack underflow" -/
def restore (s : State α) : Option (State α) :=
  match s.stack with
  | [] => none
  | f :: rest => some { s with cur := f, stack := rest }

/-- `Transform` (cm): `gs.CTM = m.Multiply(gs.CTM)` -/
def transform (s : State α) (m : Matrix α) : State α :=
  { s with cur := { s.cur with ctm := m.mul s.cur.ctm } }

/-- `BeginText` -/
def beginText (s : State α) : State α :=
  s.mapText fun t => { t with tm := Matrix.identity, tlm := Matrix.identity, dirty := false }

/-- `SetTextMatrix` -/
def setTextMatrix (s : State α) (m : Matrix α) : State α :=
  s.mapText fun t => { t with tm := m, tlm := m, dirty := false }

/-- `TranslateText` (Td): `Tlm = Translate(tx,ty).Multiply(Tlm); Tm = Tlm` -/
def translateText (s : State α) (tx ty : α) : State α :=
  s.mapText fun t =>
    let l := (Matrix.translate tx ty).mul t.tlm
    { t with tm := l, tlm := l, dirty := false }

/-- `SetLeading` -/
def setLeading (s : State α) (l : α) : State α := s.mapText fun t => { t with leading := l }

/-- `TranslateTextSetLeading` (TD) -/
def translateTextSetLeading (s : State α) (tx ty : α) : State α :=
  (s.setLeading (-ty)).translateText tx ty

/-- `NextLine` (T*) -/
def nextLine (s : State α) : State α := s.translateText 0 (-s.cur.text.leading)

def setFont (s : State α) (size : α) : State α := s.mapText fun t => { t with fontSize := size }
def setCharSpacing (s : State α) (c : α) : State α := s.mapText fun t => { t with charSpacing := c }
def setWordSpacing (s : State α) (w : α) : State α := s.mapText fun t => { t with wordSpacing := w }
def setHorizontalScaling (s : State α) (z : α) : State α := s.mapText fun t => { t with hScaling := z }
/-- `SetTextRise` (Ts) -/
def setTextRise (s : State α) (r : α) : State α := s.mapText fun t => { t with rise := r }

/-- `AdvanceText(tx)`: `Tm[4] += tx·Tm[0]; Tm[5] += tx·Tm[1]`, i.e. `Tm := T(tx,0) × Tm`
(`Lemmas/GState.lean: advanceText_tm`); the line matrix is not touched -/
def advanceText (s : State α) (tx : α) : State α :=
  s.mapText fun t =>
    { t with tm := { t.tm with e := t.tm.e + tx * t.tm.a, f := t.tm.f + tx * t.tm.b }, dirty := true }

/-- `GetTextPosition`: `x = Tm.e`, `y = Tm.f + Rise`, through the CTM -/
def getTextPosition (s : State α) : α × α :=
  s.cur.ctm.transformPoint (s.cur.text.tm.e, s.cur.text.tm.f + s.cur.text.rise)

end State
end

section
variable [Lean.Grind.CommRing α] [DecidableEq α] [LT α] [DecidableLT α]

/-- square of the factor applied by `GetEffectiveFontSize`:
`scale := verticalScale; if horizontalScale > verticalScale { scale = horizontalScale }`
with `horizontalScale = sqrt(a²+b²)`, `verticalScale = sqrt(c²+d²)` (sqrt is monotone,
so the comparison is made on the squares) -/
def tmScale2 (m : Matrix α) : α :=
  if m.vScale2 < m.hScale2 then m.hScale2 else m.vScale2

/-- square of `ctmScale` in `showText`: `sqrt(c²+d²)`, replaced by 1 when it is 0 -/
def ctmScale2 (m : Matrix α) : α :=
  if m.vScale2 = 0 then 1 else m.vScale2

/-- `text.(*Extractor).showText`: emit the fragment, then `ShowTextWithWidth` moves the
text matrix by the advance (`AdvanceText`) -/
def showText (adv : Adv α) (sid : Nat) (s : State α) : State α × Show α :=
  let p := s.getTextPosition
  let t := s.cur.text
  let sh : Show α := { x := p.1, y := p.2, fs := t.fontSize, tmScale2 := tmScale2 t.tm,
                       ctmScale2 := ctmScale2 s.cur.ctm, clean := !t.dirty && decide (t.rise = 0) }
  (s.advanceText (adv t (.str sid)), sh)

/-- `text.(*Extractor).showTextArray` (TJ): a string is shown, a number moves the text
matrix (only the text matrix) by `AdvanceText(-v · fontSize · hScale / 1000)` -/
def showTextArray (adv : Adv α) : List (TJItem α) → State α → State α × List (Show α)
  | [], s => (s, [])
  | .str sid :: rest, s =>
    let r := showText adv sid s
    let r2 := showTextArray adv rest r.1
    (r2.1, r.2 :: r2.2)
  | .num v :: rest, s => showTextArray adv rest (s.advanceText (adv s.cur.text (.num v)))

/-- every operator except `Do`: new state, emitted fragments, error flag
(`processOperation` returns an error only for `Q` on an empty stack; the state is then
unchanged). -/
def stepBasic (adv : Adv α) : Op α → State α → State α × List (Show α) × Bool
  | .q, s => (s.save, [], false)
  | .Q, s => match s.restore with
    | some s' => (s', [], false)
    | none => (s, [], true)
  | .cm m, s => (s.transform m, [], false)
  | .BT, s => (s.beginText, [], false)
  | .ET, s => (s, [], false)
  | .Tf size, s => (s.setFont size, [], false)
  | .Tm m, s => (s.setTextMatrix m, [], false)
  | .Td tx ty, s => (s.translateText tx ty, [], false)
  | .TD tx ty, s => (s.translateTextSetLeading tx ty, [], false)
  | .Tstar, s => (s.nextLine, [], false)
  | .TL l, s => (s.setLeading l, [], false)
  | .Tc c, s => (s.setCharSpacing c, [], false)
  | .Tw w, s => (s.setWordSpacing w, [], false)
  | .Tz z, s => (s.setHorizontalScaling z, [], false)
  | .Ts r, s => (s.setTextRise r, [], false)
  | .TJ items, s => let r := showTextArray adv items s; (r.1, r.2, false)
  | .Tj sid, s => let r := showText adv sid s; (r.1, [r.2], false)
  | .quote sid, s => let r := showText adv sid s.nextLine; (r.1, [r.2], false)
  | .dquote aw ac sid, s =>
    let r := showText adv sid ((s.setWordSpacing aw).setCharSpacing ac).nextLine
    (r.1, [r.2], false)
  | .form _ _, s => (s, [], false)
  | .line _ _ _ _, s => (s, [], false)

/-- state on entry to a form's content: `Save`, `xobjectDepth++`, `Transform(/Matrix)` -/
def formEnter (m : Option (Matrix α)) (s : State α) : State α :=
  let s1 := { s.save with xdepth := s.xdepth + 1 }
  match m with
  | some m => s1.transform m
  | none => s1

/-- on exit: `xobjectDepth--`, `Restore()` (its error is dropped) -/
def formExit (s : State α) : State α :=
  let s1 := { s with xdepth := s.xdepth - 1 }
  match s1.restore with
  | some s2 => s2
  | none => s1

/-- the loop of `invokeXObject` over a form's operations: errors of the individual
operations are ignored ("Continue processing despite errors"); nested `Do` recurses. -/
def runForm (adv : Adv α) : List (Op α) → State α → State α × List (Show α)
  | [], s => (s, [])
  | .form m body :: rest, s =>
    if s.xdepth ≥ maxXObjectDepth then runForm adv rest s
    else
      let r := runForm adv body (formEnter m s)
      let r2 := runForm adv rest (formExit r.1)
      (r2.1, r.2 ++ r2.2)
  | op :: rest, s =>
    let r := stepBasic adv op s
    let r2 := runForm adv rest r.1
    (r2.1, r.2.1 ++ r2.2)

/-- `processOperation`: `Do` runs the form (never fails), everything else is `stepBasic` -/
def step (adv : Adv α) (op : Op α) (s : State α) : State α × List (Show α) × Bool :=
  match op with
  | .form m body =>
    if s.xdepth ≥ maxXObjectDepth then (s, [], false)
    else
      let r := runForm adv body (formEnter m s)
      (formExit r.1, r.2, false)
  | op => stepBasic adv op s

/-- the loop of `Extract`: the first error aborts the whole extraction (`nil, err`) -/
def exec (adv : Adv α) : List (Op α) → State α → Option (State α × List (Show α))
  | [], s => some (s, [])
  | op :: rest, s =>
    let r := step adv op s
    if r.2.2 then none
    else match exec adv rest r.1 with
      | some r2 => some (r2.1, r.2.1 ++ r2.2)
      | none => none

/-- `text.NewExtractor().Extract(ops)`: the fragments, or `none` on error -/
def run (adv : Adv α) (ops : List (Op α)) (s : State α) : Option (List (Show α)) :=
  (exec adv ops s).map (·.2)

/-! ### graphics extractor (`graphicsstate.GraphicsExtractor`) -/

/-- a stroked line: both end points through the CTM (`PathExtractor.createLine`) -/
structure Seg (α : Type) where
  x0 : α
  y0 : α
  x1 : α
  y1 : α
deriving DecidableEq, Repr

/-- `GraphicsExtractor.Extract` restricted to q, Q, cm and one-segment paths; every
text operator falls through its `switch` -/
def gfx : List (Op α) → State α → Option (List (Seg α))
  | [], _ => some []
  | .q :: rest, s => gfx rest s.save
  | .Q :: rest, s => match s.restore with
    | some s' => gfx rest s'
    | none => none
  | .cm m :: rest, s => gfx rest (s.transform m)
  | .line x0 y0 x1 y1 :: rest, s =>
    let p := s.cur.ctm.transformPoint (x0, y0)
    let q := s.cur.ctm.transformPoint (x1, y1)
    (gfx rest s).map fun l => ⟨p.1, p.2, q.1, q.2⟩ :: l
  | _ :: rest, s => gfx rest s

end
end Tabula.GState
