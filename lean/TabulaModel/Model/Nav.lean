import TabulaModel.Model.Dom
/-
Model of htmldoc/navigation.go: the exclusion predicate of the four
NavigationExclusion modes. Core Lean only.

The regular expressions `(?i)(^|[^a-z])(w1|w2|…)([^a-z]|$)` are modelled as
what they amount to: some vocabulary word occurs (case-folded) with no letter
directly before or after it. Under `(?i)` Go folds the class `[^a-z]` too, so
"letter" means a-z, A-Z, U+017F (long s) and U+212A (Kelvin sign), and those
two also match `s` and `k` inside a word.

The vocabularies and tag lists below are typed from the Go source; extract/
should regenerate them (see the report of this property).
-/
namespace Tabula.Html

/-- `NavigationExclusionMode` (iota order) -/
inductive Mode where
  | none | explicit | standard | aggressive
  deriving DecidableEq, Repr

def Mode.rank : Mode → Nat
  | .none => 0 | .explicit => 1 | .standard => 2 | .aggressive => 3

/-- alternatives of `navigationPatterns.nav` -/
def vocabNav : List Str :=
  [[110, 97, 118] /- nav -/,
   [110, 97, 118, 98, 97, 114] /- navbar -/,
   [110, 97, 118, 105, 103, 97, 116, 105, 111, 110] /- navigation -/,
   [109, 101, 110, 117] /- menu -/,
   [116, 111, 112, 110, 97, 118] /- topnav -/,
   [115, 105, 100, 101, 110, 97, 118] /- sidenav -/,
   [98, 114, 101, 97, 100, 99, 114, 117, 109, 98] /- breadcrumb -/,
   [98, 114, 101, 97, 100, 99, 114, 117, 109, 98, 115] /- breadcrumbs -/]
/-- alternatives of `navigationPatterns.header` -/
def vocabHeader : List Str :=
  [[115, 105, 116, 101, 45, 104, 101, 97, 100, 101, 114] /- site-header -/,
   [112, 97, 103, 101, 45, 104, 101, 97, 100, 101, 114] /- page-header -/,
   [109, 97, 115, 116, 104, 101, 97, 100] /- masthead -/,
   [98, 97, 110, 110, 101, 114] /- banner -/]
/-- alternatives of `navigationPatterns.footer` -/
def vocabFooter : List Str :=
  [[102, 111, 111, 116, 101, 114] /- footer -/,
   [115, 105, 116, 101, 45, 102, 111, 111, 116, 101, 114] /- site-footer -/,
   [112, 97, 103, 101, 45, 102, 111, 111, 116, 101, 114] /- page-footer -/,
   [99, 111, 108, 111, 112, 104, 111, 110] /- colophon -/]
/-- alternatives of `navigationPatterns.sidebar` -/
def vocabSidebar : List Str :=
  [[115, 105, 100, 101, 98, 97, 114] /- sidebar -/,
   [119, 105, 100, 103, 101, 116, 45, 97, 114, 101, 97] /- widget-area -/,
   [119, 105, 100, 103, 101, 116] /- widget -/,
   [97, 115, 105, 100, 101] /- aside -/]
/-- alternatives of `navigationPatterns.excluded` (built in `init()`) -/
def vocabExcluded : List Str :=
  [[110, 97, 118] /- nav -/,
   [110, 97, 118, 98, 97, 114] /- navbar -/,
   [110, 97, 118, 105, 103, 97, 116, 105, 111, 110] /- navigation -/,
   [109, 101, 110, 117] /- menu -/,
   [116, 111, 112, 110, 97, 118] /- topnav -/,
   [115, 105, 100, 101, 110, 97, 118] /- sidenav -/,
   [98, 114, 101, 97, 100, 99, 114, 117, 109, 98] /- breadcrumb -/,
   [98, 114, 101, 97, 100, 99, 114, 117, 109, 98, 115] /- breadcrumbs -/,
   [115, 105, 116, 101, 45, 104, 101, 97, 100, 101, 114] /- site-header -/,
   [112, 97, 103, 101, 45, 104, 101, 97, 100, 101, 114] /- page-header -/,
   [109, 97, 115, 116, 104, 101, 97, 100] /- masthead -/,
   [98, 97, 110, 110, 101, 114] /- banner -/,
   [102, 111, 111, 116, 101, 114] /- footer -/,
   [115, 105, 116, 101, 45, 102, 111, 111, 116, 101, 114] /- site-footer -/,
   [112, 97, 103, 101, 45, 102, 111, 111, 116, 101, 114] /- page-footer -/,
   [99, 111, 108, 111, 112, 104, 111, 110] /- colophon -/,
   [115, 105, 100, 101, 98, 97, 114] /- sidebar -/,
   [119, 105, 100, 103, 101, 116, 45, 97, 114, 101, 97] /- widget-area -/,
   [119, 105, 100, 103, 101, 116] /- widget -/,
   [97, 115, 105, 100, 101] /- aside -/]

/-- the pattern vocabulary `shouldExclude` applies in each mode: the code uses the
single combined regexp for every mode ≥ Standard, and none below. -/
def vocabOf : Mode → List Str
  | .none => []
  | .explicit => []
  | .standard => vocabExcluded
  | .aggressive => vocabExcluded

/-- fold-closure of `[a-z]` under `(?i)` -/
def isLetter (c : Nat) : Bool :=
  (97 ≤ c && c ≤ 122) || (65 ≤ c && c ≤ 90) || c == 0x17F || c == 0x212A

/-- simple case folding onto the lower-case ASCII letter -/
def fold (c : Nat) : Nat :=
  if 65 ≤ c && c ≤ 90 then c + 32 else if c == 0x17F then 115 else if c == 0x212A then 107 else c

/-- `some rest` if `s` starts with the (lower-case) word `w`, case-folded -/
def stripWord : Str → Str → Option Str
  | [], s => some s
  | _ :: _, [] => none
  | w :: ws, c :: cs => if fold c = w then stripWord ws cs else none

/-- a vocabulary word starts here and is not followed by a letter -/
def wordAt (vocab : List Str) (s : Str) : Bool :=
  vocab.any fun w => match stripWord w s with
    | some [] => true
    | some (c :: _) => !isLetter c
    | none => false

/-- scan: `prevLetter` says whether the character before the current position is a letter -/
def matchFrom (vocab : List Str) : Bool → Str → Bool
  | _, [] => false
  | prevLetter, c :: cs => (!prevLetter && wordAt vocab (c :: cs)) || matchFrom vocab (isLetter c) cs

/-- `regexp.MatchString` of the pattern built from `vocab` -/
def matchVocab (vocab : List Str) (s : Str) : Bool := matchFrom vocab false s

/-- position of a node relative to body and the single top-level wrapper -/
inductive Pos where
  | root       -- the node traversal starts from (body)
  | bodyChild  -- its parent is body
  | wrapChild  -- its parent is the single top-level wrapper
  | deep
  deriving DecidableEq, Repr

/-- `isTopLevel` -/
def Pos.isTop : Pos → Bool
  | .bodyChild => true | .wrapChild => true | _ => false

/-- position of the children of a node with tag `tag` at position `pos`;
`w` = `detectTopLevelWrapper` found a wrapper (then it is the only div/main child of body) -/
def Pos.kid (w : Bool) (tag : Str) : Pos → Pos
  | .root => .bodyChild
  | .bodyChild => if w && (tag == T.div || tag == T.main) then .wrapChild else .deep
  | _ => .deep

/-- `detectTopLevelWrapper` over body's children: `none` = some other element was
met (no wrapper), `some k` = k structural (div/main) children -/
def wrapperScan : List Dom → Option Nat
  | [] => some 0
  | .elem tag _ _ :: rest =>
    if tag = T.div ∨ tag = T.main then (wrapperScan rest).map (· + 1)
    else if tag = T.script ∨ tag = T.style ∨ tag = T.noscript ∨ tag = T.template then wrapperScan rest
    else none
  | _ :: rest => wrapperScan rest

def hasWrapper : Dom → Bool
  | .elem _ _ kids => wrapperScan kids == some 1
  | .other kids => wrapperScan kids == some 1
  | .text _ => false

mutual
/-- `textLength` (bytes of the trimmed text nodes; script/style text counts too) -/
def textLength : Dom → Nat
  | .text s => byteLen (trim s)
  | .elem _ _ kids => textLengthL kids
  | .other kids => textLengthL kids
def textLengthL : List Dom → Nat
  | [] => 0
  | k :: ks => textLength k + textLengthL ks
end

mutual
/-- `linkTextLength` -/
def linkTextLength : Dom → Nat
  | .text _ => 0
  | .elem tag _ kids => if tag = T.a then textLengthL kids else linkTextLengthL kids
  | .other kids => linkTextLengthL kids
def linkTextLengthL : List Dom → Nat
  | [] => 0
  | k :: ks => linkTextLength k + linkTextLengthL ks
end

mutual
/-- `countLinks` -/
def countLinks : Dom → Nat
  | .text _ => 0
  | .elem tag _ kids => (if tag = T.a then 1 else 0) + countLinksL kids
  | .other kids => countLinksL kids
def countLinksL : List Dom → Nat
  | [] => 0
  | k :: ks => countLinks k + countLinksL ks
end

/-- `shouldExcludeExplicit` -/
def excludedExplicit (pos : Pos) (tag : Str) (attrs : List (Str × Str)) : Bool :=
  if tag = T.nav ∨ tag = T.aside then true
  else
    let role := getAttr attrs A.role
    if role = R.navigation ∨ role = R.complementary then true
    else if role = R.banner ∨ role = R.contentinfo then pos.isTop
    else if tag = T.header ∨ tag = T.footer then pos.isTop
    else false

/-- `shouldExcludeByPattern` with the vocabulary of the mode -/
def excludedPattern (vocab : List Str) (attrs : List (Str × Str)) : Bool :=
  let cls := getAttr attrs A.class
  let id := getAttr attrs A.id
  (cls != [] && matchVocab vocab cls) || (id != [] && matchVocab vocab id)

/-- `shouldExcludeByLinkDensity`: `float64(link)/float64(total) > 0.6 && links >= 4`,
in exact arithmetic `5*link > 3*total` (for total = 0 the density is 0) -/
def excludedLinkDensity (tag : Str) (kids : List Dom) : Bool :=
  (tag == T.div || tag == T.section || tag == T.ul || tag == T.ol) &&
  decide (5 * linkTextLengthL kids > 3 * textLengthL kids) && decide (countLinksL kids ≥ 4)

/-- `exclusionChecker.shouldExclude` for mode `m` -/
def excluded (m : Mode) (pos : Pos) : Dom → Bool
  | .elem tag attrs kids =>
    m != .none &&
    (excludedExplicit pos tag attrs ||
     (decide (m.rank ≥ 2) && excludedPattern (vocabOf m) attrs) ||
     (decide (m.rank ≥ 3) && excludedLinkDensity tag kids))
  | _ => false

end Tabula.Html
