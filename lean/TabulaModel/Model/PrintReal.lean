import TabulaModel.Model.Print
/-
Spellings of real numbers (ISO 32000-1 §7.3.3): optional sign, integer digits,
a decimal point, fraction digits; either digit group may be empty but not both
(`4.`, `.5`, `-002.500`, `+0.0`).  Core Lean only.
-/
namespace Tabula.Pdf

def DigitStr (s : Str) : Prop := ∀ c ∈ s, isDigit c = true

/-- value of a digit string read as a decimal numeral -/
def digitsVal (s : Str) : Nat := s.foldl (fun a c => a * 10 + (c - 48)) 0

/-- a real number as written -/
structure RealSp where
  neg : Bool
  plus : Bool   -- write `+` when not negative
  ip : Str      -- integer digits (may be empty, may have leading zeros)
  fp : Str      -- fraction digits (may be empty, may have trailing zeros)

def RealSp.Ok (r : RealSp) : Prop := DigitStr r.ip ∧ DigitStr r.fp ∧ (r.ip ≠ [] ∨ r.fp ≠ [])

def RealSp.render (r : RealSp) : Str :=
  (if r.neg then [45] else if r.plus then [43] else []) ++ (r.ip ++ 46 :: r.fp)

/-- the number meant: (-1)^neg · digitsVal (ip ++ fp) / 10^|fp|, in the normal form of `Obj.real`
(no trailing fractional zero, no negative zero) -/
def RealSp.value (r : RealSp) : Obj :=
  let p := normReal (digitsVal (r.ip ++ r.fp)) r.fp.length
  .real (r.neg && p.1 != 0) p.1 p.2

end Tabula.Pdf
