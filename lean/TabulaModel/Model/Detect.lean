/-
Model of format/detect.go (Detect, DetectFromMagic, detectHTMLMagic,
DetectFromReader, detectZIPFormat) and of the admission rule of extractor.go
(validateFormat, ensureReader), as the code is after the fix
"detect OOXML packages by main part, not by archive order" and the fix
"HTML sniffing accepts any HTML whitespace after <!DOCTYPE and leading form feeds".

Core Lean only.  Strings are `Str` = byte values as `Nat`.  External calls are
parameters: `archive/zip` hands the model the member list in archive order
(name, and for a member that could be opened the first ≤256 bytes read from
it — the code reads only members named "mimetype"); `os.Open`/`ReadAt` hands
it the first 512 bytes of the file.

Not modelled: Unicode case mapping and Unicode white space of
`strings.ToLower/ToUpper/TrimSpace` outside ASCII (no non-ASCII rune maps to
a letter of the extension table or of the HTML signatures; the only place
where non-ASCII input could change the answer is the byte window of the
`<?xml` branch of detectHTMLMagic, which is cut after upper-casing).
-/
namespace Tabula.Detect

abbrev Str := List Nat

/-- `format.Format` -/
inductive Format where
  | unknown | pdf | docx | odt | xlsx | pptx | html | epub
deriving DecidableEq, Repr, Inhabited

/-- `Format.String()` -/
def Format.name : Format → String
  | .unknown => "Unknown" | .pdf => "PDF" | .docx => "DOCX" | .odt => "ODT"
  | .xlsx => "XLSX" | .pptx => "PPTX" | .html => "HTML" | .epub => "EPUB"

def lowerB (c : Nat) : Nat := if 65 ≤ c ∧ c ≤ 90 then c + 32 else c
def upperB (c : Nat) : Nat := if 97 ≤ c ∧ c ≤ 122 then c - 32 else c
/-- `strings.ToLower` on ASCII -/
def lower (s : Str) : Str := s.map lowerB
/-- `strings.ToUpper` on ASCII -/
def upper (s : Str) : Str := s.map upperB

/-- `strings.Contains s pat` -/
def hasSub (pat : Str) : Str → Bool
  | [] => pat.isEmpty
  | c :: cs => pat.isPrefixOf (c :: cs) || hasSub pat cs

/-- `strings.HasSuffix s sfx` -/
def hasSuffix (s sfx : Str) : Bool := sfx.reverse.isPrefixOf s.reverse

/-! ### byte strings used by the code -/

/-- `".pdf"` -/
def dotPdf : Str := [46, 112, 100, 102]
/-- `".docx"` -/
def dotDocx : Str := [46, 100, 111, 99, 120]
/-- `".odt"` -/
def dotOdt : Str := [46, 111, 100, 116]
/-- `".xlsx"` -/
def dotXlsx : Str := [46, 120, 108, 115, 120]
/-- `".pptx"` -/
def dotPptx : Str := [46, 112, 112, 116, 120]
/-- `".html"` -/
def dotHtml : Str := [46, 104, 116, 109, 108]
/-- `".htm"` -/
def dotHtm : Str := [46, 104, 116, 109]
/-- `".epub"` -/
def dotEpub : Str := [46, 101, 112, 117, 98]
/-- `"%PDF"` -/
def sPdfMagic : Str := [37, 80, 68, 70]
/-- `"PK\x03\x04"` -/
def sZipMagic : Str := [80, 75, 3, 4]
/-- `"<!DOCTYPE HTML"` -/
def sDoctypeHtml : Str := [60, 33, 68, 79, 67, 84, 89, 80, 69, 32, 72, 84, 77, 76]
/-- `"<!DOCTYPE"` -/
def sDoctype : Str := [60, 33, 68, 79, 67, 84, 89, 80, 69]
/-- `"HTML"` -/
def sHtmlName : Str := [72, 84, 77, 76]
/-- `"<HTML"` -/
def sHtmlTag : Str := [60, 72, 84, 77, 76]
/-- `"<?XML"` -/
def sXmlDecl : Str := [60, 63, 88, 77, 76]
/-- `"mimetype"` -/
def nMimetype : Str := [109, 105, 109, 101, 116, 121, 112, 101]
/-- `"META-INF/container.xml"` -/
def nContainer : Str := [77, 69, 84, 65, 45, 73, 78, 70, 47, 99, 111, 110, 116, 97, 105, 110, 101, 114, 46, 120, 109, 108]
/-- `"word/document.xml"` -/
def nWordDoc : Str := [119, 111, 114, 100, 47, 100, 111, 99, 117, 109, 101, 110, 116, 46, 120, 109, 108]
/-- `"xl/workbook.xml"` -/
def nXlWorkbook : Str := [120, 108, 47, 119, 111, 114, 107, 98, 111, 111, 107, 46, 120, 109, 108]
/-- `"ppt/presentation.xml"` -/
def nPptPres : Str := [112, 112, 116, 47, 112, 114, 101, 115, 101, 110, 116, 97, 116, 105, 111, 110, 46, 120, 109, 108]
/-- `"word/"` -/
def pWord : Str := [119, 111, 114, 100, 47]
/-- `"xl/"` -/
def pXl : Str := [120, 108, 47]
/-- `"ppt/"` -/
def pPpt : Str := [112, 112, 116, 47]
/-- `"application/vnd.oasis.opendocument.text"` -/
def odtMime : Str := [97, 112, 112, 108, 105, 99, 97, 116, 105, 111, 110, 47, 118, 110, 100, 46, 111, 97, 115, 105, 115, 46, 111, 112, 101, 110, 100, 111, 99, 117, 109, 101, 110, 116, 46, 116, 101, 120, 116]
/-- `"application/epub+zip"` -/
def epubMime : Str := [97, 112, 112, 108, 105, 99, 97, 116, 105, 111, 110, 47, 101, 112, 117, 98, 43, 122, 105, 112]

/-! ### Detect: the extension table -/

/-- the loop of `filepath.Ext` on the reversed path: walk back from the end,
stop at a path separator (no extension) or at the first dot -/
def extRev : Str → Str → Str
  | [], _ => []
  | c :: rest, acc =>
    if c = 47 then [] else if c = 46 then 46 :: acc else extRev rest (c :: acc)

/-- `filepath.Ext` (Unix separator) -/
def ext (name : Str) : Str := extRev name.reverse []

/-- the `switch ext` of `format.Detect` -/
def extTable (e : Str) : Format :=
  if e = dotPdf then .pdf
  else if e = dotDocx then .docx
  else if e = dotOdt then .odt
  else if e = dotXlsx then .xlsx
  else if e = dotPptx then .pptx
  else if e = dotHtml ∨ e = dotHtm then .html
  else if e = dotEpub then .epub
  else .unknown

/-- `format.Detect` -/
def detect (name : Str) : Format := extTable (lower (ext name))

/-! ### magic bytes -/

/-- `format.isHTMLSpace`: the white space `detectHTMLMagic` skips (HTML's ASCII
white space): space, tab, LF, FF, CR -/
def isMagicWS (c : Nat) : Bool := c == 32 || c == 9 || c == 10 || c == 12 || c == 13

/-- `format.isHTMLDoctype` (on the upper-cased text): `<!DOCTYPE`, one or more
white-space characters, `HTML` -/
def isHTMLDoctype (u : Str) : Bool :=
  sDoctype.isPrefixOf u &&
    (let r := u.drop sDoctype.length
     let r' := r.dropWhile isMagicWS
     decide (r'.length < r.length) && sHtmlName.isPrefixOf r')

/-- `format.detectHTMLMagic` -/
def detectHTMLMagic (data : Str) : Bool :=
  let d := data.dropWhile isMagicWS
  if d.isEmpty then false
  else
    let u := upper d
    if isHTMLDoctype u then true
    else if sHtmlTag.isPrefixOf u then true
    else if sXmlDecl.isPrefixOf u && hasSub sHtmlTag (u.take 500) then true
    else false

/-- `format.DetectFromMagic` -/
def detectFromMagic (data : Str) : Format :=
  if data.length < 4 then .unknown
  else if sPdfMagic.isPrefixOf data then .pdf
  else if sZipMagic.isPrefixOf data then .unknown
  else if detectHTMLMagic data then .html
  else .unknown

/-! ### ZIP content sniffing -/

/-- one archive member as `detectZIPFormat` sees it: its name and, if it could
be opened, what one `Read` of 256 bytes returned -/
structure Member where
  name : Str
  data : Option Str := none
deriving DecidableEq, Repr

/-- ASCII part of `unicode.IsSpace` -/
def isSpaceB (c : Nat) : Bool := c == 32 || (9 ≤ c && c ≤ 13)

/-- `strings.TrimSpace` on ASCII -/
def trimSpace (s : Str) : Str :=
  ((s.dropWhile isSpaceB).reverse.dropWhile isSpaceB).reverse

/-- body of the first loop of `detectZIPFormat` for one member: what the
"mimetype" member says, if anything -/
def mimeVerdict (m : Member) : Option Format :=
  if m.name = nMimetype then
    match m.data with
    | none => none
    | some d =>
      let t := trimSpace (d.take 256)
      if hasSub odtMime t then some .odt
      else if t = epubMime then some .epub
      else none
  else none

/-- first loop of `detectZIPFormat`: the first member named "mimetype" that
names a known type decides -/
def firstMime : List Member → Option Format
  | [] => none
  | m :: ms =>
    match mimeVerdict m with
    | some f => some f
    | none => firstMime ms

/-- `hasMember` closure of `detectZIPFormat` -/
def hasMember (n : Str) (ms : List Member) : Bool := ms.any (fun m => m.name = n)

/-- `hasDir` closure of `detectZIPFormat` -/
def hasDir (p : Str) (ms : List Member) : Bool := ms.any (fun m => p.isPrefixOf m.name)

/-- `format.detectZIPFormat` after `zip.NewReader` succeeded -/
def detectZip (ms : List Member) : Format :=
  match firstMime ms with
  | some f => f
  | none =>
    if hasMember nContainer ms then .epub
    else if hasMember nWordDoc ms then .docx
    else if hasMember nXlWorkbook ms then .xlsx
    else if hasMember nPptPres ms then .pptx
    else if hasDir pWord ms then .docx
    else if hasDir pXl ms then .xlsx
    else if hasDir pPpt ms then .pptx
    else .unknown

/-- `format.DetectFromReader`: `file` is the file content (only the first 512
bytes are looked at), `zip` the result of `zip.NewReader` (`none` = error).
`none` = the function returned an error. -/
def detectFromReader (file : Str) (zip : Option (List Member)) : Option Format :=
  let magic := file.take 512
  if sPdfMagic.isPrefixOf magic then some .pdf
  else if sZipMagic.isPrefixOf magic then
    match zip with
    | none => none
    | some ms => some (detectZip ms)
  else if detectHTMLMagic magic then some .html
  else some .unknown

/-! ### admission (extractor.go) -/

inductive Validate where
  | ok | detectFailed | mismatch
deriving DecidableEq, Repr

/-- `(*Extractor).validateFormat`: `extF` is `e.format` (from the file name),
`det` the result of `DetectFromReader` on the file -/
def validateFormat (extF : Format) (det : Option Format) : Validate :=
  match det with
  | none => .detectFailed
  | some d =>
    if d = .unknown then .ok
    else if d ≠ extF then .mismatch
    else .ok

/-- outcome of `(*Extractor).ensureReader` up to the point where a format
reader is opened -/
inductive Admit where
  | detectFailed | mismatch | unsupported
  | proceed (f : Format)
deriving DecidableEq, Repr

/-- `(*Extractor).ensureReader` for a fresh extractor with a file name -/
def ensureReader (extF : Format) (det : Option Format) : Admit :=
  match validateFormat extF det with
  | .detectFailed => .detectFailed
  | .mismatch => .mismatch
  | .ok => if extF = .unknown then .unsupported else .proceed extF

/-- `tabula.Open(name)` followed by a terminal operation, up to the reader -/
def openFile (name file : Str) (zip : Option (List Member)) : Admit :=
  ensureReader (detect name) (detectFromReader file zip)

end Tabula.Detect
