import TabulaModel.Model.Parser
/-
Model of contentstream/parser.go (tabula, after the C06 fixes):
`(*Parser).Parse`, `parseNext`, `parseOperator`, `parseOperand`, `parseNumber`,
`parseString`, `parseHexString`, `parseName`, `parseArray`, `parseDict`,
`skipWhitespace`, `skipSpace`, `regularToken`.  Core Lean only.

Nesting limit (fix a3fd154): `p.depth`, `enter()` and `maxNestingDepth = 500`
are the same as in core/parser.go; the count of open arrays and dictionaries is
the argument `d` of `parseOperand` / `parseArray` / `parseDict`, and every
top-level operand starts at 0 (the deferred `p.depth--`).

The Go parser indexes `p.data[p.pos]`; here the state is the suffix of the
data from `p.pos` on.  The operand stack is a field of the parser (fix B2), so
one `Parse` call is a function of its input alone.
-/
namespace Tabula.Pdf.CS
open Tabula.Pdf
open Tabula.A1 (atoi)

/-- `isLetter` -/
def isLetter (c : Nat) : Bool := (97 ≤ c && c ≤ 122) || (65 ≤ c && c ≤ 90)

/-- the comment arm of `skipSpace`: up to (not including) CR or LF -/
def skipLine : Str → Str
  | [] => []
  | b :: r => if b = 13 ∨ b = 10 then b :: r else skipLine r

theorem skipLine_le (s : Str) : (skipLine s).length ≤ s.length := by
  induction s with
  | nil => simp [skipLine]
  | cons b r ih => simp only [skipLine]; split <;> simp <;> omega

/-- `skipSpace`: white space and `%`-comments -/
def skipSpace (inp : Str) : Str :=
  match inp with
  | [] => []
  | b :: r =>
    if isWs b then skipSpace r
    else if b = 37 then skipSpace (skipLine r)
    else b :: r
termination_by inp.length
decreasing_by
  · simp
  · have := skipLine_le r
    simp only [List.length_cons]; omega

/-- `regularToken`: the run of regular characters at the current position -/
def regularToken (inp : Str) : Str := inp.takeWhile (fun b => !isWs b && !isDelim b)

def isKeywordObject (t : Str) : Bool := t = kwTrue || t = kwFalse || t = kwNull

/-- digits and at most one point: the loop of `parseNumber` -/
def numBody (hasDec : Bool) : Str → Str × Bool × Str
  | [] => ([], hasDec, [])
  | c :: r =>
    if isDigit c then
      let p := numBody hasDec r
      (c :: p.1, p.2.1, p.2.2)
    else if c = 46 ∧ hasDec = false then
      let p := numBody true r
      (c :: p.1, p.2.1, p.2.2)
    else ([], hasDec, c :: r)

/-- `parseNumber` -/
def parseNumber (inp : Str) : Option (Obj × Str) :=
  let sign : Str := match inp with | c :: _ => if c = 43 ∨ c = 45 then [c] else [] | [] => []
  let p := numBody false (inp.drop sign.length)
  let text := sign ++ p.1
  if p.2.1 then
    match parseReal text with
    | none => none
    | some o => some (o, p.2.2)
  else
    match atoi text with
    | none => none
    | some v => some (.int v, p.2.2)

/-- the escape arm of `parseString`: the input is what follows the backslash
(there is at least one byte) -/
def csEscape : Str → Option (Str × Str)
  | [] => none
  | c :: r =>
    match namedEsc c with
    | some v => some ([v], r)
    | none =>
      if c = 13 then some ([], afterCR r)
      else if c = 10 then some ([], r)
      else if isOctal c then some ([(readOctal c r).1 % 256], (readOctal c r).2)
      else some ([c], r)

theorem csEscape_lt {inp bs r : Str} (h : csEscape inp = some (bs, r)) : r.length < inp.length := by
  cases inp with
  | nil => simp [csEscape] at h
  | cons c r0 =>
    have h1 := afterCR_le r0
    have h2 := readOctal_le c r0
    simp only [csEscape] at h
    split at h
    · cases h; simp
    · split at h
      · cases h; simp only [List.length_cons]; omega
      · split at h
        · cases h; simp
        · split at h
          · cases h; simp only [List.length_cons]; omega
          · cases h; simp

/-- the loop of `parseString` (after the opening parenthesis) -/
def strLoop (depth : Nat) (inp : Str) : Option (Str × Str) :=
  match inp with
  | [] => none                                   -- depth ≠ 0 at the end: "unclosed string"
  | c :: r =>
    if c = 92 ∧ r ≠ [] then
      match h : csEscape r with
      | none => none
      | some (bs, r') => pre bs (strLoop depth r')
    else if c = 40 then pre [40] (strLoop (depth + 1) r)
    else if c = 41 then
      if depth - 1 > 0 then pre [41] (strLoop (depth - 1) r) else some ([], r)
    else pre [c] (strLoop depth r)
termination_by inp.length
decreasing_by
  all_goals simp only [List.length_cons]
  all_goals (try omega)
  have := csEscape_lt h
  omega

theorem skipWs_le (s : Str) : (skipWs s).length ≤ s.length := by
  induction s with
  | nil => simp [skipWs]
  | cons b r ih => simp only [skipWs]; split <;> simp <;> omega

/-- the loop of `parseHexString` (after `<`). Running out of data is not an
error in the Go code: the bytes read so far are returned. -/
def hexLoop (inp : Str) : Option (Str × Str) :=
  match inp with
  | [] => some ([], [])
  | c :: r =>
    if c = 62 then some ([], r)
    else if isWs c then hexLoop r
    else if !isHexDigit c then none
    else
      match r with
      | [] => some ([hexValue c * 16], [])
      | c2 :: r2 =>
        if c2 = 62 then some ([hexValue c * 16], r2)
        else if isWs c2 then
          match h : skipWs r2 with
          | [] => some ([hexValue c * 16], [])
          | c3 :: r3 =>
            if c3 = 62 then some ([hexValue c * 16], r3)
            else if !isHexDigit c3 then none
            else pre [hexValue c * 16 + hexValue c3] (hexLoop r3)
        else if !isHexDigit c2 then none
        else pre [hexValue c * 16 + hexValue c2] (hexLoop r2)
termination_by inp.length
decreasing_by
  all_goals simp only [List.length_cons]
  all_goals (try omega)
  have := skipWs_le r2
  rw [h] at this
  simp only [List.length_cons] at this
  omega

/-- the loop of `parseName` (after `/`); never fails: an invalid `#` escape
keeps the `#` -/
def nameLoop : Str → Str × Str
  | [] => ([], [])
  | c :: r =>
    if isWs c || isDelim c then ([], c :: r)
    else if c = 35 then
      match r with
      | h1 :: h2 :: r' =>
        if isHexDigit h1 && isHexDigit h2 then
          let p := nameLoop r'
          ((hexValue h1 * 16 + hexValue h2) :: p.1, p.2)
        else
          let p := nameLoop (h1 :: h2 :: r')
          (35 :: p.1, p.2)
      | r1 =>
        let p := nameLoop r1
        (35 :: p.1, p.2)
    else
      let p := nameLoop r
      (c :: p.1, p.2)
termination_by s => s.length
decreasing_by all_goals (simp only [List.length_cons]; omega)

mutual
/-- `parseOperand`.  First argument: fuel; second: `p.depth`, the number of
arrays and dictionaries open around the operand.  The `enter()` check of
`parseArray` / `parseDict` (after the test for the opening delimiter, before it
is skipped) is the inner `if` of the two container arms. -/
def parseOperand : Nat → Nat → Str → Option (Obj × Str)
  | 0, _, _ => none
  | f + 1, d, inp =>
    match skipSpace inp with
    | [] => none
    | c :: r =>
      if c = 45 ∨ c = 43 ∨ c = 46 ∨ isDigit c then parseNumber (c :: r)
      else if c = 40 then
        match strLoop 1 r with
        | none => none
        | some (v, r') => some (.str v, r')
      else if c = 60 ∧ r ≠ [] ∧ r.head? ≠ some 60 then
        match hexLoop r with
        | none => none
        | some (v, r') => some (.str v, r')
      else if c = 47 then some (.name (nameLoop r).1, (nameLoop r).2)
      else if c = 91 then
        if maxNestingDepth ≤ d then none else parseArray f (d + 1) r []
      else if c = 60 ∧ r.head? = some 60 then
        if maxNestingDepth ≤ d then none else parseDict f (d + 1) (r.drop 1) []
      else if c = 116 ∨ c = 102 ∨ c = 110 then
        let t := regularToken (c :: r)
        if t = kwTrue then some (.bool true, (c :: r).drop t.length)
        else if t = kwFalse then some (.bool false, (c :: r).drop t.length)
        else if t = kwNull then some (.null, (c :: r).drop t.length)
        else none
      else none
/-- the loop of `parseArray` (after `[`): data that ends at the top of the loop
closes the array silently, data that ends after white space is an error; `d`
counts this array too -/
def parseArray : Nat → Nat → Str → List Obj → Option (Obj × Str)
  | 0, _, _, _ => none
  | f + 1, d, inp, acc =>
    if inp = [] then some (.arr acc, []) else
    match skipSpace inp with
    | [] => none
    | c :: r =>
      if c = 93 then some (.arr acc, r)
      else
        match parseOperand f d (c :: r) with
        | none => none
        | some (o, r') => parseArray f d r' (acc ++ [o])
/-- the loop of `parseDict` (after `<<`); `d` counts this dictionary too -/
def parseDict : Nat → Nat → Str → List (Str × Obj) → Option (Obj × Str)
  | 0, _, _, _ => none
  | f + 1, d, inp, acc =>
    if inp = [] then some (.dict acc, []) else
    match skipSpace inp with
    | [] => none
    | c :: r =>
      if c = 62 ∧ r.head? = some 62 then some (.dict acc, r.drop 1)
      else if c ≠ 47 then none
      else
        let k := nameLoop r
        match parseOperand f d k.2 with
        | none => none
        | some (o, r') => parseDict f d r' (dictSet acc k.1 o)
end

structure Operation where
  op : Str
  operands : List Obj
  deriving Repr

/-- the character class of `parseOperator`; `started` = the name is non-empty -/
def isOpChar (started : Bool) (c : Nat) : Bool :=
  isLetter c || c == 39 || c == 34 || c == 42 || (started && isDigit c)

/-- the loop of `parseOperator` -/
def opName (started : Bool) : Str → Str × Str
  | [] => ([], [])
  | c :: r =>
    if isOpChar started c then
      let p := opName true r
      (c :: p.1, p.2)
    else ([], c :: r)

theorem opName_le (b : Bool) (s : Str) : (opName b s).2.length ≤ s.length := by
  induction s generalizing b with
  | nil => simp [opName]
  | cons c r ih =>
    simp only [opName]; split
    · have := ih true; simp only [List.length_cons]; omega
    · simp

def fuelFor (inp : Str) : Nat := 4 * inp.length + 8

/-- `Parse` with `parseNext` and `parseOperator` inlined: `stack` is
`p.operandStack`, `ops` is `p.ops`; every operand is read with `p.depth = 0` -/
def parseLoop : Nat → Nat → Str → List Obj → List Operation → Option (List Operation)
  | 0, _, _, _, _ => none
  | n + 1, fuel, inp, stack, ops =>
    match skipSpace inp with
    | [] => some ops
    | c :: r =>
      if (isLetter c && !isKeywordObject (regularToken (c :: r))) || c = 39 || c = 34 then
        let p := opName false (c :: r)
        if p.1 = [] then none
        else parseLoop n fuel p.2 [] (ops ++ [{ op := p.1, operands := stack }])
      else
        match parseOperand fuel 0 (c :: r) with
        | none => none
        | some (o, r') => parseLoop n fuel r' (stack ++ [o]) ops

/-- `contentstream.NewParser(b).Parse()` -/
def csParse (inp : Str) : Option (List Operation) :=
  parseLoop (inp.length + 2) (fuelFor inp) inp [] []

end Tabula.Pdf.CS
