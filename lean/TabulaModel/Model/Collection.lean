import TabulaModel.Model.Export
/-
Model of the accessors of `rag.ChunkCollection` (rag/metadata.go) that are applied to a
collection or to the result of a filter: `Count`, `First`, `Last`, `GetByIndex`, `GetByID`,
`ToSlice`, `GetAllSections`, `GetPageRange`, `GetTotalTokens`, `GetTotalWords`, `Statistics`.
Go `int` is `Int` (no overflow: the sums of a collection stay far below 2^63).  Core Lean only.
-/
namespace Tabula.Export
open Tabula.Csv (Str)

/-- `Count` -/
def collCount (cs : List Chunk) : Nat := cs.length

/-- `First` -/
def collFirst : List Chunk → Option Chunk
  | [] => none
  | c :: _ => some c

/-- `Last`: `cc.Chunks[len(cc.Chunks)-1]` -/
def collLast (cs : List Chunk) : Option Chunk :=
  if cs.length = 0 then none else cs[cs.length - 1]?

/-- `GetByIndex` -/
def collGetByIndex (cs : List Chunk) (i : Int) : Option Chunk :=
  if i < 0 ∨ i ≥ cs.length then none else cs[i.toNat]?

/-- `GetByID`: the first chunk with that id -/
def collGetByID (id : Str) : List Chunk → Option Chunk
  | [] => none
  | c :: rest => if c.id = id then some c else collGetByID id rest

/-- `ToSlice` -/
def collToSlice (cs : List Chunk) : List Chunk := cs

/-- the loop of `GetAllSections` (`seen` = the keys of the map) -/
def sectionsLoop : List Chunk → List Str → List Str → List Str
  | [], _, acc => acc
  | c :: rest, seen, acc =>
    if c.md.sectionTitle ≠ [] ∧ c.md.sectionTitle ∉ seen then
      sectionsLoop rest (c.md.sectionTitle :: seen) (acc ++ [c.md.sectionTitle])
    else sectionsLoop rest seen acc

/-- `GetAllSections` -/
def collSections (cs : List Chunk) : List Str := sectionsLoop cs [] []

/-- the loop of `GetPageRange` over `cc.Chunks[1:]` -/
def pageRangeLoop : List Chunk → Int → Int → Int × Int
  | [], lo, hi => (lo, hi)
  | c :: rest, lo, hi =>
    pageRangeLoop rest (if c.md.pageStart < lo then c.md.pageStart else lo) (if c.md.pageEnd > hi then c.md.pageEnd else hi)

/-- `GetPageRange` -/
def collPageRange : List Chunk → Int × Int
  | [] => (0, 0)
  | c :: rest => pageRangeLoop rest c.md.pageStart c.md.pageEnd

/-- `GetTotalTokens` -/
def collTotalTokens : List Chunk → Int → Int
  | [], t => t
  | c :: rest, t => collTotalTokens rest (t + c.md.estimatedTokens)

/-- `GetTotalWords` -/
def collTotalWords : List Chunk → Int → Int
  | [], t => t
  | c :: rest, t => collTotalWords rest (t + c.md.wordCount)

/-- `CollectionStats` -/
structure Stats where
  totalChunks : Nat := 0
  totalTokens : Int := 0
  totalWords : Int := 0
  totalChars : Int := 0
  avgTokens : Int := 0
  minTokens : Int := 0
  maxTokens : Int := 0
  withTables : Nat := 0
  withLists : Nat := 0
  withImages : Nat := 0
  uniqueSections : Nat := 0
  pageStart : Int := 0
  pageEnd : Int := 0

/-- the loop of `Statistics` -/
def statsLoop : List Chunk → Stats → Stats
  | [], s => s
  | c :: rest, s =>
    statsLoop rest { s with
      totalTokens := s.totalTokens + c.md.estimatedTokens
      totalWords := s.totalWords + c.md.wordCount
      totalChars := s.totalChars + c.md.charCount
      minTokens := if c.md.estimatedTokens < s.minTokens then c.md.estimatedTokens else s.minTokens
      maxTokens := if c.md.estimatedTokens > s.maxTokens then c.md.estimatedTokens else s.maxTokens
      withTables := if c.md.hasTable then s.withTables + 1 else s.withTables
      withLists := if c.md.hasList then s.withLists + 1 else s.withLists
      withImages := if c.md.hasImage then s.withImages + 1 else s.withImages }

/-- `Statistics` (Go's `/` on ints truncates toward zero) -/
def collStatistics (cs : List Chunk) : Stats :=
  match cs with
  | [] => { totalChunks := 0 }
  | c :: _ =>
    let s := statsLoop cs { totalChunks := cs.length, minTokens := c.md.estimatedTokens, maxTokens := c.md.estimatedTokens }
    { s with
      avgTokens := Int.tdiv s.totalTokens cs.length
      uniqueSections := (collSections cs).length
      pageStart := (collPageRange cs).1
      pageEnd := (collPageRange cs).2 }

end Tabula.Export
