/-
Model of page selection in extractor.go (tabula root package), as the code is
after the C10 fixes:

* `(*Extractor).resolvePages`  — 1-based → 0-based, validation, de-duplication
  (the `seen` map), `sort.Ints`; an empty option list means "no selection".
* the per-page loops of `Text`, `Fragments`, `Document` (with
  `model.(*Document).AddPage`) over the resolved list.

Core Lean only.  Page numbers are `Int` on the API side (Go `int`, may be
negative), page indices are `Nat`; strings are `List Nat` (bytes).
-/
namespace Tabula.PageSel

abbrev Str := List Nat

/-- error classes (only "error vs value" is compared with the implementation) -/
inductive E where
  | range    -- "page %d out of range (1-%d)"
  | nopages  -- "no pages to process"
  | page     -- GetPage / ExtractTextFragments failed
  | builder  -- error accumulated by a builder call (`e.err`)
  | open     -- ensureReader failed
  | closed   -- read on a closed file
  | count    -- reader.PageCount failed
  deriving DecidableEq, Repr

instance {α : Type} [DecidableEq α] : DecidableEq (Except E α)
  | .ok a, .ok b => if h : a = b then isTrue (by rw [h]) else isFalse (by intro c; cases c; exact h rfl)
  | .error a, .error b =>
    if h : a = b then isTrue (by rw [h]) else isFalse (by intro c; cases c; exact h rfl)
  | .ok _, .error _ => isFalse (by intro c; cases c)
  | .error _, .ok _ => isFalse (by intro c; cases c)

/-- the validation / conversion / de-duplication loop of `resolvePages`
(`seen` is the Go map, as a list of the indices met so far) -/
def convLoop (n : Nat) : List Nat → List Int → Except E (List Nat)
  | _, [] => .ok []
  | seen, p :: ps =>
    if p < 1 ∨ p > (n : Int) then .error .range
    else
      let z := (p - 1).toNat
      if z ∈ seen then convLoop n seen ps
      else match convLoop n (z :: seen) ps with
        | .ok l => .ok (z :: l)
        | .error e => .error e

/-- insertion into an ascending list -/
def insertSorted (a : Nat) : List Nat → List Nat
  | [] => [a]
  | b :: bs => if a ≤ b then a :: b :: bs else b :: insertSorted a bs

/-- `sort.Ints` on a list without duplicates (any correct sort gives the same
list; modelled as insertion sort) -/
def isort : List Nat → List Nat
  | [] => []
  | a :: as => insertSorted a (isort as)

/-- `(*Extractor).resolvePages` with `e.options.pages = sel` and a document of
`n` pages -/
def resolvePages (sel : List Int) (n : Nat) : Except E (List Nat) :=
  if sel.isEmpty then .ok (List.range n)
  else match convLoop n [] sel with
    | .ok l => .ok (isort l)
    | .error e => .error e

/-- the page separator of `Extractor.Text`: "\n\n" -/
def sep : Str := [10, 10]

/-- one iteration of the page loop of `Extractor.Text`:
`if i > 0 && result.Len() > 0 && len(pageText) > 0 { "\n\n" }; result += pageText`
(`i > 0` is implied by `result.Len() > 0`) -/
def textStep (acc t : Str) : Str :=
  if acc ≠ [] ∧ t ≠ [] then acc ++ sep ++ t else acc ++ t

/-- collect the per-page results of the resolved pages (the first loop of
`Text`; any page that cannot be read fails the whole call) -/
def collect {α : Type} (pg : Nat → Except E α) : List Nat → Except E (List α)
  | [] => .ok []
  | k :: ks => match pg k with
    | .error e => .error e
    | .ok a => match collect pg ks with
      | .ok as => .ok (a :: as)
      | .error e => .error e

/-- `Extractor.Text` on resolved indices, `pg k` = text of page index `k` -/
def textOf (pg : Nat → Except E Str) (idx : List Nat) : Except E Str :=
  match collect pg idx with
  | .ok ts => .ok (ts.foldl textStep [])
  | .error e => .error e

/-- `Extractor.Fragments` on resolved indices: `append(all, fragments...)` -/
def fragmentsOf {F : Type} (pg : Nat → Except E (List F)) (idx : List Nat) : Except E (List F) :=
  match collect pg idx with
  | .ok fs => .ok (fs.foldl (· ++ ·) [])
  | .error e => .error e

/-- a `model.Page` reduced to what C10 observes -/
structure MPage where
  number : Nat      -- `Page.Number` (0 = not set)
  source : Nat      -- index of the PDF page the content came from
  deriving DecidableEq, Repr

/-- `model.(*Document).AddPage` after the fix: a preset number is kept, an
unset one becomes the position -/
def addPage (doc : List MPage) (p : MPage) : List MPage :=
  doc ++ [if p.number = 0 then { p with number := doc.length + 1 } else p]

/-- `model.(*Document).AddPage` of the pinned tree (renumbers every page) -/
def addPageOld (doc : List MPage) (p : MPage) : List MPage :=
  doc ++ [{ p with number := doc.length + 1 }]

/-- the page loop of `Extractor.Document`: `modelPage.Number = pageNum + 1;
doc.AddPage(modelPage)`; an empty list is "no pages to process" -/
def documentOf (idx : List Nat) : Except E (List MPage) :=
  if idx.isEmpty then .error .nopages
  else .ok (idx.foldl (fun d k => addPage d ⟨k + 1, k⟩) [])

def documentOfOld (idx : List Nat) : Except E (List MPage) :=
  if idx.isEmpty then .error .nopages
  else .ok (idx.foldl (fun d k => addPageOld d ⟨k + 1, k⟩) [])

/-- `rag.ChunkDocument` stamps every chunk of a page with
`PageStart = PageEnd = page.Number` -/
def chunkPages (doc : List MPage) : List (Nat × Nat × Nat) :=
  doc.map fun p => (p.source, p.number, p.number)

/-- whole calls: resolve, then run the page loop -/
def extractText (pg : Nat → Except E Str) (sel : List Int) (n : Nat) : Except E Str :=
  match resolvePages sel n with
  | .ok idx => textOf pg idx
  | .error e => .error e

def extractFragments {F : Type} (pg : Nat → Except E (List F)) (sel : List Int) (n : Nat) :
    Except E (List F) :=
  match resolvePages sel n with
  | .ok idx => fragmentsOf pg idx
  | .error e => .error e

def extractDocument (sel : List Int) (n : Nat) : Except E (List MPage) :=
  match resolvePages sel n with
  | .ok idx => documentOf idx
  | .error e => .error e

/-! ### page-level metadata of the layout operations (additive) -/

/-- `Extractor.Headings`: `result.Headings[i].PageIndex = pageNum` for every heading detected on
page `pageNum`, then `append(allHeadings, result.Headings...)` -/
def stampPage {H : Type} (k : Nat) (hs : List H) : List (Nat × H) := hs.map fun h => (k, h)

def headingsOf {H : Type} (pg : Nat → Except E (List H)) (idx : List Nat) : Except E (List (Nat × H)) :=
  fragmentsOf (fun k => match pg k with
    | .ok hs => .ok (stampPage k hs)
    | .error e => .error e) idx

/-- the renumbering loop of `Extractor.Analyze`:
`pageResult.Elements[i].Index = len(combined.Elements) + i` (and `ZOrder` likewise), then append -/
def indexFrom {L : Type} : Nat → List L → List (Nat × L)
  | _, [] => []
  | s, x :: xs => (s, x) :: indexFrom (s + 1) xs

def renumber {L : Type} (acc : List (Nat × L)) (els : List L) : List (Nat × L) :=
  acc ++ indexFrom acc.length els

def analyzeOf {L : Type} (pg : Nat → Except E (List L)) (idx : List Nat) : Except E (List (Nat × L)) :=
  match collect pg idx with
  | .ok ess => .ok (ess.foldl renumber [])
  | .error e => .error e

/-- whole calls -/
def extractHeadings {H : Type} (pg : Nat → Except E (List H)) (sel : List Int) (n : Nat) :
    Except E (List (Nat × H)) :=
  match resolvePages sel n with
  | .ok idx => headingsOf pg idx
  | .error e => .error e

/-- `Analyze` refuses an empty page list ("no pages to process") -/
def extractAnalysis {L : Type} (pg : Nat → Except E (List L)) (sel : List Int) (n : Nat) :
    Except E (List (Nat × L)) :=
  match resolvePages sel n with
  | .ok idx => if idx.isEmpty then .error .nopages else analyzeOf pg idx
  | .error e => .error e

/-! ### cross-page summaries of `ReadingOrder` and `Analyze` (additive) -/

/-- what `Extractor.ReadingOrder` keeps of one page's `layout.ReadingOrderResult` besides the
appended lists: `ColumnCount`, `PageWidth`, `PageHeight` (generated pages have integral sizes) -/
structure ROPage where
  cols : Nat
  w : Nat
  h : Nat
  deriving DecidableEq, Repr

/-- one iteration of the page loop of `ReadingOrder`:
`if pageResult.ColumnCount > combined.ColumnCount { … }` and
`if combined.PageWidth == 0 { PageWidth, PageHeight = pageResult.… }` -/
def roStep (acc p : ROPage) : ROPage :=
  { cols := if p.cols > acc.cols then p.cols else acc.cols,
    w := if acc.w = 0 then p.w else acc.w,
    h := if acc.w = 0 then p.h else acc.h }

def readingOrderOf (pg : Nat → Except E ROPage) (idx : List Nat) : Except E ROPage :=
  match collect pg idx with
  | .ok ps => .ok (ps.foldl roStep ⟨0, 0, 0⟩)
  | .error e => .error e

/-- `ReadingOrder` refuses an empty page list -/
def extractReadingOrder (pg : Nat → Except E ROPage) (sel : List Int) (n : Nat) : Except E ROPage :=
  match resolvePages sel n with
  | .ok idx => if idx.isEmpty then .error .nopages else readingOrderOf pg idx
  | .error e => .error e

/-- the counters of `layout.AnalysisStats` that `Extractor.Analyze` adds up (FragmentCount,
LineCount, BlockCount, ParagraphCount, HeadingCount, ListCount, ElementCount) -/
structure AStats where
  frag : Nat
  line : Nat
  block : Nat
  para : Nat
  head : Nat
  list : Nat
  elem : Nat
  deriving DecidableEq, Repr

def AStats.add (a b : AStats) : AStats :=
  ⟨a.frag + b.frag, a.line + b.line, a.block + b.block, a.para + b.para, a.head + b.head,
   a.list + b.list, a.elem + b.elem⟩

/-- one page's `layout.AnalysisResult`, as far as the summary goes -/
structure APage where
  stats : AStats
  w : Nat
  h : Nat
  deriving DecidableEq, Repr

/-- the summary fields of the combined `layout.AnalysisResult`; `Stats.ColumnCount` is never
assigned by `Extractor.Analyze` and stays 0 -/
structure ASummary where
  stats : AStats
  colCount : Nat
  w : Nat
  h : Nat
  deriving DecidableEq, Repr

def anStep (acc : ASummary) (p : APage) : ASummary :=
  { stats := acc.stats.add p.stats, colCount := acc.colCount,
    w := if acc.w = 0 then p.w else acc.w,
    h := if acc.w = 0 then p.h else acc.h }

def analysisSummaryOf (pg : Nat → Except E APage) (idx : List Nat) : Except E ASummary :=
  match collect pg idx with
  | .ok ps => .ok (ps.foldl anStep ⟨⟨0, 0, 0, 0, 0, 0, 0⟩, 0, 0, 0⟩)
  | .error e => .error e

def extractAnalysisSummary (pg : Nat → Except E APage) (sel : List Int) (n : Nat) : Except E ASummary :=
  match resolvePages sel n with
  | .ok idx => if idx.isEmpty then .error .nopages else analysisSummaryOf pg idx
  | .error e => .error e

end Tabula.PageSel
