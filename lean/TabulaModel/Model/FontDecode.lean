import TabulaModel.Model.Encoding
import TabulaModel.Model.CMap
/-!
# `(*font.Font).DecodeString` (font/font.go) and the font-less path of
`(*text.Extractor).showText` (text/extractor.go)

Priority: ToUnicode CMap, else UTF-16 byte-order mark, else the named encoding, else the raw
bytes (made valid UTF-8 by the C07 fix). `NormalizeUnicode` (x/text NFC) is the parameter
`nfc`; the harness supplies its results.
-/
namespace Tabula.FontDecode
open Tabula.UTF16 Tabula.Encoding Tabula.CMap

/-- the two fields of `font.Font` that `DecodeString` reads -/
structure Font where
  toUnicode : Option CMap
  encoding : List Nat

/-- which branch of `DecodeString` is taken -/
inductive Path | toUnicode | bomBE | bomLE | named | raw
  deriving DecidableEq, Repr

def path (f : Font) (data : List Nat) : Path :=
  match f.toUnicode with
  | some _ => .toUnicode
  | none =>
    match data with
    | 0xFE :: 0xFF :: _ => .bomBE
    | 0xFF :: 0xFE :: _ => .bomLE
    | _ => if f.encoding ≠ [] then .named else .raw

/-- the string handed to `NormalizeUnicode`; `none` only if `GetEncoding` could not be
interpreted from the regenerated switch (never, see `C07.getEncoding_total`). -/
def preNFC (f : Font) (data : List Nat) : Option (List Nat) :=
  match f.toUnicode with
  | some cm => some (lookupString cm data)
  | none =>
    match data with
    | 0xFE :: 0xFF :: rest => some (decodeUTF16BE rest)
    | 0xFF :: 0xFE :: rest => some (decodeUTF16LE rest)
    | _ =>
      if f.encoding ≠ [] then (getEncoding f.encoding).map fun e => Encoding.decodeString e.table data
      else some (toValidUTF8 data)

/-- `(*Font).DecodeString` -/
def decodeString (nfc : List Nat → List Nat) (f : Font) (data : List Nat) : Option (List Nat) :=
  (preNFC f data).map nfc

/-- `showText` when no font is registered under the current name: the bytes as text, made
valid UTF-8 (the fix), before normalisation -/
def showTextNoFontPre (data : List Nat) : List Nat := toValidUTF8 data

/-- … and normalised -/
def showTextNoFont (nfc : List Nat → List Nat) (data : List Nat) : List Nat := nfc (showTextNoFontPre data)

end Tabula.FontDecode
