import TabulaModel.Model.Encoding
import TabulaModel.Model.CMap
import TabulaModel.Model.GlyphNames
/-!
# `(*font.Font).DecodeString` (font/font.go) and the font-less path of
`(*text.Extractor).showText` (text/extractor.go)

Priority: ToUnicode CMap, else UTF-16 byte-order mark, else the named encoding under the
font's `/Differences` (fix b3a0e07: `Font.Differences`, consulted code by code before the base
encoding through `CustomEncoding`), else the raw bytes (made valid UTF-8 by the C07 fix).
`NormalizeUnicode` (x/text NFC) is the parameter `nfc`; the harness supplies its results.
`preNFCOld` / `decodeStringOld` keep the code before b3a0e07 (the named encoding alone).
-/
namespace Tabula.FontDecode
open Tabula.UTF16 Tabula.Encoding Tabula.CMap

/-- `Font.Differences` (`map[byte]rune`) as the history of its assignments, newest first:
`(code, some r)` is `differences[code] = r`, `(code, none)` is `delete(differences, code)`.
The Go map holds, for a code, what the newest entry for that code says. -/
abbrev Diffs := List (Nat × Option Nat)

/-- `r, ok := differences[b]` -/
def diffLookup (ds : Diffs) (b : Nat) : Option Nat :=
  match ds.find? (fun e => e.1 == b) with
  | some e => e.2
  | none => none

/-- the three fields of `font.Font` that `DecodeString` reads -/
structure Font where
  toUnicode : Option CMap
  encoding : List Nat
  differences : Diffs

/-- `(*CustomEncoding).Decode(b)` over the base table `t`: the difference if the map has the
code, otherwise `base.Decode(b)` -/
def customDecodeByte (ds : Diffs) (t : Array Nat) (b : Nat) : Option Nat :=
  match diffLookup ds b with
  | some r => some r
  | none => t[b]?

/-- `(*CustomEncoding).DecodeString` of `NewCustomEncoding(base, differences)`: rune 0 means
"unmapped" and is skipped, `string(runes)` maps a non-scalar rune to U+FFFD. `DecodeString` of
font.go builds the custom encoding only when the map is non-empty; with an empty map
`customDecodeByte` is the base table's entry, so the shortcut is not visible
(`decodeWith_nil`). -/
def decodeWith (ds : Diffs) (t : Array Nat) (data : List Nat) : List Nat :=
  data.filterMap fun b =>
    match customDecodeByte ds t b with
    | some r => if r ≠ 0 then some (toRune r) else none
    | none => none

/-- which branch of `DecodeString` is taken -/
inductive Path | toUnicode | bomBE | bomLE | named | raw
  deriving DecidableEq, Repr

def path (f : Font) (data : List Nat) : Path :=
  match f.toUnicode with
  | some _ => .toUnicode
  | none =>
    match data with
    | 0xFE :: 0xFF :: _ => .bomBE
    | 0xFF :: 0xFE :: _ => .bomLE
    | _ => if f.encoding ≠ [] then .named else .raw

/-- the string handed to `NormalizeUnicode`; `none` only if `GetEncoding` could not be
interpreted from the regenerated switch (never, see `C07.getEncoding_total`). -/
def preNFC (f : Font) (data : List Nat) : Option (List Nat) :=
  match f.toUnicode with
  | some cm => some (lookupString cm data)
  | none =>
    match data with
    | 0xFE :: 0xFF :: rest => some (decodeUTF16BE rest)
    | 0xFF :: 0xFE :: rest => some (decodeUTF16LE rest)
    | _ =>
      if f.encoding ≠ [] then (getEncoding f.encoding).map fun e => decodeWith f.differences e.table data
      else some (toValidUTF8 data)

/-- `(*Font).DecodeString` -/
def decodeString (nfc : List Nat → List Nat) (f : Font) (data : List Nat) : Option (List Nat) :=
  (preNFC f data).map nfc

/-- `DecodeString` before fix b3a0e07: the named encoding alone, whatever `/Differences` said
(the font constructors did not keep them) -/
def preNFCOld (f : Font) (data : List Nat) : Option (List Nat) :=
  match f.toUnicode with
  | some cm => some (lookupString cm data)
  | none =>
    match data with
    | 0xFE :: 0xFF :: rest => some (decodeUTF16BE rest)
    | 0xFF :: 0xFE :: rest => some (decodeUTF16LE rest)
    | _ =>
      if f.encoding ≠ [] then (getEncoding f.encoding).map fun e => Encoding.decodeString e.table data
      else some (toValidUTF8 data)

/-- … and normalised -/
def decodeStringOld (nfc : List Nat → List Nat) (f : Font) (data : List Nat) : Option (List Nat) :=
  (preNFCOld f data).map nfc

/-- `showText` when no font is registered under the current name: the bytes as text, made
valid UTF-8 (the fix), before normalisation -/
def showTextNoFontPre (data : List Nat) : List Nat := toValidUTF8 data

/-- … and normalised -/
def showTextNoFont (nfc : List Nat → List Nat) (data : List Nat) : List Nat := nfc (showTextNoFontPre data)

end Tabula.FontDecode
