import TabulaModel.Model.XDoc
/-
Model of the graphics extractor: `graphicsstate.GraphicsExtractor` (graphicsstate/extractor.go)
and the path machinery it drives (graphicsstate/path.go):

  * `Path.MoveTo / LineTo / CurveTo / CurveToV / CurveToY / ClosePath / Rectangle / Clear`;
  * `PathExtractor.Stroke / CloseAndStroke / Fill / FillAndStroke / CloseFillAndStroke /
    EndPath`, `extractLinesFromPath`, `detectRectangle`, `isRectangle`, `pointsEqual`,
    `boundingBoxFromPoints`, `extractLineSegments`, `createLine`,
    `FilterLinesByLength`, `FilterRectanglesBySize`;
  * `GraphicsExtractor.processOperation` (operand checks included) and `Extract` for the
    operators  q Q cm w  m l c v y h re  S s f F f* B B* b b* n.

Generic in the number type (a commutative ring with decidable `=` and `<`); the
tolerances 0.1 and 0.5, the square roots and the quotient of `isRectangle` are written
without division and without roots:

    |d| < 0.5            as  2·|d| < 1
    |d| < 0.1            as  10·|d| < 1
    sqrt(l²) < 0.5       as  4·l² < 1
    |dot/(l1·l2)| > 0.1  as  100·dot² > l1²·l2²        (l1, l2 > 0 there)
    sqrt(dx²+dy²) >= m   as  dx²+dy² >= m²             (m >= 0)

which is what they are over the reals; on floats it is the stated assumption (the
correspondence drops cases within 2^-20 of a threshold).

Not modelled: colours (RG rg G g K k; they are saved and restored by q/Q like the line width,
and copied into the output; nothing geometric reads them).  Core Lean only.
-/
namespace Tabula.GPath
open Tabula Tabula.XDoc

variable {α : Type}

abbrev Pt (α : Type) := α × α

/-- `PathSegment` -/
inductive Seg (α : Type) where
  | move (p : Pt α)
  | line (p : Pt α)
  | curve (p1 p2 p3 : Pt α)
  | close
deriving DecidableEq, Repr

/-- `Path` -/
structure Path (α : Type) where
  segs : List (Seg α)
  cur : Pt α
  start : Pt α
  has : Bool
deriving DecidableEq, Repr

/-- `model.BBox` -/
structure BBox (α : Type) where
  x : α
  y : α
  w : α
  h : α
deriving DecidableEq, Repr

/-- `ExtractedLine` (without the colour) -/
structure Line (α : Type) where
  p0 : Pt α
  p1 : Pt α
  width : α
  horiz : Bool
  vert : Bool
  bbox : BBox α
deriving DecidableEq, Repr

/-- `ExtractedRectangle` (without the colours); `strokeWidth` is 0 unless stroked -/
structure Rect (α : Type) where
  bbox : BBox α
  strokeWidth : α
  filled : Bool
  stroked : Bool
deriving DecidableEq, Repr

/-- the operators of `GraphicsExtractor.processOperation` after the operand checks
(`f` stands for f, F, f*; `B` for B, B*; `b` for b, b*) -/
inductive POp (α : Type) where
  | q | Q
  | cm (m : Matrix α)
  | w (lw : α)
  | m (x y : α)
  | l (x y : α)
  | c (x1 y1 x2 y2 x3 y3 : α)
  | v (x2 y2 x3 y3 : α)
  | y (x1 y1 x3 y3 : α)
  | h
  | re (x y w h : α)
  | S | s | f | B | b | n
deriving DecidableEq, Repr

/-- what q saves of the graphics state here: CTM and line width -/
structure GS (α : Type) where
  ctm : Matrix α
  lw : α
deriving DecidableEq, Repr

/-- `GraphicsExtractor`: graphics state with its stack (most recent `Save` first), the
current path, and what has been collected -/
structure PState (α : Type) where
  gs : GS α
  stack : List (GS α)
  path : Path α
  lines : List (Line α)
  rects : List (Rect α)
deriving DecidableEq, Repr

/-! ### `Path` -/

namespace Path

/-- `NewPath()` -/
def empty [OfNat α 0] : Path α := { segs := [], cur := (0, 0), start := (0, 0), has := false }

/-- `MoveTo` -/
def moveTo (p : Path α) (pt : Pt α) : Path α :=
  { segs := p.segs ++ [.move pt], cur := pt, start := pt, has := true }

/-- `LineTo`: a `MoveTo` when there is no current point -/
def lineTo (p : Path α) (pt : Pt α) : Path α :=
  if p.has then { p with segs := p.segs ++ [.line pt], cur := pt } else p.moveTo pt

/-- `CurveTo`: starts the subpath at the first control point when there is no current point -/
def curveTo (p : Path α) (p1 p2 p3 : Pt α) : Path α :=
  let p' := if p.has then p else p.moveTo p1
  { p' with segs := p'.segs ++ [.curve p1 p2 p3], cur := p3 }

/-- `CurveToV`: ignored without a current point -/
def curveToV (p : Path α) (p2 p3 : Pt α) : Path α :=
  if p.has then p.curveTo p.cur p2 p3 else p

/-- `CurveToY` -/
def curveToY (p : Path α) (p1 p3 : Pt α) : Path α :=
  if p.has then p.curveTo p1 p3 p3 else p

/-- `ClosePath`: ignored without a current point -/
def closePath (p : Path α) : Path α :=
  if p.has then { p with segs := p.segs ++ [.close], cur := p.start } else p

/-- `Rectangle` -/
def rectangle [Add α] (p : Path α) (x y w h : α) : Path α :=
  ((((p.moveTo (x, y)).lineTo (x + w, y)).lineTo (x + w, y + h)).lineTo (x, y + h)).closePath

/-- `Clear`: `Segments = Segments[:0]; HasCurrentPoint = false` (the stale current point
is never read: every reader checks `HasCurrentPoint` first) -/
def clear (p : Path α) : Path α := { p with segs := [], has := false }

end Path

/-! ### geometry helpers -/

section
variable [Lean.Grind.CommRing α] [DecidableEq α] [LT α] [DecidableLT α]

/-- `math.Abs` -/
def abs (x : α) : α := if x < 0 then -x else x

/-- `math.Min` / `math.Max` on ordinary numbers -/
def min2 (a b : α) : α := if b < a then b else a
def max2 (a b : α) : α := if a < b then b else a

/-- `pointsEqual(a, b, 0.1)` -/
def pointsEqual (a b : Pt α) : Bool :=
  decide (10 * abs (a.1 - b.1) < 1) && decide (10 * abs (a.2 - b.2) < 1)

/-- one round of the loop of `isRectangle` (tolerance 0.5): the angle at `p1` between
`p0→p1` and `p1→p2` is accepted -/
def cornerOk (p0 p1 p2 : Pt α) : Bool :=
  let v1x := p1.1 - p0.1
  let v1y := p1.2 - p0.2
  let v2x := p2.1 - p1.1
  let v2y := p2.2 - p1.2
  let dot := v1x * v2x + v1y * v2y
  let l1 := v1x * v1x + v1y * v1y
  let l2 := v2x * v2x + v2y * v2y
  if 4 * l1 < 1 ∨ 4 * l2 < 1 then true       -- degenerate side: `continue`
  else !decide (l1 * l2 < 100 * (dot * dot))

/-- `isRectangle(corners, 0.5)` for exactly four corners -/
def isRectangle (c0 c1 c2 c3 : Pt α) : Bool :=
  cornerOk c0 c1 c2 && cornerOk c1 c2 c3 && cornerOk c2 c3 c0 && cornerOk c3 c0 c1

/-- `boundingBoxFromPoints` (the loop over `points[1:]`) -/
def bboxLoop : List (Pt α) → α → α → α → α → α × α × α × α
  | [], minX, maxX, minY, maxY => (minX, maxX, minY, maxY)
  | p :: rest, minX, maxX, minY, maxY =>
    bboxLoop rest (if p.1 < minX then p.1 else minX) (if maxX < p.1 then p.1 else maxX)
      (if p.2 < minY then p.2 else minY) (if maxY < p.2 then p.2 else maxY)

def boundingBox : List (Pt α) → BBox α
  | [] => ⟨0, 0, 0, 0⟩
  | p :: rest =>
    let r := bboxLoop rest p.1 p.1 p.2 p.2
    ⟨r.1, r.2.2.1, r.2.1 - r.1, r.2.2.2 - r.2.2.1⟩

/-- the corner list `detectRectangle` collects: the first point and every `LineTo` point;
`none` when the path has a curve or a second `MoveTo` -/
def cornersOf : List (Seg α) → Option (List (Pt α))
  | [] => some []
  | .line p :: rest => (cornersOf rest).map (p :: ·)
  | .close :: rest => cornersOf rest
  | .move _ :: _ => none
  | .curve _ _ _ :: _ => none

/-- `detectRectangle`: the bounding box of the CTM images of the four corners, when the
path is one -/
def detectRectangle (ctm : Matrix α) (segs : List (Seg α)) : Option (BBox α) :=
  if segs.length < 4 then none
  else match segs with
    | .move p0 :: rest =>
      match cornersOf rest with
      | some [c1, c2, c3] =>
        if isRectangle p0 c1 c2 c3 then
          some (boundingBox ([p0, c1, c2, c3].map ctm.transformPoint))
        else none
      | some [c1, c2, c3, c4] =>
        if pointsEqual p0 c4 && isRectangle p0 c1 c2 c3 then
          some (boundingBox ([p0, c1, c2, c3].map ctm.transformPoint))
        else none
      | _ => none
    | _ => none

/-- `createLine`: both end points through the CTM, the orientation flags (tolerance 0.5 in
device space) and the bounding box -/
def createLine (ctm : Matrix α) (lw : α) (a b : Pt α) : Line α :=
  let p := ctm.transformPoint a
  let q := ctm.transformPoint b
  { p0 := p, p1 := q, width := lw,
    horiz := decide (2 * abs (q.2 - p.2) < 1), vert := decide (2 * abs (q.1 - p.1) < 1),
    bbox := ⟨min2 p.1 q.1, min2 p.2 q.2, max2 p.1 q.1 - min2 p.1 q.1, max2 p.2 q.2 - min2 p.2 q.2⟩ }

/-- `extractLineSegments`: `cur`/`start` are its two local variables -/
def lineSegments (ctm : Matrix α) (lw : α) : List (Seg α) → Pt α → Pt α → List (Line α)
  | [], _, _ => []
  | .move p :: rest, _, _ => lineSegments ctm lw rest p p
  | .line p :: rest, cur, start => createLine ctm lw cur p :: lineSegments ctm lw rest p start
  | .curve _ _ p3 :: rest, cur, start => createLine ctm lw cur p3 :: lineSegments ctm lw rest p3 start
  | .close :: rest, cur, start =>
    if pointsEqual cur start then lineSegments ctm lw rest start start
    else createLine ctm lw cur start :: lineSegments ctm lw rest start start

/-- `extractLinesFromPath(stroked, filled)` followed by `currentPath.Clear()` -/
def paint (stroked filled : Bool) (s : PState α) : PState α :=
  let cleared := { s with path := s.path.clear }
  if s.path.segs.isEmpty then cleared
  else match detectRectangle s.gs.ctm s.path.segs with
    | some bb =>
      { cleared with rects := s.rects ++
          [{ bbox := bb, strokeWidth := if stroked then s.gs.lw else 0, filled := filled, stroked := stroked }] }
    | none =>
      if stroked then { cleared with lines := s.lines ++ lineSegments s.gs.ctm s.gs.lw s.path.segs (0, 0) (0, 0) }
      else cleared

def onPath (s : PState α) (f : Path α → Path α) : PState α := { s with path := f s.path }

/-- one operation; `none` = "graphics state stack underflow" (`Extract` stops) -/
def step : POp α → PState α → Option (PState α)
  | .q, s => some { s with stack := s.gs :: s.stack }
  | .Q, s => match s.stack with
    | [] => none
    | g :: rest => some { s with gs := g, stack := rest }
  | .cm m, s => some { s with gs := { s.gs with ctm := m.mul s.gs.ctm } }
  | .w lw, s => some { s with gs := { s.gs with lw := lw } }
  | .m x y, s => some (onPath s (·.moveTo (x, y)))
  | .l x y, s => some (onPath s (·.lineTo (x, y)))
  | .c x1 y1 x2 y2 x3 y3, s => some (onPath s (·.curveTo (x1, y1) (x2, y2) (x3, y3)))
  | .v x2 y2 x3 y3, s => some (onPath s (·.curveToV (x2, y2) (x3, y3)))
  | .y x1 y1 x3 y3, s => some (onPath s (·.curveToY (x1, y1) (x3, y3)))
  | .h, s => some (onPath s (·.closePath))
  | .re x y w h, s => some (onPath s (·.rectangle x y w h))
  | .S, s => some (paint true false s)
  | .s, s => some (paint true false (onPath s (·.closePath)))
  | .f, s => some (paint false true s)
  | .B, s => some (paint true true s)
  | .b, s => some (paint true true (onPath s (·.closePath)))
  | .n, s => some { s with path := s.path.clear }

/-- `Extract`: the state reached and whether it stopped on an error; what was collected
before the error stays in the extractor (`GetLines`, `GetRectangles`) -/
def run : List (POp α) → PState α → PState α × Bool
  | [], s => (s, false)
  | op :: rest, s => match step op s with
    | none => (s, true)
    | some s' => run rest s'

/-- `NewGraphicsExtractor()` -/
def init : PState α :=
  { gs := { ctm := Matrix.identity, lw := 1 }, stack := [], path := Path.empty, lines := [], rects := [] }

/-- `FilterLinesByLength(minLength)` for `minLength ≥ 0` (`MinLineLength = 1`) -/
def filterLines (min : α) (ls : List (Line α)) : List (Line α) :=
  ls.filter fun l =>
    let dx := l.p1.1 - l.p0.1
    let dy := l.p1.2 - l.p0.2
    !decide (dx * dx + dy * dy < min * min)

/-- `FilterRectanglesBySize(minWidth, minHeight)` -/
def filterRects (minW minH : α) (rs : List (Rect α)) : List (Rect α) :=
  rs.filter fun r => !decide (r.bbox.w < minW) && !decide (r.bbox.h < minH)

/-! ### operand checks of `GraphicsExtractor.processOperation` -/

/-- `op.Operator` of its `switch`; `other` = every operator without a case here, and the
colour operators -/
inductive GOpr where
  | q | Q | cm | w | m | l | c | v | y | h | re | S | s | f | F | fstar | B | Bstar | b | bstar | n
  | other
deriving DecidableEq, Repr

structure RawG (α : Type) where
  operator : GOpr
  operands : List (Operand α)

/-- the checks, case by case: the arity is checked, an operand that is not a number reads
as 0 (`x, _ := toFloat(...)`), except for `w` whose operand must be a number -/
def decodeG (r : RawG α) : List (POp α) :=
  match r.operator, r.operands with
  | .q, _ => [.q]
  | .Q, _ => [.Q]
  | .cm, ops => if ops.length = 6 then [.cm (operandsToMatrix ops)] else []
  | .w, [.num lw] => [.w lw]
  | .w, _ => []
  | .m, [x, y] => [.m (toFloatD x) (toFloatD y)]
  | .m, _ => []
  | .l, [x, y] => [.l (toFloatD x) (toFloatD y)]
  | .l, _ => []
  | .c, [a, b, c, d, e, f] => [.c (toFloatD a) (toFloatD b) (toFloatD c) (toFloatD d) (toFloatD e) (toFloatD f)]
  | .c, _ => []
  | .v, [a, b, c, d] => [.v (toFloatD a) (toFloatD b) (toFloatD c) (toFloatD d)]
  | .v, _ => []
  | .y, [a, b, c, d] => [.y (toFloatD a) (toFloatD b) (toFloatD c) (toFloatD d)]
  | .y, _ => []
  | .h, _ => [.h]
  | .re, [a, b, c, d] => [.re (toFloatD a) (toFloatD b) (toFloatD c) (toFloatD d)]
  | .re, _ => []
  | .S, _ => [.S]
  | .s, _ => [.s]
  | .f, _ => [.f]
  | .F, _ => [.f]
  | .fstar, _ => [.f]
  | .B, _ => [.B]
  | .Bstar, _ => [.B]
  | .b, _ => [.b]
  | .bstar, _ => [.b]
  | .n, _ => [.n]
  | .other, _ => []

/-- `GraphicsExtractor.Extract(operations)` -/
def extract (ops : List (RawG α)) (s : PState α) : PState α × Bool :=
  run (ops.flatMap decodeG) s

end
end Tabula.GPath
