import TabulaModel.Model.Docx
import TabulaModel.Model.DocRender
/-
Model of the public views of tabula's DOCX reader (docx/reader.go, lists.go,
tables.go): `TextWithOptions` / `Text`, `MarkdownWithOptions` / `Markdown`,
`MarkdownWithRAGOptions` (heading offset and cap; the YAML front matter and the table
of contents are not modelled), `Document`, `Tables` / `ModelTables`, the numbering
resolver, and the header/footer part texts the exclusion options compare with.
Core Lean only.

Inputs: the authored trees of word/document.xml, word/styles.xml, word/numbering.xml
and of the header / footer parts named by the relationships, in relationship order.
-/
namespace Tabula.Docx
open Tabula.Xml Tabula.Render

def sNumbering : Str := [110, 117, 109, 98, 101, 114, 105, 110, 103]
def sAbstractNum : Str := [97, 98, 115, 116, 114, 97, 99, 116, 78, 117, 109]
def sAbstractNumId : Str := [97, 98, 115, 116, 114, 97, 99, 116, 78, 117, 109, 73, 100]
def sNum : Str := [110, 117, 109]
def sLvl : Str := [108, 118, 108]
def sStart : Str := [115, 116, 97, 114, 116]
def sNumFmt : Str := [110, 117, 109, 70, 109, 116]
def sLvlText : Str := [108, 118, 108, 84, 101, 120, 116]
def sTblGrid : Str := [116, 98, 108, 71, 114, 105, 100]
def sGridCol : Str := [103, 114, 105, 100, 67, 111, 108]
def sBullet : Str := [98, 117, 108, 108, 101, 116]
def sDecimal : Str := [100, 101, 99, 105, 109, 97, 108]
def sLowerLetter : Str := [108, 111, 119, 101, 114, 76, 101, 116, 116, 101, 114]
def sUpperLetter : Str := [117, 112, 112, 101, 114, 76, 101, 116, 116, 101, 114]
def sLowerRoman : Str := [108, 111, 119, 101, 114, 82, 111, 109, 97, 110]
def sUpperRoman : Str := [117, 112, 112, 101, 114, 82, 111, 109, 97, 110]

/-! ### numbering.xml: NewNumberingResolver / ResolveLevel / getBulletChar / formatNumber -/

structure Lvl where
  ilvl : Str
  numFmt : Str
  lvlText : Str
  start : Str
deriving Repr, Inhabited, DecidableEq

structure AbstractNum where
  id : Str
  levels : List Lvl
deriving Repr, Inhabited, DecidableEq

/-- the two maps of `NumberingResolver`, as the lists they are built from (a later entry
with the same key replaces an earlier one) -/
structure Numbering where
  abstracts : List AbstractNum
  nums : List (Str × Str)        -- numId ↦ abstractNumId
deriving Repr, Inhabited, DecidableEq

def lvlOf (n : Node) : Lvl :=
  { ilvl := n.attr sIlvl, numFmt := childVal n.kids sNumFmt, lvlText := childVal n.kids sLvlText,
    start := childVal n.kids sStart }

/-- `xml.Unmarshal` into `numberingXML` + `NewNumberingResolver` (no part, or a root that
is not `numbering`: empty maps) -/
def numberingOf (root : Option Node) : Numbering :=
  match root with
  | none => { abstracts := [], nums := [] }
  | some r =>
    if r.loc == sNumbering then
      { abstracts := (childrenNamed r.kids sAbstractNum).map fun a =>
          { id := a.attr sAbstractNumId, levels := (childrenNamed a.kids sLvl).map lvlOf },
        nums := (childrenNamed r.kids sNum).map fun n => (n.attr sNumId, childVal n.kids sAbstractNumId) }
    else { abstracts := [], nums := [] }

/-- `nr.numMappings[numID]` then `nr.abstractNums[abstractID]` -/
def abstractFor (nm : Numbering) (numId : Str) : Option AbstractNum :=
  match nm.nums.reverse.find? (·.1 == numId) with
  | none => none
  | some e => nm.abstracts.reverse.find? (·.id == e.2)

/-- the first `w:lvl` of the abstract numbering whose `w:ilvl` spells the level -/
def levelDef (nm : Numbering) (numId : Str) (level : Nat) : Option Lvl :=
  match abstractFor nm numId with
  | none => none
  | some an => an.levels.find? (·.ilvl == natToDec level)

/-- `isRenderableBullet`: no rune of the Private Use Area U+E000..U+F8FF, no control character -/
def isRenderableBullet (s : Str) : Bool :=
  (runes s).all (fun r => !(57344 ≤ r && r ≤ 63743) && !(r < 32)) && s != []

/-- `getBulletChar(lvlText, level)` -/
def getBulletChar (lvlText : Str) (level : Nat) : Str :=
  if lvlText != [] && !containsSub lvlText [37] && isRenderableBullet lvlText then lvlText
  else levelBullet level

def orderedFmts : List Str := [sDecimal, sLowerLetter, sUpperLetter, sLowerRoman, sUpperRoman]

/-- `ResolveLevel(numID, level)`: (ordered?, bullet, startAt) -/
def resolveLevel (nm : Numbering) (numId : Str) (level : Nat) : Bool × Str × Int :=
  if numId = [] then (false, bulletDot, 1)
  else match levelDef nm numId level with
    | none => (false, bulletDot, 1)
    | some l =>
      let startAt : Int := if l.start ≠ [] then (atoi? l.start).getD 1 else 1
      if l.numFmt == sBullet then (false, getBulletChar l.lvlText level, startAt)
      else if orderedFmts.contains l.numFmt then (true, [], startAt)
      else (false, bulletDot, startAt)

/-- `formatNumber(num, numID, level, resolver)` -/
def formatNumber (nm : Numbering) (num : Int) (numId : Str) (level : Nat) : Str :=
  match levelDef nm numId level with
  | none => intToDec num
  | some l =>
    if l.numFmt == sLowerLetter then toLowerLetter num
    else if l.numFmt == sUpperLetter then toUpperLetter num
    else if l.numFmt == sLowerRoman then toLowerRoman num
    else if l.numFmt == sUpperRoman then toUpperRoman num
    else intToDec num

/-! ### list counters: `map[string]map[int]int` -/

/-- `listCounters`: (numID, level) ↦ count; the Markdown writer keeps the level of the
list's previous item under level -1 -/
abbrev Counters := List ((Str × Int) × Int)

def ctrGet? (cs : Counters) (k : Str × Int) : Option Int := (cs.find? (·.1 == k)).map (·.2)
def ctrGet (cs : Counters) (k : Str × Int) : Int := (ctrGet? cs k).getD 0
def ctrSet (cs : Counters) (k : Str × Int) (v : Int) : Counters := (k, v) :: cs.filter (·.1 != k)
/-- `for lvl := range m[numID] { if lvl > level { delete(m[numID], lvl) } }` -/
def ctrDropDeeper (cs : Counters) (numId : Str) (level : Int) : Counters :=
  cs.filter fun e => !(e.1.1 == numId && e.1.2 > level)

/-! ### header / footer part texts: extractHeaderFooterText / parseHeadersAndFooters -/

/-- `extractHeaderFooterText` on the tree of one header or footer part: the texts of the
root's direct paragraphs that have any, joined by newlines. When a direct paragraph nests its
inline containers deeper than `maxInlineDepth`, `xml.Unmarshal` fails for `headerXML` and for
`footerXML` (`err == nil` is demanded of both), no paragraph is taken and the text is empty:
the part is left out of `headerTexts` / `footerTexts`. -/
def partText (root : Node) : Str :=
  if (childrenNamed root.kids sP).all paraDecodes then
    joinWith [10] (((childrenNamed root.kids sP).map paraText).filter (· ≠ []))
  else []

/-- `r.headerTexts` / `r.footerTexts`: the non-empty part texts in relationship order -/
def partTexts (parts : List Node) : List Str := (parts.map partText).filter (· ≠ [])

/-- `shouldExcludeParagraph` (the model of C11, `HF.shouldExcludeParagraph`) -/
def excluded (opts : ExtractOptions) (hdr ftr : List Str) (text : Str) : Bool :=
  Tabula.HF.shouldExcludeParagraph text hdr ftr opts.excludeHeaders opts.excludeFooters

/-! ### the reader after `Open` -/

/-- what the views read of a `*docx.Reader`: the elements in the order the reader holds
them, for each table the number of `w:gridCol`s, the numbering, the header / footer texts -/
structure Reader where
  elements : List (Elem × Nat)
  numbering : Numbering
  headerTexts : List Str
  footerTexts : List Str
deriving Repr, Inhabited

/-- `len(parsed.ColWidths)`: the `w:gridCol` children of the table's `w:tblGrid` -/
def gridColsOf (n : Node) : Nat :=
  if n.loc == sTbl then
    match childNamed n.kids sTblGrid with
    | some g => (childrenNamed g.kids sGridCol).length
    | none => 0
  else 0

/-- the reader `docx.Open` builds when `xml.Unmarshal` of document.xml succeeds -/
def openReader (doc : Node) (styles numbering : Option Node) (headers footers : List Node) : Reader :=
  { elements := (parseBodyElementsInOrder doc).map fun n => (processElement (stylesOf styles) n, gridColsOf n),
    numbering := numberingOf numbering,
    headerTexts := partTexts headers, footerTexts := partTexts footers }

/-- `docx.Open` as far as the views go: `none` = `Open` returns the error of `parseDocument`
(a decoded paragraph of document.xml nests inline containers deeper than `maxInlineDepth`);
`tabula.Open(f).Text()` / `.ToMarkdown()` / `.Document()` then return that error -/
def openReader? (doc : Node) (styles numbering : Option Node) (headers footers : List Node) : Option Reader :=
  if documentDecodes doc then some (openReader doc styles numbering headers footers) else none

def rcell (c : Cell) : RCell := { text := c.text, colSpan := c.colSpan, covered := c.cont }
def rrows (rows : List (List Cell)) : List (List RCell) := rows.map (·.map rcell)

/-! ### Text / TextWithOptions -/

/-- `writeParagraphText`: what one paragraph contributes to the plain text, and the counters after it -/
def writeParagraphText (nm : Numbering) (p : Para) (cs : Counters) : Str × Counters :=
  match p.list with
  | none => (p.text, cs)
  | some (numId, level) =>
    let r := resolveLevel nm numId level      -- (ordered, bullet, startAt)
    if r.1 then
      let c := ctrGet cs (numId, level) + 1
      let num := wrap64 (r.2.2 + c - 1)
      (indent level ++ formatNumber nm num numId level ++ [46, 32] ++ p.text, ctrSet cs (numId, level) c)
    else
      let b := if r.2.1 = [] then levelBullet level else r.2.1
      (indent level ++ b ++ [32] ++ p.text, cs)

/-- what one element contributes to `TextWithOptions` (an excluded paragraph: nothing) -/
def textPiece (rd : Reader) (opts : ExtractOptions) (e : Elem) (cs : Counters) : Str × Counters :=
  match e with
  | .para p => if excluded opts rd.headerTexts rd.footerTexts p.text then ([], cs) else writeParagraphText rd.numbering p cs
  | .table rows => (tableToText (rrows rows), cs)

/-- the pieces of all elements, in order, threading the list counters -/
def textPieces (rd : Reader) (opts : ExtractOptions) : List Elem → Counters → List Str
  | [], _ => []
  | e :: rest, cs => (textPiece rd opts e cs).1 :: textPieces rd opts rest (textPiece rd opts e cs).2

/-- `TextWithOptions`: a newline before every element but the first -/
def textWithOptions (rd : Reader) (opts : ExtractOptions) : Str :=
  joinWith [10] (textPieces rd opts (rd.elements.map (·.1)) [])

/-- `Text()` -/
def text (rd : Reader) : Str := textWithOptions rd {}

/-! ### Markdown / MarkdownWithOptions / MarkdownWithRAGOptions -/

/-- the heading-level options of `rag.MarkdownOptions` (`Markdown()` has none: offset 0, no cap) -/
structure MdOptions where
  offset : Int := 0
  maxLevel : Int := 0
deriving Repr, Inhabited

/-- the number of `#` of a heading line: `level < 1 → 1`, `+ offset`, `< 1 → 1`,
`MaxHeadingLevel > 0 && level > MaxHeadingLevel → MaxHeadingLevel`, `> 6 → 6` -/
def mdHeadingLevel (o : MdOptions) (level : Nat) : Nat :=
  let l0 : Int := if level < 1 then 1 else level
  let l1 := l0 + o.offset
  let l2 := if l1 < 1 then 1 else l1
  let l3 := if o.maxLevel > 0 ∧ l2 > o.maxLevel then o.maxLevel else l2
  let l4 := if l3 > 6 then 6 else l3
  l4.toNat

structure MdState where
  out : Str
  inList : Bool
  lastNumId : Str
  cs : Counters
deriving Repr, Inhabited

/-- `writeMarkdownListItem` -/
def mdListItem (nm : Numbering) (text numId : Str) (level : Nat) (cs : Counters) : Str × Counters :=
  let cs1 := match ctrGet? cs (numId, -1) with
    | some lastLevel => if (level : Int) ≤ lastLevel then ctrDropDeeper cs numId level else cs
    | none => cs
  let cs2 := ctrSet cs1 (numId, -1) level
  let r := resolveLevel nm numId level      -- (ordered, bullet, startAt)
  if r.1 then
    let c := ctrGet cs2 (numId, level) + 1
    let num := wrap64 (r.2.2 + c - 1)
    (indent level ++ intToDec num ++ [46, 32] ++ text ++ [10], ctrSet cs2 (numId, level) c)
  else (indent level ++ [45, 32] ++ text ++ [10], cs2)

/-- one turn of the loop over `r.elements` (`i` = index of the element) -/
def mdStep (rd : Reader) (opts : ExtractOptions) (o : MdOptions) (i : Nat) (e : Elem) (s : MdState) : MdState :=
  match e with
  | .para p =>
    if excluded opts rd.headerTexts rd.footerTexts p.text then s
    else
      let isItem := p.list.isSome
      let numId := (p.list.map (·.1)).getD []
      -- leaving a list: a blank line
      let s := if i > 0 && s.out != [] && s.inList && (!isItem || numId != s.lastNumId)
        then { s with out := s.out ++ [10], inList := false } else s
      match p.heading, p.list with
      | some l, _ =>
        { s with out := s.out ++ repeatStr [35] (mdHeadingLevel o l) ++ [32] ++ p.text ++ [10, 10], inList := false }
      | none, some (id, level) =>
        let r := mdListItem rd.numbering p.text id level s.cs
        { s with out := s.out ++ r.1, inList := true, lastNumId := id, cs := r.2 }
      | none, none =>
        if p.text != [] then { s with out := s.out ++ p.text ++ [10, 10], inList := false } else s
  | .table rows =>
    let s := if s.inList then { s with out := s.out ++ [10], inList := false } else s
    { s with out := s.out ++ tableToMarkdown (rrows rows) ++ [10] }

def mdLoop (rd : Reader) (opts : ExtractOptions) (o : MdOptions) : List Elem → Nat → MdState → MdState
  | [], _, s => s
  | e :: rest, i, s => mdLoop rd opts o rest (i + 1) (mdStep rd opts o i e s)

/-- the buffer before the final `strings.Trim(…, "\n")` -/
def markdownRaw (rd : Reader) (opts : ExtractOptions) (o : MdOptions) : Str :=
  (mdLoop rd opts o (rd.elements.map (·.1)) 0 { out := [], inList := false, lastNumId := [], cs := [] }).out

/-- `MarkdownWithRAGOptions(extractOpts, mdOpts)` without metadata block and table of contents -/
def markdownWithRAGOptions (rd : Reader) (opts : ExtractOptions) (o : MdOptions) : Str :=
  trimNL (markdownRaw rd opts o)

/-- `MarkdownWithOptions` -/
def markdownWithOptions (rd : Reader) (opts : ExtractOptions) : Str := markdownWithRAGOptions rd opts {}

/-- `Markdown()` -/
def markdown (rd : Reader) : Str := markdownWithOptions rd {}

/-! ### ToModelTable / Document -/

/-- the model cell of a parsed cell -/
def mcellOf (c : Cell) : MCell := { text := c.text, rowSpan := c.rowSpan, colSpan := c.colSpan }

/-- the loop over the cells of one row of `ToModelTable`: a continuation cell takes its
columns and sets nothing -/
def fillRow (colCount rowIdx : Nat) : List Cell → Nat → List (List MCell) → List (List MCell) :=
  fillRowG (·.colSpan) (·.cont) mcellOf colCount rowIdx

def fillRows (colCount : Nat) : List (List Cell) → Nat → List (List MCell) → List (List MCell) :=
  fillRowsG (·.colSpan) (·.cont) mcellOf colCount

/-- `ToModelTable`: the grid is as wide as `w:tblGrid` says, or as the widest row -/
def toModelTable (rows : List (List Cell)) (gridCols : Nat) : List (List MCell) :=
  if rows = [] then []
  else
    let colCount := if gridCols ≠ 0 then gridCols else colCount rows
    fillRows colCount rows 0 (newGrid rows.length colCount)

/-- `ModelTables()`: the tables of the body, in order -/
def modelTables (rd : Reader) : List (List (List MCell)) :=
  rd.elements.filterMap fun e => match e.1 with
    | .table rows => some (toModelTable rows e.2)
    | .para _ => none

/-- an item of a `model.List` -/
structure DItem where
  text : Str
  level : Nat
  bullet : Str
deriving Repr, Inhabited, BEq, DecidableEq

/-- the elements of the page `Document()` builds -/
inductive DocElem where
  | para (text : Str)
  | heading (level : Nat) (text : Str)
  | list (ordered : Bool) (items : List DItem)
  | table (grid : List (List MCell))
deriving Repr, Inhabited, BEq, DecidableEq

/-- the list being built: `currentList`, `currentListNumID`, `listLevelCounters`, `lastListLevel` -/
structure OpenList where
  ordered : Bool
  numId : Str
  items : List DItem
  counters : List (Nat × Int)
  lastLevel : Nat
deriving Repr, Inhabited

structure DocState where
  page : List DocElem
  cur : Option OpenList
deriving Repr, Inhabited

/-- `finalizeList` -/
def finalizeList (s : DocState) : DocState :=
  match s.cur with
  | some l => if l.items ≠ [] then { page := s.page ++ [.list l.ordered l.items], cur := none } else { s with cur := none }
  | none => s

def lvlGet (cs : List (Nat × Int)) (k : Nat) : Int := ((cs.find? (·.1 == k)).map (·.2)).getD 0
def lvlSet (cs : List (Nat × Int)) (k : Nat) (v : Int) : List (Nat × Int) := (k, v) :: cs.filter (·.1 != k)

/-- a list item joins the list being built: counters of deeper levels are dropped when the
item is not deeper than the one before, the bullet is the level's bullet or the item's number -/
def addItem (nm : Numbering) (text numId : Str) (level : Nat) (l : OpenList) : OpenList :=
  let ctr := if level ≤ l.lastLevel then l.counters.filter (fun c => !(c.1 > level)) else l.counters
  let r := resolveLevel nm numId level
  let bc : Str × List (Nat × Int) :=
    if l.ordered && r.2.1 == [] then
      (formatNumber nm (wrap64 (r.2.2 + (lvlGet ctr level + 1) - 1)) numId level ++ [46], lvlSet ctr level (lvlGet ctr level + 1))
    else (r.2.1, ctr)
  let bullet := if !l.ordered && bc.1 == [] then levelBullet level else bc.1
  { l with items := l.items ++ [⟨text, level, bullet⟩], counters := bc.2, lastLevel := level }

/-- `if currentList == nil || para.NumID != currentListNumID { finalizeList(); currentList = &model.List{…} }` -/
def openListFor (nm : Numbering) (numId : Str) (level : Nat) (s : DocState) : DocState × OpenList :=
  let fresh : OpenList := { ordered := (resolveLevel nm numId level).1, numId := numId, items := [], counters := [], lastLevel := 0 }
  match s.cur with
  | some l => if l.numId = numId then (s, l) else (finalizeList s, fresh)
  | none => (s, fresh)

/-- one turn of the loop of `Document()` -/
def docStep (nm : Numbering) (e : Elem × Nat) (s : DocState) : DocState :=
  match e.1 with
  | .para p =>
    if p.text = [] then s
    else match p.list with
      | some (numId, level) =>
        let sl := openListFor nm numId level s
        { sl.1 with cur := some (addItem nm p.text numId level sl.2) }
      | none =>
        let s := finalizeList s
        match p.heading with
        | some lv => { s with page := s.page ++ [.heading lv p.text] }
        | none => { s with page := s.page ++ [.para p.text] }
  | .table rows =>
    let s := finalizeList s
    let g := toModelTable rows e.2
    if g.length > 0 then { s with page := s.page ++ [.table g] } else s

def docLoop (nm : Numbering) : List (Elem × Nat) → DocState → DocState
  | [], s => s
  | e :: rest, s => docLoop nm rest (docStep nm e s)

/-- `Document()`: the elements of its single page -/
def document (rd : Reader) : List DocElem :=
  (finalizeList (docLoop rd.numbering rd.elements { page := [], cur := none })).page

/-! ### the public API: `tabula.Open(f).Text()` / `.ToMarkdown()` / `.Document()` (extractor.go) -/

/-- the exclusion switches of the extractor (`ExcludeHeaders()`, `ExcludeFooters()`,
`ExcludeHeadersAndFooters()`); none called: both off -/
structure ApiOptions where
  excludeHeaders : Bool := false
  excludeFooters : Bool := false

/-- `Extractor.Text()`: the reader's `TextWithOptions` with the extractor's switches -/
def apiText (rd : Reader) (a : ApiOptions) : Str :=
  textWithOptions rd { excludeHeaders := a.excludeHeaders, excludeFooters := a.excludeFooters }

/-- `Extractor.ToMarkdown()`: `MarkdownWithRAGOptions` with `rag.DefaultMarkdownOptions()`
(no metadata block, no table of contents, offset 0, `MaxHeadingLevel` 6) -/
def apiMarkdown (rd : Reader) (a : ApiOptions) : Str :=
  markdownWithRAGOptions rd { excludeHeaders := a.excludeHeaders, excludeFooters := a.excludeFooters } { offset := 0, maxLevel := 6 }

/-- `Extractor.Document()` -/
def apiDocument (rd : Reader) : List DocElem := document rd

end Tabula.Docx
