import TabulaModel.Model.Sheet
import TabulaModel.Model.HeaderFooter
/-
Model of the public surface of the xlsx reader (xlsx/reader.go, xlsx/cell.go) around the
worksheet loader of `Model/Sheet.lean`:

* `parseSharedStrings` (plain `<t>` and rich-text `<r><t>` runs),
* `parseWorksheetPart` as a whole (merge list, dimension pass with the element count, the one
  size test: a grid may have 16 cells per `<c>` element of a fresh part and takes the rest from
  the budget of `maxGridCells` cells shared by the sheets of the workbook; allocation, placement,
  merge pass clipped to the grid as the Go loops are, skipping regions with no cell in the grid and
  run within a budget of one grid) and `parseWorksheets` (unreadable parts and failing sheets
  are skipped, `Sheet.Index` is the workbook position, `r.gridParts` and `r.gridCells` are
  threaded through),
* the accessors `Reader.Sheet`, `Sheet.Cell`, `Sheet.CellByRef`, `SheetNames`, `SheetCount`,
* `ExtractOptions` handling (sheet selection, headers, delimiter) and `TextWithOptions`,
* `findContentBounds`, `Cell.IsEmpty`, `escapeMarkdown`, `markdown` / `MarkdownWithOptions` /
  `MarkdownWithRAGOptions` (heading level through `rag.MarkdownOptions.AdjustHeadingLevel`),
* `Document` (one page per sheet, the table of the content box) and `Tables` /
  `sheetToTable` / `ParsedTable.ToText` / `ParsedTable.ToMarkdown`,
* the XLSX branches of `tabula.Extractor.Text / ToMarkdown / Document`.

Core Lean only.  Strings are UTF-8 byte lists.  `strings.TrimSpace` is the byte-level model
of `Model/HeaderFooter.lean` (`HF.trimSpace`, tied to the Go function by C11's correspondence).
The model starts from the unmarshalled XML (`SI`, `RowXML`, merge refs), as `Sheet.lean` does.
-/
namespace Tabula.Wb
open Tabula.A1 Tabula.Sheet

/-! ## shared strings -/

/-- one `<si>` as unmarshalled (`siXML`): the text of `<t>`, the texts of the `<r><t>` runs -/
structure SI where
  t : Str
  runs : List Str
  deriving Repr

/-- body of the loop of `parseSharedStrings`: plain text wins, else the runs concatenated -/
def sharedString (si : SI) : Str := if si.t ≠ [] then si.t else si.runs.flatten

/-- `(*Reader).parseSharedStrings` -/
def parseSharedStrings (sis : List SI) : List Str := sis.map sharedString

/-! ## loading -/

/-- `xlsx.Sheet` (the fields the outputs read) -/
structure Sheet where
  name : Str
  /-- position of the sheet in workbook.xml (`Sheet.Index`) -/
  index : Nat
  rows : Grid
  /-- `Sheet.MaxCol` -/
  maxCol : Nat
  regions : List Region
  deriving Repr

/-- one worksheet part as `parseWorksheets` hands it to `parseWorksheet` -/
structure SheetXML where
  name : Str
  rows : List RowXML
  merges : List Str
  /-- the archive member the `<sheet>` entry resolves to (`xl/worksheets/sheetN.xml`): several
  entries may name the same member; `parseWorksheets` keeps the members it has handed to
  `parseWorksheetPart` in `r.gridParts` -/
  member : Str
  deriving Repr

/-- `maxGridCells`: one budget for all sheets of a workbook, for what their grids need beyond the
allowance of their parts -/
def maxGridCells : Nat := 8388608

/-- the region clipped to a grid of `nrows` x `ncols` cells: what the bounds
`row < len(sheet.Rows)` / `col < len(sheet.Rows[row])` of the merge pass leave to visit -/
def clipRegion (nrows ncols : Nat) (m : Region) : Region :=
  { m with er := if m.er + 1 ≤ nrows then m.er else nrows - 1,
           ec := if m.ec + 1 ≤ ncols then m.ec else ncols - 1 }

/-- positions the merge pass visits for region `m` in a grid of `nrows` x `ncols` cells -/
def visited (nrows ncols : Nat) (m : Region) : List (Nat × Nat) :=
  if nrows = 0 ∨ ncols = 0 then [] else regionCells (clipRegion nrows ncols m)

/-- the merge pass for one region: the marks use the region as written (`MergeRows`,
`MergeCols` are the declared extent), the loops stop at the edge of the grid -/
def applyRegionC (ncols : Nat) (g : Grid) (m : Region) : Grid :=
  (visited g.length ncols m).foldl (fun g (rc : Nat × Nat) => g.modify rc.1 rc.2 (markCell m rc)) g

/-- cells of the grid `parseWorksheetPart` allocates for the part: `maxRow * (maxCol + 1)` -/
def gridSize (x : SheetXML) : Nat := maxRowOf x.rows * (maxColOf x.rows + 1)

/-- `gridCellsPerElement`: a grid may have this many cells for every `<c>` element its part brings -/
def gridCellsPerElement : Nat := 16

/-- `elements`: the `<c>` elements of the part, counted in the dimension pass over all rows
(`elements += len(row.Cells)`), also those whose reference does not parse -/
def elements (x : SheetXML) : Nat := (x.rows.map (·.cells.length)).sum

/-- `allowance`: `gridCellsPerElement * elements` for a fresh part (no earlier `<sheet>` entry of
the workbook was handed the same member), 0 otherwise -/
def allowance (fresh : Bool) (x : SheetXML) : Nat := if fresh then gridCellsPerElement * elements x else 0

/-- what the sheet takes out of the workbook's budget when it loads:
`cells - allowance` if positive (`if cells > allowance { r.gridCells += cells - allowance }`) -/
def charge (fresh : Bool) (x : SheetXML) : Nat := gridSize x - allowance fresh x

/-- `(*Reader).parseWorksheetPart` from the unmarshalled part.  `used` is `r.gridCells` (grid
cells beyond the allowance of their parts, all sheets so far; at most `maxGridCells`, see
`Wb.stateAfter_le`, so `maxGridCells - used` is the Go `int` value).  `none` = the "too large to
load" error: `maxRow > 0 && maxCol+1 > available/maxRow` with `available = maxGridCells -
r.gridCells + allowance`.  On success the Go code adds `charge` to `r.gridCells`: `loadParts`
does that.  The merge loop runs with a budget of one grid (`Sheet.mergeLoop`). -/
def loadSheet (shared : List Str) (index used : Nat) (fresh : Bool) (x : SheetXML) : Option Sheet :=
  let regions := x.merges.filterMap parseRegion
  let maxRow := maxRowOf x.rows
  let maxCol := maxColOf x.rows
  let available := maxGridCells - used + allowance fresh x
  if maxRow > 0 ∧ maxCol + 1 > available / maxRow then none else
  let g1 := x.rows.foldl (placeRow shared) (emptyGrid maxRow (maxCol + 1))
  some { name := x.name, index := index,
         rows := mergeLoop (applyRegionC (maxCol + 1)) maxRow (maxCol + 1) regions (maxRow * (maxCol + 1)) g1,
         maxCol := maxCol, regions := regions }

/-- `xlsx.Reader` after `Open`: the sheets that loaded -/
structure Reader where
  sheets : List Sheet
  deriving Repr

/-- the loop of `parseWorksheets` from entry number `i` on; `seen` = the members in
`r.gridParts`, `used` = `r.gridCells`.  An entry whose member is missing is skipped before
anything is recorded (`continue`).  Otherwise the member is recorded — also when the sheet then
fails to load — and the part is fresh iff it was not recorded before; a sheet that loads has taken
its `charge` out of the workbook's budget.  (A member whose XML does not unmarshal is the model's
`none` part as well: it is recorded by the Go code, but every entry naming it fails alike, so
the record is never consulted for a sheet that loads.) -/
def loadParts (shared : List Str) : List (Option SheetXML) → Nat → List Str → Nat → List Sheet
  | [], _, _, _ => []
  | none :: ps, i, seen, used => loadParts shared ps (i + 1) seen used
  | some x :: ps, i, seen, used =>
    let fresh := !seen.contains x.member
    match loadSheet shared i used fresh x with
    | some s => s :: loadParts shared ps (i + 1) (x.member :: seen) (used + charge fresh x)
    | none => loadParts shared ps (i + 1) (x.member :: seen) used

/-- `Open` after the package level: shared strings, then `parseWorksheets` (`none` part = the
member is missing or its XML does not unmarshal; such sheets and sheets that fail to load are
skipped; no sheet at all is the "no worksheets found" error).  A fresh reader has recorded no
member and charged no grid cell yet. -/
def openWorkbook (sis : List SI) (parts : List (Option SheetXML)) : Option Reader :=
  let sheets := loadParts (parseSharedStrings sis) parts 0 [] 0
  if sheets.isEmpty then none else some ⟨sheets⟩

/-! ## accessors -/

/-- `(*Reader).Sheet` -/
def Reader.sheet (r : Reader) (i : Int) : Option Sheet :=
  if i < 0 ∨ i ≥ r.sheets.length then none else r.sheets[i.toNat]?

/-- `(*Reader).SheetByName`: the first sheet of that name -/
def Reader.sheetByName (r : Reader) (name : Str) : Option Sheet := r.sheets.find? (·.name = name)

/-- `(*Reader).SheetNames` -/
def Reader.sheetNames (r : Reader) : List Str := r.sheets.map (·.name)

/-- `(*Reader).SheetCount`, `PageCount` -/
def Reader.sheetCount (r : Reader) : Nat := r.sheets.length

/-- `(*Sheet).Cell` -/
def Sheet.cell (s : Sheet) (row col : Int) : Option Cell :=
  if row < 0 ∨ row ≥ s.rows.length then none else
  match s.rows[row.toNat]? with
  | none => none
  | some cells => if col < 0 ∨ col ≥ cells.length then none else cells[col.toNat]?

/-- `(*Sheet).CellByRef` -/
def Sheet.cellByRef (s : Sheet) (ref : Str) : Option Cell :=
  match parseCellRef ref with
  | .ok (c, r) => s.cell r c
  | .error _ => none

/-- `(*Sheet).RowCount`, `ColCount` -/
def Sheet.rowCount (s : Sheet) : Nat := s.rows.length
def Sheet.colCount (s : Sheet) : Nat := s.maxCol + 1

/-! ## options and text -/

/-- `xlsx.ExtractOptions`; `ExcludeHeaders` / `ExcludeFooters` exist "for compatibility" and are
read by nothing -/
structure ExtractOptions where
  sheets : List Int := []
  includeHeaders : Bool := false
  delimiter : Str := []
  excludeHeaders : Bool := false
  excludeFooters : Bool := false
  deriving Repr

/-- the sheet selection at the head of `TextWithOptions` and `markdown` -/
def selectSheets (r : Reader) (sel : List Int) : List Sheet :=
  if sel.isEmpty then r.sheets
  else sel.filterMap fun (idx : Int) => if 0 ≤ idx ∧ idx < (r.sheets.length : Int) then r.sheets[idx.toNat]? else none

/-- one row of `TextWithOptions`: the delimiter before every cell but the first, nothing for a
covered cell -/
def rowText (delim : Str) (row : List Cell) : Str := intercalate delim (row.map cellText)

/-- the rows of one sheet in `TextWithOptions` -/
def sheetTextD (delim : Str) (g : Grid) : Str := intercalate [10] (g.map (rowText delim))

/-- "=== name ===\n" -/
def headerLine (name : Str) : Str := [61, 61, 61, 32] ++ name ++ [32, 61, 61, 61, 10]

def effDelimiter (o : ExtractOptions) : Str := if o.delimiter = [] then [9] else o.delimiter

def sheetBlock (o : ExtractOptions) (s : Sheet) : Str :=
  (if o.includeHeaders then headerLine s.name else []) ++ sheetTextD (effDelimiter o) s.rows

/-- `(*Reader).TextWithOptions` -/
def textWithOptions (r : Reader) (o : ExtractOptions) : Str :=
  intercalate [10, 10] ((selectSheets r o.sheets).map (sheetBlock o))

/-- `(*Reader).Text` -/
def text (r : Reader) : Str := textWithOptions r {}

/-! ## content bounds -/

/-- `(*Cell).IsEmpty` -/
def isEmptyCell (c : Cell) : Bool := c.type == .empty || c.value == []

/-- the test of `findContentBounds`: a non-empty cell that is not covered by a merged region -/
def isContent (c : Cell) : Bool := !isEmptyCell c && (!c.merged || c.root)

/-- the four results of `findContentBounds` (Go `int`s; the maxima start at -1) -/
structure Bounds where
  minRow : Int
  maxRow : Int
  minCol : Int
  maxCol : Int
  deriving Repr, DecidableEq

/-- the four `if`s in the body of the double loop -/
def stepPos (b : Bounds) (p : Nat × Nat) : Bounds :=
  { minRow := if (p.1 : Int) < b.minRow then p.1 else b.minRow,
    maxRow := if (p.1 : Int) > b.maxRow then p.1 else b.maxRow,
    minCol := if (p.2 : Int) < b.minCol then p.2 else b.minCol,
    maxCol := if (p.2 : Int) > b.maxCol then p.2 else b.maxCol }

def boundsRow (ri : Nat) : List Cell → Nat → Bounds → Bounds
  | [], _, b => b
  | cell :: cs, ci, b => boundsRow ri cs (ci + 1) (if isContent cell then stepPos b (ri, ci) else b)

def boundsRows : Grid → Nat → Bounds → Bounds
  | [], _, b => b
  | row :: rs, ri, b => boundsRows rs (ri + 1) (boundsRow ri row 0 b)

def initBounds (s : Sheet) : Bounds := ⟨s.rows.length, -1, (s.maxCol : Int) + 1, -1⟩

/-- `(*Reader).findContentBounds` -/
def findContentBounds (s : Sheet) : Bounds := boundsRows s.rows 0 (initBounds s)

/-- `minRow > maxRow || minCol > maxCol` -/
def Bounds.isEmpty (b : Bounds) : Bool := b.minRow > b.maxRow || b.minCol > b.maxCol

/-- the values of `for x := lo; x <= hi; x++` -/
def span (lo hi : Int) : List Nat := List.range' lo.toNat (hi - lo + 1).toNat

/-! ## Markdown -/

/-- `strings.ReplaceAll(s, old-byte, new)` -/
def replaceByte (old : Nat) (new : Str) (s : Str) : Str := s.flatMap fun c => if c = old then new else [c]

/-- `escapeMarkdown`: "|" becomes "\|", then newline becomes a space -/
def escapeMarkdown (s : Str) : Str := replaceByte 10 [32] (replaceByte 124 [92, 124] s)

/-- the guarded write of one table cell in `markdown` -/
def mdCell (g : Grid) (row col : Nat) : Str :=
  match g.get row col with
  | some cell => if !cell.merged || cell.root then escapeMarkdown cell.value else []
  | none => []

/-- one table line: "|", then " value |" per column, then newline -/
def mdRow (g : Grid) (cols : List Nat) (row : Nat) : Str :=
  [124] ++ cols.flatMap (fun col => [32] ++ mdCell g row col ++ [32, 124]) ++ [10]

/-- the separator line "|---|---|" -/
def mdSep (cols : List Nat) : Str := [124] ++ cols.flatMap (fun _ => [45, 45, 45, 124]) ++ [10]

/-- the table part of one sheet in `markdown` -/
def sheetTableMd (s : Sheet) : Str :=
  if s.rows.isEmpty then [] else
  let b := findContentBounds s
  if b.isEmpty then [] else
  let cols := span b.minCol b.maxCol
  mdRow s.rows cols b.minRow.toNat ++ mdSep cols ++
    (span (b.minRow + 1) b.maxRow).flatMap (mdRow s.rows cols)

/-- heading of one sheet: `nameLevel` times "#", a space, the name, a blank line -/
def sheetHeading (nameLevel : Nat) (s : Sheet) : Str :=
  List.replicate nameLevel 35 ++ [32] ++ s.name ++ [10, 10]

def sheetMd (nameLevel : Nat) (s : Sheet) : Str := sheetHeading nameLevel s ++ sheetTableMd s

/-- `(*Reader).markdown(opts, nameLevel)` -/
def markdown (r : Reader) (o : ExtractOptions) (nameLevel : Nat) : Str :=
  HF.trimSpace (intercalate [10, 10] ((selectSheets r o.sheets).map (sheetMd nameLevel)))

/-- `(*Reader).MarkdownWithOptions`, `Markdown` -/
def markdownWithOptions (r : Reader) (o : ExtractOptions) : Str := markdown r o 2

/-- the fields of `rag.MarkdownOptions` the xlsx reader looks at -/
structure MdOptions where
  includeMetadata : Bool := false
  includeTOC : Bool := false
  headingLevelOffset : Int := 0
  maxHeadingLevel : Int := 6
  deriving Repr

/-- `rag.MarkdownOptions.AdjustHeadingLevel` -/
def adjustHeadingLevel (o : MdOptions) (level : Int) : Int :=
  let l1 := if level < 1 then 1 else level
  let l2 := l1 + o.headingLevelOffset
  let l3 := if l2 < 1 then 1 else l2
  let l4 := if o.maxHeadingLevel > 0 ∧ l3 > o.maxHeadingLevel then o.maxHeadingLevel else l3
  if l4 > 6 then 6 else l4

/-- `(*Reader).MarkdownWithRAGOptions`.  `front` is the YAML front matter and `toc` the table of
contents block as the Go code formats them (`fmt` `%q`, `strings.ToLower`: library formatting of
metadata and sheet names, no cell involved); they are written only when asked for, the TOC
only for more than one sheet, and the body follows unchanged. -/
def markdownWithRAG (r : Reader) (o : ExtractOptions) (mo : MdOptions) (front toc : Str) : Str :=
  (if mo.includeMetadata then front else []) ++
  (if mo.includeTOC ∧ r.sheets.length > 1 then toc else []) ++
  markdown r o (adjustHeadingLevel mo 2).toNat

/-! ## document model -/

/-- `model.Cell` as `Document` fills it -/
structure DCell where
  text : Str
  rowSpan : Nat
  colSpan : Nat
  isHeader : Bool
  deriving Repr, DecidableEq

/-- one page of the document: `page.Number`, and the table if the sheet has content -/
structure DPage where
  number : Nat
  table : Option (List (List DCell))
  deriving Repr

/-- the `model.Cell` built from one grid cell -/
def toDCell (isHeader : Bool) (cell : Cell) : DCell :=
  { text := if cell.merged && !cell.root then [] else cell.value,
    rowSpan := cell.mergeRows, colSpan := cell.mergeCols, isHeader := isHeader }

/-- the double loop of `Document` over the content box.  The Go code indexes
`sheet.Rows[rowIdx][colIdx]` without a guard; taking the box out of the grid with `drop`/`take`
gives the same cells whenever the box lies inside the grid and fewer cells exactly where the Go
code would panic (theorem `C17A.docTable_shape`: never for a loaded sheet). -/
def docTable (g : Grid) (b : Bounds) : List (List DCell) :=
  let rows := (g.drop b.minRow.toNat).take (b.maxRow - b.minRow + 1).toNat
  rows.zipIdx.map fun (row, i) =>
    ((row.drop b.minCol.toNat).take (b.maxCol - b.minCol + 1).toNat).map (toDCell (i == 0))

def sheetPage (s : Sheet) : DPage :=
  let b := findContentBounds s
  { number := s.index + 1, table := if b.isEmpty then none else some (docTable s.rows b) }

/-- `(*Reader).Document`: the pages (metadata is not modelled) -/
def document (r : Reader) : List DPage := r.sheets.map sheetPage

/-! ## Tables -/

/-- `xlsx.ParsedTable` -/
structure PTable where
  name : Str
  headers : List Str
  rows : List (List Str)
  deriving Repr, DecidableEq

/-- one guarded cell of `sheetToTable`: the displayed value, "" outside the grid -/
def tableCell (g : Grid) (row col : Nat) : Str :=
  match g.get row col with
  | some cell => cellText cell
  | none => []

/-- `(*Reader).sheetToTable` -/
def sheetToTable (s : Sheet) : PTable :=
  let b := findContentBounds s
  if b.isEmpty then ⟨s.name, [], []⟩ else
  let cols := span b.minCol b.maxCol
  { name := s.name,
    headers := if b.minRow.toNat < s.rows.length then cols.map (tableCell s.rows b.minRow.toNat) else [],
    rows := (span (b.minRow + 1) b.maxRow).map fun row => cols.map (tableCell s.rows row) }

/-- `(*Reader).Tables` -/
def tables (r : Reader) : List PTable := r.sheets.map sheetToTable

/-- `ParsedTable.ToText` -/
def PTable.toText (t : PTable) : Str :=
  (if t.headers.isEmpty then [] else intercalate [9] t.headers ++ [10]) ++
  t.rows.flatMap fun row => intercalate [9] row ++ [10]

def ptRow (cells : List Str) : Str :=
  [124] ++ cells.flatMap (fun c => [32] ++ escapeMarkdown c ++ [32, 124]) ++ [10]

/-- `ParsedTable.ToMarkdown` -/
def PTable.toMarkdown (t : PTable) : Str :=
  if t.headers.isEmpty ∧ t.rows.isEmpty then [] else
  ptRow t.headers ++ ([124] ++ t.headers.flatMap (fun _ => [45, 45, 45, 124]) ++ [10]) ++
    t.rows.flatMap ptRow

/-! ## the XLSX branches of `tabula.Extractor` -/

/-- `Extractor.Text` for an XLSX file: `TextWithOptions` with only the two compatibility flags -/
def apiText (r : Reader) (excludeHeaders excludeFooters : Bool) : Str :=
  textWithOptions r { excludeHeaders := excludeHeaders, excludeFooters := excludeFooters }

/-- `Extractor.ToMarkdownWithOptions` for an XLSX file -/
def apiMarkdown (r : Reader) (excludeHeaders excludeFooters : Bool) (mo : MdOptions) (front toc : Str) : Str :=
  markdownWithRAG r { excludeHeaders := excludeHeaders, excludeFooters := excludeFooters } mo front toc

/-- `Extractor.Document` for an XLSX file -/
def apiDocument (r : Reader) : List DPage := document r

/-! ## call histories -/

/-- one call on an opened reader -/
inductive Call
  | text (o : ExtractOptions)
  | markdown (o : ExtractOptions)
  | document
  | tables
  | cell (sheet row col : Int)
  | cellByRef (sheet : Int) (ref : Str)
  | names
  | byName (name : Str)
  | close
  deriving Repr

/-- what a call returns -/
inductive Result
  | str (s : Str)
  | doc (d : List DPage)
  | tables (t : List PTable)
  | cell (c : Option Cell)
  | names (n : List Str)
  | idx (i : Option Nat)
  | unit
  deriving Repr

/-- the reader as a state machine: the state is the loaded sheets plus whether the package
file is still open (`zipReader != nil`) -/
structure RState where
  reader : Reader
  open_ : Bool
  deriving Repr

/-- one call: every method reads `r.sheets` only; `Close` releases the package file -/
def stepCall (st : RState) : Call → RState × Result
  | .text o => (st, .str (textWithOptions st.reader o))
  | .markdown o => (st, .str (markdownWithOptions st.reader o))
  | .document => (st, .doc (document st.reader))
  | .tables => (st, .tables (tables st.reader))
  | .cell si r c => (st, .cell ((st.reader.sheet si).bind fun s => s.cell r c))
  | .cellByRef si ref => (st, .cell ((st.reader.sheet si).bind fun s => s.cellByRef ref))
  | .names => (st, .names st.reader.sheetNames)
  | .byName n => (st, .idx ((st.reader.sheetByName n).map (·.index)))
  | .close => ({ st with open_ := false }, .unit)

def runCalls (st : RState) : List Call → List Result
  | [] => []
  | c :: cs => (stepCall st c).2 :: runCalls (stepCall st c).1 cs

end Tabula.Wb
