import TabulaModel.Model.Overlap
/-
Model of the public surface of `rag/overlap.go` around `ApplyOverlapToChunks` that the
earlier rounds left out: `(*ChunkWithOverlap).GetOriginalText` / `GetOverlapText` (with
`strings.Index`), the `OverlapSuffix` / `HasOverlapSuffix` fields, the metadata
`ApplyOverlapToChunks` rewrites (`CharCount`, `WordCount`, `EstimatedTokens`), the full
`OverlapResult` of `GenerateOverlap`, `DefaultOverlapConfig`, and `ConvertSize` of
`rag/size_config.go`.  Core Lean only.
-/
set_option linter.unusedVariables false
namespace Tabula.OverlapApi
open Tabula.Split Tabula.Overlap

/-- `strings.Index(s, sub)`: position of the first occurrence of `sub` in `s` -/
def indexOf (s sub : Str) : Option Nat :=
  match s with
  | [] => if sub = [] then some 0 else none
  | c :: t => if sub.isPrefixOf (c :: t) then some 0 else (indexOf t sub).map (· + 1)

/-- `(*ChunkWithOverlap).GetOverlapText` -/
def getOverlapText (o : OverlapOut) : Str := o.pref

/-- `(*ChunkWithOverlap).GetOriginalText`: the text behind the first occurrence of the
overlap prefix, trimmed -/
def getOriginalText (o : OverlapOut) : Str :=
  if !o.has || o.pref = [] then o.text
  else match indexOf o.text o.pref with
    | none => o.text
    | some idx => trimSpace (o.text.drop (idx + o.pref.length))

/-- what a caller can read off a `*ChunkWithOverlap` returned by `ApplyOverlapToChunks`
(chunks built by `NewChunk`, which fills the three counters from the text) -/
structure ChunkOut where
  text : Str
  pref : Str
  has : Bool
  suffix : Str
  hasSuffix : Bool
  charCount : Nat
  wordCount : Nat
  tokens : Nat
  deriving Repr

/-- `OverlapSuffix`/`HasOverlapSuffix` of chunk `i` are the prefix of chunk `i+1`; the
counters are recomputed from the rewritten text (`len`, `countWords`, `len/4`) -/
def withSuffixes : List OverlapOut → List ChunkOut
  | [] => []
  | o :: rest =>
    { text := o.text, pref := o.pref, has := o.has,
      suffix := match rest with | n :: _ => n.pref | [] => [],
      hasSuffix := match rest with | n :: _ => n.has | [] => false,
      charCount := o.text.length, wordCount := countWords o.text, tokens := o.text.length / 4 }
      :: withSuffixes rest

/-- `ApplyOverlapToChunks`, everything observable -/
def applyOverlapFull (cl : Classes) (c : OverlapConfig) (texts titles : List Str) : List ChunkOut :=
  withSuffixes (applyOverlapToChunks cl c texts titles)

/-- `rag.OverlapResult` -/
structure OverlapResult where
  text : Str
  charCount : Nat
  sentenceCount : Nat
  strategy : Nat
  deriving Repr

/-- `(*OverlapGenerator).GenerateOverlap`, the whole result -/
def generateOverlapResult (cl : Classes) (c : OverlapConfig) (chunkText : Str) : OverlapResult :=
  if c.strategy = 0 ∨ c.size = 0 then { text := [], charCount := 0, sentenceCount := 0, strategy := 0 }
  else if c.strategy > 3 then { text := [], charCount := 0, sentenceCount := 0, strategy := c.strategy }
  else
    let t := generateOverlap cl c chunkText
    { text := t, charCount := t.length, sentenceCount := (rawOverlap cl c chunkText).2, strategy := c.strategy }

/-- `DefaultOverlapConfig` -/
def defaultOverlapConfig : OverlapConfig :=
  { strategy := 2, size := 2, minOverlap := 20, maxOverlap := 500, preserveWords := true,
    includeHeadingContext := false }

/-- bytes per unit of `ConvertSize` (tokens at the fixed 4 bytes per token) -/
def unitBytes : SizeUnit → Nat
  | .characters => 1 | .tokens => 4 | .words => 6 | .sentences => 80 | .paragraphs => 400

/-- `ConvertSize(value, from, to)` -/
def convertSize (value : Nat) (src dst : SizeUnit) : Nat := value * unitBytes src / unitBytes dst

end Tabula.OverlapApi

namespace Tabula.Overlap
open Tabula.Split

/-! ## specification side: a string as `range` / `[]rune` read it -/

/-- `string([]rune(s))`: every ill-formed byte replaced by U+FFFD -/
def san (s : Str) : Str := encodeRunes (decodeRunes s)

/-- the non-whitespace characters of `s` as Go's `range s` / `[]rune(s)` read them (op
`c13.content`; equal to `stripWs s` on valid UTF-8) -/
def content (s : Str) : Str := stripWs (san s)

end Tabula.Overlap
