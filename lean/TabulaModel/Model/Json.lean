import TabulaModel.Model.Split
/-
Model of what `encoding/json` is ASSUMED to do for tabula's JSON exports, and of a standard
JSON reader (RFC 8259).

Writer side (`json.Encoder` / `json.Marshal`, Go 1.23): values are written compactly or, after
`SetIndent("", "  ")`, with the layout of `json.Indent`; strings are quoted by `appendString`
with HTML escaping on (`"`, `\`, control bytes, `<`, `>`, `&`, U+2028, U+2029 escaped, an
ill-formed UTF-8 byte replaced by `\ufffd`, everything else copied).  Which Go value becomes
which JSON value (struct tags, `omitempty`, sorted map keys) is tabula's business and lives in
`Model/ExportJson.lean`; the decimal text of a float is a parameter (`J.num` carries the token).

Reader side: a recursive-descent RFC 8259 parser with fuel (white space between tokens, the
number grammar, all string escapes; `\u` escapes of surrogate code points are rejected, the
writer never produces them).  Objects keep their members in textual order.

This file is about the stdlib contract, not about tabula code.  Core Lean only; bytes are `Nat`.
`charLen` (well-formed UTF-8 head) is the one of `Model/Split.lean`.
-/
namespace Tabula.Json
open Tabula.Split (Str charLen)

/-- a JSON value; a number is its JSON text -/
inductive J where
  | null
  | bool (b : Bool)
  | num (raw : Str)
  | str (s : Str)
  | arr (items : List J)
  | obj (members : List (Str × J))

def kNull : Str := [110, 117, 108, 108]
def kTrue : Str := [116, 114, 117, 101]
def kFalse : Str := [102, 97, 108, 115, 101]

/-! ## writer -/

/-- lower-case hex digit (`const hex = "0123456789abcdef"`) -/
def hexDigit (n : Nat) : Nat := if n < 10 then 48 + n else 87 + n

/-- what `appendString` (escapeHTML = true) writes for one ASCII byte -/
def escByte (b : Nat) : Str :=
  if b = 34 then [92, 34] else if b = 92 then [92, 92]
  else if b = 8 then [92, 98] else if b = 12 then [92, 102] else if b = 10 then [92, 110]
  else if b = 13 then [92, 114] else if b = 9 then [92, 116]
  else if b < 32 ∨ b = 60 ∨ b = 62 ∨ b = 38 then [92, 117, 48, 48, hexDigit (b / 16), hexDigit (b % 16)]
  else [b]

def uFFFD : Str := [92, 117, 102, 102, 102, 100]   -- `\ufffd`
def u2028 : Str := [92, 117, 50, 48, 50, 56]       -- `\u2028`
def u2029 : Str := [92, 117, 50, 48, 50, 57]       -- `\u2029`

/-- the loop of `appendString` between the quotes -/
def escBody (s : Str) : Str :=
  match s with
  | [] => []
  | b :: rest =>
    if b < 0x80 then escByte b ++ escBody rest
    else if charLen (b :: rest) = 0 then uFFFD ++ escBody rest
    else if (b :: rest).take 3 = [0xE2, 0x80, 0xA8] then u2028 ++ escBody ((b :: rest).drop 3)
    else if (b :: rest).take 3 = [0xE2, 0x80, 0xA9] then u2029 ++ escBody ((b :: rest).drop 3)
    else (b :: rest).take (charLen (b :: rest)) ++ escBody ((b :: rest).drop (charLen (b :: rest)))
termination_by s.length
decreasing_by
  all_goals simp only [List.length_cons, List.length_drop]
  all_goals omega

/-- `appendString` -/
def quote (s : Str) : Str := 34 :: (escBody s ++ [34])

/-- layout: `nl d` = what is written where `json.Indent` puts a newline at depth `d`, `sp` = what
follows a colon -/
structure Style where
  nl : Nat → Str
  sp : Str

/-- no `SetIndent` -/
def compact : Style := { nl := fun _ => [], sp := [] }

/-- `SetIndent("", "  ")` -/
def indent2 : Style := { nl := fun d => 10 :: List.replicate (2 * d) 32, sp := [32] }

mutual
  /-- the value at nesting depth `d` -/
  def write (st : Style) (d : Nat) : J → Str
    | .null => kNull
    | .bool b => if b then kTrue else kFalse
    | .num raw => raw
    | .str s => quote s
    | .arr [] => [91, 93]
    | .arr (x :: xs) => 91 :: (st.nl (d + 1) ++ write st (d + 1) x ++ writeElems st (d + 1) xs ++ st.nl d ++ [93])
    | .obj [] => [123, 125]
    | .obj ((k, v) :: ms) =>
      123 :: (st.nl (d + 1) ++ quote k ++ 58 :: st.sp ++ write st (d + 1) v ++ writeMembers st (d + 1) ms ++ st.nl d ++ [125])
  /-- `,` + element, for every further element -/
  def writeElems (st : Style) (d : Nat) : List J → Str
    | [] => []
    | x :: xs => 44 :: (st.nl d ++ write st d x ++ writeElems st d xs)
  /-- `,` + member, for every further member -/
  def writeMembers (st : Style) (d : Nat) : List (Str × J) → Str
    | [] => []
    | (k, v) :: ms => 44 :: (st.nl d ++ quote k ++ 58 :: st.sp ++ write st d v ++ writeMembers st d ms)
end

/-- `(*json.Encoder).Encode`: the value, then a newline -/
def encode (pretty : Bool) (v : J) : Str := write (if pretty then indent2 else compact) 0 v ++ [10]

/-- `json.Marshal` -/
def marshal (v : J) : Str := write compact 0 v

/-! ## reader -/

def isWs (c : Nat) : Bool := c == 32 || c == 9 || c == 10 || c == 13

def skipWs : Str → Str
  | [] => []
  | c :: r => if isWs c then skipWs r else c :: r

def hexVal (c : Nat) : Option Nat :=
  if 48 ≤ c ∧ c ≤ 57 then some (c - 48)
  else if 97 ≤ c ∧ c ≤ 102 then some (c - 87)
  else if 65 ≤ c ∧ c ≤ 70 then some (c - 55)
  else none

def hex4 (a b c d : Nat) : Option Nat :=
  match hexVal a, hexVal b, hexVal c, hexVal d with
  | some w, some x, some y, some z => some (w * 4096 + x * 256 + y * 16 + z)
  | _, _, _, _ => none

/-- UTF-8 of a code point below U+10000 -/
def utf8Enc (cp : Nat) : Str :=
  if cp < 0x80 then [cp]
  else if cp < 0x800 then [0xC0 + cp / 64, 0x80 + cp % 64]
  else [0xE0 + cp / 4096, 0x80 + cp / 64 % 64, 0x80 + cp % 64]

/-- the two-character escapes -/
def simpleEsc (e : Nat) : Option Nat :=
  if e = 34 then some 34 else if e = 92 then some 92 else if e = 47 then some 47
  else if e = 98 then some 8 else if e = 102 then some 12 else if e = 110 then some 10
  else if e = 114 then some 13 else if e = 116 then some 9 else none

def prepend (p : Str) : Option (Str × Str) → Option (Str × Str)
  | none => none
  | some (s, r) => some (p ++ s, r)

/-- the rest of a string after its opening quote: the decoded content and what follows the
closing quote -/
def parseStr : Str → Option (Str × Str)
  | [] => none
  | c :: r =>
    if c = 34 then some ([], r)
    else if c = 92 then
      match r with
      | [] => none
      | e :: r2 =>
        if e = 117 then
          match r2 with
          | a :: b :: c' :: d :: r3 =>
            match hex4 a b c' d with
            | some cp => if 0xD800 ≤ cp ∧ cp ≤ 0xDFFF then none else prepend (utf8Enc cp) (parseStr r3)
            | none => none
          | _ => none
        else
          match simpleEsc e with
          | some b => prepend [b] (parseStr r2)
          | none => none
    else if c < 32 then none
    else prepend [c] (parseStr r)

def isDigit (c : Nat) : Bool := 48 ≤ c && c ≤ 57

def isNumChar (c : Nat) : Bool := isDigit c || c == 45 || c == 43 || c == 46 || c == 101 || c == 69

def dropDigits : Str → Str
  | [] => []
  | c :: r => if isDigit c then dropDigits r else c :: r

/-- `[eE][+-]?[0-9]+` or nothing -/
def validExp : Str → Bool
  | [] => true
  | c :: r =>
    if c = 101 ∨ c = 69 then
      match r with
      | [] => false
      | s :: r2 =>
        let ds := if s = 43 ∨ s = 45 then r2 else s :: r2
        match ds with
        | [] => false
        | d :: r3 => isDigit d && (dropDigits r3).isEmpty
    else false

/-- `(\.[0-9]+)?` then the exponent part -/
def validFrac : Str → Bool
  | [] => true
  | c :: r =>
    if c = 46 then
      match r with
      | [] => false
      | d :: r2 => isDigit d && validExp (dropDigits r2)
    else validExp (c :: r)

/-- `0|[1-9][0-9]*` then the fraction part -/
def validUnsigned : Str → Bool
  | [] => false
  | c :: r =>
    if c = 48 then validFrac r
    else if 49 ≤ c ∧ c ≤ 57 then validFrac (dropDigits r)
    else false

/-- the number grammar of RFC 8259 -/
def validNum : Str → Bool
  | [] => false
  | c :: r => if c = 45 then validUnsigned r else validUnsigned (c :: r)

def takeNum : Str → Str
  | [] => []
  | c :: r => if isNumChar c then c :: takeNum r else []

def dropNum : Str → Str
  | [] => []
  | c :: r => if isNumChar c then dropNum r else c :: r

/-- a literal name (`true`, `false`, `null`) at the head of the input -/
def stripPrefix : Str → Str → Option Str
  | [], s => some s
  | _ :: _, [] => none
  | a :: as, b :: bs => if a = b then stripPrefix as bs else none

mutual
  /-- one value (leading white space allowed); fuel bounds the nesting × length -/
  def parseValue : Nat → Str → Option (J × Str)
    | 0, _ => none
    | f + 1, s =>
      match skipWs s with
      | [] => none
      | c :: r =>
        if c = 123 then
          match skipWs r with
          | [] => none
          | c2 :: r2 => if c2 = 125 then some (.obj [], r2) else parseMembers f (c2 :: r2) []
        else if c = 91 then
          match skipWs r with
          | [] => none
          | c2 :: r2 => if c2 = 93 then some (.arr [], r2) else parseElems f (c2 :: r2) []
        else if c = 34 then
          match parseStr r with
          | some (s', r') => some (.str s', r')
          | none => none
        else if c = 116 then (stripPrefix kTrue (c :: r)).map (fun r' => (.bool true, r'))
        else if c = 102 then (stripPrefix kFalse (c :: r)).map (fun r' => (.bool false, r'))
        else if c = 110 then (stripPrefix kNull (c :: r)).map (fun r' => (.null, r'))
        else
          let tok := takeNum (c :: r)
          if validNum tok then some (.num tok, dropNum (c :: r)) else none
  /-- the elements of an array from the start of an element on, up to and including `]` -/
  def parseElems : Nat → Str → List J → Option (J × Str)
    | 0, _, _ => none
    | f + 1, s, acc =>
      match parseValue f s with
      | none => none
      | some (v, r) =>
        match skipWs r with
        | [] => none
        | c :: r' =>
          if c = 44 then parseElems f r' (acc ++ [v])
          else if c = 93 then some (.arr (acc ++ [v]), r')
          else none
  /-- the members of an object from the start of a member on, up to and including `}` -/
  def parseMembers : Nat → Str → List (Str × J) → Option (J × Str)
    | 0, _, _ => none
    | f + 1, s, acc =>
      match skipWs s with
      | [] => none
      | q :: r =>
        if q = 34 then
          match parseStr r with
          | none => none
          | some (k, r1) =>
            match skipWs r1 with
            | [] => none
            | col :: r2 =>
              if col = 58 then
                match parseValue f r2 with
                | none => none
                | some (v, r3) =>
                  match skipWs r3 with
                  | [] => none
                  | c :: r4 =>
                    if c = 44 then parseMembers f r4 (acc ++ [(k, v)])
                    else if c = 125 then some (.obj (acc ++ [(k, v)]), r4)
                    else none
              else none
        else none
end

/-- a complete JSON text: one value, nothing but white space after it -/
def jsonRead (s : Str) : Option J :=
  match parseValue (s.length + 1) s with
  | some (v, r) => if (skipWs r).isEmpty then some v else none
  | none => none

/-- split at LF; the text after the last LF is a line only if it is not empty -/
def splitLines : Str → List Str
  | [] => []
  | c :: r =>
    if c = 10 then [] :: splitLines r
    else
      match splitLines r with
      | [] => [[c]]
      | l :: ls => (c :: l) :: ls

def mapOpt {α β : Type} (f : α → Option β) : List α → Option (List β)
  | [] => some []
  | a :: as =>
    match f a, mapOpt f as with
    | some b, some bs => some (b :: bs)
    | _, _ => none

/-- JSON Lines: every line is one complete JSON text -/
def jsonlRead (s : Str) : Option (List J) := mapOpt jsonRead (splitLines s)

/-! ## access -/

/-- first member with that name -/
def getMember (k : Str) : List (Str × J) → Option J
  | [] => none
  | (k', v) :: ms => if k' = k then some v else getMember k ms

def J.get (v : J) (k : Str) : Option J :=
  match v with
  | .obj ms => getMember k ms
  | _ => none

end Tabula.Json
