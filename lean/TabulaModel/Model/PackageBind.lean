import TabulaModel.Model.Package
/-!
Model of how tabula BINDS the attributes of the declaring elements of an OOXML package
(C18): the struct tags of `xlsx/types.go` (`sheetRefXML` with `relID()`, `relationshipXML`) and
`pptx/types.go` (`slideIdXML` with `relID()`, `relationshipXML`) — tabula's own code —
on top of the attribute list that `encoding/xml` hands to the struct binding: for every
start element the attributes in document order, each as (namespace URI, local name,
value). Prefix resolution (which URI a prefix stands for at this element, `xmlns`
declarations as attributes of the space `xmlns`) is the XML library and stays a
parameter: the harness resolves the prefixes of the markup IT wrote and passes triples.

The binding rule of `encoding/xml` that the tags rely on (decoder `unmarshal`, "Assign
attributes"): for each attribute in document order, for each field with flag `attr`
whose local name equals the attribute's and whose tag carries no namespace or the
attribute's namespace, the value is assigned. So the LAST matching attribute stays, an
empty value included, and a field without a matching attribute stays `""`.
-/
namespace Tabula.PackageBind
open Tabula.Package

/-- an attribute as the struct binding sees it: (namespace URI, local name, value) -/
abbrev Attr := Str × Str × Str

/-- `"http://schemas.openxmlformats.org/officeDocument/2006/relationships"` (Transitional) -/
def nsRelT : Str := [104, 116, 116, 112, 58, 47, 47, 115, 99, 104, 101, 109, 97, 115, 46, 111, 112, 101, 110, 120, 109, 108, 102, 111, 114, 109, 97, 116, 115, 46, 111, 114, 103, 47, 111, 102, 102, 105, 99, 101, 68, 111, 99, 117, 109, 101, 110, 116, 47, 50, 48, 48, 54, 47, 114, 101, 108, 97, 116, 105, 111, 110, 115, 104, 105, 112, 115]
/-- `"http://purl.oclc.org/ooxml/officeDocument/relationships"` (ISO/IEC 29500 Strict) -/
def nsRelS : Str := [104, 116, 116, 112, 58, 47, 47, 112, 117, 114, 108, 46, 111, 99, 108, 99, 46, 111, 114, 103, 47, 111, 111, 120, 109, 108, 47, 111, 102, 102, 105, 99, 101, 68, 111, 99, 117, 109, 101, 110, 116, 47, 114, 101, 108, 97, 116, 105, 111, 110, 115, 104, 105, 112, 115]
/-- `"id"` -/
def lId : Str := [105, 100]
/-- `"name"` -/
def lName : Str := [110, 97, 109, 101]
/-- `"Id"` -/
def lIdCap : Str := [73, 100]
/-- `"Type"` -/
def lType : Str := [84, 121, 112, 101]
/-- `"Target"` -/
def lTarget : Str := [84, 97, 114, 103, 101, 116]
/-- `"xmlns"`: the space under which `encoding/xml` lists `xmlns:p="…"` declarations -/
def sXmlns : Str := [120, 109, 108, 110, 115]

/-- does the field tagged `xml:"<ns> <loc>,attr"` (`ns = ""`: no namespace in the tag)
take this attribute? -/
def takes (ns loc : Str) (a : Attr) : Bool := a.2.1 = loc && (ns = [] || ns = a.1)

/-- the value a string field tagged `xml:"<ns> <loc>,attr"` ends up with -/
def attrField (ns loc : Str) (attrs : List Attr) : Str :=
  attrs.foldl (fun acc a => if takes ns loc a then a.2.2 else acc) []

/-- `pptx.slideIdXML` + `relID()`: `RID` is bound to the Transitional relationships
namespace, `RIDStrict` to the Strict one; `relID` prefers a non-empty `RID`. (The field
`ID string xml:"id,attr"` takes every attribute of local name `id`; nothing reads it.) -/
def sldIdRel (attrs : List Attr) : Str :=
  let t := attrField nsRelT lId attrs
  if t ≠ [] then t else attrField nsRelS lId attrs

/-- `xlsx.sheetRefXML.relID()` (since 10098f7, the same shape as `pptx.slideIdXML`): `RID`
is bound to the Transitional relationships namespace, `RIDStrict` to the Strict one;
`relID` prefers a non-empty `RID`. (`SheetID string xml:"sheetId,attr"` is bound too;
nothing reads it.) -/
def sheetRel (attrs : List Attr) : Str :=
  let t := attrField nsRelT lId attrs
  if t ≠ [] then t else attrField nsRelS lId attrs

/-- `xlsx.sheetRefXML`: `(Name, relID())`; `Name string xml:"name,attr"` carries no
namespace, the relationship id is `sheetRel` -/
def sheetRef (attrs : List Attr) : Str × Str :=
  (attrField [] lName attrs, sheetRel attrs)

/-- `xlsx.sheetRefXML` BEFORE 10098f7: `RID string xml:"id,attr"` carried no namespace, so
the field took every attribute of local name `id` (kept for the pinned counterexample) -/
def sheetRefOld (attrs : List Attr) : Str × Str :=
  (attrField [] lName attrs, attrField [] lId attrs)

/-- `relationshipXML` (both packages): `(Id, Type, Target)` -/
def relTriple (attrs : List Attr) : Str × Str × Str :=
  (attrField [] lIdCap attrs, attrField [] lType attrs, attrField [] lTarget attrs)

/-- what `xl/workbook.xml` unmarshals to, from the `<sheet>` elements of `<sheets>` -/
def bindWorkbook (sheets : List (List Attr)) : Doc := .workbook (sheets.map sheetRef)

/-- what `ppt/presentation.xml` unmarshals to, from the `<sldId>` elements of `<sldIdLst>`
(`none`: no `sldIdLst`) -/
def bindPresentation (ids : Option (List (List Attr))) : Doc :=
  .presentation (ids.map fun l => l.map sldIdRel)

/-- what a relationship part unmarshals to, from its `<Relationship>` elements -/
def bindRels (rs : List (List Attr)) : Doc := .relsT (rs.map relTriple)

/-- rewrite the namespace of every attribute (a markup flavour: Transitional ↔ Strict,
or any other URI) -/
def retag (f : Str → Str) (attrs : List Attr) : List Attr := attrs.map fun a => (f a.1, a.2.1, a.2.2)

/-- Transitional relationships namespace ↦ Strict, everything else unchanged -/
def toStrict (ns : Str) : Str := if ns = nsRelT then nsRelS else ns

end Tabula.PackageBind
