/-
Models for C03 (determinism, no cross-call interference):
  contentstream/parser.go  operand grouping: operands accumulate until an operator
                           takes them; the operand list belongs to the parser
                           (after the repair) — or to the package (pinned tree)
  text/extractor.go        RegisterFontsFromResources: fonts registered while ranging
                           over a Go map (random order), each also under "/"+name
Core Lean only.
-/
namespace Tabula.Session

/-- a content stream reduced to what grouping sees -/
inductive Tok
  | num (n : Int)
  | op (name : Nat)
  deriving Repr, DecidableEq

structure Operation where
  name : Nat
  operands : List Int
  deriving Repr, DecidableEq

/-- grouping loop of `Parser.Parse`: returns the operations and the operands left over at the
end of the input -/
def group : List Int → List Tok → List Operation × List Int
  | stack, [] => ([], stack)
  | stack, .num n :: rest => group (stack ++ [n]) rest
  | stack, .op name :: rest =>
    let (ops, left) := group [] rest
    (⟨name, stack⟩ :: ops, left)

/-- one `NewParser(data).Parse()` with the operand list a field of the parser -/
def parseOwn (toks : List Tok) : List Operation := (group [] toks).1

/-- a session of parses when the operand list is package-level state (the pinned tree):
what one parse leaves behind is where the next one starts -/
def sessionShared : List Int → List (List Tok) → List (List Operation)
  | _, [] => []
  | stack, t :: ts => let (ops, left) := group stack t; ops :: sessionShared left ts

/-- a session of parses after the repair -/
def sessionOwn (calls : List (List Tok)) : List (List Operation) := calls.map parseOwn

/-! ### font registration over a map in arbitrary iteration order -/

abbrev Name := List Nat

/-- the keys `RegisterFontsFromResources` stores a font under: its name, and `"/"+name`
unless the name already starts with `/` (47) or the dictionary has a font of exactly that
name (`explicit`) -/
def keysOf (explicit : Name → Bool) (name : Name) : List Name :=
  match name with
  | 47 :: _ => [name]
  | _ => if explicit (47 :: name) then [name] else [name, 47 :: name]

abbrev FontMap := Name → Option Nat

def FontMap.set (m : FontMap) (k : Name) (v : Nat) : FontMap := fun x => if x = k then some v else m x

def register (explicit : Name → Bool) (m : FontMap) (e : Name × Nat) : FontMap :=
  (keysOf explicit e.1).foldl (fun m k => m.set k e.2) m

/-- registering all fonts of a resource dictionary in the order the map iteration yields -/
def registerAll (fonts : List (Name × Nat)) : FontMap :=
  fonts.foldl (register fun k => (fonts.map Prod.fst).contains k) (fun _ => none)

/-- the pinned tree: the alias is always added -/
def registerAllPinned (fonts : List (Name × Nat)) : FontMap :=
  fonts.foldl (register fun _ => false) (fun _ => none)

end Tabula.Session
