import TabulaModel.Model.ExportRune
/-
The public entry points of rag/export.go that were still outside the model:

* `(*BatchExporter).Export` for EVERY Go `int` batch size (`NewBatchExporter` takes any int): since
  fix e7cdf1b a size ≤ 0 is refused with an error before anything else happens (before it, size 0
  divided by zero and a negative size sliced out of range — a panic — whenever the collection was
  not empty; the earlier comment "the loop does not terminate" in `Model/Export.lean` was wrong);
* `(*Exporter).ExportToFile`, `(*ChunkCollection).ExportToFile`, `(*BatchExporter).ExportToFiles`
  over an abstract file system (`os.Create` / `os.WriteFile` = create-or-truncate, which may fail).

Parameters (external to tabula): `canCreate` — whether the operating system lets a file of that
name be created/truncated; `nameOf` — `fmt.Sprintf(filenamePattern, batchNumber)`.
Write errors after a successful open (disk full, …) are not modelled.  Core Lean only.
-/
namespace Tabula.Export
open Tabula.Csv (Str)

/-! ## BatchExporter for every int batch size -/

/-- how `(*BatchExporter).Export` returns -/
inductive BatchResultI where
  | ok
  | sizeErr                          -- "batch size must be positive, got %d"
  | exportErr (start : Nat)          -- "exporting batch starting at %d"
  | callbackErr (batchNumber : Nat)  -- "processing batch %d"
  deriving DecidableEq, Repr

def BatchResult.toI : BatchResult → BatchResultI
  | .ok => .ok
  | .exportErr s => .exportErr s
  | .callbackErr n => .callbackErr n

/-- `(*BatchExporter).Export` with the batch size as a Go `int`: the size check, then the loop of
`batchLoopRun` (all index arithmetic of the loop stays in range: `C14IO.batch_no_overflow`) -/
def batchExportRunInt {α β : Type} (size : Int) (exportFn : List α → Option β) (cb : Batch α → β → Bool)
    (chunks : List α) : List (Batch α × β) × BatchResultI :=
  if h : 0 < size.toNat then
    let r := batchLoopRun size.toNat h exportFn cb chunks 0
    (r.1, r.2.toI)
  else ([], .sizeErr)

/-! ## files -/

/-- the regular files the exporters have written, by name, in order of first creation -/
abbrev FS := List (Str × Str)

/-- content of a file -/
def fsRead : FS → Str → Option Str
  | [], _ => none
  | (n, d) :: rest, name => if n = name then some d else fsRead rest name

/-- `os.Create(name)` + writes + `Close`, or `os.WriteFile(name, data, 0644)`: create or truncate -/
def fsWrite : FS → Str → Str → FS
  | [], name, data => [(name, data)]
  | (n, d) :: rest, name, data => if n = name then (n, data) :: rest else (n, d) :: fsWrite rest name data

/-- how `ExportToFile` returns -/
inductive FileResult where
  | ok
  | createErr    -- "creating export file: …" (nothing was touched)
  | exportErr    -- the error of `Export`; the file has been created and is empty
  deriving DecidableEq, Repr

/-- `(*Exporter).ExportToFile(chunks, filename)`: `os.Create`, `defer f.Close()`, `Export(chunks, f)`.
An export error (unsupported format, delimiter refused by `encoding/csv`) is raised before the
first byte is written, so the file stays behind empty. -/
def exportToFile (canCreate : Str → Bool) (cfg : Config) (chunks : List Chunk) (name : Str) (fs : FS) :
    FS × FileResult :=
  if canCreate name then
    match exportToStringR cfg chunks with
    | some text => (fsWrite fs name text, .ok)
    | none => (fsWrite fs name [], .exportErr)
  else (fs, .createErr)

/-- `(*ChunkCollection).ExportToFile(filename, config)` -/
def collExportToFile (canCreate : Str → Bool) (chunks : List Chunk) (name : Str) (cfg : Config) (fs : FS) :
    FS × FileResult :=
  exportToFile canCreate cfg chunks name fs

/-- the callback of `ExportToFiles`: `os.WriteFile(fmt.Sprintf(pattern, batch.BatchNumber), Data)` -/
def writeBatchFile (canCreate : Str → Bool) (nameOf : Nat → Str) (fs : FS) (p : Batch Chunk × Str) : FS :=
  if canCreate (nameOf p.1.batchNumber) then fsWrite fs (nameOf p.1.batchNumber) p.2 else fs

/-- `(*BatchExporter).ExportToFiles(chunks, filenamePattern)`: `Export` with the file-writing
callback; the file system after the call and the return value -/
def exportToFiles (canCreate : Str → Bool) (nameOf : Nat → Str) (cfg : Config) (size : Int)
    (chunks : List Chunk) (fs : FS) : FS × BatchResultI :=
  let r := batchExportRunInt size (exportToStringR cfg) (fun b _ => canCreate (nameOf b.batchNumber)) chunks
  (r.1.foldl (writeBatchFile canCreate nameOf) fs, r.2)

/-! ## format names -/

/-- the `ExportFormat` constant of an `int` (`iota`: 0 jsonl, 1 json, 2 csv, 3 tsv; anything else is no format) -/
def formatOfInt (i : Int) : Format :=
  if i = 0 then .jsonl else if i = 1 then .json else if i = 2 then .csv else if i = 3 then .tsv else .other

/-- `ExportFormat.String` -/
def formatString : Format → Str
  | .jsonl => [106, 115, 111, 110, 108]   -- "jsonl"
  | .json => [106, 115, 111, 110]         -- "json"
  | .csv => [99, 115, 118]                -- "csv"
  | .tsv => [116, 115, 118]               -- "tsv"
  | .other => kUnknown                    -- "unknown"

/-- `ExportFormat.FileExtension` -/
def fileExtension : Format → Str
  | .jsonl => [46, 106, 115, 111, 110, 108]   -- ".jsonl"
  | .json => [46, 106, 115, 111, 110]         -- ".json"
  | .csv => [46, 99, 115, 118]                -- ".csv"
  | .tsv => [46, 116, 115, 118]               -- ".tsv"
  | .other => [46, 116, 120, 116]             -- ".txt"

end Tabula.Export
