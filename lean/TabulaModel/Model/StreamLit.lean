import TabulaModel.Model.PredictFlat
import TabulaModel.Model.StreamDict
/-!
`(*core.Stream).Decode` over the loop-level decoders: the same dispatch as `decodeWithFilter` /
`decodeChain` / `streamDecode` / `streamDecodeD` (`Model/Filters.lean`, `Model/StreamDict.lean`), with
the ASCII decoders of `Model/FiltersLit.lean` (index loops, machine arithmetic) and the predictors of
`Model/PredictFlat.lean` (flat buffers, checked indices) in place of the state machines and the
row-wise predictors. `Props/C05Lit.lean` proves it equal to `streamDecodeD` for every dictionary and
all data (`decode_lit_refines`), which carries the end-to-end theorems over to it; the harness
compares it with the implementation (`c05.lit.sd`). Core Lean only.
-/
namespace Tabula.Filters

/-- `filters.FlateDecode` with the buffer-level predictors -/
def flateDecodeLit (inflate : Str → Option Str) (data : Str) (params : Option Params) : Option Str :=
  match inflate data with
  | none => none
  | some dec => flatePostFlat params dec

/-- `core.decodeWithFilter` over the loop-level decoders -/
def decodeWithFilterLit (ext : Ext) (data : Str) (name : Str) (params : Option Params) : Option Str :=
  if name = nFlateDecode ∨ name = nFl then flateDecodeLit ext.inflate data params
  else if name = nASCIIHexDecode ∨ name = nAHx then hexDecodeLit data
  else if name = nASCII85Decode ∨ name = nA85 then a85DecodeLit data
  else decodeWithFilter ext data name params

/-- the filter loop of `Decode` -/
def decodeChainLit (ext : Ext) (dp : DParms) : List FObj → Nat → Str → Option Str
  | [], _, data => some data
  | .other :: _, _, _ => none
  | .name n :: fs, i, data =>
    match decodeWithFilterLit ext data n (chainParams dp i) with
    | none => none
    | some d => decodeChainLit ext dp fs (i + 1) d

/-- `(*core.Stream).Decode` on the digested `Filter` / `DecodeParms` -/
def streamDecodeLit (ext : Ext) (f : Filter) (dp : DParms) (data : Str) : Option Str :=
  match f with
  | .absent => some data
  | .one (.name n) =>
    decodeWithFilterLit ext data n
      (match dp with
       | .one o => paramsObjToDict o
       | .array _ => none)
  | .one .other => none
  | .array fs => decodeChainLit ext dp fs 0 data

/-- `(*core.Stream).Decode` on the stream's dictionary and data, loop level -/
def streamDecodeDLit (ext : Ext) (d : Dict) (data : Str) : Option Str :=
  streamDecodeLit ext (objToFilter (dictGet d kFilter)) (objToDParms (dictGet d kDecodeParms)) data

end Tabula.Filters
