import TabulaModel.Model.XrefResolve
/-!
# The trailer of an opened file and the entry points that start from it

* core/xref.go `MergeXRefTables` keeps the trailer of the LAST table it is given; the tables
  are oldest first, so the merged table carries the trailer of the newest revision - the
  section `startxref` points at (`openFileT`); `reader.NewReader` stores it (`Reader.Trailer()`);
* reader/reader.go `NumObjects` (`numObjects`), `GetCatalog` (`getCatalog`), `GetInfo`
  (`getInfo`): `/Size`, `/Root`, `/Info` of that trailer; the last two go through
  `ResolveReference` = `GetObject` and must find a dictionary;
* reader/reader.go `Version()` (`versionOf`): the two digits `parseHeader` reads.

Generic in the lookup like `Model/XrefResolve.lean`. Core Lean only.
-/
namespace Tabula.XrefT
open Tabula.Pdf (Obj)
open Tabula.Reader (Dict dget PVal)
open Tabula.XrefFile
open Tabula.XrefR (DObj ofPVal ofObj)

/-- `Root` -/
def kRoot : Str := [82, 111, 111, 116]
/-- `Info` -/
def kInfo : Str := [73, 110, 102, 111]

/-- `reader.Open`: the merged table and the trailer `MergeXRefTables` leaves in it - the
trailer of the section at the `startxref` offset (when the file has a single section that
section's table is used as it is; otherwise `ParseAllXRefs` parses the same section again as
the last of its tables) -/
def openFileT (ext : Reader.Ext) (file : Str) : Res (RawSection × Dict) :=
  match openFile ext file with
  | .error e => .error e
  | .ok x =>
    match findXRef file with
    | .error e => .error e
    | .ok start =>
      match parseXRef ext file start with
      | .error e => .error e
      | .ok (_, tr) => .ok (x, tr)

/-- `(*Reader).NumObjects`: `/Size` when it is an integer, else 0 (Go `int(size)`) -/
def numObjects (tr : Dict) : Int :=
  match dget tr kSize with
  | some (.int n) => n
  | _ => 0

/-- `(*Reader).GetCatalog`: `/Root` must be a reference; the object it names (looked up by
number) must be a dictionary -/
def getCatalog {σ : Type} (get : Int → σ → Option PVal × σ) (tr : Dict) (s : σ) : Option DObj × σ :=
  match dget tr kRoot with
  | some (.ref n _) =>
    match get n s with
    | (some (.obj (.dict kv)), s') => (some (ofObj (.dict kv)), s')
    | (_, s') => (none, s')
  | _ => (none, s)

/-- `(*Reader).GetInfo`: no `/Info` is no error and no dictionary (`some none`); otherwise as
`GetCatalog` -/
def getInfo {σ : Type} (get : Int → σ → Option PVal × σ) (tr : Dict) (s : σ) : Option (Option DObj) × σ :=
  match dget tr kInfo with
  | none => (some none, s)
  | some (.ref n _) =>
    match get n s with
    | (some (.obj (.dict kv)), s') => (some (some (ofObj (.dict kv))), s')
    | (_, s') => (none, s')
  | some _ => (none, s)

/-- `(*Reader).Version()`: `%PDF-a.b` with two digits (what `headerOk` accepts) -/
def versionOf (file : Str) : Option (Nat × Nat) :=
  match file with
  | 37 :: 80 :: 68 :: 70 :: 45 :: a :: 46 :: b :: _ =>
    if Pdf.isDigit a && Pdf.isDigit b then some (a - 48, b - 48) else none
  | _ => none

/-- the calls of a session that start from the trailer, mixed with lookups and cache clears -/
inductive TOp
  | get (n : Int)
  | clear
  | catalog
  | info
  | numObjects
  | trailer
  deriving Repr

/-- one answer: a value, "no value, no error" (`GetInfo` without `/Info`), an error, a number -/
inductive TAns
  | val (v : Option DObj)
  | noInfo
  | num (n : Int)
  | nothing

def tstep {σ : Type} (get : Int → σ → Option PVal × σ) (clear : σ → σ) (tr : Dict) (s : σ) : TOp → TAns × σ
  | .get n => let r := get n s; (.val (r.1.map ofPVal), r.2)
  | .clear => (.nothing, clear s)
  | .catalog => let r := getCatalog get tr s; (.val r.1, r.2)
  | .info =>
    match getInfo get tr s with
    | (none, s') => (.val none, s')
    | (some none, s') => (.noInfo, s')
    | (some (some d), s') => (.val (some d), s')
  | .numObjects => (.num (numObjects tr), s)
  | .trailer => (.val (some (ofObj (.dict tr))), s)

def trun {σ : Type} (get : Int → σ → Option PVal × σ) (clear : σ → σ) (tr : Dict) : σ → List TOp → List TAns
  | _, [] => []
  | s, op :: ops => (tstep get clear tr s op).1 :: trun get clear tr (tstep get clear tr s op).2 ops

/-- `reader.Open(file)` and a sequence of such calls -/
def tsession (ext : Reader.Ext) (keep : Bool) (file : Str) (ops : List TOp) : Res (List TAns) :=
  match openFileT ext file with
  | .error e => .error e
  | .ok (x, tr) => .ok (trun (XrefC.getTop ext keep file x) XrefC.clearC tr ({} : XrefC.RSt) ops)

end Tabula.XrefT
