import TabulaModel.Model.Chunk
/-!
# RAG chunking (property C12), part 2: the layout-based chunker of `rag/chunker.go`

`Chunker.buildSections / Chunk / chunkSectionTree / chunkSection / splitSectionByParagraphs /
splitBySentences / createChunk / chunkByParagraphs / formatList`, as the code is after the
C12 fixes (subsections are emitted; the preamble is closed only by a section-opening
heading; pages are identified by `Page.Number`).

Parameters supplied by the harness: `intro` = `BoundaryDetector.isListIntro(text)` (regexps)
and `sents` = `splitIntoSentences(text)` (given for texts longer than `MaxChunkSize`).

The Go code links a new section into its parent's `Children` when it is created and keeps
appending to it through the pointer on `sectionStack`. Nothing reads the tree before
`buildSections` returns, so the model links a section into its parent when it is closed
(popped); the order of children is the same (a section is closed before its next sibling
is created).
-/
namespace Tabula.ChunkLayout
open Tabula.Chunk

structure LHeading where
  level : Int
  text : Str
  sents : List Str
  deriving Repr, DecidableEq

structure LPara where
  text : Str
  intro : Bool
  sents : List Str
  deriving Repr, DecidableEq

structure LList where
  items : List (Int × Str)
  sents : List Str
  deriving Repr, DecidableEq

/-- `model.PageLayout` restricted to what the chunker reads -/
structure LLayout where
  headings : List LHeading
  paras : List LPara
  lists : List LList
  deriving Repr, DecidableEq

structure LPage where
  number : Int
  layout : Option LLayout
  deriving Repr, DecidableEq

abbrev LDoc := List LPage

/-- the fields of `ChunkerConfig` that `Chunk` reads -/
structure Cfg where
  maxSize : Int
  minSize : Int
  minHeadingLevel : Int
  keepLists : Bool
  idPrefix : Str
  deriving Repr, DecidableEq

inductive Kind where
  | heading | para | list
  deriving Repr, DecidableEq

/-- `ContentElement` (+ the two parameters attached to it) -/
structure CE where
  kind : Kind
  text : Str
  page : Int
  intro : Bool
  sents : List Str
  deriving Repr, DecidableEq

/-- `formatList` -/
def formatItems : List (Int × Str) → Str
  | [] => []
  | [(l, t)] => indent l ++ [45, 32] ++ t
  | (l, t) :: rest => indent l ++ [45, 32] ++ t ++ [10] ++ formatItems rest

def formatList (items : List (Int × Str)) : Str := formatItems items

structure SecInfo where
  title : Str
  level : Int
  path : List Str
  pageStart : Int
  pageEnd : Int
  deriving Repr, DecidableEq

/-- `Section` (a finished one) -/
inductive Sec where
  | mk (info : SecInfo) (content : List CE) (children : List Sec)

/-- a section that is still on `sectionStack` -/
structure Frame where
  info : SecInfo
  content : List CE
  children : List Sec

def Frame.close (f : Frame) : Sec := .mk f.info f.content f.children

/-- state of `buildSections`; `stack` and `path` are innermost first -/
structure BState where
  done : List Sec
  stack : List Frame
  path : List Str
  pre : List CE
  preStart : Int
  preEnd : Int

/-- the pop loop of `buildSections` for a section-opening heading of level `lvl` -/
def popFrames (lvl : Int) (stack : List Frame) (path : List Str) (done : List Sec) :
    List Frame × List Str × List Sec :=
  match stack with
  | [] => ([], path, done)
  | f :: rest =>
    if f.info.level < lvl then (f :: rest, path, done)
    else match rest with
      | [] => popFrames lvl [] path.tail (done ++ [f.close])
      | g :: rest' => popFrames lvl ({ g with children := g.children ++ [f.close] } :: rest') path.tail done
termination_by stack.length

/-- closing everything that is still open when the last page has been read -/
def unwind (stack : List Frame) (done : List Sec) : List Sec :=
  match stack with
  | [] => done
  | f :: rest =>
    match rest with
    | [] => done ++ [f.close]
    | g :: rest' => unwind ({ g with children := g.children ++ [f.close] } :: rest') done
termination_by stack.length

def preambleSec (s : BState) : Sec :=
  .mk ⟨[], 0, [], s.preStart, s.preEnd⟩ s.pre []

/-- append to the open section (moving its `PageEnd`) or to the preamble -/
def addContent (s : BState) (ce : CE) : BState :=
  match s.stack with
  | f :: rest =>
    { s with stack := { f with content := f.content ++ [ce], info := { f.info with pageEnd := ce.page } } :: rest }
  | [] =>
    { s with pre := s.pre ++ [ce], preStart := if s.preStart == 0 then ce.page else s.preStart, preEnd := ce.page }

/-- one heading of `page.Layout.Headings` -/
def stepHeading (cfg : Cfg) (page : Int) (s : BState) (h : LHeading) : BState :=
  if h.level ≤ cfg.minHeadingLevel then
    let s := if !s.pre.isEmpty && s.stack.isEmpty then
        { s with done := s.done ++ [preambleSec s], pre := [] } else s
    let (stack, path, done) := popFrames h.level s.stack s.path s.done
    let path := h.text :: path
    { s with done := done, path := path,
             stack := ⟨⟨h.text, h.level, path.reverse, page, page⟩, [], []⟩ :: stack }
  else
    addContent s ⟨.heading, h.text, page, false, h.sents⟩

def stepPage (cfg : Cfg) (s : BState) (pg : LPage) : BState :=
  match pg.layout with
  | none => s
  | some lay =>
    let s := lay.headings.foldl (stepHeading cfg pg.number) s
    let s := lay.paras.foldl (fun s p => addContent s ⟨.para, p.text, pg.number, p.intro, p.sents⟩) s
    lay.lists.foldl (fun s l => addContent s ⟨.list, formatList l.items, pg.number, false, l.sents⟩) s

/-- `buildSections` -/
def buildSections (cfg : Cfg) (d : LDoc) : List Sec :=
  let s := d.foldl (stepPage cfg) ⟨[], [], [], [], 0, 0⟩
  let secs := unwind s.stack s.done
  if !s.pre.isEmpty && secs.isEmpty then secs ++ [preambleSec s] else secs

/-- `strings.Builder` use in `chunkSection`/`splitSectionByParagraphs`: a blank line
between parts once the builder is non-empty -/
def joinPara (acc t : Str) : Str := if acc.isEmpty then t else acc ++ [10, 10] ++ t

def lenGt (t : Str) (n : Int) : Bool := decide (n < (t.length : Int))

/-- `createChunk` -/
def createChunk (cfg : Cfg) (info : SecInfo) (text : Str) (idx : Nat) : Chunk :=
  { idx := idx, id := cfg.idPrefix ++ [95] ++ Tabula.A1.dec idx, text := text, path := info.path,
    pageStart := info.pageStart, pageEnd := info.pageEnd, total := 0 }

/-- state of the loops: chunks emitted by this call, `currentText`, `chunkIndex` -/
structure LS where
  chunks : List Chunk
  cur : Str
  idx : Nat

/-- `splitBySentences`: emit the pending sentences when the next one would not fit -/
def sentEmit (cfg : Cfg) (info : SecInfo) (t : Str) (s : LS) : LS :=
  if decide (cfg.maxSize < (s.cur.length : Int) + ((t.length : Int) + (if s.cur.isEmpty then 0 else 1))) && !s.cur.isEmpty
  then ⟨s.chunks ++ [createChunk cfg info s.cur s.idx], [], s.idx + 1⟩ else s

/-- `splitBySentences`: append a sentence, separated by one blank -/
def sentAdd (t : Str) (s : LS) : LS :=
  { s with cur := if s.cur.isEmpty then t else s.cur ++ [32] ++ t }

/-- `splitBySentences` (appends its chunks) -/
def sentLoop (cfg : Cfg) (info : SecInfo) : List Str → LS → LS
  | [], s => if s.cur.isEmpty then s else ⟨s.chunks ++ [createChunk cfg info s.cur s.idx], [], s.idx + 1⟩
  | t :: ts, s => sentLoop cfg info ts (sentAdd t (sentEmit cfg info t s))

/-- `splitBySentences`: the caller's `currentText` is untouched -/
def splitBySentences (cfg : Cfg) (info : SecInfo) (sents : List Str) (s : LS) : LS :=
  let r := sentLoop cfg info sents ⟨s.chunks, [], s.idx⟩
  ⟨r.chunks, s.cur, r.idx⟩

def setLastText : List Chunk → Str → List Chunk
  | [], _ => []
  | [c], t => [{ c with text := t }]
  | c :: cs, t => c :: setLastText cs t

/-- `flushChunk` -/
def flushChunk (cfg : Cfg) (info : SecInfo) (s : LS) : LS :=
  if (trim s.cur).isEmpty then s
  else match s.chunks.getLast? with
    | some prev =>
      if decide ((s.cur.length : Int) < cfg.minSize) &&
         decide ((prev.text.length : Int) + (s.cur.length : Int) + 2 ≤ cfg.maxSize) then
        ⟨setLastText s.chunks (prev.text ++ [10, 10] ++ s.cur), [], s.idx⟩
      else ⟨s.chunks ++ [createChunk cfg info s.cur s.idx], [], s.idx + 1⟩
    | none => ⟨s.chunks ++ [createChunk cfg info s.cur s.idx], [], s.idx + 1⟩

def flushIfPending (cfg : Cfg) (info : SecInfo) (s : LS) : LS :=
  if s.cur.isEmpty then s else flushChunk cfg info s

/-- an atomic block (list with its introduction) that exceeds the maximum: long elements
are split by sentences, the others go to `currentText` -/
def atomicOversize (cfg : Cfg) (info : SecInfo) : List CE → LS → LS
  | [], s => s
  | e :: es, s =>
    if lenGt e.text cfg.maxSize then atomicOversize cfg info es (splitBySentences cfg info e.sents s)
    else atomicOversize cfg info es { s with cur := joinPara s.cur e.text }

def atomicBlock (cfg : Cfg) (info : SecInfo) (es : List CE) (s : LS) : LS :=
  let s := flushIfPending cfg info s
  let str := es.foldl (fun acc e => joinPara acc e.text) []
  if lenGt str cfg.maxSize then atomicOversize cfg info es s
  else ⟨s.chunks ++ [createChunk cfg info str s.idx], s.cur, s.idx + 1⟩

/-- "would exceed max - flush current chunk" -/
def flushIfOver (cfg : Cfg) (info : SecInfo) (added : Int) (s : LS) : LS :=
  if decide (cfg.maxSize < (s.cur.length : Int) + added) && !s.cur.isEmpty then flushChunk cfg info s else s

/-- an element outside atomic blocks and outside the intro-with-list case -/
def plainElem (cfg : Cfg) (info : SecInfo) (e : CE) (s : LS) : LS :=
  let s := flushIfOver cfg info ((e.text.length : Int) + (if s.cur.isEmpty then 0 else 2)) s
  if lenGt e.text cfg.maxSize then
    splitBySentences cfg info e.sents (flushIfPending cfg info s)
  else { s with cur := joinPara s.cur e.text }

/-- the main loop of `splitSectionByParagraphs`. With `keepLists` every list (with an
introducing paragraph just before it) is an atomic block (`FindAtomicBlocks`,
`GetAtomicBlockAt`); without it an introducing paragraph is kept with its list. -/
def paraLoop (cfg : Cfg) (info : SecInfo) : List CE → LS → LS
  | [], s => s
  | [e], s =>
    if cfg.keepLists && e.kind == .list then atomicBlock cfg info [e] s
    else plainElem cfg info e s
  | e :: n :: rest, s =>
    if cfg.keepLists && e.kind == .list then
      paraLoop cfg info (n :: rest) (atomicBlock cfg info [e] s)
    else if e.kind == .para && n.kind == .list && e.intro then
      if cfg.keepLists then paraLoop cfg info rest (atomicBlock cfg info [e, n] s)
      else
        let s := flushIfOver cfg info ((e.text.length : Int) + 2 + (n.text.length : Int)) s
        paraLoop cfg info rest { s with cur := joinPara s.cur e.text ++ [10, 10] ++ n.text }
    else paraLoop cfg info (n :: rest) (plainElem cfg info e s)

/-- `splitSectionByParagraphs` -/
def splitSectionByParagraphs (cfg : Cfg) (info : SecInfo) (content : List CE) (idx : Nat) : List Chunk :=
  (flushChunk cfg info (paraLoop cfg info content ⟨[], [], idx⟩)).chunks

/-- `chunkSection` -/
def chunkSection (cfg : Cfg) (info : SecInfo) (content : List CE) (idx : Nat) : List Chunk :=
  let text := content.foldl (fun acc e => joinPara acc e.text) []
  if (trim text).isEmpty then []
  else if !lenGt text cfg.maxSize then [createChunk cfg info text idx]
  else splitSectionByParagraphs cfg info content idx

mutual
/-- `chunkSectionTree`: the section's own content, then its subsections -/
def chunkTree (cfg : Cfg) : Sec → Nat → List Chunk
  | .mk info content children, idx =>
    let own := chunkSection cfg info content idx
    own ++ chunkForest cfg children (idx + own.length)
/-- the loop over `sections` in `Chunk` / over `Children` in `chunkSectionTree` -/
def chunkForest (cfg : Cfg) : List Sec → Nat → List Chunk
  | [], _ => []
  | s :: ss, idx =>
    let cs := chunkTree cfg s idx
    cs ++ chunkForest cfg ss (idx + cs.length)
end

/-- what `chunkByParagraphs` collects: per page the paragraphs, then the lists -/
def fallbackContent (d : LDoc) : List CE :=
  d.flatMap fun pg => match pg.layout with
    | none => []
    | some lay =>
      lay.paras.map (fun p => (⟨.para, p.text, pg.number, p.intro, p.sents⟩ : CE)) ++
      lay.lists.map (fun l => (⟨.list, formatList l.items, pg.number, false, l.sents⟩ : CE))

/-- `chunkByParagraphs` -/
def chunkByParagraphs (cfg : Cfg) (title : Str) (d : LDoc) : List Chunk :=
  match (fallbackContent d).head?, (fallbackContent d).getLast? with
  | some a, some b => splitSectionByParagraphs cfg ⟨title, 0, [], a.page, b.page⟩ (fallbackContent d) 0
  | _, _ => []

/-- `Chunker.Chunk` -/
def chunk (cfg : Cfg) (title : Str) (d : LDoc) : List Chunk :=
  let cs := chunkForest cfg (buildSections cfg d) 0
  let cs := if cs.isEmpty then chunkByParagraphs cfg title d else cs
  setTotal cs

end Tabula.ChunkLayout
