import TabulaModel.Model.PageSel
import TabulaModel.Model.Builder
/-
Model of the per-page part of `(*Extractor).Text` for a PDF (extractor.go): how the options
of the extractor decide what happens to the fragments of one page —

  fragments := pd.fragments
  if headerFooterResult != nil { fragments = headerFooterResult.FilterFragments(pd.index, …) }
  if len(fragments) == 0 { OCR fallback: a non-empty OCR text is the page's text }
  if preserveLayout … else if joinParagraphs … else if byColumn … else auto-detect

and the whole call `Text` = resolvePages, then this per page, then the join rule of
`PageSel.textStep`.  Core Lean only.

What is NOT C10's subject enters as parameters (`PageEnv`): reading a page's fragments
(reader, C03/C08), the header/footer filter computed from ALL pages (C11), OCR (external
engine), the two layout tests `isCharacterLevel` / `detectMultiColumn` and the four text
assemblers (C09).  `F` is the type of a page's fragment list.
-/
namespace Tabula.TextPipe
open Tabula.PageSel Tabula.Builder

/-- which assembler `Text` calls for a page -/
inductive Mode where
  | preserveLayout   -- extractPreserveLayout
  | paragraphs       -- extractWithParagraphs
  | byColumn         -- extractByColumn
  | plain            -- assembleText
  deriving DecidableEq, Repr

/-- the `if e.options.preserveLayout … else if joinParagraphs … else if byColumn … else
auto-detect` chain of `Text` -/
def textMode (o : Options) (charLevel multiCol : Bool) : Mode :=
  if o.preserveLayout then .preserveLayout
  else if o.joinParagraphs then .paragraphs
  else if o.byColumn then .byColumn
  else if charLevel || multiCol then .byColumn
  else .plain

/-- `if e.options.excludeHeaders || e.options.excludeFooters` -/
def needHF (o : Options) : Bool := o.excludeHeaders || o.excludeFooters

/-- everything `Text` asks of the code outside C10, page by page -/
structure PageEnv (F : Type) where
  /-- `GetPage` + `ExtractTextFragments` -/
  frags : Nat → Except E F
  /-- `headerFooterResult.FilterFragments(index, fragments, height)`, the result having been
  detected on all pages of the document -/
  filt : Nat → F → F
  /-- `len(fragments) == 0` -/
  isEmpty : Nat → F → Bool
  /-- `extractTextViaOCR(page, index+1)`: `some t` when it returned `t` without error -/
  ocr : Nat → Option Str
  /-- `isCharacterLevel(fragments)` -/
  charLevel : Nat → F → Bool
  /-- `detectMultiColumn(fragments, width, height)` -/
  multiCol : Nat → F → Bool
  /-- the assembler of each mode on the page's (filtered) fragments -/
  render : Mode → Nat → F → Str

/-- the text of page index `k` under options `o` -/
def pageText {F : Type} (env : PageEnv F) (o : Options) (k : Nat) : Except E Str :=
  match env.frags k with
  | .error e => .error e
  | .ok raw =>
    let fr := if needHF o then env.filt k raw else raw
    let viaOcr := if env.isEmpty k fr then (env.ocr k).filter (· ≠ []) else none
    match viaOcr with
    | some t => .ok t
    | none => .ok (env.render (textMode o (env.charLevel k fr) (env.multiCol k fr)) k fr)

/-- `Text()` of a PDF extractor with options `o` (`o.pages` is the selection) on a document
of `n` pages -/
def textFull {F : Type} (env : PageEnv F) (o : Options) (n : Nat) : Except E Str :=
  extractText (pageText env o) o.pages n

/-- `Open(f).c₁…cₙ.Text()`: the chain configures, the frame opens and resolves, the per-page
pipeline runs under the chain's options -/
def textOfChain {F : Type} (env : PageEnv F) (w : World) (cs : List BCall) : Except E Str :=
  textCall (pageText env (chainFrom {} cs).opts) w {} cs

end Tabula.TextPipe
