import TabulaModel.Model.Docx
/-
A specification of `processVerticalMerges` (docx/tables.go) without mutable state: which
cell every continuation cell adds a row to, found by search in the table as authored.
`Lemmas/VMerge.lean` proves that the pass is `bumpAll rows (targets rows)`. Core Lean only.
-/
namespace Tabula.Docx
open Tabula.Xml

/-- one cell as the pass meets it: its row, the grid column it starts at, the cell -/
structure Ev where
  row : Nat
  col : Nat
  cell : Cell
deriving Repr, DecidableEq

def rowEvents (r : Nat) : List Cell → Nat → List Ev
  | [], _ => []
  | c :: rest, col => ⟨r, col, c⟩ :: rowEvents r rest (col + c.colSpan)

def eventsFrom : List (List Cell) → Nat → List Ev
  | [], _ => []
  | row :: rest, r => rowEvents r row 0 ++ eventsFrom rest (r + 1)

/-- the cells of the table in reading order, each with its row and start column -/
def events (rows : List (List Cell)) : List Ev := eventsFrom rows 0

/-! ### the specification -/

/-- does this cell make its start column a merge start for the cells below: no continuation,
and the column inside the `colCount` columns `mergeStarts` has -/
def startsAt (cc : Nat) (e : Ev) (col : Nat) : Bool := !e.cell.cont && e.col == col && decide (col < cc)

/-- the row of the nearest cell before (the cells met so far, latest first) that is no
continuation and starts at exactly this column -/
def lastStart (cc : Nat) (rev : List Ev) (col : Nat) : Option Nat := (rev.find? fun e => startsAt cc e col).map (·.row)

/-- the (row, cell index) a continuation cell adds a row to: in the row of the nearest
non-continuation cell above that starts at the continuation's start column, the cell that
covers that column (`findCellAtColumn`); none when there is no such row -/
def targetOf (cc : Nat) (rows : List (List Cell)) (rev : List Ev) (e : Ev) : Option (Nat × Nat) :=
  if e.cell.cont then
    match lastStart cc rev e.col with
    | some startRow => (findCellAtColumn (rows.getD startRow []) e.col 0 0).map fun i => (startRow, i)
    | none => none
  else none

def targetsFrom (cc : Nat) (rows : List (List Cell)) : List Ev → List Ev → List (Nat × Nat)
  | [], _ => []
  | e :: rest, rev => (targetOf cc rows rev e).toList ++ targetsFrom cc rows rest (e :: rev)

/-- for every continuation cell of the table, in reading order, the cell it adds a row to -/
def targets (rows : List (List Cell)) : List (Nat × Nat) := targetsFrom (colCount rows) rows (events rows) []

/-- add one row to each listed cell, one after the other -/
def bumpAll (rows : List (List Cell)) (ts : List (Nat × Nat)) : List (List Cell) :=
  ts.foldl (fun rs t => bumpRowSpan rs t.1 t.2) rows

end Tabula.Docx
