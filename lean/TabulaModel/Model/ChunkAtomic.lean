import TabulaModel.Model.ChunkLayout
/-!
# RAG chunking (property C12), part 6: atomic blocks, function by function

`Model/ChunkLayout.lean: paraLoop` folds `BoundaryDetector.FindAtomicBlocks` and
`GetAtomicBlockAt` (`rag/boundary.go`) into the list recursion of the main loop ("with
`keepLists` every list, with an introducing paragraph just before it, is an atomic block").
Here the two functions and the index-driven loop of `splitSectionByParagraphs` are modelled as
the code has them; `Lemmas/ChunkAtomic.lean` proves the two models equal.
-/
namespace Tabula.ChunkAtomic
open Tabula.Chunk Tabula.ChunkLayout

/-- `AtomicBlock`: `StartIndex`, `EndIndex` -/
abbrev Block := Nat × Nat

/-- `startIdx` of the block of a list at index `i`: `i - 1` when `blocks[i-1]` (`prev`) is a
paragraph that `isListIntro` accepts, else `i` -/
def blockStart (prev : Option CE) (i : Nat) : Nat :=
  match prev with
  | some p => if p.kind == .para && p.intro then i - 1 else i
  | none => i

/-- `FindAtomicBlocks` over the blocks of a section, `prev` being `blocks[i-1]`. A section's
content holds headings, paragraphs and lists only, so `KeepTablesIntact` and `KeepFiguresIntact`
find nothing; with `KeepListsIntact` every list is a block that starts at the paragraph before
it when `isListIntro` accepts that paragraph. -/
def findFrom (keep : Bool) : Option CE → Nat → List CE → List Block
  | _, _, [] => []
  | prev, i, e :: rest =>
    if keep && e.kind == .list then (blockStart prev i, i) :: findFrom keep (some e) (i + 1) rest
    else findFrom keep (some e) (i + 1) rest

def findAtomicBlocks (keep : Bool) (content : List CE) : List Block := findFrom keep none 0 content

/-- `GetAtomicBlockAt`: the first block that contains the index -/
def getAtomicBlockAt (i : Nat) (blocks : List Block) : Option Block :=
  blocks.find? fun b => decide (b.1 ≤ i) && decide (i ≤ b.2)

/-- the main loop of `splitSectionByParagraphs`, driven by the index `i` as in the code
(`fuel` bounds the number of iterations; every iteration advances `i`) -/
def paraLoopAt (cfg : Cfg) (info : SecInfo) (content : List CE) (blocks : List Block) : Nat → Nat → LS → LS
  | 0, _, s => s
  | fuel + 1, i, s =>
    match content[i]? with
    | none => s
    | some e =>
      match getAtomicBlockAt i blocks with
      | some b =>
        -- `for j := StartIndex; j <= EndIndex && j < len(content); j++`
        paraLoopAt cfg info content blocks fuel (b.2 + 1)
          (atomicBlock cfg info ((content.drop b.1).take (b.2 + 1 - b.1)) s)
      | none =>
        match content[i + 1]? with
        | some n =>
          -- `blocks[i].IsIntro`: a paragraph, the next block a list, `isListIntro`
          if e.kind == .para && n.kind == .list && e.intro then
            let s := flushIfOver cfg info ((e.text.length : Int) + 2 + (n.text.length : Int)) s
            paraLoopAt cfg info content blocks fuel (i + 2)
              { s with cur := joinPara s.cur e.text ++ [10, 10] ++ n.text }
          else paraLoopAt cfg info content blocks fuel (i + 1) (plainElem cfg info e s)
        | none => paraLoopAt cfg info content blocks fuel (i + 1) (plainElem cfg info e s)

/-- `splitSectionByParagraphs` with `FindAtomicBlocks` / `GetAtomicBlockAt` -/
def splitSectionByParagraphsAt (cfg : Cfg) (info : SecInfo) (content : List CE) (idx : Nat) : List Chunk :=
  (flushChunk cfg info
    (paraLoopAt cfg info content (findAtomicBlocks cfg.keepLists content) content.length 0 ⟨[], [], idx⟩)).chunks

/-- `chunkSection` calling that `splitSectionByParagraphs` -/
def chunkSectionAt (cfg : Cfg) (info : SecInfo) (content : List CE) (idx : Nat) : List Chunk :=
  let text := content.foldl (fun acc e => joinPara acc e.text) []
  if (trim text).isEmpty then []
  else if !lenGt text cfg.maxSize then [createChunk cfg info text idx]
  else splitSectionByParagraphsAt cfg info content idx

mutual
def chunkTreeAt (cfg : Cfg) : Sec → Nat → List Chunk
  | .mk info content children, idx =>
    let own := chunkSectionAt cfg info content idx
    own ++ chunkForestAt cfg children (idx + own.length)
def chunkForestAt (cfg : Cfg) : List Sec → Nat → List Chunk
  | [], _ => []
  | s :: ss, idx =>
    let cs := chunkTreeAt cfg s idx
    cs ++ chunkForestAt cfg ss (idx + cs.length)
end

def chunkByParagraphsAt (cfg : Cfg) (title : Str) (d : LDoc) : List Chunk :=
  match (fallbackContent d).head?, (fallbackContent d).getLast? with
  | some a, some b => splitSectionByParagraphsAt cfg ⟨title, 0, [], a.page, b.page⟩ (fallbackContent d) 0
  | _, _ => []

/-- `Chunker.Chunk` with the atomic blocks found and looked up as the code does -/
def chunkAt (cfg : Cfg) (title : Str) (d : LDoc) : List Chunk :=
  let cs := chunkForestAt cfg (buildSections cfg d) 0
  let cs := if cs.isEmpty then chunkByParagraphsAt cfg title d else cs
  setTotal cs

end Tabula.ChunkAtomic
