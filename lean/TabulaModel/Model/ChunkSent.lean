import TabulaModel.Model.ChunkLayout
/-!
# RAG chunking (property C12), part 3: `splitIntoSentences` of `rag/chunker.go`

In `Model/ChunkLayout.lean` the sentences of an over-long text are a parameter read from the
implementation. Here the function itself is modelled, so that `Chunker.Chunk` is modelled down
to the bytes of every chunk text (`chunkS`).

The Go code ranges over `[]rune(text)` and writes every rune back into a `strings.Builder`;
for valid UTF-8 that is the byte sequence itself, so the model walks the bytes. A decision is
taken only at `.`, `!`, `?` (single bytes that never occur inside a multi-byte character):

* `unicode.IsLower(runes[i+1])`: for an ASCII byte the range `a..z`; for a non-ASCII character
  the Unicode table of the Go standard library, a parameter `low` applied to the rest of the
  text (the harness lists the lower-case non-ASCII characters that follow a sentence end);
* `unicode.IsUpper(rune(str[len(str)-2]))` and `unicode.IsSpace(rune(str[len(str)-3]))` look at
  single *bytes* of the builder. The byte before the end character is ASCII or a
  continuation byte (`0x80..0xBF`, none of which is upper case as a Latin-1 character), so
  `IsUpper` is the range `A..Z`; the byte before that may be the continuation byte `0x85` or
  `0xA0`, which `IsSpace` accepts as U+0085 / U+00A0;
* the clauses `i > 0` and `i < 2` on the rune index are implied by `current.Len() > 1` and
  `len(str) < 3` once the previous byte is an ASCII capital (it is then a whole character,
  and if it is the first character of the text the builder holds two bytes).
-/
namespace Tabula.ChunkSent
open Tabula.Chunk Tabula.ChunkLayout

def isEndChar (b : Nat) : Bool := b == 46 || b == 33 || b == 63

/-- `unicode.IsUpper(rune(b))` for the byte before a sentence end -/
def upperA (b : Nat) : Bool := 65 ≤ b && b ≤ 90

/-- `unicode.IsSpace(rune(b))` for a byte value (Latin-1) -/
def spaceL1 (b : Nat) : Bool := (9 ≤ b && b ≤ 13) || b == 32 || b == 0x85 || b == 0xA0

/-- `i+1 < len(runes) && unicode.IsLower(runes[i+1])` on the rest of the text -/
def nextIsLower (low : Str → Bool) : Str → Bool
  | [] => false
  | c :: rest => if c < 128 then decide (97 ≤ c ∧ c ≤ 122) else low (c :: rest)

/-- "preceded by single capital letter": `rcur` is the builder reversed, the end character
at its head -/
def abbrevBefore : Str → Bool
  | [_, p] => upperA p
  | _ :: p :: q :: _ => upperA p && spaceL1 q
  | _ => false

/-- `sentence := strings.TrimSpace(current.String()); if sentence != "" { append }` -/
def emitSentence (rcur : Str) : List Str :=
  if (trim rcur.reverse).isEmpty then [] else [trim rcur.reverse]

/-- the loop of `splitIntoSentences`; `rcur` is `current` reversed -/
def sentScan (low : Str → Bool) : Str → Str → List Str
  | [], rcur => emitSentence rcur
  | b :: rest, rcur =>
    if isEndChar b && !nextIsLower low rest && !abbrevBefore (b :: rcur) then
      emitSentence (b :: rcur) ++ sentScan low rest []
    else sentScan low rest (b :: rcur)

/-- `splitIntoSentences` -/
def splitIntoSentences (low : Str → Bool) (text : Str) : List Str := sentScan low text []

/-- the table the harness sends for `low`: the UTF-8 encodings of the lower-case non-ASCII
characters met behind a sentence end (UTF-8 is prefix free, so `isPrefixOf` decodes) -/
def lowOfTable (tbl : List Str) : Str → Bool := fun rest => tbl.any fun r => r.isPrefixOf rest

/-! ## `Chunker.Chunk` with the sentence splitter modelled -/

/-- fill the `sents` parameter of every heading, paragraph and list with what
`splitIntoSentences` returns for its text -/
def withSents (low : Str → Bool) (d : LDoc) : LDoc :=
  d.map fun pg => { pg with layout := pg.layout.map fun lay =>
    { headings := lay.headings.map fun h => { h with sents := splitIntoSentences low h.text }
      paras := lay.paras.map fun p => { p with sents := splitIntoSentences low p.text }
      lists := lay.lists.map fun l => { l with sents := splitIntoSentences low (formatList l.items) } } }

/-- `Chunker.Chunk`, `splitIntoSentences` included -/
def chunkS (low : Str → Bool) (cfg : Cfg) (title : Str) (d : LDoc) : List Chunk :=
  chunk cfg title (withSents low d)

end Tabula.ChunkSent
