/-
C03, read histories on ONE `reader.Reader`: the three levels of lazily filled state a reader
keeps behind `GetObject`, and the lazily loaded page list behind `PageCount` / `GetPage`.
Core Lean only.

Go code mirrored (reader/reader.go, core/objstm.go, pages/pages.go):
  (*Reader).GetObject            cache `r.objCache`, cross-reference table, in use?, by entry type
  (*Reader).getCompressedObject  object stream, member by INDEX, the member's number must match
  (*Reader).getObjectStream      cache `r.objStmCache`; the stream object is loaded directly
                                 (not through `objCache`), must not itself be compressed
  (*Reader).ClearCache
  (*ObjectStream).decode         lazy: a failing `stream.Decode()` leaves `decoded` nil (retried,
                                 fails again); a header that does not parse is remembered in
                                 `headerErr` and reported by every later access
  (*ObjectStream).GetObjectByIndex  index range, `os.objects` cache, parse of the data slice
  (*Reader).PageCount / GetPage / ensurePageTree, (*PageTree).Count / GetPage / loadPages
                                 `t.pages == nil` is the flag; a failing walk resets it to nil

The FILE is the merged cross-reference table (what `loadXRef` + `MergeXRefTables` leave: the
entry of the LAST revision for every number) and, behind every entry, what the parser makes of
the bytes there.  Superseded objects are still in the file - as members of object streams that
remain in use - but no cross-reference entry leads to them.

The nesting counters (`loading`, `reach`, `objNeed`, `stmNeed`) are C02's and C04's subject
(`Model/BoundsCore.lean` getObject, `Model/XrefNestCache.lean`) and are left out here: members
and directly stored objects are plain values, nothing re-enters `GetObject`.
-/
namespace Tabula.ReaderHist

/-- what `stream.Decode()`, `parseHeader` and `ParseObject` on the data slices make of one
object stream: functions of its bytes -/
structure StmData where
  decodes : Bool                 -- `stream.Decode()` succeeds
  header : Option (List Nat)     -- the object numbers of the N pairs; `none`: the header does not parse
  member : List (Option Int)     -- index ↦ the object parsed from its data slice (`none`: parse error)
  deriving DecidableEq, Repr

/-- a parsed indirect object: a plain value (its version), or a stream `NewObjectStream` accepts -/
inductive Obj where
  | val (v : Int)
  | stm (d : StmData)
  deriving DecidableEq, Repr

/-- an entry of the merged cross-reference table.  `own o`: type 1, `o` is what
`getUncompressedObject` returns for the offset (`none`: parse error or another object's number
there).  `inStm s i`: type 2, member `i` of object stream `s`. -/
inductive XEntry where
  | free
  | own (o : Option Obj)
  | inStm (s i : Nat)
  deriving DecidableEq, Repr

abbrev Xref := List (Nat × XEntry)

def Xref.get (x : Xref) (n : Nat) : Option XEntry :=
  match x.find? (fun e => e.1 = n) with
  | some e => some e.2
  | none => none

/-! ## the state -/

/-- a `*core.ObjectStream` -/
structure StmState where
  data : StmData                  -- `os.stream`
  decoded : Bool := false         -- `os.decoded != nil`
  headerErr : Bool := false       -- `os.headerErr != nil`
  offsets : List Nat := []        -- `os.offsets` (the object numbers; the byte offsets are in `data.member`)
  objects : Nat → Option Int := fun _ => none   -- `os.objects`

/-- the caches of a `*reader.Reader` (Go maps: functions with finite support) -/
structure Reader where
  objCache : Nat → Option Obj := fun _ => none
  stmCache : Nat → Option StmState := fun _ => none

def Reader.empty : Reader := {}

def upd {β : Type} (m : Nat → Option β) (k : Nat) (v : β) : Nat → Option β :=
  fun j => if j = k then some v else m j

/-- `(*ObjectStream).decode`: the state after the call and whether it returned nil -/
def StmState.decode (st : StmState) : StmState × Bool :=
  if st.decoded then (st, !st.headerErr)
  else if !st.data.decodes then (st, false)
  else match st.data.header with
    | none => ({ st with decoded := true, headerErr := true, offsets := [] }, false)
    | some h => ({ st with decoded := true, offsets := h }, true)

/-- `(*ObjectStream).GetObjectByIndex`: the object and its number -/
def StmState.getByIndex (st : StmState) (i : Nat) : StmState × Option (Int × Nat) :=
  match st.decode with
  | (st1, false) => (st1, none)
  | (st1, true) =>
    match st1.offsets[i]? with
    | none => (st1, none)
    | some num =>
      match st1.objects i with
      | some v => (st1, some (v, num))
      | none =>
        match st1.data.member[i]? with
        | some (some v) => ({ st1 with objects := upd st1.objects i v }, some (v, num))
        | _ => (st1, none)

/-- `(*Reader).getObjectStream` -/
def getObjectStream (x : Xref) (r : Reader) (s : Nat) : Reader × Option StmState :=
  match r.stmCache s with
  | some st => (r, some st)
  | none =>
    match x.get s with
    | some (.own (some (.stm d))) =>
      let st : StmState := { data := d }
      ({ r with stmCache := upd r.stmCache s st }, some st)
    | _ => (r, none)     -- not in the table, compressed, does not parse, not a stream

/-- `(*Reader).getCompressedObject`: the `*ObjectStream` is shared with the cache, so what
`GetObjectByIndex` does to it stays -/
def getCompressed (x : Xref) (r : Reader) (n s i : Nat) : Reader × Option Obj :=
  match getObjectStream x r s with
  | (r1, none) => (r1, none)
  | (r1, some st) =>
    match st.getByIndex i with
    | (st1, some (v, num)) =>
      ({ r1 with stmCache := upd r1.stmCache s st1 }, if num = n then some (.val v) else none)
    | (st1, none) => ({ r1 with stmCache := upd r1.stmCache s st1 }, none)

/-- `(*Reader).GetObject` -/
def getObject (x : Xref) (r : Reader) (n : Nat) : Reader × Option Obj :=
  match r.objCache n with
  | some o => (r, some o)
  | none =>
    match x.get n with
    | some (.own (some o)) => ({ r with objCache := upd r.objCache n o }, some o)
    | some (.inStm s i) =>
      match getCompressed x r n s i with
      | (r1, some o) => ({ r1 with objCache := upd r1.objCache n o }, some o)
      | (r1, none) => (r1, none)
    | _ => (r, none)     -- not in the table, not in use, does not parse

/-! ## what the file alone says -/

/-- member `i` of an object stream, asked for as object `n` -/
def specMember (d : StmData) (n i : Nat) : Option Obj :=
  if d.decodes then
    match d.header with
    | none => none
    | some h =>
      match h[i]? with
      | none => none
      | some num =>
        match d.member[i]? with
        | some (some v) => if num = n then some (.val v) else none
        | _ => none
  else none

def specStm (x : Xref) (s : Nat) : Option StmData :=
  match x.get s with
  | some (.own (some (.stm d))) => some d
  | _ => none

/-- member `i` of what the table has under `s`, asked for as object `n` -/
def specIn (x : Xref) (n s i : Nat) : Option Obj :=
  match specStm x s with
  | some d => specMember d n i
  | none => none

/-- the object of the document with number `n`: a function of the merged table and the bytes
behind its entries -/
def specGet (x : Xref) (n : Nat) : Option Obj :=
  match x.get n with
  | some (.own o) => o
  | some (.inStm s i) => specIn x n s i
  | _ => none

/-! ## histories -/

inductive Access where
  | get (n : Nat)
  | clear
  deriving DecidableEq, Repr

def step (x : Xref) (r : Reader) : Access → Reader × Option Obj
  | .get n => getObject x r n
  | .clear => (Reader.empty, none)

def specAccess (x : Xref) : Access → Option Obj
  | .get n => specGet x n
  | .clear => none

def run (x : Xref) : Reader → List Access → List (Option Obj)
  | _, [] => []
  | r, a :: as => (step x r a).2 :: run x (step x r a).1 as

def exec (x : Xref) : Reader → List Access → Reader
  | r, [] => r
  | r, a :: as => exec x (step x r a).1 as

/-! ## the variant that fills `objCache` from the header of an object stream (seeded mutant of
round 5): every member the header lists is cached under its number when the stream is loaded -/

def prefetchAll (d : StmData) (c : Nat → Option Obj) : Nat → Option Obj :=
  match d.decodes, d.header with
  | true, some h =>
    (List.range h.length).foldl (fun c i =>
      match h[i]?, d.member[i]? with
      | some num, some (some v) => (match c num with | some _ => c | none => upd c num (.val v))
      | _, _ => c) c
  | _, _ => c

def getObjectPrefetch (x : Xref) (r : Reader) (n : Nat) : Reader × Option Obj :=
  match getObject x r n with
  | (r1, res) =>
    match x.get n with
    | some (.inStm s _) =>
      (match r1.stmCache s with
       | some st => ({ r1 with objCache := prefetchAll st.data r1.objCache }, res)
       | none => (r1, res))
    | _ => (r1, res)

def runPrefetch (x : Xref) : Reader → List Nat → List (Option Obj)
  | _, [] => []
  | r, n :: ns => (getObjectPrefetch x r n).2 :: runPrefetch x (getObjectPrefetch x r n).1 ns

/-! ## the lazily loaded page list -/

/-- what the file says about its page tree: does `ensurePageTree` get a root dictionary
(catalog, `/Pages` resolves to a dictionary), is `/Count` present and an integer, and the walk
`loadPages` makes from its fresh state (`t.pages`, `t.visited` re-made; `t.depth` is back to 0
because every `traversePageNode` restores it) - the page list, or `none` when it fails.  The walk
itself is `BoundsCore.loadPagesWith`. -/
structure TreeFile (P : Type) where
  hasRoot : Bool
  declared : Bool
  walk : Option (List P)

/-- `r.pageTree` and its `pages` field -/
structure TreeState (P : Type) where
  tree : Bool := false               -- `r.pageTree != nil`
  pages : Option (List P) := none    -- `t.pages` (`nil` = not loaded)

inductive PageCall where
  | count
  | page (i : Nat)
  | pages
  deriving DecidableEq, Repr

inductive PageAns (P : Type) where
  | err
  | count (n : Nat)
  | page (p : P)
  | all (l : List P)
  deriving DecidableEq, Repr

/-- `ensurePageTree`: nothing is kept when it fails -/
def ensureTree {P : Type} (f : TreeFile P) (s : TreeState P) : TreeState P × Bool :=
  if s.tree then (s, true)
  else if f.hasRoot then ({ s with tree := true }, true)
  else (s, false)

/-- `if t.pages == nil { if err := t.loadPages(); err != nil { return err } }` -/
def ensurePages {P : Type} (f : TreeFile P) (s : TreeState P) : TreeState P × Option (List P) :=
  match s.pages with
  | some l => (s, some l)
  | none =>
    match f.walk with
    | some l => ({ s with pages := some l }, some l)
    | none => ({ s with pages := none }, none)      -- `t.pages = nil` on the error path

/-- the same with the reset on the error path forgotten and the list left as the walk had it
when it failed (`part`): the seeded mutant of round 6 -/
def ensurePagesNoReset {P : Type} (f : TreeFile P) (part : List P) (s : TreeState P) :
    TreeState P × Option (List P) :=
  match s.pages with
  | some l => (s, some l)
  | none =>
    match f.walk with
    | some l => ({ s with pages := some l }, some l)
    | none => ({ s with pages := some part }, none)

def pageStepWith {P : Type} (ens : TreeState P → TreeState P × Option (List P))
    (f : TreeFile P) (s : TreeState P) (c : PageCall) : TreeState P × PageAns P :=
  match ensureTree f s with
  | (s1, false) => (s1, .err)
  | (s1, true) =>
    match c with
    | .count =>
      if f.declared then
        match ens s1 with
        | (s2, some l) => (s2, .count l.length)
        | (s2, none) => (s2, .err)
      else (s1, .err)
    | .page i =>
      (match ens s1 with
       | (s2, some l) => (s2, match l[i]? with | some p => .page p | none => .err)
       | (s2, none) => (s2, .err))
    | .pages =>
      (match ens s1 with
       | (s2, some l) => (s2, .all l)
       | (s2, none) => (s2, .err))

/-- `(*Reader).PageCount`, `(*Reader).GetPage(i)`, `(*PageTree).Pages` on one reader -/
def pageStep {P : Type} (f : TreeFile P) : TreeState P → PageCall → TreeState P × PageAns P :=
  pageStepWith (ensurePages f) f

/-- the answer on a reader that has done nothing yet -/
def pageSpec {P : Type} (f : TreeFile P) (c : PageCall) : PageAns P :=
  if f.hasRoot then
    match c with
    | .count => if f.declared then (match f.walk with | some l => .count l.length | none => .err) else .err
    | .page i => (match f.walk with
      | some l => (match l[i]? with | some p => .page p | none => .err)
      | none => .err)
    | .pages => (match f.walk with | some l => .all l | none => .err)
  else .err

def pageRunWith {P : Type} (stp : TreeState P → PageCall → TreeState P × PageAns P) :
    TreeState P → List PageCall → List (PageAns P)
  | _, [] => []
  | s, c :: cs => (stp s c).2 :: pageRunWith stp (stp s c).1 cs

def pageRun {P : Type} (f : TreeFile P) : TreeState P → List PageCall → List (PageAns P) :=
  pageRunWith (pageStep f)

end Tabula.ReaderHist
