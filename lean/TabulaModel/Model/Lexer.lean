/-
Model of core/lexer.go (tabula, after the C06 fixes): `(*Lexer).NextToken`,
`skipWhitespace`, `readComment`, `readString`, `readHexString`, `readName`,
`readNumber`, `readKeyword` and the byte classes.  Core Lean only.

Bytes are `Nat` (their values), strings `List Nat`.  The lexer state is the
input that is still unread; every reader returns the value it produced and
the remaining input, `none` where the Go code returns an error.
-/
namespace Tabula.Pdf

abbrev Str := List Nat

/-- `isWhitespace` -/
def isWs (b : Nat) : Bool := b == 32 || b == 9 || b == 10 || b == 13 || b == 12 || b == 0

/-- `isDelimiter` -/
def isDelim (b : Nat) : Bool :=
  b == 40 || b == 41 || b == 60 || b == 62 || b == 91 || b == 93 || b == 123 || b == 125 || b == 47 || b == 37

/-- `isDigit` -/
def isDigit (b : Nat) : Bool := 48 ≤ b && b ≤ 57

/-- `isOctalDigit` -/
def isOctal (b : Nat) : Bool := 48 ≤ b && b ≤ 55

/-- `isHexDigit` -/
def isHexDigit (b : Nat) : Bool := (48 ≤ b && b ≤ 57) || (97 ≤ b && b ≤ 102) || (65 ≤ b && b ≤ 70)

/-- `isAlpha` -/
def isAlpha (b : Nat) : Bool := (97 ≤ b && b ≤ 122) || (65 ≤ b && b ≤ 90)

/-- `hexValue` -/
def hexValue (b : Nat) : Nat :=
  if 48 ≤ b && b ≤ 57 then b - 48
  else if 97 ≤ b && b ≤ 102 then b - 97 + 10
  else if 65 ≤ b && b ≤ 70 then b - 65 + 10
  else 0

inductive Token
  | eof
  | comment (v : Str)
  | keyword (v : Str)
  | integer (v : Str)
  | real (v : Str)
  | str (v : Str)
  | hexstr (v : Str)   -- the hex digits as written, white space removed
  | name (v : Str)
  | arrStart | arrEnd | dictStart | dictEnd
  | ref                -- the keyword `R`
  deriving DecidableEq, Repr

/-- put `bs` in front of the value of a reader's result -/
def pre (bs : Str) : Option (Str × Str) → Option (Str × Str)
  | none => none
  | some (v, r) => some (bs ++ v, r)

/-- `skipWhitespace` -/
def skipWs : Str → Str
  | [] => []
  | b :: r => if isWs b then skipWs r else b :: r

/-- `readComment` after the `%`: text up to the end of line, and the input after
the end-of-line marker (CR, LF or CR LF) -/
def commentBody : Str → Str × Str
  | [] => ([], [])
  | b :: r =>
    if b = 10 then ([], r)
    else if b = 13 then
      match r with
      | c :: r' => if c = 10 then ([], r') else ([], r)
      | [] => ([], r)
    else
      let p := commentBody r
      (b :: p.1, p.2)

/-- the single-character escapes of `readString`: `\n \r \t \b \f \( \) \\` -/
def namedEsc (c : Nat) : Option Nat :=
  if c = 110 then some 10
  else if c = 114 then some 13
  else if c = 116 then some 9
  else if c = 98 then some 8
  else if c = 102 then some 12
  else if c = 40 ∨ c = 41 ∨ c = 92 then some c
  else none

/-- line continuation `\` CR: a following LF belongs to the same end of line -/
def afterCR (r : Str) : Str :=
  match r with
  | d :: r' => if d = 10 then r' else r
  | [] => r

/-- octal escape `\ddd`: `c` is the first digit, up to two more are taken from
`r`; the value wraps to a byte as the Go `byte` arithmetic does -/
def readOctal (c : Nat) (r : Str) : Nat × Str :=
  match r with
  | d1 :: r1 =>
    if isOctal d1 then
      match r1 with
      | d2 :: r2 =>
        if isOctal d2 then ((((c - 48) * 8 + (d1 - 48)) * 8 + (d2 - 48)) % 256, r2)
        else ((c - 48) * 8 + (d1 - 48), r1)
      | [] => ((c - 48) * 8 + (d1 - 48), r1)
    else (c - 48, r)
  | [] => (c - 48, r)

/-- the `case '\\'` arm of `readString`: the input is what follows the backslash;
result: the bytes written to the buffer and the remaining input -/
def readEscape : Str → Option (Str × Str)
  | [] => none
  | c :: r =>
    match namedEsc c with
    | some v => some ([v], r)
    | none =>
      if c = 13 then some ([], afterCR r)
      else if c = 10 then some ([], r)
      else if isOctal c then some ([(readOctal c r).1], (readOctal c r).2)
      else some ([c], r)

theorem afterCR_le (r : Str) : (afterCR r).length ≤ r.length := by
  unfold afterCR
  split
  · split <;> simp
  · simp

theorem readOctal_le (c : Nat) (r : Str) : (readOctal c r).2.length ≤ r.length := by
  unfold readOctal
  split
  · split
    · split
      · split <;> simp <;> omega
      · simp
    · simp
  · simp

theorem readEscape_lt {inp bs r : Str} (h : readEscape inp = some (bs, r)) : r.length < inp.length := by
  cases inp with
  | nil => simp [readEscape] at h
  | cons c r0 =>
    have h1 := afterCR_le r0
    have h2 := readOctal_le c r0
    simp only [readEscape] at h
    split at h
    · cases h; simp
    · split at h
      · cases h; simp only [List.length_cons]; omega
      · split at h
        · cases h; simp
        · split at h
          · cases h; simp only [List.length_cons]; omega
          · cases h; simp

/-- the loop of `readString` (after the opening parenthesis, `depth` ≥ 1) -/
def strLoop (depth : Nat) (inp : Str) : Option (Str × Str) :=
  match inp with
  | [] => none
  | b :: r =>
    if b = 40 then pre [40] (strLoop (depth + 1) r)
    else if b = 41 then
      if depth - 1 > 0 then pre [41] (strLoop (depth - 1) r) else some ([], r)
    else if b = 92 then
      match h : readEscape r with
      | none => none
      | some (bs, r') => pre bs (strLoop depth r')
    else pre [b] (strLoop depth r)
termination_by inp.length
decreasing_by
  all_goals simp only [List.length_cons]
  all_goals (try omega)
  have := readEscape_lt h
  omega

/-- the loop of `readHexString` (after `<`): the digits, white space dropped -/
def hexLoop : Str → Option (Str × Str)
  | [] => none
  | b :: r =>
    if b = 62 then some ([], r)
    else if isWs b then hexLoop r
    else if isHexDigit b then pre [b] (hexLoop r)
    else none

/-- the loop of `readName` (after `/`) -/
def nameLoop : Str → Option (Str × Str)
  | [] => some ([], [])
  | b :: r =>
    if isWs b || isDelim b then some ([], b :: r)
    else if b = 35 then
      match r with
      | h1 :: h2 :: r' =>
        if isHexDigit h1 && isHexDigit h2 then pre [hexValue h1 * 16 + hexValue h2] (nameLoop r')
        else none
      | _ => none
    else pre [b] (nameLoop r)

/-- the loop of `readNumber`; `first` = the buffer is still empty. Result: text,
whether a decimal point was read, remaining input -/
def numLoop (hasDec first : Bool) : Str → Str × Bool × Str
  | [] => ([], hasDec, [])
  | b :: r =>
    if b = 46 then
      if hasDec then ([], hasDec, b :: r)
      else
        let p := numLoop true false r
        (b :: p.1, p.2.1, p.2.2)
    else if isDigit b || (first && (b == 45 || b == 43)) then
      let p := numLoop hasDec false r
      (b :: p.1, p.2.1, p.2.2)
    else ([], hasDec, b :: r)

def isAlnum (b : Nat) : Bool := isAlpha b || isDigit b

/-- `(*Lexer).NextToken` on the unread input -/
def nextToken (inp : Str) : Option (Token × Str) :=
  match skipWs inp with
  | [] => some (.eof, [])
  | b :: r =>
    if b = 37 then
      let p := commentBody r
      some (.comment (37 :: p.1), p.2)
    else if b = 91 then some (.arrStart, r)
    else if b = 93 then some (.arrEnd, r)
    else if b = 40 then
      match strLoop 1 r with
      | none => none
      | some (v, r') => some (.str v, r')
    else if b = 60 then
      match r with
      | 60 :: r' => some (.dictStart, r')
      | _ =>
        match hexLoop r with
        | none => none
        | some (v, r') => some (.hexstr v, r')
    else if b = 62 then
      match r with
      | 62 :: r' => some (.dictEnd, r')
      | _ => none
    else if b = 47 then
      match nameLoop r with
      | none => none
      | some (v, r') => some (.name v, r')
    else if isDigit b || b = 45 || b = 43 || b = 46 then
      let p := numLoop false true (b :: r)
      some (if p.2.1 then .real p.1 else .integer p.1, p.2.2)
    else if isAlpha b then
      let v := (b :: r).takeWhile isAlnum
      let r' := (b :: r).dropWhile isAlnum
      some (if v = [82] then .ref else .keyword v, r')
    else none

end Tabula.Pdf
