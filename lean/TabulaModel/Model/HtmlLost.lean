import TabulaModel.Model.HtmlSpec
/-
The residual finding C19/content-missing-para-in-wrapper, written down EXACTLY: `lost` is the
text the property asks for (`want`) that no element returns (`src`).  It is written from the DOM
alone, like `want`: walk as `want` walks; inside a paragraph that has block-level children
(`inP`), an element that is only a wrapper — not skipped, not excluded, not a content element, not
a `div` (classify = other) or a non-element node with children — loses the text of its inline
children (`lostW`); everything else loses nothing.  Core Lean only (the c19.lost op evaluates it).
-/
namespace Tabula.Html

mutual
/-- LOST TEXT of a subtree under exclusion predicate `p`; `inP`: we are inside a paragraph that
has block-level children (wrappers are transparent for `want`) -/
def lost (p : Pos → Dom → Bool) (w : Bool) (pos : Pos) (inP : Bool) : Dom → Str
  | .text _ => []
  | .other kids => if inP then lostW p w (pos.kid w []) kids else lostL p w (pos.kid w []) kids
  | .elem tag attrs kids =>
    if isSkip tag then []
    else if p pos (.elem tag attrs kids) then []
    else
      let kp := pos.kid w tag
      match classify tag with
      | .pdiv true => if !isBlockContainer kids then [] else lostD p w kp true kids
      | .pdiv false =>
        if squeeze (tnFlatL kids) != [] && !isBlockContainer kids then [] else lostD p w kp inP kids
      | .list _ => lostL p w kp kids
      | .li => lostLi p w kp kids
      | .other => if inP then lostW p w kp kids else lostL p w kp kids
      | _ => []
def lostL (p : Pos → Dom → Bool) (w : Bool) (kp : Pos) : List Dom → Str
  | [] => []
  | k :: ks => lost p w kp false k ++ lostL p w kp ks
def lostLi (p : Pos → Dom → Bool) (w : Bool) (kp : Pos) : List Dom → Str
  | [] => []
  | k :: ks => (if isListElem k then lost p w kp false k else []) ++ lostLi p w kp ks
/-- the children of a p/div with block-level children: the inline children are returned (as a
run), the others are walked -/
def lostD (p : Pos → Dom → Bool) (w : Bool) (kp : Pos) (inP : Bool) : List Dom → Str
  | [] => []
  | k :: ks => (if isInline k then [] else lost p w kp inP k) ++ lostD p w kp inP ks
/-- the children of a wrapper inside such a paragraph: the inline children are the wrapper's own
text, which nothing returns; the others are walked, still inside the paragraph -/
def lostW (p : Pos → Dom → Bool) (w : Bool) (kp : Pos) : List Dom → Str
  | [] => []
  | k :: ks => (if isInline k then tnFlat k else lost p w kp true k) ++ lostW p w kp ks
end

/-- lost text of a whole document (from the document node) for a raw mode value -/
def lostOf (m : Int) (doc : Dom) : Str :=
  lost (if m = 0 then fun _ _ => false else excludedI m) (hasWrapper (bodyOf doc)) .root false (bodyOf doc)

/-- `a` is a subsequence of `b` (executable; the c19.lost op reports it) -/
def isSubseq : Str → Str → Bool
  | [], _ => true
  | _ :: _, [] => false
  | x :: xs, y :: ys => if x = y then isSubseq xs ys else isSubseq (x :: xs) ys

end Tabula.Html
