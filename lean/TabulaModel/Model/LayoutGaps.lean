import TabulaModel.Model.Layout
/-
Model of `layout.(*ColumnDetector).findVerticalGaps` (`layout/columns.go`) as the code has it
after the two C02 repairs

* 988a551: a page width that is negative, not a number, or of 2^20 buckets (5 points each) and
  more yields NO gaps - the histogram is never sized from an unchecked /MediaBox;
* 541d4a6: the histogram is built from a difference array (one `++` where a fragment's run of
  buckets starts, one `--` behind its end, one prefix-sum pass) instead of one `++` per bucket
  of the run.

In `Model/Layout.lean` the gap list is a PARAMETER of column detection (every theorem of
`Props/C09*.lean` holds for all gap lists). This file makes it a closed function, so that the
bound and the "output unchanged" claim of 541d4a6 can be stated and proved:

* `gapsRefused`                               the guard of 988a551
* `numBuckets`                                `int(pageWidth/bucketSize) + 1`
* `runOf`                                     the clamped run `[startBucket, endBucket]` of a fragment
* `histNaive`                                 the histogram BEFORE 541d4a6 (`for b := start; b <= end; b++ { histogram[b]++ }`)
* `histDiff`                                  the histogram AFTER 541d4a6
* `valleys`, `findVerticalGaps`               the valley sweep and the whole function

Floats: `int(x/5.0)` of a dyadic `x` is exact (the quotient is a multiple of 1/20 away from an
integer or an integer). The one non-dyadic comparison, `float64(histogram[b]) <
(float64(total)/float64(content))*0.2`, is modelled by the exact `5*h*content < total`; the two
agree unless `5*h*content = total` (the harness drops those pages from the op `c09.gaps`).
-/
namespace Tabula.Layout

/-- `const maxBuckets = 1 << 20` -/
def maxBuckets : Nat := 1048576

/-- the guard of 988a551: `!(pageWidth >= 0) || pageWidth/bucketSize >= maxBuckets` (a `Rat` is
never NaN) -/
def gapsRefused (pw : Rat) : Bool := !(pw ≥ 0) || pw / 5 ≥ (maxBuckets : Rat)

/-- `numBuckets := int(pageWidth/bucketSize) + 1` -/
def numBuckets (pw : Rat) : Nat := (truncInt (pw / 5)).toNat + 1

/-- the run of buckets a fragment covers, after the two clamps; `none` when
`startBucket <= endBucket` fails -/
def runOf (nb : Nat) (f : Frag) : Option (Nat × Nat) :=
  let s : Int := truncInt (f.x / 5)
  let e : Int := truncInt ((f.x + f.w) / 5)
  let s := if s < 0 then 0 else s
  let e := if e ≥ (nb : Int) then (nb : Int) - 1 else e
  if s ≤ e then some (s.toNat, e.toNat) else none

/-- `histogram[b]++` for every `b` of `[s, e]` (`i` = index of the head) -/
def incrRange : Nat → Nat → Nat → List Int → List Int
  | _, _, _, [] => []
  | i, s, e, x :: xs => (if s ≤ i ∧ i ≤ e then x + 1 else x) :: incrRange (i + 1) s e xs

/-- the histogram before 541d4a6: cost = sum of the run lengths (fragments x buckets) -/
def histNaive (nb : Nat) (runs : List (Nat × Nat)) : List Int :=
  runs.foldl (fun h r => incrRange 0 r.1 r.2 h) (List.replicate nb 0)

/-- `histogram[i] += v` -/
def addAt : Nat → Int → List Int → List Int
  | _, _, [] => []
  | 0, v, x :: xs => (x + v) :: xs
  | i + 1, v, x :: xs => x :: addAt i v xs

/-- `for b := 1; b < len(histogram); b++ { histogram[b] += histogram[b-1] }` -/
def scan : Int → List Int → List Int
  | _, [] => []
  | acc, x :: xs => (acc + x) :: scan (acc + x) xs

/-- `histogram[startBucket]++; histogram[endBucket+1]--` -/
def bump (d : List Int) (r : Nat × Nat) : List Int := addAt (r.2 + 1) (-1) (addAt r.1 1 d)

/-- the difference array after the fragment loop: `numBuckets+1` cells -/
def diffArray (nb : Nat) (runs : List (Nat × Nat)) : List Int :=
  runs.foldl bump (List.replicate (nb + 1) 0)

/-- the histogram after 541d4a6: cost = 2 x fragments + buckets -/
def histDiff (nb : Nat) (runs : List (Nat × Nat)) : List Int :=
  (scan 0 (diffArray nb runs)).take nb

/-- array writes of the loop before 541d4a6 -/
def naiveWrites (runs : List (Nat × Nat)) : Nat := (runs.map fun r => r.2 + 1 - r.1).sum

/-- array writes after 541d4a6: two per run, one per cell of the prefix-sum pass -/
def diffWrites (nb : Nat) (runs : List (Nat × Nat)) : Nat := 2 * runs.length + nb

/-- a gap is reported when it is at least `MinGapWidth` wide -/
def mkGap (minGap : Rat) (vs ve : Nat) : List Gap :=
  if (ve : Rat) * 5 - (vs : Rat) * 5 ≥ minGap then [⟨(vs : Rat) * 5, (ve : Rat) * 5⟩] else []

/-- the valley sweep over the content buckets `(b, isLow)`; the state is `valleyStart` when
`inValley`. A valley open at the end closes at `endBucket`. -/
def valleys (minGap : Rat) (endB : Nat) : Option Nat → List (Nat × Bool) → List Gap
  | none, [] => []
  | some vs, [] => mkGap minGap vs endB
  | none, (b, low) :: r => if low then valleys minGap endB (some b) r else valleys minGap endB none r
  | some vs, (b, low) :: r =>
    if low then valleys minGap endB (some vs) r else mkGap minGap vs b ++ valleys minGap endB none r

/-- `minX` / `maxX` of the content -/
def contentMinX (f0 : Frag) (fs : List Frag) : Rat := fs.foldl (fun m f => if f.x < m then f.x else m) f0.x
def contentMaxX (f0 : Frag) (fs : List Frag) : Rat :=
  fs.foldl (fun m f => if f.x + f.w > m then f.x + f.w else m) (f0.x + f0.w)

/-- `gaps[:MaxColumns-1]` when there are `MaxColumns` gaps or more -/
def capGaps (maxCols : Nat) (gs : List Gap) : List Gap :=
  if gs.length ≥ maxCols then gs.take (maxCols - 1) else gs

/-- the part of `findVerticalGaps` behind the guard, on a given histogram -/
def gapsOfHist (minGap : Rat) (maxCols : Nat) (nb : Nat) (hist : List Int) (f0 : Frag) (fs : List Frag) : List Gap :=
  let s : Int := truncInt (contentMinX f0 fs / 5)
  let e : Int := truncInt (contentMaxX f0 fs / 5)
  let s := if s < 0 then 0 else s
  let e := if e ≥ (nb : Int) then (nb : Int) - 1 else e
  if s ≤ e then
    let sN := s.toNat
    let eN := e.toNat
    let content := (hist.drop sN).take (eN + 1 - sN)
    let total : Int := content.foldl (· + ·) 0
    let cnt : Int := (content.length : Int)
    let lows := content.map fun h => decide (5 * h * cnt < total)
    capGaps maxCols (valleys minGap eN none ((List.range' sN content.length).zip lows))
  else []

/-- `(*ColumnDetector).findVerticalGaps` (default configuration: `MinGapWidth` 20, `MaxColumns` 6) -/
def findVerticalGaps (minGap : Rat) (maxCols : Nat) (pw : Rat) (fs : List Frag) : List Gap :=
  match fs with
  | [] => []
  | f0 :: _ =>
    if gapsRefused pw then []
    else
      let nb := numBuckets pw
      gapsOfHist minGap maxCols nb (histDiff nb (fs.filterMap (runOf nb))) f0 fs

/-- the same function with the histogram loop as it was before 541d4a6 -/
def findVerticalGapsOld (minGap : Rat) (maxCols : Nat) (pw : Rat) (fs : List Frag) : List Gap :=
  match fs with
  | [] => []
  | f0 :: _ =>
    if gapsRefused pw then []
    else
      let nb := numBuckets pw
      gapsOfHist minGap maxCols nb (histNaive nb (fs.filterMap (runOf nb))) f0 fs

end Tabula.Layout
