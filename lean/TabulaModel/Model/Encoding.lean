import TabulaModel.Gen.Encodings
import TabulaModel.Model.UTF16
/-!
# Simple-font encodings (font/encoding.go)

The six `[256]rune` tables, the `name`/`table` pairing of the six `standardEncoding`
variables and the `switch` of `GetEncoding` are **regenerated** from the Go source
(`Gen/Encodings.lean`); this file only interprets them.
-/
namespace Tabula.Encoding
open Tabula.Gen.Encodings Tabula.UTF16

/-- Go identifier of a table variable → the regenerated table -/
def tableByVar (v : String) : Option (Array Nat) :=
  if v = "winAnsiTable" then some winAnsiTable
  else if v = "macRomanTable" then some macRomanTable
  else if v = "pdfDocTable" then some pdfDocTable
  else if v = "standardEncodingTableData" then some standardEncodingTableData
  else if v = "symbolEncodingTable" then some symbolEncodingTable
  else if v = "zapfDingbatsEncodingTable" then some zapfDingbatsEncodingTable
  else none

/-- a `standardEncoding` value: its `name` field and its table -/
structure Enc where
  name : String
  table : Array Nat

/-- `var X = &standardEncoding{name: n, table: t}` looked up by the Go identifier `X` -/
def encOfVar (x : String) : Option Enc :=
  match encodingVars.find? (fun e => e.1 == x) with
  | some (_, n, t) => (tableByVar t).map fun tb => ⟨n, tb⟩
  | none => none

/-- body of a `case` of `GetEncoding`: `return X` -/
def encOfReturn (stmt : String) : Option Enc :=
  if stmt.startsWith "return " then encOfVar (stmt.drop 7).toString else none

def nameBytes (s : String) : List Nat := s.toUTF8.toList.map (·.toNat)

/-- `font.GetEncoding(name)`: the first `case` listing `name`, otherwise `default`. -/
def getEncoding (name : List Nat) : Option Enc :=
  match getEncodingCases.find? (fun c => c.1.any (fun n => nameBytes n == name) && !(c.1.contains "<default>")) with
  | some c => encOfReturn c.2
  | none =>
    match getEncodingCases.find? (fun c => c.1.contains "<default>") with
    | some c => encOfReturn c.2
    | none => none

/-- `(*standardEncoding).Decode(b)` -/
def decodeByte (t : Array Nat) (b : Nat) : Option Nat := t[b]?

/-- `(*standardEncoding).DecodeString`: table entry 0 means "unmapped" and is skipped;
`string(runes)` maps a non-scalar rune to U+FFFD. A byte outside the table (impossible for
a 256-entry table and a byte) yields nothing. -/
def decodeString (t : Array Nat) (data : List Nat) : List Nat :=
  data.filterMap fun b =>
    match t[b]? with
    | some r => if r ≠ 0 then some (toRune r) else none
    | none => none

end Tabula.Encoding
