import TabulaModel.Model.Sentences
/-
Model of `rag/boundary.go` as far as it produces and selects the positions that
`SizeCalculator.SplitToSize(text, boundaries)` may split at:

`BoundaryType.Score`, `isSentenceEnd`, `isAbbreviation`,
`(*BoundaryDetector).detectInternalBoundaries`, `getBoundaryTypeForBlock`,
`DetectBoundaries`, `FindBestBoundary`, `FindBoundaryWithLookAhead`,
`(*OrphanedContentDetector).WouldCreateOrphan`, `AdjustForOrphans`.

`isSentenceEnd` reads single BYTES as runes (`rune(text[i])`), i.e. as Latin-1: the rows
U+0000–U+00FF of `unicode.IsUpper/IsLetter/IsDigit/IsSpace` are written out.
`strings.ToLower` of the word before a full stop is compared with ASCII abbreviations
only, so it is modelled as ASCII lower-casing (a word with a byte ≥ 0x80 never lower-cases to
an ASCII string: the only runes that do, U+0130 and U+212A, contain the bytes B0 / 84,
which `unicode.IsLetter(rune(b))` rejects, so they cannot be inside the word).
`isListIntro` matches regular expressions (package regexp, an external library): its result
is a field of the block, supplied by the harness.  Core Lean only.
-/
set_option linter.unusedVariables false
namespace Tabula.SemBoundary
open Tabula.Split Tabula.Overlap Tabula.Sentences

/-! ## Latin-1 rows of the `unicode` tables -/

/-- `unicode.IsLetter(rune(b))` for a byte: A–Z, a–z, ª, µ, º, À–Ö, Ø–ö, ø–ÿ -/
def isLetterLatin1 (b : Nat) : Bool :=
  (65 ≤ b && b ≤ 90) || (97 ≤ b && b ≤ 122) || b == 170 || b == 181 || b == 186
    || (192 ≤ b && b ≤ 214) || (216 ≤ b && b ≤ 246) || (248 ≤ b && b ≤ 255)

/-- `unicode.IsDigit(rune(b))` for a byte: 0–9 (², ³, ¹ are `No`, not `Nd`) -/
def isDigitLatin1 (b : Nat) : Bool := 48 ≤ b && b ≤ 57

def asciiLower (b : Nat) : Nat := if 65 ≤ b && b ≤ 90 then b + 32 else b

def getB (text : Array Nat) (i : Nat) : Nat := text[i]?.getD 0     -- only used with i < size

/-! ## sentence ends -/

/-- `for start > 0 && unicode.IsLetter(rune(text[start-1])) { start-- }` -/
def letterStartB (text : Array Nat) : Nat → Nat
  | 0 => 0
  | start + 1 => if isLetterLatin1 (getB text start) then letterStartB text start else start + 1

/-- `isAbbreviation` -/
def isAbbreviationB (text : Array Nat) (i : Nat) : Bool :=
  let start := letterStartB text i
  if start ≥ i then false
  else abbreviations.contains (((text.extract start (i + 1)).toList).map asciiLower)

/-- `isSentenceEnd(text, i)` -/
def isSentenceEndB (text : Array Nat) (i : Nat) : Bool :=
  if i ≥ text.size then false else
  let r := getB text i
  if r != 46 && r != 33 && r != 63 then false else
  if r == 46 && i ≥ 1 &&
      ((isUpperLatin1 (getB text (i - 1)) && (i < 2 || !isLetterLatin1 (getB text (i - 2))))
        || isAbbreviationB text i
        || (isDigitLatin1 (getB text (i - 1)) && i + 1 < text.size && isDigitLatin1 (getB text (i + 1))))
  then false else
  if i + 1 ≥ text.size then true else
  if i + 2 < text.size && isSpaceLatin1 (getB text (i + 1)) then
    let next := getB text (i + 2)
    isUpperLatin1 next || next == 34 || next == 39
  else false

/-! ## boundary types and blocks -/

/-- `rag.BoundaryType` (wire numbers 0–9) -/
inductive BType where
  | none | sentence | paragraph | list | listItem | heading | table | figure | codeBlock | pageBreak
  deriving DecidableEq, Repr

/-- `BoundaryType.Score` -/
def BType.score : BType → Int
  | .heading => 100 | .pageBreak => 90 | .table => 85 | .figure => 85 | .list => 80
  | .codeBlock => 80 | .paragraph => 70 | .listItem => 30 | .sentence => 20 | .none => 0

def BType.no : BType → Nat
  | .none => 0 | .sentence => 1 | .paragraph => 2 | .list => 3 | .listItem => 4 | .heading => 5
  | .table => 6 | .figure => 7 | .codeBlock => 8 | .pageBreak => 9

/-- `model.ElementType` as `DetectBoundaries` distinguishes it (`other` = unknown, caption) -/
inductive Kind where
  | paragraph | heading | list | table | figure | other
  deriving DecidableEq, Repr

/-- `model.ElementType` wire numbers: 1 paragraph, 2 heading, 3 list, 4 table, 5 image,
6 figure; 0 unknown and 7 caption fall under `default` -/
def Kind.ofWire : Nat → Kind
  | 1 => .paragraph | 2 => .heading | 3 => .list | 4 => .table | 5 => .figure | 6 => .figure
  | _ => .other

/-- `rag.ContentBlock`: type, text, and what `isListIntro(text)` answers -/
structure Block where
  kind : Kind
  text : Str
  intro : Bool
  deriving Repr

/-- `rag.Boundary` in full -/
structure DBoundary where
  ty : BType
  pos : Nat
  score : Int
  elem : Nat
  deriving Repr

/-- what `SplitToSize` reads of a boundary -/
def DBoundary.toBoundary (d : DBoundary) : Boundary := { pos := d.pos, score := d.score }

/-- `detectInternalBoundaries`: a sentence boundary behind every sentence end of a paragraph -/
def detectInternal (b : Block) (startPosition blockIndex : Nat) : List DBoundary :=
  if b.kind = .paragraph then
    ((List.range b.text.length).filter (isSentenceEndB b.text.toArray)).map fun i =>
      { ty := .sentence, pos := startPosition + i + 1, score := BType.sentence.score, elem := blockIndex }
  else []

/-- `getBoundaryTypeForBlock` -/
def blockBoundaryType (b : Block) (next : Option Block) : BType :=
  match b.kind with
  | .heading => .none
  | .table => .table
  | .figure => .figure
  | .list => .list
  | .paragraph =>
    if b.intro && (match next with | some n => decide (n.kind = .list) | none => false) then .none
    else .paragraph
  | .other => .paragraph

/-- the loop of `DetectBoundaries`: `i` = index of the block, `position` = byte offset of
the block in the text that joins the blocks with blank lines -/
def detectAux : List Block → Nat → Nat → List DBoundary
  | [], _, _ => []
  | b :: rest, i, position =>
    let pre : List DBoundary :=
      if b.kind = .heading ∧ i > 0 then
        [{ ty := .heading, pos := position, score := BType.heading.score, elem := i - 1 }]
      else []
    let position' := position + b.text.length + (if rest ≠ [] then 2 else 0)
    let ty := blockBoundaryType b rest.head?
    let post : List DBoundary :=
      if ty ≠ .none then [{ ty := ty, pos := position', score := ty.score, elem := i }] else []
    pre ++ detectInternal b position i ++ post ++ detectAux rest (i + 1) position'

/-- `(*BoundaryDetector).DetectBoundaries` -/
def detectBoundaries (blocks : List Block) : List DBoundary := detectAux blocks 0 0

/-- the text the positions refer to: the blocks' texts joined by blank lines
(`position += 2 // Account for "\n\n" separator`) -/
def joinBlocks (blocks : List Block) : Str := joinWith [10, 10] (blocks.map (·.text))

/-! ## selecting a boundary -/

/-- `(*BoundaryDetector).FindBestBoundary`: the first boundary of highest score (> -1) with
`minPos ≤ Position ≤ maxPos` (positions are naturals; `minPos` may be negative) -/
def findBestBoundary (bs : List Boundary) (minPos : Int) (maxPos : Nat) : Option Boundary :=
  let step (acc : Option Boundary × Int) (b : Boundary) : Option Boundary × Int :=
    if minPos ≤ (b.pos : Int) ∧ b.pos ≤ maxPos ∧ b.score > acc.2 then (some b, b.score) else acc
  (bs.foldl step (none, -1)).1

/-- `(*BoundaryDetector).FindBoundaryWithLookAhead` (`lookAhead` = `LookAheadChars ≥ 0`) -/
def findBoundaryWithLookAhead (bs : List Boundary) (lookAhead targetPos : Nat) : Option Boundary :=
  findBestBoundary bs ((targetPos - lookAhead / 2 : Nat) : Int) (targetPos + lookAhead / 2)

/-- `(*OrphanedContentDetector).WouldCreateOrphan`; `none` where the code panics
(`position > len(text)`) -/
def wouldCreateOrphan (minOrphan : Nat) (text : Str) (position : Nat) : Option Bool :=
  if position > text.length then none
  else
    let before := trimSpace (text.take position)
    if before.length > 0 ∧ before.length < minOrphan then some true
    else if position < text.length then
      let after := trimSpace (text.drop position)
      some (decide (after.length > 0 ∧ after.length < minOrphan))
    else some false

/-- the loop of `AdjustForOrphans` over the boundaries -/
def adjustLoop (minOrphan : Nat) (text : Str) (position : Nat) : List Boundary → Option Nat
  | [] => some position
  | b :: rest =>
    -- `b.Position > position-MinOrphanSize && b.Position < position+MinOrphanSize`
    if position < b.pos + minOrphan ∧ b.pos < position + minOrphan then
      match wouldCreateOrphan minOrphan text b.pos with
      | none => none
      | some false => some b.pos
      | some true => adjustLoop minOrphan text position rest
    else adjustLoop minOrphan text position rest

/-- `(*OrphanedContentDetector).AdjustForOrphans`; `none` where the code panics -/
def adjustForOrphans (minOrphan : Nat) (text : Str) (position : Nat) (bs : List Boundary) : Option Nat :=
  match wouldCreateOrphan minOrphan text position with
  | none => none
  | some false => some position
  | some true => adjustLoop minOrphan text position bs

end Tabula.SemBoundary
