/-
Model of what `encoding/csv` is ASSUMED to do for tabula's CSV/TSV export
(`csv.Writer` with `Comma = d`, `UseCRLF = false`), and of a strict RFC 4180
reader (records end with LF or CRLF, fields may be quoted, `""` is a quote,
CR/LF/delimiter inside quotes are data and are NOT normalised).

This file is about the stdlib contract, not about tabula code: `rag/export.go`
hands `[]string` records to `csv.Writer.Write`.  Core Lean only; bytes are `Nat`.
-/
namespace Tabula.Csv

abbrev Str := List Nat

/-- bytes that make `fieldNeedsQuotes` return true (branch `w.Comma < utf8.RuneSelf`) -/
def isSpecial (d c : Nat) : Prop := c = 34 ∨ c = d ∨ c = 10 ∨ c = 13

instance (d c : Nat) : Decidable (isSpecial d c) := by unfold isSpecial; exact inferInstance

/-- the `for i := 0; i < len(field); i++` scan of `fieldNeedsQuotes` -/
def mustQuote (d : Nat) : Str → Bool
  | [] => false
  | c :: cs => if isSpecial d c then true else mustQuote d cs

/-- `unicode.IsSpace` of the first rune of the field, on UTF-8 bytes (White_Space code points:
U+0009..000D, U+0020, U+0085, U+00A0, U+1680, U+2000..200A, U+2028, U+2029, U+202F, U+205F, U+3000). -/
def firstRuneIsSpace : Str → Bool
  | [] => false
  | [a] => (9 ≤ a && a ≤ 13) || a == 32
  | [a, b] => (9 ≤ a && a ≤ 13) || a == 32 || (a == 0xC2 && (b == 0x85 || b == 0xA0))
  | a :: b :: c :: _ =>
    (9 ≤ a && a ≤ 13) || a == 32 || (a == 0xC2 && (b == 0x85 || b == 0xA0)) ||
    (a == 0xE1 && b == 0x9A && c == 0x80) ||
    (a == 0xE2 && b == 0x80 && ((0x80 ≤ c && c ≤ 0x8A) || c == 0xA8 || c == 0xA9 || c == 0xAF)) ||
    (a == 0xE2 && b == 0x81 && c == 0x9F) ||
    (a == 0xE3 && b == 0x80 && c == 0x80)

/-- the two extra reasons for quoting in `fieldNeedsQuotes`: the field is `\.`, or it starts
with a space rune.  The round-trip theorem holds for ANY such extra predicate. -/
def goExtra (f : Str) : Bool := f == [92, 46] || firstRuneIsSpace f

/-- `(*csv.Writer).fieldNeedsQuotes` -/
def needsQuotes (extra : Str → Bool) (d : Nat) (f : Str) : Bool :=
  match f with
  | [] => false
  | _ => mustQuote d f || extra f

/-- the escaping loop of `(*csv.Writer).Write` with `UseCRLF = false`:
`"` is doubled, CR and LF (and everything else) are copied verbatim -/
def escape : Str → Str
  | [] => []
  | c :: cs => if c = 34 then 34 :: 34 :: escape cs else c :: escape cs

def writeField (extra : Str → Bool) (d : Nat) (f : Str) : Str :=
  if needsQuotes extra d f then 34 :: (escape f ++ [34]) else f

/-- `for n, field := range record { if n > 0 { write Comma }; write field }` -/
def writeFields (extra : Str → Bool) (d : Nat) : List Str → Str
  | [] => []
  | [f] => writeField extra d f
  | f :: g :: fs => writeField extra d f ++ d :: writeFields extra d (g :: fs)

/-- one `Write` call: the fields, then `\n` -/
def writeRecord (extra : Str → Bool) (d : Nat) (r : List Str) : Str :=
  writeFields extra d r ++ [10]

/-- all `Write` calls followed by `Flush` -/
def csvWrite (extra : Str → Bool) (d : Nat) : List (List Str) → Str
  | [] => []
  | r :: rs => writeRecord extra d r ++ csvWrite extra d rs

/-- `validDelim` of encoding/csv restricted to one-byte delimiters -/
def validDelim (d : Nat) : Prop := d ≠ 0 ∧ d ≠ 34 ∧ d ≠ 10 ∧ d ≠ 13 ∧ d < 128

instance (d : Nat) : Decidable (validDelim d) := by unfold validDelim; exact inferInstance

/-! ## strict RFC 4180 reader -/

inductive St where
  | recStart    -- nothing of the next record read yet
  | fieldStart  -- just after a delimiter
  | unq         -- inside an unquoted field
  | quo         -- inside a quoted field
  | quoSeen     -- just after a `"` inside a quoted field
  | crSeen      -- just after a CR outside quotes
  deriving DecidableEq, Repr

structure Acc where
  cur : Str
  row : List Str
  rows : List (List Str)
  deriving DecidableEq, Repr

def push (a : Acc) (c : Nat) : Acc := { a with cur := a.cur ++ [c] }
def endField (a : Acc) : Acc := { a with cur := [], row := a.row ++ [a.cur] }
def endRecord (a : Acc) : Acc := { cur := [], row := [], rows := a.rows ++ [a.row ++ [a.cur]] }

/-- transitions shared by the states from which a field can end -/
def sep (d : Nat) (a : Acc) (c : Nat) : Option (St × Acc) :=
  if c = d then some (.fieldStart, endField a)
  else if c = 10 then some (.recStart, endRecord a)
  else if c = 13 then some (.crSeen, a)
  else none

def step (d : Nat) (s : St) (a : Acc) (c : Nat) : Option (St × Acc) :=
  match s with
  | .recStart | .fieldStart =>
    if c = 34 then some (.quo, a)
    else if c = d ∨ c = 10 ∨ c = 13 then sep d a c
    else some (.unq, push a c)
  | .unq =>
    if c = 34 then none                       -- bare quote in an unquoted field: malformed
    else if c = d ∨ c = 10 ∨ c = 13 then sep d a c
    else some (.unq, push a c)
  | .quo => if c = 34 then some (.quoSeen, a) else some (.quo, push a c)
  | .quoSeen => if c = 34 then some (.quo, push a 34) else sep d a c
  | .crSeen => if c = 10 then some (.recStart, endRecord a) else none

def steps (d : Nat) : St → Acc → Str → Option (St × Acc)
  | s, a, [] => some (s, a)
  | s, a, c :: cs =>
    match step d s a c with
    | none => none
    | some (s', a') => steps d s' a' cs

/-- end of input -/
def finish (s : St) (a : Acc) : Option (List (List Str)) :=
  match s with
  | .recStart => some a.rows
  | .fieldStart | .unq | .quoSeen => some (endRecord a).rows
  | .quo | .crSeen => none

/-- the reader: `none` = malformed input -/
def csvRead (d : Nat) (input : Str) : Option (List (List Str)) :=
  match steps d .recStart ⟨[], [], []⟩ input with
  | none => none
  | some (s, a) => finish s a

end Tabula.Csv
