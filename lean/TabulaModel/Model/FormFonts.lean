import TabulaModel.Model.Reader
/-!
# Which font decodes a shown string: `text.Extractor` with Form XObjects (text/extractor.go)

`Model/Reader.lean` (C01) follows a page's content stream as long as it draws no Form
XObject. This file adds what C07 needs on top of it: the extractor's font table `e.fonts`
over the whole history of a content stream *including* `Do` — `RegisterFontsFromResources`
on the page and on every form's own `/Resources`, the auto-registration of `Tf`, the
snapshot/restore of the bindings around a form (fix 613ae5d), the font `Tf` selects carried
with the graphics state (`gs.Text.Font`, fix fa0c44f: saved and restored by `q`/`Q` and around
`Do`, used by `showText` instead of a lookup by name), the nesting limit and the Form XObject
byte budget. The font dictionaries are read by `Reader.parseFont`
(`NewType1Font` / `NewTrueTypeFont` / `NewType0Font` as far as `DecodeString` needs them),
strings are decoded by `FontDecode.decodeString`, content streams are parsed by
`Pdf.CS.csParse`. The result is the text of every fragment in show order, before the
position-based de-duplication (positions are C08's business).

Go functions followed: `NewExtractor`, `SetResourceContext`, `RegisterFontsFromPage`,
`RegisterFontsFromResources`, `RegisterFont`, `RegisterParsedFont`, `Extract`,
`ExtractFromBytes`, `processOperation` (`q Q Tf Tj TJ ' " Do`), `invokeXObject`,
`mergeResources`, `showText`, `showTextArray`; graphicsstate `Save`/`Restore`/`SetFont` and
`TextState.Font`.
Core Lean only.
-/
namespace Tabula.FormFonts
open Tabula.Pdf (Obj)
open Tabula.Reader (Str Dict Err dget)

/-- a resolved reference, with the stream dictionary kept (a Form XObject is read through
its dictionary): the object, or the stream's dictionary and the result of `Decode()` -/
inductive FVal
  | obj (o : Obj)
  | stream (dict : Dict) (dec : Option Str)
  deriving Repr

/-- object number ↦ object, as the extractor's `resolver` answers -/
abbrev FRes := Nat → Except Err FVal

/-- the same resolver as the layers of `Model/Reader.lean` see it -/
def toRes (r : FRes) : Reader.Res := fun n =>
  match r n with
  | .ok (.obj o) => .ok (.obj o)
  | .ok (.stream _ dec) => .ok (.stream dec)
  | .error e => .error e

/-- `resolveIfRef` -/
def fresolve (r : FRes) : Obj → Except Err FVal
  | .ref n _ => if n < 0 then .error .err else r n.toNat
  | o => .ok (.obj o)

/-- `e.fonts`: resource name ↦ font -/
abbrev FontMap := Str → Option FontDecode.Font

def FontMap.empty : FontMap := fun _ => none

/-- `e.fonts[name] = f` -/
def FontMap.set (m : FontMap) (name : Str) (f : FontDecode.Font) : FontMap :=
  fun k => if k = name then some f else m k

/-- the font dictionary is a `/Type0` one -/
def isType0 (res : Reader.Res) (o : Obj) : Bool :=
  match Reader.resolve res o with
  | .ok (.obj (.dict fd)) =>
    match dget fd Reader.kSubtype with
    | some (.name st) => st == Reader.kType0
    | _ => false
  | _ => false

/-- One iteration of the loop of `RegisterFontsFromResources`: the `*font.Font` registered for
a font object, as far as `DecodeString` reads it. `Reader.parseFont` (C01) with one
correction: `NewType0Font` stores `/Encoding` in `Type0Font.Encoding`, a field of its own that
shadows the embedded `Font.Encoding`; the `*font.Font` that gets registered (`t0Font.Font`)
keeps the `WinAnsiEncoding` `NewFont` preset. (Observable only for a Type0 font without
ToUnicode whose `/Encoding` is the name of a simple-font encoding.) -/
def parseFont (res : Reader.Res) (o : Obj) : Option FontDecode.Font :=
  match Reader.parseFont res o with
  | some f => if isType0 res o then some ⟨f.toUnicode, Reader.kWinAnsiEncoding, []⟩ else some f
  | none => none

/-- `e.fonts[name]` after `RegisterFontsFromResources fonts` on an empty table: the font stored
under the key itself, else (the "/"-prefixed alias) the font stored under the key without its
leading slash, provided that key does not itself start with a slash (`Reader.registered` over
the corrected `parseFont`) -/
def registered (res : Reader.Res) (fonts : Dict) (name : Str) : Option FontDecode.Font :=
  match dget fonts name with
  | some o => parseFont res o
  | none =>
    match name with
    | 47 :: k => if k.head? = some 47 then none else (dget fonts k).bind (parseFont res)
    | _ => none

/-- `RegisterFontsFromResources(resources, resolver)` on top of the bindings `m`: every font
dictionary of `/Font` that parses is stored under its key and, unless the key starts with `/`
or the dictionary has a key `"/"+key` of its own, under `"/"+key` (`registered` is the
table these assignments produce, whatever order the Go map is ranged over); every other name
keeps its binding. -/
def registerFonts (res : Reader.Res) (rd : Dict) (m : FontMap) : FontMap :=
  match Reader.fontsOf res (some rd) with
  | none => m
  | some fd => fun name =>
    match registered res fd name with
    | some f => some f
    | none => m name

/-- one iteration of the `for name, fontObj := range fonts` loop of
`RegisterFontsFromResources`: a font dictionary that parses is stored under its key and, unless
the key starts with `/` or the dictionary has a key `"/"+key` of its own, under `"/"+key` -/
def registerEntry (res : Reader.Res) (fd : Dict) (kv : Str × Obj) (m : FontMap) : FontMap :=
  match parseFont res kv.2 with
  | none => m
  | some f =>
    if kv.1.head? ≠ some 47 ∧ (dget fd (47 :: kv.1)).isNone then (m.set kv.1 f).set (47 :: kv.1) f
    else m.set kv.1 f

/-- the loop over the entries of the `/Font` dictionary in the order `order` (Go ranges over
the map in an unspecified order; `C07Fonts.register_order_free`: the result is the same for
every order, and is the table `registerFonts` uses) -/
def registerLoop (res : Reader.Res) (fd : Dict) (order : List (Str × Obj)) (m : FontMap) : FontMap :=
  order.foldl (fun m kv => registerEntry res fd kv m) m

/-- `Form` -/
def kForm : Str := [70, 111, 114, 109]
/-- `Matrix` (read for positions only) -/
def kMatrix : Str := [77, 97, 116, 114, 105, 120]

/-- `maxXObjectDepth` of `NewExtractor` -/
def maxXObjectDepth : Nat := 10
/-- `maxXObjectBytes` -/
def maxXObjectBytes : Nat := 67108864
/-- `xobjectCallCost` -/
def xobjectCallCost : Nat := 1024

/-- `mergeResources(parent, child)` for non-nil dictionaries: the child's entries replace the
parent's, except that two direct sub-dictionaries are merged key by key -/
def mergeResources (parent child : Dict) : Dict :=
  child.foldl (fun acc kv =>
    match dget parent kv.1, kv.2 with
    | some (.dict ps), .dict cs => Pdf.dictSet acc kv.1 (.dict (cs.foldl (fun a e => Pdf.dictSet a e.1 e.2) ps))
    | _, v => Pdf.dictSet acc kv.1 v) parent

/-- the part of the extractor's state that decides text -/
structure St where
  /-- `gs.Text.FontName` -/
  cur : Str := []
  /-- `gs.Text.Font`: the font `cur` was bound to when `Tf` selected it (`none` = nil: no
  `Tf` yet) -/
  sel : Option FontDecode.Font := none
  /-- the font name and font (`gs.Text`) on the graphics-state stack, innermost first -/
  stack : List (Str × Option FontDecode.Font) := []
  /-- `e.fonts` -/
  fonts : FontMap
  /-- `e.resources` (`none` = nil: `SetResourceContext` was not called) -/
  resources : Option Dict
  /-- `e.xobjectBytes` -/
  bytes : Nat := 0
  /-- the fragment texts so far -/
  out : List Str := []
  /-- `GetEncoding` could not be interpreted from the regenerated switch (never: C07
  `getencoding_total`) -/
  bad : Bool := false

/-- the font `Tf` registers for a name nothing is registered under:
`NewFont(name, "Helvetica", "Type1")` -/
def defaultFont : FontDecode.Font := Reader.defaultFont

/-- `showText`: the string decoded by the font `Tf` selected (`e.gs.Text.Font`, carried with
the graphics state), or by the font-less path when none is selected -/
def showOne (nfc : List Nat → List Nat) (st : St) (data : Str) : St :=
  match st.sel with
  | some f =>
    match FontDecode.decodeString nfc f data with
    | some s => { st with out := st.out ++ [s] }
    | none => { st with bad := true }
  | none => { st with out := st.out ++ [FontDecode.showTextNoFont nfc data] }

/-- `showText` BEFORE fix fa0c44f (kept for the history, `C07Fonts.inherited_font_pinned_counterexample`):
the font was looked up again, by the current font NAME, in `e.fonts` at every show — inside a
Form XObject whose own `/Resources` rebind that name, the form's font, not the selected one -/
def showOneOld (nfc : List Nat → List Nat) (st : St) (data : Str) : St :=
  match st.fonts st.cur with
  | some f =>
    match FontDecode.decodeString nfc f data with
    | some s => { st with out := st.out ++ [s] }
    | none => { st with bad := true }
  | none => { st with out := st.out ++ [FontDecode.showTextNoFont nfc data] }

/-- `showTextArray` -/
def showArray (nfc : List Nat → List Nat) : St → List Obj → St
  | st, [] => st
  | st, .str s :: r => showArray nfc (showOne nfc st s) r
  | st, _ :: r => showArray nfc st r

/-- the `Tf` case: `gs.SetFont(name, size)`, auto-registration of a name nothing is registered
under, then `e.gs.Text.Font = e.fonts[fontName]` — the selection is the font the name is
bound to NOW (the table is consulted once, here, and not again at the shows) -/
def setFont (st : St) (n : Str) : St :=
  let name := if n.head? = some 47 then n else 47 :: n
  match st.fonts name with
  | some f => { st with cur := name, sel := some f }
  | none => { st with cur := name, fonts := st.fonts.set name defaultFont, sel := some defaultFont }

/-- `gs.Restore()`; `none` = stack underflow -/
def restore (st : St) : Option St :=
  match st.stack with
  | [] => none
  | c :: r => some { st with cur := c.1, sel := c.2, stack := r }

/-- `strings.TrimPrefix(name, "/")` -/
def trimSlash : Str → Str
  | 47 :: r => r
  | s => s

/-- the Form XObject `Do name` would execute: its dictionary and decoded content, and the
byte count after charging it. `none`: `invokeXObject` returns before touching any state
(no XObject resources, unknown name, not a form stream, undecodable or empty content). -/
def findForm (res : FRes) (rd : Dict) (name : Str) : Option (Dict × Str) :=
  match dget rd Reader.kXObject with
  | none => none
  | some xo =>
    match fresolve res xo with
    | .ok (.obj (.dict xd)) =>
      let ref := match dget xd name with
        | some r => some r
        | none => dget xd (trimSlash name)
      match ref with
      | none => none
      | some r =>
        match fresolve res r with
        | .ok (.stream sd (some data)) =>
          match dget sd Reader.kSubtype with
          | some (.name t) => if t = kForm ∧ data ≠ [] then some (sd, data) else none
          | _ => none
        | _ => none
    | _ => none

/-- the form's own `/Resources` dictionary, if it resolves to one -/
def formResources (res : FRes) (sd : Dict) : Option Dict :=
  match dget sd Reader.kResources with
  | none => none
  | some r =>
    match fresolve res r with
    | .ok (.obj (.dict d)) => some d
    | _ => none

/-- `restoreFonts`: every binding that was in force before the form is put back; names the
form (or a `Tf` inside it) bound for the first time stay -/
def restoreFonts (outer : Option FontMap) (now : FontMap) : FontMap :=
  match outer with
  | none => now
  | some o => fun k => match o k with
    | some f => some f
    | none => now k

/-- `e.xobjectBytes` after charging a form's content and the fixed call cost -/
def charge (st : St) (data : Str) : Nat := st.bytes + data.length + xobjectCallCost

/-- the bindings inside a form: its own `/Resources` registered over the caller's -/
def formFonts (res : FRes) (sd : Dict) (m : FontMap) : FontMap :=
  match formResources res sd with
  | some d => registerFonts (toRes res) d m
  | none => m

/-- `e.resources` inside a form: the caller's merged with the form's own, if it has any -/
def formResDict (res : FRes) (sd rd : Dict) : Dict :=
  match formResources res sd with
  | some d => mergeResources rd d
  | none => rd

/-- the state in which a form's content runs: content charged, fonts registered, graphics
state saved, resources switched -/
def enterForm (res : FRes) (st : St) (rd sd : Dict) (data : Str) : St :=
  { st with bytes := charge st data, fonts := formFonts res sd st.fonts, stack := (st.cur, st.sel) :: st.stack,
            resources := some (formResDict res sd rd) }

/-- `e.gs.Restore()` with its error ignored -/
def popOrKeep (st : St) : St :=
  match restore st with
  | some s => s
  | none => st

/-- after the form's content: resources back, graphics state restored, `restoreFonts()`
(`outerFonts` is only recorded when the form has `/Resources` of its own) -/
def leaveForm (res : FRes) (sd rd : Dict) (outerFonts : FontMap) (st2 : St) : St :=
  { popOrKeep st2 with
      resources := some rd,
      fonts := restoreFonts ((formResources res sd).map fun _ => outerFonts) (popOrKeep st2).fonts }

mutual
/-- `processOperation` (text-deciding operators); the flag is "returned an error".
`fuel` = `maxXObjectDepth - xobjectDepth`. -/
def step (nfc : List Nat → List Nat) (res : FRes) : Nat → St → Pdf.CS.Operation → St × Bool
  | fuel, st, op =>
    if op.op = Reader.opq then ({ st with stack := (st.cur, st.sel) :: st.stack }, false)
    else if op.op = Reader.opQ then
      match restore st with
      | some st' => (st', false)
      | none => (st, true)
    else if op.op = Reader.opTf then
      match op.operands with
      | [.name n, sz] => if Reader.isNum sz then (setFont st n, false) else (st, false)
      | _ => (st, false)
    else if op.op = Reader.opTj ∨ op.op = Reader.opQuote then
      match op.operands with
      | [.str s] => (showOne nfc st s, false)
      | _ => (st, false)
    else if op.op = Reader.opTJ then
      match op.operands with
      | [.arr xs] => (showArray nfc st xs, false)
      | _ => (st, false)
    else if op.op = Reader.opDQuote then
      match op.operands with
      | [_, _, .str s] => (showOne nfc st s, false)
      | _ => (st, false)
    else if op.op = Reader.opDo then
      match op.operands with
      | [.name n] => (invoke nfc res fuel st n, false)
      | _ => (st, false)
    else (st, false)
/-- `invokeXObject` (its error is dropped by the caller) -/
def invoke (nfc : List Nat → List Nat) (res : FRes) : Nat → St → Str → St
  | 0, st, _ => st
  | fuel + 1, st, name =>
    match st.resources with
    | none => st
    | some rd =>
      match findForm res rd name with
      | none => st
      | some (sd, data) =>
        if charge st data > maxXObjectBytes then { st with bytes := charge st data }
        else
          leaveForm res sd rd st.fonts
            (match Pdf.CS.csParse data with
              | none => enterForm res st rd sd data
              | some ops => runForm nfc res fuel (enterForm res st rd sd data) ops)
/-- the operations of a form: an operation's error does not stop the loop -/
def runForm (nfc : List Nat → List Nat) (res : FRes) : Nat → St → List Pdf.CS.Operation → St
  | _, st, [] => st
  | fuel, st, op :: ops => runForm nfc res fuel (step nfc res fuel st op).1 ops
end

/-- `Extract`: the page's operations; the first error ends the extraction -/
def runPage (nfc : List Nat → List Nat) (res : FRes) : St → List Pdf.CS.Operation → Except Err St
  | st, [] => .ok st
  | st, op :: ops =>
    match step nfc res maxXObjectDepth st op with
    | (st', false) => runPage nfc res st' ops
    | (_, true) => .error .err

/-- the extractor as `extractTextWithFragments` sets it up for a page whose effective
resources are `pageRes` (`none`: the page has none) -/
def initial (res : FRes) (pageRes : Option Dict) : St :=
  { fonts := match pageRes with
      | some rd => registerFonts (toRes res) rd FontMap.empty
      | none => FontMap.empty,
    resources := pageRes }

/-- `RegisterFontsFromPage` + `SetResourceContext` + `ExtractFromBytes`: the text of every
fragment in show order (`VerifShownTexts`) -/
def extract (nfc : List Nat → List Nat) (res : FRes) (pageRes : Option Dict) (content : Str) :
    Except Err (List Str) :=
  match Pdf.CS.csParse content with
  | none => .error .err
  | some ops =>
    match runPage nfc res (initial res pageRes) ops with
    | .ok st => if st.bad then .error .unsupported else .ok st.out
    | .error e => .error e

end Tabula.FormFonts
