/-!
# UTF-16 decoding as coded in tabula (font/encoding.go, font/cmap.go) and the
Go runtime conversions the code relies on (`string(rune)`, `unicode/utf16.Decode`,
`strings.ToValidUTF8`). Core Lean only. Bytes, code units and scalar values are `Nat`.
-/
namespace Tabula.UTF16

/-- a Unicode scalar value -/
def IsScalar (c : Nat) : Prop := c < 0xD800 ∨ (0xE000 ≤ c ∧ c < 0x110000)

instance (c : Nat) : Decidable (IsScalar c) := by unfold IsScalar; infer_instance

/-- Go `string(rune(x))` / `Builder.WriteRune(rune(x))` for an unsigned `x`: surrogates and
values beyond U+10FFFF (incl. those that wrap negative as int32) become U+FFFD. -/
def toRune (x : Nat) : Nat := if x < 0xD800 ∨ (0xE000 ≤ x ∧ x < 0x110000) then x else 0xFFFD

def isHigh (u : Nat) : Bool := 0xD800 ≤ u && u ≤ 0xDBFF
def isLow (u : Nat) : Bool := 0xDC00 ≤ u && u ≤ 0xDFFF

/-- `0x10000 + ((uint32(hi)-0xD800)<<10 | (uint32(lo)-0xDC00))` -/
def combine (hi lo : Nat) : Nat := 0x10000 + (((hi - 0xD800) <<< 10) ||| (lo - 0xDC00))

/-- `uint16(a)<<8 | uint16(b)` -/
def be16 (a b : Nat) : Nat := (a <<< 8) ||| b

/-- code units of a big-endian byte string; an odd tail byte is paired with 0
(the `data = append(data, 0)` of `DecodeUTF16BE`). -/
def unitsBE : List Nat → List Nat
  | [] => []
  | [a] => [be16 a 0]
  | a :: b :: rest => be16 a b :: unitsBE rest

/-- little-endian: `uint16(data[i]) | uint16(data[i+1])<<8` -/
def unitsLE : List Nat → List Nat
  | [] => []
  | [a] => [be16 0 a]
  | a :: b :: rest => be16 b a :: unitsLE rest

/-- The loop shared by `DecodeUTF16BE` and `DecodeUTF16LE` (font/encoding.go): a valid
surrogate pair is combined, an unpaired high or low surrogate is skipped. -/
def decodeUnits : List Nat → List Nat
  | [] => []
  | [u] => if isHigh u then [] else if isLow u then [] else [u]
  | u :: l :: rest =>
    if isHigh u then
      if isLow l then combine u l :: decodeUnits rest
      else decodeUnits (l :: rest)
    else if isLow u then decodeUnits (l :: rest)
    else u :: decodeUnits (l :: rest)

/-- `font.DecodeUTF16BE` (result as scalar values; every element is a scalar, see
`Lemmas/UTF16.lean`, so `string(runes)` changes nothing). -/
def decodeUTF16BE (data : List Nat) : List Nat := decodeUnits (unitsBE data)

/-- `font.DecodeUTF16LE` -/
def decodeUTF16LE (data : List Nat) : List Nat := decodeUnits (unitsLE data)

/-- loop of `decodeUTF16BE` in font/cmap.go: an unpaired surrogate is written with
`WriteRune` (→ U+FFFD); a high surrogate followed by a non-low unit *consumes* that unit. -/
def cmapDecodeUnits : List Nat → List Nat
  | [] => []
  | [u] => [toRune u]
  | u :: l :: rest =>
    if isHigh u then
      if isLow l then combine u l :: cmapDecodeUnits rest
      else toRune u :: cmapDecodeUnits rest
    else toRune u :: cmapDecodeUnits (l :: rest)

/-- `decodeUTF16BE` of font/cmap.go: error on odd length. -/
def cmapDecodeUTF16BE (data : List Nat) : Option (List Nat) :=
  if data.length % 2 ≠ 0 then none else some (cmapDecodeUnits (unitsBE data))

/-- Go `unicode/utf16.Decode`: unpaired surrogates become U+FFFD (nothing is consumed). -/
def stdDecodeUnits : List Nat → List Nat
  | [] => []
  | [u] => [toRune u]
  | u :: l :: rest =>
    if isHigh u && isLow l then combine u l :: stdDecodeUnits rest
    else toRune u :: stdDecodeUnits (l :: rest)

/-! ## the harness-independent UTF-16 encoder used in the round-trip theorems -/

/-- UTF-16 code units of one scalar value -/
def encodeScalar (c : Nat) : List Nat :=
  if c < 0x10000 then [c] else [0xD800 + (c - 0x10000) / 1024, 0xDC00 + (c - 0x10000) % 1024]

def encodeUnits (s : List Nat) : List Nat := s.flatMap encodeScalar

def bytesBE (us : List Nat) : List Nat := us.flatMap fun u => [u / 256, u % 256]
def bytesLE (us : List Nat) : List Nat := us.flatMap fun u => [u % 256, u / 256]

/-! ## Go UTF-8 decoding (`utf8.DecodeRune`) and `strings.ToValidUTF8` -/

def isCont (b : Nat) : Bool := 0x80 ≤ b && b ≤ 0xBF

/-- `utf8.DecodeRuneInString`: `(rune, width)`; `(0xFFFD, 1)` for an invalid or short
sequence. The input is non-empty. The masks and shifts of the Go code (`b0&mask3<<12 |
b1&maskx<<6 | b2&maskx`) are written as the equal `%`/`*`/`+` arithmetic. -/
def decodeRune : List Nat → Nat × Nat
  | [] => (0xFFFD, 0)
  | b0 :: rest =>
    if b0 < 0x80 then (b0, 1)
    else if b0 < 0xC2 then (0xFFFD, 1)
    else if b0 < 0xE0 then
      match rest with
      | b1 :: _ => if isCont b1 then (b0 % 32 * 64 + b1 % 64, 2) else (0xFFFD, 1)
      | _ => (0xFFFD, 1)
    else if b0 < 0xF0 then
      let lo := if b0 = 0xE0 then 0xA0 else 0x80
      let hi := if b0 = 0xED then 0x9F else 0xBF
      match rest with
      | b1 :: b2 :: _ =>
        if lo ≤ b1 && b1 ≤ hi && isCont b2 then
          (b0 % 16 * 4096 + b1 % 64 * 64 + b2 % 64, 3)
        else (0xFFFD, 1)
      | _ => (0xFFFD, 1)
    else if b0 < 0xF5 then
      let lo := if b0 = 0xF0 then 0x90 else 0x80
      let hi := if b0 = 0xF4 then 0x8F else 0xBF
      match rest with
      | b1 :: b2 :: b3 :: _ =>
        if lo ≤ b1 && b1 ≤ hi && isCont b2 && isCont b3 then
          (b0 % 8 * 262144 + b1 % 64 * 4096 + b2 % 64 * 64 + b3 % 64, 4)
        else (0xFFFD, 1)
      | _ => (0xFFFD, 1)
    else (0xFFFD, 1)

/-- `strings.ToValidUTF8(s, "�")` read back as scalar values: each maximal run of
invalid bytes becomes one U+FFFD. `fuel` ≥ length. -/
def toValidAux : Nat → Bool → List Nat → List Nat
  | 0, _, _ => []
  | _, _, [] => []
  | fuel + 1, invalid, b :: rest =>
    if b < 0x80 then b :: toValidAux fuel false rest
    else
      let (r, w) := decodeRune (b :: rest)
      if w ≤ 1 then
        if invalid then toValidAux fuel true rest else 0xFFFD :: toValidAux fuel true rest
      else r :: toValidAux fuel false ((b :: rest).drop w)

def toValidUTF8 (data : List Nat) : List Nat := toValidAux data.length false data

end Tabula.UTF16
