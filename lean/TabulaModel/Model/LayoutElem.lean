import TabulaModel.Model.LayoutApi
/-!
C09, the analysis elements (`layout/analyzer.go`, `layout/heading.go`, `layout/list.go`): where
the headings and the lists of `Analyzer.Analyze` come from, as far as fragments are concerned.

* `HeadingDetector.DetectFromFragments` and `ListDetector.DetectFromFragments` detect the lines
  of the WHOLE page (`LineDetector.Detect`) and group them into paragraphs
  (`ParagraphDetector.Detect`): the page paragraphs.
* `DetectFromParagraphs` (headings): the page paragraphs `analyzeAsHeading` accepts, in order
  (`headingElems`); the decision itself (font size, bold, caps, confidence) is an input.
* `identifyListCandidates` (`candsFrom`): the page paragraphs in which `analyzeAsListItem` finds
  a bullet or a number, with their index; the list type found is an input (0 = no candidate).
* `groupIntoLists` (`listBreak`, `groupIntoLists`) is modelled as the code has it: a candidate
  continues the current list when its paragraph index follows the last one or the vertical gap
  to the last candidate is at most `MaxListGap` (2.0) average font sizes, AND its type is the
  type of the last item; runs shorter than `MinConsecutiveItems` (2) are not lists.
* `calculateListBBox` (`listBox`), `detectNesting` / `GetAllItems` (a list shows the lines of all
  its items, nested or not: `listElem`).
* `buildElementTree` = `elementTree` on these headings and lists and on the paragraphs of the
  reading order (`pageElements`, `analysisElements`): after the repair 8ee0e52 a paragraph gives
  up exactly the fragments a heading or list shows, and a heading that is a list item is left to
  the list. `pageElementsOld` / `analysisElementsOld` are the tree before the repair
  (`elementTreeOld bboxOverlaps`: suppression by box overlap), kept for the pinned
  counterexamples.

Boxes and average font sizes of paragraphs are inputs (exact rationals of the float64 values).
-/
namespace Tabula.Layout

/-- the fragment ids a paragraph (a list of lines) shows -/
def paraIds (p : List (List Frag)) : List Nat := p.flatten.map (·.id)

/-- what heading and list detection see of one page paragraph -/
structure PPar where
  ids : List Nat
  box : Box
  fs : Rat
  /-- the decision of `analyzeAsHeading` -/
  isH : Bool
  /-- the `ListType` `analyzeAsListItem` found; 0 = not a list item -/
  ty : Nat
deriving Repr

/-- `HeadingDetector.DetectFromParagraphs`: the accepted paragraphs, in order -/
def headingElems (ps : List PPar) : List Elem := (ps.filter (·.isH)).map fun p => ⟨p.box, p.ids⟩

/-- `identifyListCandidates`: the paragraphs with a list type, with their paragraph index -/
def candsFrom : Nat → List PPar → List (Nat × PPar)
  | _, [] => []
  | i, p :: r => if p.ty != 0 then (i, p) :: candsFrom (i + 1) r else candsFrom (i + 1) r

/-- `groupIntoLists`: does candidate `c` close the list being built? (`!isConsecutive || !sameType`) -/
def listBreak (maxGap : Rat) (cur : List (Nat × PPar)) (c : Nat × PPar) (_ : List (Nat × PPar)) : Bool :=
  match cur.getLast? with
  | none => false
  | some p =>
    !(c.1 == p.1 + 1 ||
        decide (absR (p.2.box.y - (c.2.box.y + c.2.box.h)) ≤ (p.2.fs + c.2.fs) / 2 * maxGap)) ||
      c.2.ty != p.2.ty

/-- `groupIntoLists`: the runs of candidates; a run shorter than `minItems` is no list -/
def groupIntoLists (maxGap : Rat) (minItems : Nat) (cs : List (Nat × PPar)) : List (List (Nat × PPar)) :=
  (segment (listBreak maxGap) cs []).filter fun g => decide (minItems ≤ g.length)

/-- one step of `calculateListBBox` -/
def unionStep (b i : Box) : Box :=
  let b1 : Box := if i.x < b.x then ⟨i.x, b.y, b.w + (b.x - i.x), b.h⟩ else b
  let b2 : Box := if i.x + i.w > b1.x + b1.w then ⟨b1.x, b1.y, i.x + i.w - b1.x, b1.h⟩ else b1
  let b3 : Box := if i.y < b2.y then ⟨b2.x, i.y, b2.w, b2.h + (b2.y - i.y)⟩ else b2
  if i.y + i.h > b3.y + b3.h then ⟨b3.x, b3.y, b3.w, i.y + i.h - b3.y⟩ else b3

/-- `calculateListBBox` -/
def listBox : List Box → Box
  | [] => ⟨0, 0, 0, 0⟩
  | b :: r => r.foldl unionStep b

/-- a list as an analysis element: the box of its items, the fragments of all its items -/
def listElem (g : List (Nat × PPar)) : Elem := ⟨listBox (g.map (·.2.box)), g.flatMap (·.2.ids)⟩

/-- `ListDetector.DetectFromParagraphs` as analysis elements -/
def listElems (maxGap : Rat) (minItems : Nat) (ps : List PPar) : List Elem :=
  (groupIntoLists maxGap minItems (candsFrom 0 ps)).map listElem

/-- `buildElementTree` (before the final reordering) on the page paragraphs `ps` and on the
paragraphs of the reading order; `rbox` = the box of what remains of a paragraph that loses
fragments (an input) -/
def pageElements (rbox : Elem → List Nat → Box) (ps : List PPar) (roPars : List Elem) : List Elem :=
  elementTree rbox (headingElems ps) (listElems 2 2 ps) roPars

/-- the same before the repair 8ee0e52 -/
def pageElementsOld (ps : List PPar) (roPars : List Elem) : List Elem :=
  elementTreeOld bboxOverlaps (headingElems ps) (listElems 2 2 ps) roPars

/-- the inputs of the model for one paragraph: `Paragraph.BBox`, `.AverageFontSize`, the heading
decision, the list type -/
structure ParInfo where
  box : Box
  fs : Rat
  isH : Bool
  ty : Nat

def mkPPar (info : List (List Frag) → ParInfo) (p : List (List Frag)) : PPar :=
  ⟨paraIds p, (info p).box, (info p).fs, (info p).isH, (info p).ty⟩

/-- the heuristics of the element tree: the paragraph breaks on the whole-page lines, what is
known of each page paragraph, the box of a reading-order paragraph -/
structure ElemHeur where
  brkPage : List (List Frag) → List Frag → List (List Frag) → Bool
  info : List (List Frag) → ParInfo
  boxP : List (List Frag) → Box
  /-- the box of what remains of a reading-order paragraph (its ids, the remaining ids) -/
  boxR : List Nat → List Nat → Box

/-- the page paragraphs heading and list detection work on -/
def pagePars (hz : Heur) (bh : BlockHeur) (eh : ElemHeur) (fs : List Frag) : List PPar :=
  (detectParagraphs eh.brkPage (analyze hz bh fs).lines).map (mkPPar eh.info)

/-- the paragraphs of the reading order as analysis elements -/
def roParElems (hz : Heur) (bh : BlockHeur) (eh : ElemHeur) (fs : List Frag) : List Elem :=
  (analyze hz bh fs).paragraphs.map fun p => ⟨eh.boxP p, paraIds p⟩

/-- `AnalysisResult.Elements` of `(*Analyzer).Analyze` (default configuration), as a multiset -/
def analysisElements (hz : Heur) (bh : BlockHeur) (eh : ElemHeur) (fs : List Frag) : List Elem :=
  pageElements (fun p rest => eh.boxR p.ids rest) (pagePars hz bh eh fs) (roParElems hz bh eh fs)

/-- `AnalysisResult.Elements` before the repair 8ee0e52 -/
def analysisElementsOld (hz : Heur) (bh : BlockHeur) (eh : ElemHeur) (fs : List Frag) : List Elem :=
  pageElementsOld (pagePars hz bh eh fs) (roParElems hz bh eh fs)

end Tabula.Layout
