import TabulaModel.Model.Detect
import TabulaModel.Model.Drm
import TabulaModel.Model.Admit
/-
Model of what `epubdoc/drm.go` makes of the CONTENT of META-INF/encryption.xml: the
declarations `encryptionXML`, `encryptedData`, `encryptionMethod`, `cipherData`,
`cipherReference` (which element and which attribute feeds which field), the two
`UnmarshalXML` methods that read the `Algorithm` and `URI` attributes, and the read +
`xml.Unmarshal` + loop of `hasEncryptedContent` — as the code is after the fix
"a namespace declaration or a foreign attribute named Algorithm / URI is not the
attribute".

Core Lean only.  External code is a parameter: `archive/zip` + `io.ReadAll` (the member's
bytes, or an error) and the TOKENISER of `encoding/xml` (`Decoder.Token`: well-formedness,
entities, namespace translation).  The model starts from the element tree the tokeniser
delivers for the first element of the file (`none` = no element, or a syntax error before
that element is closed); everything `Unmarshal` does with the tokens for these five
declarations is modelled:

* the root must have the local name `encryption` (`XMLName xml:"encryption"`), in any
  namespace; its attributes are ignored;
* every DIRECT child element with local name `EncryptedData` makes one entry, in document
  order (`[]encryptedData xml:"EncryptedData"`); any other child, text, comment or
  processing instruction is skipped, with everything inside it;
* inside an `EncryptedData`, every direct child `EncryptionMethod` is unmarshalled into
  the SAME field, one after the other: an `Algorithm` attribute overwrites the value, an
  element without one leaves it; the same for `CipherData` / `CipherReference` / `URI`;
  elements one level too deep or too high are not seen;
* an attribute counts only when it has no namespace (the XML-Encryption attributes are
  unqualified); among several the last one wins.
-/
namespace Tabula.EncXml
open Tabula.Detect Tabula.Drm Tabula.Admit

/-- `"encryption"` -/
def sEncryption : Str := [101, 110, 99, 114, 121, 112, 116, 105, 111, 110]
/-- `"EncryptedData"` -/
def sEncryptedData : Str := [69, 110, 99, 114, 121, 112, 116, 101, 100, 68, 97, 116, 97]
/-- `"EncryptionMethod"` -/
def sEncryptionMethod : Str := [69, 110, 99, 114, 121, 112, 116, 105, 111, 110, 77, 101, 116, 104, 111, 100]
/-- `"CipherData"` -/
def sCipherData : Str := [67, 105, 112, 104, 101, 114, 68, 97, 116, 97]
/-- `"CipherReference"` -/
def sCipherReference : Str := [67, 105, 112, 104, 101, 114, 82, 101, 102, 101, 114, 101, 110, 99, 101]
/-- `"Algorithm"` -/
def sAlgorithm : Str := [65, 108, 103, 111, 114, 105, 116, 104, 109]
/-- `"URI"` -/
def sURI : Str := [85, 82, 73]

/-- `xml.Attr`: `Name.Space` (`[]` for an unqualified attribute, `"xmlns"` for a namespace
declaration, the namespace URI — or the unbound prefix — otherwise), `Name.Local`, `Value` -/
structure XAttr where
  space : Str
  loc : Str
  val : Str
deriving DecidableEq, Repr

/-- what `Decoder.Token` delivers between a start element and its end element -/
inductive XNode where
  /-- an element: `Name.Local` (struct tags without a namespace match on it alone), the
  attributes in source order, the content -/
  | elem (loc : Str) (attrs : List XAttr) (kids : List XNode)
  /-- character data, comment, processing instruction, directive -/
  | other

/-- the attribute loop of the two `UnmarshalXML` methods: the LAST unqualified attribute
with local name `l`, if there is one -/
def lastAttr (l : Str) : List XAttr → Option Str
  | [] => none
  | a :: rest =>
    match lastAttr l rest with
    | some v => some v
    | none => if a.space = [] ∧ a.loc = l then some a.val else none

/-- the attribute loop of `encoding/xml` for a field tagged `xml:"l,attr"`, which the
tree had before the fix: ANY attribute with local name `l` — a namespace declaration
`xmlns:l="…"` and a foreign `p:l="…"` included —, the last one wins -/
def pinnedLastAttr (l : Str) : List XAttr → Option Str
  | [] => none
  | a :: rest =>
    match pinnedLastAttr l rest with
    | some v => some v
    | none => if a.loc = l then some a.val else none

/-- `(*encryptionMethod).UnmarshalXML` on the field's current value -/
def umMethod (cur : Str) (attrs : List XAttr) : Str := (lastAttr sAlgorithm attrs).getD cur

/-- `(*cipherReference).UnmarshalXML` on the field's current value -/
def umRef (cur : Str) (attrs : List XAttr) : Str := (lastAttr sURI attrs).getD cur

/-- unmarshalling one `CipherData` element into the field's current value: every direct
child `CipherReference`, in order -/
def umCipherData (cur : Str) : List XNode → Str
  | [] => cur
  | .elem n as _ :: rest =>
    if n = sCipherReference then umCipherData (umRef cur as) rest else umCipherData cur rest
  | .other :: rest => umCipherData cur rest

/-- unmarshalling the content of one `EncryptedData` element into a fresh `encryptedData` -/
def umEncData (cur : Entry) : List XNode → Entry
  | [] => cur
  | .elem n as ks :: rest =>
    if n = sEncryptionMethod then umEncData { cur with algorithm := umMethod cur.algorithm as } rest
    else if n = sCipherData then umEncData { cur with uri := umCipherData cur.uri ks } rest
    else umEncData cur rest
  | .other :: rest => umEncData cur rest

/-- the content of the root: one entry per direct child `EncryptedData` -/
def umRootKids : List XNode → List Entry
  | [] => []
  | .elem n _ ks :: rest =>
    if n = sEncryptedData then umEncData ⟨[], []⟩ ks :: umRootKids rest else umRootKids rest
  | .other :: rest => umRootKids rest

/-- `xml.Unmarshal(data, &enc)` on the first element of the file: `none` = the error
"expected element type <encryption>" -/
def unmarshalEnc : XNode → Option (List Entry)
  | .elem n _ ks => if n = sEncryption then some (umRootKids ks) else none
  | .other => none

/-- `umCipherData` with the attribute matching the tree had before the fix -/
def pinnedUmCipherData (cur : Str) : List XNode → Str
  | [] => cur
  | .elem n as _ :: rest =>
    if n = sCipherReference then pinnedUmCipherData ((pinnedLastAttr sURI as).getD cur) rest
    else pinnedUmCipherData cur rest
  | .other :: rest => pinnedUmCipherData cur rest

/-- `umEncData` with the attribute matching the tree had before the fix -/
def pinnedUmEncData (cur : Entry) : List XNode → Entry
  | [] => cur
  | .elem n as ks :: rest =>
    if n = sEncryptionMethod then
      pinnedUmEncData { cur with algorithm := (pinnedLastAttr sAlgorithm as).getD cur.algorithm } rest
    else if n = sCipherData then pinnedUmEncData { cur with uri := pinnedUmCipherData cur.uri ks } rest
    else pinnedUmEncData cur rest
  | .other :: rest => pinnedUmEncData cur rest

/-- what reading and tokenising META-INF/encryption.xml gives: `none` = `f.Open` /
`io.ReadAll` failed, the file holds no element, or the tokeniser reports an error before
the first element is closed; `some root` = that element -/
abbrev EncDoc := Option XNode

/-- the parse of `hasEncryptedContent`: the entries, or `none` = error -/
def encEntries (d : EncDoc) : Option (List Entry) := d.bind unmarshalEnc

/-- `epubdoc.hasEncryptedContent(f)`: `none` = error (the caller refuses) -/
def hasEncryptedContentDoc (d : EncDoc) : Option Bool := (encEntries d).map hasEncryptedContent

/-! ### the archive with the encryption metadata as a tree -/

/-- one archive member as sniffer, mimetype check and DRM gate see it, with the encryption
metadata BEFORE `xml.Unmarshal` (compare `Admit.AMember`, where it is the parsed entries) -/
structure XMember where
  name : Str
  data : Option Str := none
  doc : EncDoc := none

/-- the member with its encryption metadata unmarshalled -/
def XMember.toAMember (m : XMember) : AMember :=
  { name := m.name, data := m.data, enc := encEntries m.doc }

/-- `epubdoc.checkForDRM(zr)` on the archive -/
def archiveDRMX (ms : List XMember) : Bool := archiveDRM (ms.map XMember.toAMember)

end Tabula.EncXml
