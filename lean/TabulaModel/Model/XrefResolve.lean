import TabulaModel.Model.XrefCached
/-!
# `Resolve` / `ResolveDeep` of the reader and of the resolver package, and the public API as
one state machine

* reader/reader.go `Resolve` (`resolveR`), `ResolveDeep` / `resolveDeep` (`rdeep`: `done`,
  `active`, `maxResolveDepth`, dictionary entries in key order), `ResolveReference`;
* resolver/resolver.go `resolve` (`resolveP`: `visited`, `done` with `need`, `reach`,
  `currentDepth`, `maxDepth`), `Resolve`, `ResolveDeep`, `Reset`, `ResolveDict`,
  `ResolveArray`, `ResolveReference`, `ResolveReferenceDeep`, `GetObject`,
  `GetObjectResolved`, `GetObjectResolvedDeep` (`Api.step`);
* the whole public surface on one reader and one long-lived resolver (`Api.Op`, `Api.run`).

Everything is generic in the lookup `get : Int → σ → Option PVal × σ` (`σ` = the reader's
state), so the same text is the code on the cached reader (`XrefC.getTop`) and the
specification on a stateless lookup.

Values: `DObj` is `core.Object` as the API hands it around - the parser's objects plus
`*core.Stream` (a deep result can hold streams inside arrays and dictionaries). A Go map has
no order: a resolved dictionary is returned with its entries in key order (`sortKV`).
`resolveP` ranges over a dictionary in Go's map order, which is not a function of anything:
the order is the parameter `ord` (any function that permutes the entries; the answer does not
depend on it - `Props/C04Resolve.lean`).
Core Lean only.
-/
namespace Tabula.XrefR
open Tabula.Pdf (Obj)
open Tabula.Reader (Dict PVal)
open Tabula.XrefFile (Str)

/-- `core.Object` incl. `*core.Stream` -/
inductive DObj
  | null
  | bool (b : Bool)
  | int (i : Int)
  | real (neg : Bool) (mant scale : Nat)
  | str (s : Str)
  | name (s : Str)
  | arr (xs : List DObj)
  | dict (kv : List (Str × DObj))
  | ref (num gen : Int)
  | stream (kv : List (Str × DObj)) (data : Str)
  deriving Repr

mutual
def ofObj : Obj → DObj
  | .null => .null
  | .bool b => .bool b
  | .int i => .int i
  | .real n m s => .real n m s
  | .str s => .str s
  | .name s => .name s
  | .arr xs => .arr (ofObjs xs)
  | .dict kv => .dict (ofKVs kv)
  | .ref n g => .ref n g
def ofObjs : List Obj → List DObj
  | [] => []
  | x :: xs => ofObj x :: ofObjs xs
def ofKVs : List (Str × Obj) → List (Str × DObj)
  | [] => []
  | (k, v) :: r => (k, ofObj v) :: ofKVs r
end

def ofPVal : PVal → DObj
  | .obj o => ofObj o
  | .stream kv data => .stream (ofKVs kv) data

abbrev Ref := Int × Int

/-- `sort.Strings` compares byte strings -/
def strLt : Str → Str → Bool
  | [], [] => false
  | [], _ :: _ => true
  | _ :: _, [] => false
  | a :: as, b :: bs => if a < b then true else if b < a then false else strLt as bs

def insertKV (p : Str × DObj) : List (Str × DObj) → List (Str × DObj)
  | [] => [p]
  | q :: r => if strLt p.1 q.1 then p :: q :: r else q :: insertKV p r

/-- the entries of a dictionary in key order -/
def sortKV : List (Str × DObj) → List (Str × DObj)
  | [] => []
  | p :: r => insertKV p (sortKV r)

/-- a loop over the elements of a container that threads `done` and the reader's state and
stops at the first error -/
def foldRes {δ σ : Type} (f : DObj → δ → σ → Option (DObj × δ) × σ) :
    List DObj → δ → σ → Option (List DObj × δ) × σ
  | [], d, s => (some ([], d), s)
  | e :: es, d, s =>
    match f e d s with
    | (none, s') => (none, s')
    | (some (e', d'), s') =>
      match foldRes f es d' s' with
      | (none, s'') => (none, s'')
      | (some (es', d''), s'') => (some (e' :: es', d''), s'')

/-! ## reader/reader.go -/

/-- `maxResolveDepth` -/
def maxResolveDepth : Nat := 2000

/-- `(*Reader).Resolve` -/
def resolveR {σ : Type} (get : Int → σ → Option PVal × σ) (obj : DObj) (s : σ) : Option DObj × σ :=
  match obj with
  | .ref n _ => let r := get n s; (r.1.map ofPVal, r.2)
  | o => (some o, s)

/-- `(*Reader).resolveDeep(obj, done, active, depth)`. `active` is only ever extended for the
duration of a nested call (`active[ref] = true` … `delete(active, ref)`, on a reference that was
not active): it is an argument. `fuel`: one per level (`maxResolveDepth + 2 - depth` is never
used up). -/
def rdeep {σ : Type} (get : Int → σ → Option PVal × σ) :
    Nat → List Ref → DObj → Nat → List (Ref × DObj) → σ → Option (DObj × List (Ref × DObj)) × σ
  | 0, _, _, _, _, s => (none, s)
  | fuel + 1, active, obj, depth, done, s =>
    if depth > maxResolveDepth then (none, s)
    else
      match obj with
      | .ref n g =>
        match done.lookup (n, g) with
        | some res => (some (res, done), s)
        | none =>
          if active.contains (n, g) then (some (.ref n g, done), s)
          else
            match get n s with
            | (none, s1) => (none, s1)
            | (some target, s1) =>
              match rdeep get fuel ((n, g) :: active) (ofPVal target) (depth + 1) done s1 with
              | (none, s2) => (none, s2)
              | (some (res, done2), s2) => (some (res, ((n, g), res) :: done2), s2)
      | .arr xs =>
        match foldRes (fun e d s => rdeep get fuel active e (depth + 1) d s) xs done s with
        | (none, s') => (none, s')
        | (some (ys, d'), s') => (some (.arr ys, d'), s')
      | .dict kv =>
        let skv := sortKV kv
        match foldRes (fun e d s => rdeep get fuel active e (depth + 1) d s) (skv.map Prod.snd) done s with
        | (none, s') => (none, s')
        | (some (ys, d'), s') => (some (.dict ((skv.map Prod.fst).zip ys), d'), s')
      | o => (some (o, done), s)

/-- `(*Reader).ResolveDeep(obj)` -/
def resolveDeepR {σ : Type} (get : Int → σ → Option PVal × σ) (obj : DObj) (s : σ) : Option DObj × σ :=
  let r := rdeep get (maxResolveDepth + 2) [] obj 0 [] s
  (r.1.map Prod.fst, r.2)

/-! ## resolver/resolver.go -/

/-- the fields of `ObjectResolver` that change: `visited`, `done` with `need`, `reach`,
`currentDepth` -/
structure PSt where
  visited : List Int := []
  done : List (Ref × (DObj × Nat)) := []
  reach : Nat := 0
  depth : Nat := 0

/-- a loop over the elements of a container that threads the resolver's and the reader's state
and stops at the first error -/
def foldP {σ : Type} (f : DObj → PSt → σ → Option DObj × PSt × σ) :
    List DObj → PSt → σ → Option (List DObj) × PSt × σ
  | [], p, s => (some [], p, s)
  | e :: es, p, s =>
    match f e p s with
    | (none, p', s') => (none, p', s')
    | (some e', p', s') =>
      match foldP f es p' s' with
      | (none, p'', s'') => (none, p'', s'')
      | (some es', p'', s'') => (some (e' :: es'), p'', s'')

/-- `r.visited[n] = true` … `defer delete(r.visited, n)` -/
def unmark (n : Int) (q : PSt) : PSt := { q with visited := q.visited.erase n }

/-- `(*ObjectResolver).resolve(obj, deep)`. `maxDepth`: `WithMaxDepth` (default 100); `ord`:
the order in which Go ranges over the map. State: the resolver's (`PSt`) and the reader's
(`σ`), both returned on errors too. `fuel`: one per level (`maxDepth + 1 - currentDepth` is
never used up). -/
def resolveP {σ : Type} (get : Int → σ → Option PVal × σ) (maxDepth : Nat)
    (ord : List (Str × DObj) → List (Str × DObj)) (deep : Bool) :
    Nat → DObj → PSt → σ → Option DObj × PSt × σ
  | 0, _, p, s => (none, p, s)
  | fuel + 1, obj, p0, s =>
    -- if r.currentDepth == 0 { fresh maps; r.reach = 0 }
    let pr : PSt := if p0.depth = 0 then { visited := [], done := [], reach := 0, depth := 0 } else p0
    if pr.depth ≥ maxDepth then (none, pr, s)
    else
      let p : PSt := { pr with reach := max pr.reach pr.depth }
      -- one level down: r.currentDepth++; r.resolve(x, deep); r.currentDepth--
      let down := fun (e : DObj) (q : PSt) (s : σ) =>
        let r := resolveP get maxDepth ord deep fuel e { q with depth := q.depth + 1 } s
        (r.1, { r.2.1 with depth := r.2.1.depth - 1 }, r.2.2)
      match obj with
      | .ref n g =>
        match (if deep then p.done.lookup (n, g) else none) with
        | some (res, need) =>
          -- a shared result is counted as the resolution it stands for
          if p.depth + need ≥ maxDepth then (none, p, s)
          else (some res, { p with reach := max p.reach (p.depth + need) }, s)
        | none =>
          if p.visited.contains n then (none, p, s)
          else
            let p1 : PSt := { p with visited := n :: p.visited }
            match get n s with
            | (none, s1) => (none, unmark n p1, s1)
            | (some target, s1) =>
              if deep then
                -- outer := r.reach; r.reach = r.currentDepth
                let r := down (ofPVal target) { p1 with reach := p1.depth } s1
                let need := r.2.1.reach - r.2.1.depth
                let p3 : PSt := { r.2.1 with reach := max r.2.1.reach p1.reach }
                match r.1 with
                | none => (none, unmark n p3, r.2.2)
                | some res => (some res, unmark n { p3 with done := ((n, g), (res, need)) :: p3.done }, r.2.2)
              else (some (ofPVal target), unmark n p1, s1)
      | .dict kv =>
        if deep then
          let okv := ord kv
          let r := foldP down (okv.map Prod.snd) p s
          (r.1.map fun ys => .dict (sortKV ((okv.map Prod.fst).zip ys)), r.2)
        else (some obj, p, s)
      | .arr xs =>
        if deep then
          let r := foldP down xs p s
          (r.1.map .arr, r.2)
        else (some obj, p, s)
      | .stream kv data =>
        if deep then
          match down (.dict kv) p s with
          | (some (.dict kv'), q, s') => (some (.stream kv' data), q, s')
          | (_, q, s') => (none, q, s')
        else (some obj, p, s)
      | o => (some o, p, s)

/-! ### the resolver as it stood between 8b68946 and a2528c3: a shared result is handed out
without looking at the depth limit. Kept for
`C04R.resolver_shared_result_order_dependence_pinned_counterexample`. -/
namespace Old

def resolveP {σ : Type} (get : Int → σ → Option PVal × σ) (maxDepth : Nat)
    (ord : List (Str × DObj) → List (Str × DObj)) (deep : Bool) :
    Nat → DObj → PSt → σ → Option DObj × PSt × σ
  | 0, _, p, s => (none, p, s)
  | fuel + 1, obj, p0, s =>
    let p : PSt := if p0.depth = 0 then { visited := [], done := [], reach := 0, depth := 0 } else p0
    if p.depth ≥ maxDepth then (none, p, s)
    else
      let down := fun (e : DObj) (q : PSt) (s : σ) =>
        let r := resolveP get maxDepth ord deep fuel e { q with depth := q.depth + 1 } s
        (r.1, { r.2.1 with depth := r.2.1.depth - 1 }, r.2.2)
      match obj with
      | .ref n g =>
        match (if deep then p.done.lookup (n, g) else none) with
        | some (res, _) => (some res, p, s)
        | none =>
          if p.visited.contains n then (none, p, s)
          else
            let p1 : PSt := { p with visited := n :: p.visited }
            match get n s with
            | (none, s1) => (none, unmark n p1, s1)
            | (some target, s1) =>
              if deep then
                let r := down (ofPVal target) p1 s1
                match r.1 with
                | none => (none, unmark n r.2.1, r.2.2)
                | some res => (some res, unmark n { r.2.1 with done := ((n, g), (res, 0)) :: r.2.1.done }, r.2.2)
              else (some (ofPVal target), unmark n p1, s1)
      | .dict kv =>
        if deep then
          let okv := ord kv
          let r := foldP down (okv.map Prod.snd) p s
          (r.1.map fun ys => .dict (sortKV ((okv.map Prod.fst).zip ys)), r.2)
        else (some obj, p, s)
      | .arr xs =>
        if deep then
          let r := foldP down xs p s
          (r.1.map .arr, r.2)
        else (some obj, p, s)
      | .stream kv data =>
        if deep then
          match down (.dict kv) p s with
          | (some (.dict kv'), q, s') => (some (.stream kv' data), q, s')
          | (_, q, s') => (none, q, s')
        else (some obj, p, s)
      | o => (some o, p, s)

end Old

/-- `(*ObjectResolver).Reset` -/
def resetP (_p : PSt) : PSt := {}

/-! ## the public API on one reader and one long-lived resolver -/
namespace Api

/-- the calls a program can make -/
inductive Op
  | clear                         -- Reader.ClearCache()
  | get (n : Int)                 -- Reader.GetObject(n)
  | resolve (n g : Int)           -- Reader.Resolve(n g R)
  | deep (n g : Int)              -- Reader.ResolveDeep(n g R)
  | deepObj (n : Int)             -- Reader.ResolveDeep(Reader.GetObject(n))
  | pResolve (n g : Int)          -- resolver.Resolve(n g R)
  | pDeep (n g : Int)             -- resolver.ResolveDeep(n g R)
  | pDeepObj (n : Int)            -- resolver.ResolveDeep(Reader.GetObject(n))
  | pRef (n g : Int)              -- resolver.ResolveReference(n g R)
  | pRefDeep (n g : Int)          -- resolver.ResolveReferenceDeep(n g R)
  | pGet (n : Int)                -- resolver.GetObject(n)
  | pGetResolved (n : Int)        -- resolver.GetObjectResolved(n)
  | pGetDeep (n : Int)            -- resolver.GetObjectResolvedDeep(n)
  | pCont (n : Int)               -- resolver.ResolveDict / ResolveArray (Reader.GetObject(n))
  | pReset                        -- resolver.Reset()
  deriving Repr

/-- the reader's state and the resolver's -/
structure St (σ : Type) where
  rd : σ
  res : PSt := {}

/-- one call: `none` = the call has no answer (`ClearCache`, `Reset`), `some none` = an error.
`clear`: `ClearCache` on the reader's state. -/
def step {σ : Type} (get : Int → σ → Option PVal × σ) (clear : σ → σ) (maxDepth : Nat)
    (ord : List (Str × DObj) → List (Str × DObj)) (st : St σ) : Op → Option (Option DObj) × St σ
  | .clear => (none, { st with rd := clear st.rd })
  | .get n => let r := get n st.rd; (some (r.1.map ofPVal), { st with rd := r.2 })
  | .resolve n g => let r := resolveR get (.ref n g) st.rd; (some r.1, { st with rd := r.2 })
  | .deep n g => let r := resolveDeepR get (.ref n g) st.rd; (some r.1, { st with rd := r.2 })
  | .deepObj n =>
    match get n st.rd with
    | (none, s1) => (some none, { st with rd := s1 })
    | (some v, s1) => let r := resolveDeepR get (ofPVal v) s1; (some r.1, { st with rd := r.2 })
  | .pResolve n g =>
    let r := resolveP get maxDepth ord false (maxDepth + 1) (.ref n g) st.res st.rd
    (some r.1, { rd := r.2.2, res := r.2.1 })
  | .pDeep n g =>
    let r := resolveP get maxDepth ord true (maxDepth + 1) (.ref n g) st.res st.rd
    (some r.1, { rd := r.2.2, res := r.2.1 })
  | .pDeepObj n =>
    match get n st.rd with
    | (none, s1) => (some none, { st with rd := s1 })
    | (some v, s1) =>
      let r := resolveP get maxDepth ord true (maxDepth + 1) (ofPVal v) st.res s1
      (some r.1, { rd := r.2.2, res := r.2.1 })
  | .pRef n _ => let r := get n st.rd; (some (r.1.map ofPVal), { rd := r.2, res := resetP st.res })
  | .pRefDeep n g =>
    let r := resolveP get maxDepth ord true (maxDepth + 1) (.ref n g) st.res st.rd
    (some r.1, { rd := r.2.2, res := resetP r.2.1 })
  | .pGet n => let r := get n st.rd; (some (r.1.map ofPVal), { st with rd := r.2 })
  | .pGetResolved n =>
    match get n st.rd with
    | (none, s1) => (some none, { st with rd := s1 })
    | (some v, s1) =>
      let r := resolveP get maxDepth ord false (maxDepth + 1) (ofPVal v) st.res s1
      (some r.1, { rd := r.2.2, res := resetP r.2.1 })
  | .pGetDeep n =>
    match get n st.rd with
    | (none, s1) => (some none, { st with rd := s1 })
    | (some v, s1) =>
      let r := resolveP get maxDepth ord true (maxDepth + 1) (ofPVal v) st.res s1
      (some r.1, { rd := r.2.2, res := resetP r.2.1 })
  | .pCont n =>
    match get n st.rd with
    | (none, s1) => (some none, { st with rd := s1 })
    | (some v, s1) =>
      match ofPVal v with
      | .dict kv =>
        let r := resolveP get maxDepth ord true (maxDepth + 1) (.dict kv) st.res s1
        (some r.1, { rd := r.2.2, res := resetP r.2.1 })
      | .arr xs =>
        let r := resolveP get maxDepth ord true (maxDepth + 1) (.arr xs) st.res s1
        (some r.1, { rd := r.2.2, res := resetP r.2.1 })
      | _ => (some none, { st with rd := s1 })
  | .pReset => (none, { st with res := resetP st.res })

/-- a sequence of calls: the answers -/
def run {σ : Type} (get : Int → σ → Option PVal × σ) (clear : σ → σ) (maxDepth : Nat)
    (ord : List (Str × DObj) → List (Str × DObj)) : St σ → List Op → List (Option (Option DObj))
  | _, [] => []
  | st, op :: ops =>
    (step get clear maxDepth ord st op).1 :: run get clear maxDepth ord (step get clear maxDepth ord st op).2 ops

/-- `reader.Open(file)`, one `resolver.NewResolver(reader, WithMaxDepth(maxDepth))`, and a
sequence of calls: the answers (an error when the file does not open) -/
def session (ext : Reader.Ext) (keep : Bool) (file : Str) (maxDepth : Nat)
    (ord : List (Str × DObj) → List (Str × DObj)) (ops : List Op) :
    Except XrefFile.XErr (List (Option (Option DObj))) :=
  match XrefFile.openFile ext file with
  | .error e => .error e
  | .ok x => .ok (run (XrefC.getTop ext keep file x) XrefC.clearC maxDepth ord { rd := ({} : XrefC.RSt) } ops)

end Api

end Tabula.XrefR
