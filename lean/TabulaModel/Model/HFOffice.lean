import TabulaModel.Model.HeaderFooter
/-
Model of the loops through which DOCX, ODT and PPTX documents lose their headers and footers
(`docx/reader.go`, `odt/reader.go`: `TextWithOptions`, `MarkdownWithOptions`; `pptx/reader.go`:
`TextWithOptions`), on top of the decision functions of `Model/HeaderFooter.lean`
(`shouldExcludeParagraph`, `isFooterPlaceholder`, `isHeaderPlaceholder`).  Core Lean only.

Restricted to what C11 is about: body elements are plain paragraphs (no list items, no headings —
their prefixes and counters are C15/C16's subject) and tables whose rendered text is given.
-/
namespace Tabula.HFOffice
open Tabula.HF

/-- a body element of a DOCX/ODT document in document order (`parsedElement`): a paragraph with
its text, or a table with what `Table.ToText()` / `ToMarkdown()` renders for it -/
inductive Elem where
  | para (text : Str)
  | table (rendered : Str)
deriving DecidableEq, Repr

/-- the header/footer part texts of the document and the two flags of `ExtractOptions` -/
structure Parts where
  headers : List Str
  footers : List Str
  exH : Bool
  exF : Bool
deriving DecidableEq, Repr

/-- `r.shouldExcludeParagraph(elem.Paragraph.Text, opts)`; tables are never asked -/
def excluded (ps : Parts) : Elem → Bool
  | .para t => shouldExcludeParagraph t ps.headers ps.footers ps.exH ps.exF
  | .table _ => false

/-- the elements the writers go on with (`continue` on an excluded paragraph) -/
def keptElems (ps : Parts) (es : List Elem) : List Elem := es.filter fun e => !excluded ps e

/-- what one element writes in `TextWithOptions` (plain paragraph: `para.Text`) -/
def elemText (ps : Parts) : Elem → Str
  | .para t => if shouldExcludeParagraph t ps.headers ps.footers ps.exH ps.exF then [] else t
  | .table t => t

/-- `strings.Join(parts, "\n")` -/
def joinNL : List Str → Str
  | [] => []
  | [a] => a
  | a :: b :: rest => a ++ [10] ++ joinNL (b :: rest)

/-- the `r.elements` loop of `TextWithOptions` (docx and odt): `"\n"` is written before every
element but the first and BEFORE the exclusion test, so an excluded paragraph leaves its line
empty -/
def officeText (ps : Parts) (es : List Elem) : Str := joinNL (es.map (elemText ps))

/-- what one element writes in `MarkdownWithOptions` (plain paragraphs: `Text + "\n\n"` unless
empty; tables: `ToMarkdown() + "\n"`); excluded paragraphs are skipped before anything is written -/
def elemMarkdown : Elem → Str
  | .para t => if t.isEmpty then [] else t ++ [10, 10]
  | .table t => t ++ [10]

def dropNL (s : Str) : Str := s.dropWhile (· == 10)

/-- `strings.Trim(s, "\n")` -/
def trimNL (s : Str) : Str := (dropNL (dropNL s).reverse).reverse

/-- `MarkdownWithOptions` on plain paragraphs and tables -/
def officeMarkdown (ps : Parts) (es : List Elem) : Str :=
  trimNL ((keptElems ps es).map elemMarkdown).flatten

/-! ## PPTX -/

/-- `pptx.TextBlock` reduced to what `TextWithOptions` reads -/
structure Block where
  isTitle : Bool
  placeholder : Str
  paras : List Str          -- paragraph texts (no bullets)
deriving DecidableEq, Repr

/-- `pptx.Slide` without tables -/
structure Slide where
  title : Str
  content : List Block
  notes : Str
deriving DecidableEq, Repr

/-- the three `continue`s of the content loop (`IncludeTitles` is on in `Extractor.Text`) -/
def blockKept (exH exF : Bool) (b : Block) : Bool :=
  !b.isTitle && !(exF && isFooterPlaceholder b.placeholder) && !(exH && isHeaderPlaceholder b.placeholder)

def blockText (b : Block) : Str := (b.paras.map fun p => if p.isEmpty then [] else p ++ [10]).flatten

/-- "\n[Notes: " … "]\n" -/
def notesText (n : Str) : Str :=
  if n.isEmpty then [] else [10, 91, 78, 111, 116, 101, 115, 58, 32] ++ n ++ [93, 10]

/-- one slide of `TextWithOptions{IncludeNotes: true, IncludeTitles: true}` -/
def slideText (exH exF : Bool) (s : Slide) : Str :=
  (if s.title.isEmpty then [] else s.title ++ [10, 10]) ++
    ((s.content.filter (blockKept exH exF)).map blockText).flatten ++ notesText s.notes

/-- `strings.Join(parts, "\n\n")` -/
def joinNL2 : List Str → Str
  | [] => []
  | [a] => a
  | a :: b :: rest => a ++ [10, 10] ++ joinNL2 (b :: rest)

/-- `pptx.(*Reader).TextWithOptions` as `Extractor.Text` calls it -/
def pptxText (exH exF : Bool) (slides : List Slide) : Str := joinNL2 (slides.map (slideText exH exF))

end Tabula.HFOffice
