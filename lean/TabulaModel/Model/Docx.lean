import TabulaModel.Model.XmlTree
/-
Model of tabula's DOCX reader (docx/reader.go, document.go, tables.go,
resolver.go) as it is after the C16 fixes and the resource bounds of the C02 repairs
(maxInlineDepth, maxTableGridCells, maxCellSpan, maxListLevel): element order, run text,
style -> heading level, list level, table grid. Core Lean only.

Block-level containers (`w:sdt` / `w:sdtContent`, `w:customXml`) of the body and of a table
cell are looked through by both passes (`decodeBlocks`, `isBlockContainer`; `blocksOfList`,
`walkNode` below); the passes as they were before that repair are kept at the end
(`walkNodeOld`, `parseBodyElementsInOrderOld`, `parseCellOld`, `elementsOld`).

Inputs are the authored trees of word/document.xml and word/styles.xml; the
XML tokenisation / struct mapping of encoding/xml is the parameter described in
XmlTree.lean (fields match by local name; slices keep source order).
-/
namespace Tabula.Docx
open Tabula.Xml

/-! ### names -/
def sP : Str := [112]
def sR : Str := [114]
def sT : Str := [116]
def sTbl : Str := [116, 98, 108]
def sTr : Str := [116, 114]
def sTc : Str := [116, 99]
def sBody : Str := [98, 111, 100, 121]
def sPPr : Str := [112, 80, 114]
def sRPr : Str := [114, 80, 114]
def sTcPr : Str := [116, 99, 80, 114]
def sVal : Str := [118, 97, 108]
def sPStyle : Str := [112, 83, 116, 121, 108, 101]
def sNumPr : Str := [110, 117, 109, 80, 114]
def sIlvl : Str := [105, 108, 118, 108]
def sNumId : Str := [110, 117, 109, 73, 100]
def sOutlineLvl : Str := [111, 117, 116, 108, 105, 110, 101, 76, 118, 108]
def sTab : Str := [116, 97, 98]
def sBr : Str := [98, 114]
def sSym : Str := [115, 121, 109]
def sChar : Str := [99, 104, 97, 114]
def sType : Str := [116, 121, 112, 101]
def sPage : Str := [112, 97, 103, 101]
def sDrawing : Str := [100, 114, 97, 119, 105, 110, 103]
def sAlt : Str := [65, 108, 116, 101, 114, 110, 97, 116, 101, 67, 111, 110, 116, 101, 110, 116]
def sFallback : Str := [70, 97, 108, 108, 98, 97, 99, 107]
def sGridSpan : Str := [103, 114, 105, 100, 83, 112, 97, 110]
def sVMerge : Str := [118, 77, 101, 114, 103, 101]
def sContinue : Str := [99, 111, 110, 116, 105, 110, 117, 101]
def sStyle : Str := [115, 116, 121, 108, 101]
def sStyleId : Str := [115, 116, 121, 108, 101, 73, 100]
def sName : Str := [110, 97, 109, 101]
def sBasedOn : Str := [98, 97, 115, 101, 100, 79, 110]
def sB : Str := [98]
def sSz : Str := [115, 122]
def sFalse : Str := [102, 97, 108, 115, 101]
def sDocDefaults : Str := [100, 111, 99, 68, 101, 102, 97, 117, 108, 116, 115]
def sRPrDefault : Str := [114, 80, 114, 68, 101, 102, 97, 117, 108, 116]
def sHeading : Str := [104, 101, 97, 100, 105, 110, 103]
def sTitle : Str := [116, 105, 116, 108, 101]
def sSubtitle : Str := [115, 117, 98, 116, 105, 116, 108, 101]

/-- local names of the inline containers `paragraphXML.decodeContent` descends into -/
def containers : List Str :=
  [[104, 121, 112, 101, 114, 108, 105, 110, 107],           -- hyperlink
   [105, 110, 115],                                          -- ins
   [109, 111, 118, 101, 84, 111],                            -- moveTo
   [115, 100, 116],                                          -- sdt
   [115, 100, 116, 67, 111, 110, 116, 101, 110, 116],        -- sdtContent
   [115, 109, 97, 114, 116, 84, 97, 103],                    -- smartTag
   [102, 108, 100, 83, 105, 109, 112, 108, 101]]             -- fldSimple

/-- local names of the block-level containers `decodeBlocks` descends into and the second
pass looks through (`isBlockContainer`, docx/document.go): a content control and its content
element, a custom XML element -/
def blockContainers : List Str :=
  [[115, 100, 116],                                          -- sdt
   [115, 100, 116, 67, 111, 110, 116, 101, 110, 116],        -- sdtContent
   [99, 117, 115, 116, 111, 109, 88, 109, 108]]              -- customXml

/-! ### decodeBlocks: the block-level children of the body / of a table cell -/
mutual
/-- what one child of the body (of a cell, of a block container) contributes to the block
level: the block-level children of its content if it is a block container (`w:sdt`,
`w:sdtContent`, `w:customXml` - the container is transparent), itself if it is any other
element (it is offered to the `block` callback of `decodeBlocks`, which decodes it - `w:p`,
`w:tbl`, `w:tcPr` - or has it skipped), nothing if it is character data -/
def blocksOfNode : Node → List Node
  | .text _ => []
  | .elem tag attrs kids =>
    if blockContainers.contains (localName tag) then blocksOfList kids
    else [.elem tag attrs kids]
/-- the block level of a list of children: document order, containers looked through -/
def blocksOfList : List Node → List Node
  | [] => []
  | n :: rest => blocksOfNode n ++ blocksOfList rest
end

mutual
/-- how deep the block containers of a child nest (anything but a container counts 0; what a
`w:p`, a `w:tbl` or a skipped element holds is not `decodeBlocks`'s business) -/
def blockNestNode : Node → Nat
  | .text _ => 0
  | .elem tag _ kids =>
    if blockContainers.contains (localName tag) then blockNestList kids + 1 else 0
def blockNestList : List Node → Nat
  | [] => 0
  | n :: rest => max (blockNestNode n) (blockNestList rest)
end

/-! ### paragraphXML.UnmarshalXML / decodeContent: runs in document order -/
mutual
/-- the runs a paragraph child contributes: itself if it is a `w:r`, the runs inside it
if it is an inline container, nothing otherwise (`d.Skip()`) -/
def runsOfNode : Node → List Node
  | .text _ => []
  | .elem tag attrs kids =>
    if localName tag == sR then [.elem tag attrs kids]
    else if containers.contains (localName tag) then runsOfList kids
    else []
def runsOfList : List Node → List Node
  | [] => []
  | n :: rest => runsOfNode n ++ runsOfList rest
end

/-! ### the depth limit of `decodeContent` (`maxInlineDepth`) -/

/-- `maxInlineDepth` (docx/document.go): how deep inline containers may nest inside a paragraph -/
def maxInlineDepth : Nat := 10000

mutual
/-- `paragraphXML.decodeContent(d, depth)` on one child, with the error: a `w:r` is decoded
(`DecodeElement`, no recursion of `decodeContent`), an inline container is entered with
`depth+1` - and the callee's first statement `if depth > maxInlineDepth { return error }`
refuses it when `depth+1 > 10000` -, anything else is skipped. `none` = the error "inline
containers nested deeper than 10000 levels", which `xml.Unmarshal` hands on. -/
def decodeNode (depth : Nat) : Node → Option (List Node)
  | .text _ => some []
  | .elem tag attrs kids =>
    if localName tag == sR then some [.elem tag attrs kids]
    else if containers.contains (localName tag) then
      (if depth + 1 > maxInlineDepth then none else decodeList (depth + 1) kids)
    else some []
def decodeList (depth : Nat) : List Node → Option (List Node)
  | [] => some []
  | n :: rest =>
    match decodeNode depth n with
    | none => none
    | some a =>
      match decodeList depth rest with
      | none => none
      | some b => some (a ++ b)
end

mutual
/-- how deep the inline containers of a paragraph child nest (a run, and anything that is
skipped, counts 0; a container one more than its content) -/
def nestNode : Node → Nat
  | .text _ => 0
  | .elem tag _ kids =>
    if localName tag == sR then 0
    else if containers.contains (localName tag) then nestList kids + 1
    else 0
def nestList : List Node → Nat
  | [] => 0
  | n :: rest => max (nestNode n) (nestList rest)
end

mutual
/-- the deepest `depth` argument `decodeContent` is entered with below a child (the refused
entry included): the recursion depth the decoder reaches -/
def reachNode (depth : Nat) : Node → Nat
  | .text _ => depth
  | .elem tag _ kids =>
    if localName tag == sR then depth
    else if containers.contains (localName tag) then
      (if depth + 1 > maxInlineDepth then depth + 1 else reachList (depth + 1) kids)
    else depth
def reachList (depth : Nat) : List Node → Nat
  | [] => depth
  | n :: rest => max (reachNode depth n) (reachList depth rest)
end

/-- `paragraphXML.UnmarshalXML` succeeds on the paragraph -/
def paraDecodes (p : Node) : Bool := (decodeList 0 p.kids).isSome

mutual
/-- `decodeBlocks(d, depth, block)` on one child, with the depth error: a block container is
entered with `depth+1` - and the callee's first statement `if depth > maxInlineDepth { return
error }` refuses it when `depth+1 > 10000` -, any other element is handed to `block` (whose
own errors - a paragraph refused by `decodeContent` - are `paraDecodes`'s business). `none` =
the error "block containers nested deeper than 10000 levels". -/
def decodeBlocksNode (depth : Nat) : Node → Option (List Node)
  | .text _ => some []
  | .elem tag attrs kids =>
    if blockContainers.contains (localName tag) then
      (if depth + 1 > maxInlineDepth then none else decodeBlocksList (depth + 1) kids)
    else some [.elem tag attrs kids]
def decodeBlocksList (depth : Nat) : List Node → Option (List Node)
  | [] => some []
  | n :: rest =>
    match decodeBlocksNode depth n with
    | none => none
    | some a =>
      match decodeBlocksList depth rest with
      | none => none
      | some b => some (a ++ b)
end

/-- `decodeBlocks(d, 0, …)` reaches the end tag of the body / the cell without the depth error -/
def blocksDecode (kids : List Node) : Bool := (decodeBlocksList 0 kids).isSome

/-! ### extractRunText -/

def hexVal? (c : Nat) : Option Nat :=
  if 48 ≤ c ∧ c ≤ 57 then some (c - 48)
  else if 97 ≤ c ∧ c ≤ 102 then some (c - 87)
  else if 65 ≤ c ∧ c ≤ 70 then some (c - 55)
  else none

/-- `strconv.ParseInt(s, 16, 32)` on unsigned hex digit strings (error -> none) -/
def parseHex32? : Str → Option Nat
  | [] => none
  | s => s.foldl (fun acc c => match acc, hexVal? c with
      | some v, some d => if v * 16 + d ≤ 2147483647 then some (v * 16 + d) else none
      | _, _ => none) (some 0)

/-- UTF-8 encoding of `string(rune(code))`; surrogates become U+FFFD -/
def utf8 (c : Nat) : Str :=
  if c < 128 then [c]
  else if c < 2048 then [192 + c / 64, 128 + c % 64]
  else if 55296 ≤ c ∧ c ≤ 57343 then [239, 191, 189]
  else if c < 65536 then [224 + c / 4096, 128 + c / 64 % 64, 128 + c % 64]
  else [240 + c / 262144, 128 + c / 4096 % 64, 128 + c / 64 % 64, 128 + c % 64]

/-- `parseSymbolChar` -/
def parseSymbolChar (hex : Str) : Str :=
  match parseHex32? hex with
  | some code => if 0 < code ∧ code ≤ 1114111 then utf8 code else []
  | none => []

/-- text of the `w:t` children of all `Fallback` children (alternateContent fallback) -/
def fallbackText (kids : List Node) : Str :=
  ((childrenNamed kids sFallback).flatMap fun fb => childrenNamed fb.kids sT).flatMap fun t => chardata t.kids

/-- what one child of a run contributes to the run's text (`extractRunText`'s switch) -/
def runChildText (n : Node) : Str :=
  if !n.isElem then []
  else if n.loc == sT then chardata n.kids
  else if n.loc == sSym then parseSymbolChar (n.attr sChar)
  else if n.loc == sAlt then fallbackText n.kids
  else if n.loc == sTab then [9]
  else if n.loc == sBr then (if n.attr sType == sPage then [10, 10] else [10])
  else []

/-- children of a run that land in `Content` (`,any`): all but the typed `rPr`, `drawing` -/
def runContent (run : Node) : List Node :=
  run.kids.filter fun n => n.isElem && n.loc != sRPr && n.loc != sDrawing

/-- `extractRunText`: the inline content of the run, in document order -/
def extractRunText (run : Node) : Str := (runContent run).flatMap runChildText

/-! ### styles: StyleResolver.Resolve / buildInheritanceChain / detectHeading -/

structure StyleDef where
  id : Str
  name : Str
  basedOn : Str
  outline : Str          -- w:pPr/w:outlineLvl@val
  boldSet : Bool         -- w:rPr/w:b present
  boldVal : Str
  sz : Str               -- w:rPr/w:sz@val (half points)
deriving Repr, Inhabited, DecidableEq

def styleDefOf (n : Node) : StyleDef :=
  let ppr := (childNamed n.kids sPPr).map (·.kids) |>.getD []
  let rpr := (childNamed n.kids sRPr).map (·.kids) |>.getD []
  { id := n.attr sStyleId, name := childVal n.kids sName, basedOn := childVal n.kids sBasedOn,
    outline := childVal ppr sOutlineLvl,
    boldSet := (childNamed rpr sB).isSome, boldVal := childVal rpr sB, sz := childVal rpr sSz }

structure Styles where
  defs : List StyleDef      -- in source order; the map keeps the last definition of an id
  defaultSz : Nat           -- docDefaults size in half points (22 when absent)
deriving Repr, Inhabited

/-- `strconv.ParseFloat(s)/2 > 0` on the integer values generated; half points -/
def halfPoints (s : Str) : Option Nat :=
  match parseNat? s with
  | some v => if v > 0 then some v else none
  | none => none

def stylesOf (root : Option Node) : Styles :=
  match root with
  | none => { defs := [], defaultSz := 22 }
  | some r =>
    let dd := (childNamed r.kids sDocDefaults).map (·.kids) |>.getD []
    let rd := (childNamed dd sRPrDefault).map (·.kids) |>.getD []
    let rpr := (childNamed rd sRPr).map (·.kids) |>.getD []
    { defs := (childrenNamed r.kids sStyle).map styleDefOf,
      defaultSz := (halfPoints (childVal rpr sSz)).getD 22 }

/-- map lookup: the last definition with this id wins (`sr.styles[style.StyleID] = style`) -/
def lookup (defs : List StyleDef) (id : Str) : Option StyleDef :=
  defs.reverse.find? (·.id == id)

/-- number of definitions whose id is not yet visited: the loop's variant -/
def unvisited (defs : List StyleDef) (visited : List Str) : Nat :=
  (defs.filter fun d => !visited.contains d.id).length

theorem lookup_mem {defs : List StyleDef} {id : Str} {d : StyleDef} (h : lookup defs id = some d) :
    d ∈ defs ∧ d.id = id := by
  unfold lookup at h
  have h1 := List.mem_of_find?_eq_some h
  have h2 := List.find?_some h
  exact ⟨List.mem_reverse.mp h1, by simpa using h2⟩

theorem filter_len_le {α : Type} (p q : α → Bool) (h : ∀ x, p x = true → q x = true) :
    ∀ l : List α, (l.filter p).length ≤ (l.filter q).length := by
  intro l
  induction l with
  | nil => simp
  | cons x xs ih =>
    simp only [List.filter_cons]
    cases hp : p x <;> cases hq : q x
    · simpa using ih
    · simp only [Bool.false_eq_true, if_false, if_true, List.length_cons]; omega
    · have := h x hp; rw [hq] at this; cases this
    · simp only [if_true, List.length_cons]; omega

theorem filter_len_lt {α : Type} (p q : α → Bool) (h : ∀ x, p x = true → q x = true) :
    ∀ l : List α, (∃ d, d ∈ l ∧ q d = true ∧ p d = false) → (l.filter p).length < (l.filter q).length := by
  intro l
  induction l with
  | nil => intro ⟨d, hd, _⟩; cases hd
  | cons x xs ih =>
    intro ⟨d, hd, hqd, hpd⟩
    simp only [List.filter_cons]
    have hle := filter_len_le p q h xs
    cases hd with
    | head =>
      simp only [hqd, hpd, Bool.false_eq_true, if_false, if_true, List.length_cons]; omega
    | tail _ hmem =>
      have := ih ⟨d, hmem, hqd, hpd⟩
      cases hp : p x <;> cases hq : q x
      · simpa using this
      · simp only [Bool.false_eq_true, if_false, if_true, List.length_cons]; omega
      · have h' := h x hp; rw [hq] at h'; cases h'
      · simp only [if_true, List.length_cons]; omega

theorem unvisited_lt {defs : List StyleDef} {visited : List Str} {cur : Str} {d : StyleDef}
    (hv : visited.contains cur = false) (hl : lookup defs cur = some d) :
    unvisited defs (cur :: visited) < unvisited defs visited := by
  obtain ⟨hmem, hid⟩ := lookup_mem hl
  unfold unvisited
  apply filter_len_lt
  · intro x hx
    have h1 : (cur :: visited).contains x.id = false := by
      cases hh : (cur :: visited).contains x.id
      · rfl
      · rw [hh] at hx; cases hx
    rw [List.contains_cons] at h1
    have h2 : visited.contains x.id = false := by
      cases hh : visited.contains x.id
      · rfl
      · rw [hh, Bool.or_true] at h1; cases h1
    show (!visited.contains x.id) = true
    rw [h2]; rfl
  · refine ⟨d, hmem, ?_, ?_⟩
    · rw [hid, hv]; rfl
    · rw [hid, List.contains_cons]; simp

/-- `buildInheritanceChain`, derived style first (the Go slice is its reverse). The loop
`for current != "" && !visited[current]` follows basedOn; it stops at an undefined id, at
the empty id and at the first id seen before (cyclic basedOn). Termination: every turn
marks one more defined id as visited. -/
def chainFrom (defs : List StyleDef) (visited : List Str) (cur : Str) : List Str :=
  if cur = [] then []
  else if hv : visited.contains cur = true then []
  else
    match hl : lookup defs cur with
    | none => [cur]
    | some d => cur :: chainFrom defs (cur :: visited) d.basedOn
termination_by unvisited defs visited
decreasing_by
  exact unvisited_lt (by simpa using hv) hl

def chain (defs : List StyleDef) (id : Str) : List Str := chainFrom defs [] id

def headingMap : List (Str × Nat) :=
  ((List.range 9).map fun i => (sHeading ++ [49 + i], i + 1)) ++ [(sTitle, 1), (sSubtitle, 2)]

/-- `detectBuiltInHeading` -/
def detectBuiltInHeading (id : Str) : Option Nat :=
  (headingMap.find? fun e => e.1 == lower id).map (·.2)

/-- parseOutlineLevel: digits accumulate, other characters are ignored; valid 0..8 -/
def digitsVal (s : Str) : Nat :=
  s.foldl (fun v c => if 48 ≤ c ∧ c ≤ 57 then v * 10 + (c - 48) else v) 0

def parseOutlineLevel (s : Str) : Option Nat :=
  let v := digitsVal s
  if v ≤ 8 then some v else none

/-- level named in a lower-cased style name that starts with "heading": the first digit
1..9 (in that order) that occurs anywhere in it, else 1 -/
def nameLevel (name : Str) : Nat :=
  match (List.range 9).find? fun i => containsSub name [49 + i] with
  | some i => i + 1
  | none => 1

/-- `detectHeadingDef`: what one definition says by itself -/
def detectHeadingDef (d : StyleDef) : Option Nat :=
  match detectBuiltInHeading d.id with
  | some l => some l
  | none =>
    if isPrefix sHeading (lower d.name) then some (nameLevel (lower d.name))
    else if d.outline ≠ [] then (parseOutlineLevel d.outline).map (· + 1)
    else none

/-- level one id of the chain contributes: its definition, or its built-in id when undefined -/
def levelOfId (defs : List StyleDef) (id : Str) : Option Nat :=
  match lookup defs id with
  | some d => detectHeadingDef d
  | none => detectBuiltInHeading id

/-- bold / size after applying the chain base -> derived (`applyStyleDef`), i.e. the nearest
definition along the chain that sets the property -/
def resolvedBold (defs : List StyleDef) (ch : List Str) : Bool :=
  match ch.findSome? fun id => (lookup defs id).bind fun d =>
      if d.boldSet then some (d.boldVal != sFalse && d.boldVal != [48]) else none with
  | some b => b
  | none => false

def resolvedSz (st : Styles) (ch : List Str) : Nat :=
  match ch.findSome? fun id => (lookup st.defs id).bind fun d => halfPoints d.sz with
  | some v => v
  | none => st.defaultSz

/-- `estimateHeadingLevel` for sizes ≥ 14 pt, in half points -/
def estimateHeadingLevel (half : Nat) : Nat :=
  if half ≥ 48 then 1 else if half ≥ 36 then 2 else 3

/-- heading info of `Resolve(styleID)`: `(IsHeading, HeadingLevel)` as an option -/
def resolveHeading (st : Styles) (id : Str) : Option Nat :=
  if id = [] then none
  else match lookup st.defs id with
    | none => detectBuiltInHeading id
    | some _ =>
      let ch := chain st.defs id
      match ch.findSome? (levelOfId st.defs) with
      | some l => some l
      | none =>
        if resolvedBold st.defs ch && resolvedSz st ch ≥ 28 then some (estimateHeadingLevel (resolvedSz st ch))
        else none

/-! ### parseListLevel -/

/-- `maxListLevel`: the deepest list level of WordprocessingML (ilvl 0..8) -/
def maxListLevel : Nat := 8

/-- the loop of `parseListLevel` with the running value `level`: digits accumulate, other
characters are ignored, and as soon as the running value exceeds `maxListLevel` the function
returns `maxListLevel` (the rest of the string is not looked at) -/
def listLevelFrom : Str → Nat → Nat
  | [], level => level
  | c :: rest, level =>
    if 48 ≤ c ∧ c ≤ 57 then
      (if level * 10 + (c - 48) > maxListLevel then maxListLevel else listLevelFrom rest (level * 10 + (c - 48)))
    else listLevelFrom rest level

/-- `parseListLevel` (docx/reader.go) -/
def parseListLevel (s : Str) : Nat := listLevelFrom s 0

/-! ### processParagraph -/

structure Para where
  text : Str
  heading : Option Nat      -- IsHeading / Level
  list : Option (Str × Nat) -- IsListItem: NumID, ListLevel
deriving Repr, Inhabited, BEq, DecidableEq

/-- paragraph text: the runs' texts in document order -/
def paraText (p : Node) : Str := (runsOfList p.kids).flatMap extractRunText

def processParagraph (st : Styles) (p : Node) : Para :=
  let ppr := (childNamed p.kids sPPr).map (·.kids) |>.getD []
  let styleId := childVal ppr sPStyle
  let h0 := resolveHeading st styleId
  let outline := childVal ppr sOutlineLvl
  let heading := match h0 with
    | some l => some l
    | none => if outline ≠ [] then (parseOutlineLevel outline).map (· + 1) else none
  let numPr := (childNamed ppr sNumPr).map (·.kids) |>.getD []
  let numId := childVal numPr sNumId
  let list := if numId ≠ [] ∧ numId ≠ [48] then some (numId, parseListLevel (childVal numPr sIlvl)) else none
  { text := paraText p, heading := heading, list := list }

/-! ### tables: ParseTable / parseCell / processVerticalMerges -/

structure Cell where
  text : Str
  colSpan : Nat
  rowSpan : Nat
  cont : Bool
deriving Repr, Inhabited, BEq, DecidableEq

/-- `parseCellParagraph`: only the `w:t` children of the runs -/
def cellParaText (p : Node) : Str :=
  (runsOfList p.kids).flatMap fun run =>
    (runContent run).flatMap fun c => if c.loc == sT then chardata c.kids else []

/-- the paragraphs of a cell (`tableCellXML.UnmarshalXML`): the `w:p` elements at the block
level of the cell - its direct `w:p` children and those inside block containers, in document
order. (Tables inside a cell have no field and are skipped, at any level.) -/
def cellParas (tc : Node) : List Node := childrenNamed (blocksOfList tc.kids) sP

/-- `parseCell` on the cell as `tableCellXML.UnmarshalXML` decoded it: `w:tcPr` and the `w:p`
elements are taken from the block level of the cell (block containers are transparent) -/
def parseCell (tc : Node) : Cell :=
  let pr := (childNamed (blocksOfList tc.kids) sTcPr).map (·.kids) |>.getD []
  let span := boundedSpan (childVal pr sGridSpan)
  let vm := childNamed pr sVMerge
  let cont := match vm with
    | some v => v.attr sVal == [] || v.attr sVal == sContinue
    | none => false
  let texts := ((cellParas tc).map cellParaText).filter (· ≠ [])
  { text := joinWith [10] texts, colSpan := span, rowSpan := 1, cont := cont }

def parseRows (tbl : Node) : List (List Cell) :=
  (childrenNamed tbl.kids sTr).map fun tr => (childrenNamed tr.kids sTc).map parseCell

/-- the widest row, counted in spanned grid columns (`cols` of `limitTableGrid`, `colCount`
of `processVerticalMerges` and of `ToModelTable`) -/
def colCount (rows : List (List Cell)) : Nat :=
  rows.foldl (fun m row => max m (row.foldl (fun s c => s + c.colSpan) 0)) 0

/-- `maxTableGridCells` (docx/tables.go): the largest grid, rows x spanned columns, on which
spans are honoured -/
def maxTableGridCells : Nat := 1048576

/-- `spans` of `limitTableGrid`: some cell spans more than one column or row -/
def hasSpans (rows : List (List Cell)) : Bool :=
  rows.any fun row => row.any fun c => decide (c.colSpan > 1) || decide (c.rowSpan > 1)

/-- `limitTableGrid`: a table that has spans, a width `cols > 0` and more than
`maxTableGridCells / cols` rows (integer division: rows x cols > 2^20) has every column and row
span set to 1; any other table is left as it is. Runs before `processVerticalMerges`, so the
row spans it resets are still the initial 1 and the continuation flags stay. -/
def limitTableGrid (rows : List (List Cell)) : List (List Cell) :=
  if !hasSpans rows || colCount rows == 0 || decide (rows.length ≤ maxTableGridCells / colCount rows) then rows
  else rows.map fun row => row.map fun c => { c with colSpan := 1, rowSpan := 1 }

/-- `findCellAtColumn` -/
def findCellAtColumn : List Cell → Nat → Nat → Nat → Option Nat
  | [], _, _, _ => none
  | c :: rest, target, col, i =>
    if col == target then some i
    else if col + c.colSpan > target then some i
    else findCellAtColumn rest target (col + c.colSpan) (i + 1)

def bumpRowSpan (rows : List (List Cell)) (r i : Nat) : List (List Cell) :=
  rows.modify r fun row => row.modify i fun c => { c with rowSpan := c.rowSpan + 1 }

/-- one row of `processVerticalMerges`: walk the row's cells (taken from the unmodified
copy `cells`: the pass never changes a span or a continuation flag) -/
def mergeRow (rowIdx : Nat) : List Cell → Nat → List (Option Nat) × List (List Cell) → List (Option Nat) × List (List Cell)
  | [], _, st => st
  | c :: rest, colIdx, (starts, rows) =>
    let st' :=
      if !c.cont then (starts.set colIdx (some rowIdx), rows)
      else match starts.getD colIdx none with
        | some startRow =>
          match findCellAtColumn (rows.getD startRow []) colIdx 0 0 with
          | some i => (starts, bumpRowSpan rows startRow i)
          | none => (starts, rows)
        | none => (starts, rows)
    mergeRow rowIdx rest (colIdx + c.colSpan) st'

def mergeRows : List (List Cell) → Nat → List (Option Nat) × List (List Cell) → List (Option Nat) × List (List Cell)
  | [], _, st => st
  | row :: rest, rowIdx, st => mergeRows rest (rowIdx + 1) (mergeRow rowIdx row 0 st)

/-- `processVerticalMerges` -/
def processVerticalMerges (rows : List (List Cell)) : List (List Cell) :=
  (mergeRows rows 0 (List.replicate (colCount rows) none, rows)).2

/-- `ParseTable`: the rows as authored, `limitTableGrid`, then `processVerticalMerges` -/
def parseTable (tbl : Node) : List (List Cell) := processVerticalMerges (limitTableGrid (parseRows tbl))

/-! ### parseBodyElementsInOrder / processElementsInOrder -/

inductive Elem where
  | para (p : Para)
  | table (rows : List (List Cell))
deriving Repr, Inhabited, BEq, DecidableEq

/-- state of the second pass: `inBody`, `depth`, `containers` (the open elements at depths
1..`boxes` are block containers), `paraIndex`, `tableIndex`, and the body elements found so far
(a body element is kept as the unmarshalled node it was paired with) -/
structure Walk where
  inBody : Bool
  depth : Nat
  boxes : Nat
  pi : Nat
  ti : Nat
  acc : List Node
deriving Repr, Inhabited

/-- effect of a `StartElement` token: below the body an element is at block level when every
element open between the body and it is a block container (`depth == containers+1`); a block
container at block level is looked through, a `p` / `tbl` at block level is paired with the next
unmarshalled paragraph / table, anything else and anything deeper is passed over -/
def startTok (paras tbls : List Node) (loc : Str) (w : Walk) : Walk :=
  if !w.inBody then
    (if loc == sBody then { w with inBody := true, depth := 0, boxes := 0 } else w)
  else
    let w := { w with depth := w.depth + 1 }
    if w.depth != w.boxes + 1 then w
    else if blockContainers.contains loc then { w with boxes := w.depth }
    else if loc == sP then
      (match paras[w.pi]? with
       | some p => { w with pi := w.pi + 1, acc := w.acc ++ [p] }
       | none => w)
    else if loc == sTbl then
      (match tbls[w.ti]? with
       | some t => { w with ti := w.ti + 1, acc := w.acc ++ [t] }
       | none => w)
    else w

/-- effect of an `EndElement` token (`if depth == containers { containers-- }; depth--`) -/
def endTok (w : Walk) : Walk :=
  if !w.inBody then w
  else if w.depth == 0 then { w with inBody := false }
  else { w with depth := w.depth - 1, boxes := if w.depth == w.boxes then w.boxes - 1 else w.boxes }

mutual
/-- the decoder's token walk over a subtree: start token, children, end token -/
def walkNode (paras tbls : List Node) : Node → Walk → Walk
  | .text _, w => w
  | .elem tag _ kids, w => endTok (walkList paras tbls kids (startTok paras tbls (localName tag) w))
def walkList (paras tbls : List Node) : List Node → Walk → Walk
  | [], w => w
  | n :: rest, w => walkList paras tbls rest (walkNode paras tbls n w)
end

/-- `documentXML.Body`: the `body` child of the root -/
def bodyOf (root : Node) : Option Node := childNamed root.kids sBody

/-- `Body.Paragraphs` as `bodyXML.UnmarshalXML` collected them: the `w:p` elements at the block
level of the body, in document order -/
def bodyParas (body : Node) : List Node := childrenNamed (blocksOfList body.kids) sP

/-- `Body.Tables`: the `w:tbl` elements at the block level of the body -/
def bodyTables (body : Node) : List Node := childrenNamed (blocksOfList body.kids) sTbl

/-- `parseBodyElementsInOrder`: body elements in the order of the second pass -/
def parseBodyElementsInOrder (root : Node) : List Node :=
  match bodyOf root with
  | none => []
  | some body =>
    (walkNode (bodyParas body) (bodyTables body) root
      { inBody := false, depth := 0, boxes := 0, pi := 0, ti := 0, acc := [] }).acc

/-- `processElementsInOrder` on one body element -/
def processElement (st : Styles) (n : Node) : Elem :=
  if n.loc == sTbl then .table (parseTable n) else .para (processParagraph st n)

/-- the reader's element list (`r.elements`) for a document and an optional styles part -/
def elements (doc : Node) (styles : Option Node) : List Elem :=
  (parseBodyElementsInOrder doc).map (processElement (stylesOf styles))

/-! ### HISTORY: the readers before the block containers were made transparent

`bodyXML` had the struct tags `xml:"p"` / `xml:"tbl"` and `tableCellXML` `xml:"p"`: only the
DIRECT children were collected, and the second pass counted the direct children of the body
only (`depth != 1 → continue`). Kept so that the old behaviour stays stated
(`Props/C16.lean`: `body_interleave_old`, `docx_block_container_content_lost_pinned_counterexample`). -/

structure WalkOld where
  inBody : Bool
  depth : Nat
  pi : Nat
  ti : Nat
  acc : List Node
deriving Repr, Inhabited

def startTokOld (paras tbls : List Node) (loc : Str) (w : WalkOld) : WalkOld :=
  if !w.inBody then
    (if loc == sBody then { w with inBody := true, depth := 0 } else w)
  else
    let w := { w with depth := w.depth + 1 }
    if w.depth != 1 then w
    else if loc == sP then
      (match paras[w.pi]? with
       | some p => { w with pi := w.pi + 1, acc := w.acc ++ [p] }
       | none => w)
    else if loc == sTbl then
      (match tbls[w.ti]? with
       | some t => { w with ti := w.ti + 1, acc := w.acc ++ [t] }
       | none => w)
    else w

def endTokOld (w : WalkOld) : WalkOld :=
  if !w.inBody then w
  else if w.depth == 0 then { w with inBody := false }
  else { w with depth := w.depth - 1 }

mutual
def walkNodeOld (paras tbls : List Node) : Node → WalkOld → WalkOld
  | .text _, w => w
  | .elem tag _ kids, w => endTokOld (walkListOld paras tbls kids (startTokOld paras tbls (localName tag) w))
def walkListOld (paras tbls : List Node) : List Node → WalkOld → WalkOld
  | [], w => w
  | n :: rest, w => walkListOld paras tbls rest (walkNodeOld paras tbls n w)
end

/-- `parseBodyElementsInOrder` before the repair: `Body.Paragraphs` / `Body.Tables` are the
direct `p` / `tbl` children of the body, and only direct children are paired -/
def parseBodyElementsInOrderOld (root : Node) : List Node :=
  match bodyOf root with
  | none => []
  | some body =>
    (walkNodeOld (childrenNamed body.kids sP) (childrenNamed body.kids sTbl) root
      { inBody := false, depth := 0, pi := 0, ti := 0, acc := [] }).acc

/-- `parseCell` before the repair: `w:tcPr` and the `w:p` elements are direct children of the cell -/
def parseCellOld (tc : Node) : Cell :=
  let pr := (childNamed tc.kids sTcPr).map (·.kids) |>.getD []
  let span := boundedSpan (childVal pr sGridSpan)
  let vm := childNamed pr sVMerge
  let cont := match vm with
    | some v => v.attr sVal == [] || v.attr sVal == sContinue
    | none => false
  let texts := ((childrenNamed tc.kids sP).map cellParaText).filter (· ≠ [])
  { text := joinWith [10] texts, colSpan := span, rowSpan := 1, cont := cont }

def parseTableOld (tbl : Node) : List (List Cell) :=
  processVerticalMerges (limitTableGrid
    ((childrenNamed tbl.kids sTr).map fun tr => (childrenNamed tr.kids sTc).map parseCellOld))

def processElementOld (st : Styles) (n : Node) : Elem :=
  if n.loc == sTbl then .table (parseTableOld n) else .para (processParagraph st n)

/-- the reader's element list before the repair -/
def elementsOld (doc : Node) (styles : Option Node) : List Elem :=
  (parseBodyElementsInOrderOld doc).map (processElementOld (stylesOf styles))

/-! ### `docx.Open`: `xml.Unmarshal` of document.xml may refuse the package -/

/-- the cells `xml.Unmarshal` decodes with `tableCellXML.UnmarshalXML` while it fills
`documentXML`: the `w:tc` children of the `w:tr` children of the tables at the block level of
the body -/
def decodedCells (root : Node) : List Node :=
  match bodyOf root with
  | none => []
  | some body =>
    (bodyTables body).flatMap fun tbl =>
      (childrenNamed tbl.kids sTr).flatMap fun tr => childrenNamed tr.kids sTc

/-- the paragraphs `xml.Unmarshal` decodes with `paragraphXML.UnmarshalXML`: the `w:p`
elements at the block level of the body and at the block level of the cells of its tables.
Anything else (nested tables, text boxes, `w:sectPr`, …) has no struct field and is skipped
without being decoded. -/
def decodedParas (root : Node) : List Node :=
  match bodyOf root with
  | none => []
  | some body => bodyParas body ++ (decodedCells root).flatMap cellParas

/-- the child lists `decodeBlocks` is run on: the body's and those of the decoded cells -/
def decodedScopes (root : Node) : List (List Node) :=
  match bodyOf root with
  | none => []
  | some body => body.kids :: (decodedCells root).map (·.kids)

/-- `xml.Unmarshal(data, r.document)` succeeds: block containers nest at most `maxInlineDepth`
deep in the body and in every decoded cell, and no decoded paragraph nests its inline
containers deeper than `maxInlineDepth` -/
def documentDecodes (root : Node) : Bool :=
  (decodedScopes root).all blocksDecode && (decodedParas root).all paraDecodes

/-- `docx.Open` as far as the element list goes: `parseDocument` returns the error of
`xml.Unmarshal` ("unmarshaling document.xml: inline containers nested deeper than 10000
levels") and `Open` fails - `none`; otherwise the reader holds `elements`. -/
def openElements (doc : Node) (styles : Option Node) : Option (List Elem) :=
  if documentDecodes doc then some (elements doc styles) else none

/-! ### headers / footers: `TextWithOptions` only ever uses them to *exclude* paragraphs -/

structure ExtractOptions where
  excludeHeaders : Bool := false
  excludeFooters : Bool := false

/-- `shouldExcludeParagraph` with the header/footer lines already split and trimmed -/
def shouldExclude (opts : ExtractOptions) (hdrLines ftrLines : List Str) (trimmed : Str) : Bool :=
  trimmed != [] &&
    ((opts.excludeHeaders && hdrLines.any fun l => l != [] && l == trimmed) ||
     (opts.excludeFooters && ftrLines.any fun l => l != [] && l == trimmed))

/-- the elements `TextWithOptions` / `MarkdownWithOptions` write (paragraphs that match a
header/footer line are skipped only when the caller asked for it) -/
def visibleElements (opts : ExtractOptions) (hdrLines ftrLines : List Str) (trim : Str → Str)
    (els : List Elem) : List Elem :=
  els.filter fun e => match e with
    | .para p => !shouldExclude opts hdrLines ftrLines (trim p.text)
    | .table _ => true

end Tabula.Docx
