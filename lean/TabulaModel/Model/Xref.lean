/-
Model of cross-reference merging and object lookup:
  core/xref.go   MergeXRefTables, ParseAllXRefs (chain following /Prev)
  core/objstm.go GetObjectByIndex (index range + member number)
  reader/reader.go GetObject, getUncompressedObject, getCompressedObject,
                   getObjectStream, ClearCache
The file is abstracted to what `ParseIndirectObject` yields at an offset.
Core Lean only.
-/
namespace Tabula.Xref

/-- one cross-reference entry (`core.XRefEntry`); a free entry keeps its first field because
`getObjectStream` would seek to it -/
inductive Entry
  | free (next : Nat)
  | at (off : Nat)
  | inStm (stm idx : Nat)
  deriving Repr, DecidableEq

/-- a cross-reference section in the order its entries are `Set` (later duplicate wins) -/
abbrev Section := List (Nat × Entry)

/-- map lookup after a sequence of assignments: the last assignment to `n` wins -/
def getLast {α : Type} : List (Nat × α) → Nat → Option α
  | [], _ => none
  | (k, v) :: rest, n =>
    match getLast rest n with
    | some w => some w
    | none => if k = n then some v else none

/-- `core.MergeXRefTables` (tables oldest first): every entry of every table is assigned
into one map, in order -/
def mergeTables (ts : List Section) : Section := ts.flatten

/-- value of a parsed object, as far as lookup cares -/
inductive Val
  | int (id : Nat)
  | dict (id : Nat)
  | objstm (members : List (Nat × Nat × Nat))   -- (object number, kind, value id) by index; kind 0 = int, else dict
  | stream                                 -- a stream that is not an object stream
  | other
  deriving Repr, DecidableEq

/-- what `ParseIndirectObject` yields at a file offset: (object number in the header, value) -/
abbrev Objects := List (Nat × (Nat × Val))

structure File where
  xref : Section          -- merged table
  objs : Objects
  deriving Repr

structure Cache where
  obj : List (Nat × Val) := []
  stm : List (Nat × List (Nat × Nat × Nat)) := []
  deriving Repr

/-- `getUncompressedObject` -/
def getUncompressed (f : File) (n off : Nat) : Option Val :=
  match getLast f.objs off with
  | none => none
  | some (num, v) => if num = n then some v else none

/-- `getObjectStream` without its cache: the member table of object stream `stm` -/
def loadObjStm (f : File) (stm : Nat) : Option (List (Nat × Nat × Nat)) :=
  match getLast f.xref stm with
  | none => none
  | some (.inStm _ _) => none
  | some (.at off) =>
    (match getUncompressed f stm off with
     | some (.objstm ms) => some ms
     | _ => none)
  | some (.free next) =>
    (match getUncompressed f stm next with
     | some (.objstm ms) => some ms
     | _ => none)

/-- `ObjectStream.GetObjectByIndex` + the number check of `getCompressedObject` -/
def memberAt (ms : List (Nat × Nat × Nat)) (n idx : Nat) : Option Val :=
  match ms[idx]? with
  | none => none
  | some (num, kind, id) => if num = n then some (if kind = 0 then .int id else .dict id) else none

/-- the specification: what looking up `n` means, with no cache at all -/
def specGet (f : File) (n : Nat) : Option Val :=
  match getLast f.xref n with
  | none => none
  | some (.free _) => none
  | some (.at off) => getUncompressed f n off
  | some (.inStm stm idx) =>
    match loadObjStm f stm with
    | none => none
    | some ms => memberAt ms n idx

/-- `getObjectStream` with `objStmCache` -/
def getObjStm (f : File) (c : Cache) (stm : Nat) : Option (List (Nat × Nat × Nat)) × Cache :=
  match getLast c.stm stm with
  | some ms => (some ms, c)
  | none =>
    match loadObjStm f stm with
    | none => (none, c)
    | some ms => (some ms, { c with stm := c.stm ++ [(stm, ms)] })

/-- `Reader.GetObject` with `objCache` -/
def stepGet (f : File) (c : Cache) (n : Nat) : Option Val × Cache :=
  match getLast c.obj n with
  | some v => (some v, c)
  | none =>
    match getLast f.xref n with
    | none => (none, c)
    | some (.free _) => (none, c)
    | some (.at off) =>
      (match getUncompressed f n off with
       | none => (none, c)
       | some v => (some v, { c with obj := c.obj ++ [(n, v)] }))
    | some (.inStm stm idx) =>
      match getObjStm f c stm with
      | (none, c') => (none, c')
      | (some ms, c') =>
        match memberAt ms n idx with
        | none => (none, c')
        | some v => (some v, { c' with obj := c'.obj ++ [(n, v)] })

/-- `Reader.ClearCache` -/
def stepClear (_c : Cache) : Cache := {}

inductive Op
  | get (n : Nat)
  | clear
  deriving Repr

/-- run a lookup sequence, collecting the result of every `get` -/
def run (f : File) : Cache → List Op → List (Option Val)
  | _, [] => []
  | c, .get n :: ops => let (r, c') := stepGet f c n; r :: run f c' ops
  | c, .clear :: ops => run f (stepClear c) ops

/-! ### `/Prev` chain (`ParseAllXRefs`) -/

/-- the sections of a file by offset: (entries, /Prev) -/
abbrev Sections := List (Nat × (Section × Option Nat))

/-- follow `/Prev` from `off`, newest first, never visiting an offset twice; `fuel` bounds the
walk by the number of sections (each step consumes a distinct offset) -/
def chainFrom (secs : Sections) : Nat → List Nat → Nat → List Section
  | 0, _, _ => []
  | fuel + 1, visited, off =>
    if visited.contains off then [] else
    match getLast secs off with
    | none => []
    | some (s, prev) =>
      match prev with
      | none => [s]
      | some p => s :: chainFrom secs fuel (off :: visited) p

/-- `ParseAllXRefs`: oldest first -/
def parseAllXRefs (secs : Sections) (start : Nat) : List Section :=
  (chainFrom secs (secs.length + 1) [] start).reverse

end Tabula.Xref
