import TabulaModel.Model.Csv
/-
`encoding/csv` Writer for ANY rune delimiter (`Comma` is a `rune`, written with `WriteRune`,
i.e. as its 1..4 byte UTF-8 encoding), and the strict RFC 4180 reader of `Model/Csv.lean`
generalised to a delimiter that is a byte STRING `D` (the delimiter test is "`D` is a prefix
of the remaining input", and it consumes `D.length` bytes).

`fieldNeedsQuotes` for `Comma >= utf8.RuneSelf` is `strings.ContainsRune(field, Comma) ||
strings.ContainsAny(field, "\"\r\n")`; for a valid rune `>= 0x80` `ContainsRune` is a plain
byte-substring search for the encoding of the rune (the field is never decoded, it may be
ill-formed UTF-8).  For `Comma < 0x80` the byte scan of `Model/Csv.lean` is the same search
with a one-byte needle (`csvWriteR_one_byte`).  Core Lean only; bytes are `Nat`.
-/
namespace Tabula.Csv

/-- encoding/csv `validDelim` for an arbitrary rune value -/
def validDelimR (r : Nat) : Prop :=
  r ≠ 0 ∧ r ≠ 34 ∧ r ≠ 13 ∧ r ≠ 10 ∧ (r < 0xD800 ∨ (0xE000 ≤ r ∧ r ≤ 0x10FFFF)) ∧ r ≠ 0xFFFD

instance (r : Nat) : Decidable (validDelimR r) := by unfold validDelimR; exact inferInstance

/-- `utf8.AppendRune` of a valid rune -/
def runeBytes (r : Nat) : Str :=
  if r < 0x80 then [r]
  else if r < 0x800 then [0xC0 + r / 0x40, 0x80 + r % 0x40]
  else if r < 0x10000 then [0xE0 + r / 0x1000, 0x80 + r / 0x40 % 0x40, 0x80 + r % 0x40]
  else [0xF0 + r / 0x40000, 0x80 + r / 0x1000 % 0x40, 0x80 + r / 0x40 % 0x40, 0x80 + r % 0x40]

/-- `hasPrefix p s`: `p` is a prefix of `s` -/
def hasPrefix : Str → Str → Bool
  | [], _ => true
  | _ :: _, [] => false
  | p :: ps, c :: cs => p == c && hasPrefix ps cs

/-- byte-substring search (`strings.Contains`; `strings.ContainsRune` for a valid rune ≥ 0x80) -/
def containsSub (sub : Str) : Str → Bool
  | [] => hasPrefix sub []
  | c :: cs => hasPrefix sub (c :: cs) || containsSub sub cs

/-- `strings.ContainsRune(field, Comma) || strings.ContainsAny(field, "\"\r\n")` -/
def mustQuoteR (D : Str) (f : Str) : Bool :=
  containsSub D f || f.any (fun c => c == 34 || c == 10 || c == 13)

/-- `(*csv.Writer).fieldNeedsQuotes` for the delimiter encoding `D` -/
def needsQuotesR (extra : Str → Bool) (D : Str) (f : Str) : Bool :=
  match f with
  | [] => false
  | _ => mustQuoteR D f || extra f

def writeFieldR (extra : Str → Bool) (D : Str) (f : Str) : Str :=
  if needsQuotesR extra D f then 34 :: (escape f ++ [34]) else f

/-- `for n, field := range record { if n > 0 { WriteRune(Comma) }; write field }` -/
def writeFieldsR (extra : Str → Bool) (D : Str) : List Str → Str
  | [] => []
  | [f] => writeFieldR extra D f
  | f :: g :: fs => writeFieldR extra D f ++ (D ++ writeFieldsR extra D (g :: fs))

/-- one `Write` call: the fields, then `\n` -/
def writeRecordR (extra : Str → Bool) (D : Str) (r : List Str) : Str :=
  writeFieldsR extra D r ++ [10]

/-- all `Write` calls followed by `Flush` -/
def csvWriteR (extra : Str → Bool) (D : Str) : List (List Str) → Str
  | [] => []
  | r :: rs => writeRecordR extra D r ++ csvWriteR extra D rs

/-! ## strict RFC 4180 reader for a delimiter byte string -/

/-- transitions shared by the states from which a field can end; `c :: cs` is the remaining
input, the `Nat` is the number of FURTHER bytes consumed (the rest of the delimiter) -/
def sepR (D : Str) (a : Acc) (c : Nat) (cs : Str) : Option (St × Acc × Nat) :=
  if hasPrefix D (c :: cs) = true then some (.fieldStart, endField a, D.length - 1)
  else if c = 10 then some (.recStart, endRecord a, 0)
  else if c = 13 then some (.crSeen, a, 0)
  else none

/-- one transition on the remaining input `c :: cs` (same machine as `step`, with look-ahead
for the delimiter) -/
def stepR (D : Str) (s : St) (a : Acc) (c : Nat) (cs : Str) : Option (St × Acc × Nat) :=
  match s with
  | .recStart | .fieldStart =>
    if c = 34 then some (.quo, a, 0)
    else if hasPrefix D (c :: cs) = true ∨ c = 10 ∨ c = 13 then sepR D a c cs
    else some (.unq, push a c, 0)
  | .unq =>
    if c = 34 then none                       -- bare quote in an unquoted field: malformed
    else if hasPrefix D (c :: cs) = true ∨ c = 10 ∨ c = 13 then sepR D a c cs
    else some (.unq, push a c, 0)
  | .quo => if c = 34 then some (.quoSeen, a, 0) else some (.quo, push a c, 0)
  | .quoSeen => if c = 34 then some (.quo, push a 34, 0) else sepR D a c cs
  | .crSeen => if c = 10 then some (.recStart, endRecord a, 0) else none

/-- run the machine over the input (total: every transition consumes at least one byte) -/
def stepsR (D : Str) : St → Acc → Str → Option (St × Acc)
  | s, a, [] => some (s, a)
  | s, a, c :: cs =>
    match stepR D s a c cs with
    | none => none
    | some (s', a', k) => stepsR D s' a' (cs.drop k)
termination_by _ _ input => input.length
decreasing_by simp only [List.length_cons, List.length_drop]; omega

/-- the reader for a delimiter byte string `D`: `none` = malformed input -/
def csvReadR (D : Str) (input : Str) : Option (List (List Str)) :=
  match stepsR D .recStart ⟨[], [], []⟩ input with
  | none => none
  | some (s, a) => finish s a

end Tabula.Csv
