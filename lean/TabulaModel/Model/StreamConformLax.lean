import TabulaModel.Model.StreamConform
/-!
The executable checker of the *lenient* encoding hypothesis (`ChainWritesLax`, `Props/C05Lax.lean`):
as `chainWritesL` of `Model/StreamConform.lean`, but an ASCII85 stage may spell any all-zero group
`!!!!!` instead of `z`. The harness sends the intermediates of every pipeline it encoded — also in
its `NoZ` style — through `c05.writeslax` and expects `true`. Specification side only (`a85Digits`,
`word`), no decoder. Core Lean only.
-/
namespace Tabula.Filters

/-- is `body` the ASCII85 body of `x` with each all-zero group written `z` or `!!!!!` -/
def a85LaxMatch : Str → Str → Bool
  | body, a :: b :: c :: d :: rest =>
    if a = 0 ∧ b = 0 ∧ c = 0 ∧ d = 0 then
      (body.head? == some 122 && a85LaxMatch body.tail rest) ||
      (body.take 5 == a85Digits (word 0 0 0 0) && a85LaxMatch (body.drop 5) rest)
    else body.take 5 == a85Digits (word a b c d) && a85LaxMatch (body.drop 5) rest
  | body, [a, b, c] => body == (a85Digits (word a b c 0)).take 4
  | body, [a, b] => body == (a85Digits (word a b 0 0)).take 3
  | body, [a] => body == (a85Digits (word a 0 0 0)).take 2
  | body, [] => body.isEmpty

/-- is `s` a lenient ASCII85 writing of `x` (white space anywhere) -/
def a85WritingLaxB (s x : Str) : Bool := a85LaxMatch (s.filter (fun c => !isWs c)) x

def stageWritesLaxB (inflate : Str → Option Str) : WStage → Str → Str → Bool
  | .a85 _, m, y => a85WritingLaxB (cutEOD y) m
  | s, m, y => stageWritesB inflate s m y

/-- `chainWritesLaxL inflate stages [y, m₁, …, x]`: stage i wrote mᵢ from mᵢ₊₁, leniently -/
def chainWritesLaxL (inflate : Str → Option Str) : List WStage → List Str → Bool
  | [], [_] => true
  | s :: ss, y :: m :: rest => bytesB m && stageWritesLaxB inflate s m y && chainWritesLaxL inflate ss (m :: rest)
  | _, _ => false

end Tabula.Filters
