import TabulaModel.Props.C15
import TabulaModel.Lemmas.MarkdownHtml
/-!
# C15 — PPTX: the lines `Reader.Markdown*` writes for slide titles and list paragraphs
-/
namespace Tabula.C15Pptx
open Tabula.A1 (Str dec)
open Tabula.Markdown Tabula.MarkdownDoc

/-- a bullet or numbered paragraph is written as a list item line: depth = the paragraph's
level (negative counts as 0), ordered iff numbered, the text unchanged -/
theorem pptx_list_para_line (p : PPara) (hne : p.text.isEmpty = false) (hb : (p.isBullet || p.isNumbered) = true) :
    pptxPara p = listLine ⟨p.level.toNat, p.isNumbered, 1, p.text⟩ ++ [10] := by
  have : dec 1 = [49] := by simp [Tabula.A1.dec, Tabula.A1.decAux]
  unfold pptxPara
  simp only [hne, Bool.false_eq_true, if_false, hb, if_true]
  cases p.isNumbered <;> simp [listLine, indent2, this]

/-- **list_roundtrip for slides**: the line of a list paragraph reads back with its depth, kind
and text, for any level and any text -/
theorem pptx_list_para_roundtrip (p : PPara) (hne : p.text.isEmpty = false) (hb : (p.isBullet || p.isNumbered) = true) :
    parseListLine ((pptxPara p).dropLast) = some (p.level.toNat, p.isNumbered, p.text) := by
  rw [pptx_list_para_line p hne hb, List.dropLast_concat]
  exact parseListLine_listLine _

/-- a slide title is written as an ATX heading of level `headingLevel 1 offset max`, in 1..6 for
all options -/
theorem pptx_title_roundtrip (offset max : Int) (title : Str) :
    parseAtx (atxLine (headingLevel 1 offset max).toNat title)
      = some ((headingLevel 1 offset max).toNat, title) :=
  Tabula.C15.heading_emitted_roundtrip 1 offset max title

/-- a plain paragraph is written as its text and a blank line -/
theorem pptx_plain_para (p : PPara) (hne : p.text.isEmpty = false) (hb : (p.isBullet || p.isNumbered) = false) :
    pptxPara p = p.text ++ [10, 10] := by
  unfold pptxPara
  simp [hne, hb]

/-- the first slide starts with a nested item: its indentation is kept (f497d28) -/
example : pptxBody false false false [] 1
    [{ content := [{ paras := [{ text := [97], level := 1, isBullet := true },
                               { text := [98], level := 0, isBullet := true }] }] }]
    = [32, 32, 45, 32, 97, 10, 45, 32, 98] := by decide

/-- the pinned code ended with `strings.TrimSpace`: the same slide came out as `- a\n- b`, the
first item at depth 0 -/
theorem pptx_pinned_first_item_counterexample :
    trim (pptxSlides false false false 1
      [{ content := [{ paras := [{ text := [97], level := 1, isBullet := true },
                                 { text := [98], level := 0, isBullet := true }] }] }] true)
      = [45, 32, 97, 10, 45, 32, 98] ∧
    parseListLine [45, 32, 97] ≠ some (1, false, [97]) := by decide

end Tabula.C15Pptx
