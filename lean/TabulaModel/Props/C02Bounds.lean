import TabulaModel.Props.C02
import TabulaModel.Props.C02Core
import TabulaModel.Props.C02Data
import TabulaModel.Props.C02Office
import TabulaModel.Props.C06
import TabulaModel.Props.C08Doc
import TabulaModel.Props.C18
/-!
# C02 — what is PROVED of "no input can crash, hang or exhaust the process"

A theorem cannot exhibit a Go panic, a stack overflow or an allocation. What is proved is the
LOGIC that bounds the work: for each guard the C02 repairs put into tabula there is a model
function mirroring the guarded Go function (same constant, same comparison), a theorem that holds
for EVERY input ("iterations / recursion depth / cells / bytes ≤ f(size of the input)", and
"beyond the bound the answer is the documented error or truncation"), an `example` at the edge,
and a correspondence op that runs the model function and the Go function on the same generated
inputs. Everything not in this table is explored by the fault catalogue of harness/c02 only.

| mechanism | Go function | bound | theorem | op |
|---|---|---|---|---|
| stream data | core.(*Lexer).ReadBytes | bytes held ≤ min(count, bytes available); negative count = error | C02Core.read_bytes_bounded, read_bytes_short | c02.readbytes |
| nested loads | reader.(*Reader).GetObject | ≤ 16 objects loading inside each other on every graph and call history; self reference = error | C02Core.nested_loads_bounded, nested_loads_bounded_hist, self_length_refused | c02.load |
| page tree | pages.(*PageTree).loadPages / traversePageNode | steps ≤ size(root) + Σ(1+size(object)) + 2 on every graph (cycles, shared subtrees, indirect /Kids arrays, inline nodes); depth ≤ 10000 | C02Core.page_tree_walk_bounded, page_tree_depth_bounded; C02.traversal_terminates | c02.ptree2, c02.ptree |
| page count | pages.(*PageTree).Count | = leaves reached, independent of /Count; ≤ step bound | C02Core.page_count_ignores_declared_count, page_count_bounded | c02.ptree2 |
| object streams | core.NewObjectStream / parseHeader / GetObjectByIndex | capacity ≤ min(/N, header/4+1); pairs = /N ≤ header objects / 2; offsets in 0..len; slice in range for every index | C02Core.objstm_capacity_bounded, objstm_header_bounded, objstm_slice_in_bounds | c02.objstm |
| xref streams | core.(*XRefParser).parseXRefStream | entry width > 0, entries x width ≤ data | C02.xref_stream_in_bounds | c02.xrefstream |
| deep resolution | reader.(*Reader).ResolveDeep, resolver.(*ObjectResolver).ResolveDeep | each object fetched once; activations ≤ size(value) + Σ size(objects); depth ≤ 2001 / maxDepth | C02Core.resolve_deep_fetches_once, resolve_deep_linear, resolve_deep_terminates | c02.rdeep |
| parser nesting | core.(*Parser).parseArray/parseDict, contentstream.(*Parser) | ≤ 500 containers open at once on every input | parser_recursion_bounded (= C06.core_recursion_bounded, cs_recursion_bounded) | c06.* |
| Form XObjects | text.(*Extractor).invokeXObject | ≤ 65472 executions, ≤ 64 MiB of content per Extract on every form graph | form_execution_bounded (= C08Doc.form_executions_bounded) | c08.doc* |
| CCITT images | filters.CCITTFaxDecode | bytes read ≤ 64 MiB + 1; Columns < 1, Rows < 0 = error | C02Data.ccitt_output_bounded, ccitt_too_large | c02.ccitt |
| column histogram | layout.(*ColumnDetector).findVerticalGaps | buckets ≤ 2^20; 2 updates per fragment, indices in range; steps = fragments + buckets + 1; same histogram as one increment per covered bucket; ≤ 5 gaps | C02Data.histogram_size_bounded, histogram_run_in_range, histogram_work_linear, histogram_is_the_naive_histogram, column_gaps_bounded | c02.gaps |
| images | reader.(*PageImage).ToPNG | pixels ≤ 8 x data bytes; JPEG ≤ 2^26 pixels | C02Data.image_allocation_bounded, topng_pixels_bounded, jpeg_pixels_bounded | c02.topng, c02.jpeg |
| colour spaces | reader.(*Reader).parseColorSpaceAt | ≤ 9 levels on every graph | C02Data.colour_space_depth_bounded | c02.cspace |
| layout text | tabula.(*Extractor).extractPreserveLayout | output ≤ text + 200 x lines + 100 x lines | C02Data.preserve_layout_output_bounded | c02.layout |
| page content | reader.(*Reader).extractTextWithFragments | concatenated ≤ 64 MiB + 1, else error | C02Data.page_content_bounded, page_content_refused | c02.contents |
| spans, repeats | docx/odt parseCell, odt parseTableColumns | value used in 1..1024 | C02Office.span_bounded | c02.span |
| list levels | docx parseListLevel, pptx extractParagraph | 0..8 | C02Office.list_level_bounded, level_clamped | c02.ilvl, c02.lvl |
| space runs | odt decodeInlineContentAt | 1..1024 spaces | C02Office.space_run_bounded | c02.spaces |
| inline nesting | docx decodeContent, odt decodeInlineContentAt | decoded iff nesting ≤ 10000 | C02Office.inline_nesting_bounded, inline_nesting_edge | c02.inline |
| style chains | docx/odt buildInheritanceChain | chain without repetition, ≤ styles + 1 entries, on every table | C02Office.style_chain_bounded | c02.chain |
| column letters | xlsx.ColumnToIndex | -1 .. 2^40 - 1 for letters of any length | C02Office.column_index_bounded | c02.col |
| worksheet grid | xlsx parseWorksheetPart | cells ≤ budget left + 16 x elements | C02.grid_bounded, grid_dense_accepted | c02.grid |
| workbook grids | xlsx parseWorksheets (history of entries) | Σ cells ≤ 8 Mi + 16 x elements of the distinct parts | C02Office.workbook_grid_bounded | c02.sheets |
| merged regions | xlsx parseWorksheetPart | cells walked ≤ one grid | C02Office.merge_work_bounded, merge_all_bounded; xlsx_sheet_work_bounded | c02.merges |
| table grids | docx/odt limitTableGrid | rows x columns ≤ 2^20 or no spans | C02Office.table_grid_bounded; table_pipeline_bounded | c02.tgrid |
| HTML / nav trees | htmldoc/epubdoc treeDeeperThan, OpenReader, parseNavXHTML | ≤ nodes + 1 moves, no recursion; answer = (height > limit), so an accepted tree is ≤ 10000 tall | C02Office.tree_walk_bounded, tree_depth_decided, tree_accepted_shallow | c02.tree, c02.treeopen |
| EPUB spine | epubdoc.(*Reader).loadChapters | chapters ≤ distinct resources, ≤ members, ≤ itemrefs | epub_chapters_bounded (= C18.epub_chapter_count_bounded) | c18.* |
| TrueType cmap 4 | font.(*TrueTypeFont).parseCmapFormat4 | ≤ 65536 map writes | C02Office.cmap4_writes_bounded | c02.cmap4 |
| bfrange arrays | font.(*CMap).addBfRangeArray | ≤ one write per array element, also across the uint32 edge | C02Office.bfrange_array_bounded | c02.bfarr |
-/
namespace Tabula.C02Bounds

/-! ### restated from the properties whose models already carry the fact -/

/-- **parser_recursion_bounded** (C06, a3fd154): for EVERY byte string neither parser ever has more
than 500 arrays and dictionaries open: the recursion of `core.Parser` and `contentstream.Parser`
is bounded whatever the input (six million "[" are an error, not a stack overflow). -/
theorem parser_recursion_bounded (inp : Tabula.Pdf.Str) :
    (Tabula.Pdf.coreParseT inp).2 ≤ 500 ∧ (Tabula.Pdf.CS.csParseT inp).2 ≤ 500 :=
  ⟨(Tabula.C06.core_recursion_bounded inp).2, (Tabula.C06.cs_recursion_bounded inp).2⟩

section Forms
open Tabula Tabula.GState Tabula.XDoc

/-- **form_execution_bounded** (C08, 670f3aa): on EVERY form graph one `Extract` executes at most
65472 Form XObjects and at most 64 MiB of form content. -/
theorem form_execution_bounded {α : Type} [Lean.Grind.CommRing α] [DecidableEq α] [LT α] [DecidableLT α]
    (adv : Adv α) (doc : Doc α) (ops : List (RawOp α)) (x : XState α) :
    ((extractRaw adv doc ops x).1.acct.calls - x.acct.calls) ≤ 65472 ∧
    ((extractRaw adv doc ops x).1.acct.work - x.acct.work) ≤ 67108864 := by
  have h := Tabula.C08Doc.form_executions_bounded adv doc ops x
  simp only [Tabula.C08Doc.maxExecutions] at h
  have hB : maxXObjectBytes = 67108864 := rfl
  refine ⟨h.2.1, ?_⟩
  have h3 := h.2.2.1
  generalize maxXObjectBytes = B at *
  omega

end Forms

section Epub
open Tabula.Package

/-- **epub_chapters_bounded** (C18, c53b79e): however often a spine names a resource, the chapters
read are at most the spine entries and at most the archive members. -/
theorem epub_chapters_bounded (a : Archive) (x : Docs) (base : Str) (manifest : List (Str × Str))
    (spine : List Str) (parts : List ChapterPart)
    (h : epubDeclared (lookup a) x = some (base, manifest, spine)) (ho : epubOpen a x = some parts) :
    parts.length ≤ a.length ∧ parts.length ≤ spine.length :=
  let t := Tabula.C18.epub_chapter_count_bounded a x base manifest spine parts h ho
  ⟨t.2.1, t.2.2⟩

end Epub

/-! ### compositions: the per-mechanism bounds chained along one entry point -/

section Xlsx
open Tabula.BoundsOffice

/-- **xlsx_sheet_work_bounded** (`xlsx.Open` on one sheet entry: cell references → grid → merged
regions): for EVERY column-letter string, row number, number of cell elements, list of merged
regions and state of the workbook's budget, a sheet that is accepted has a grid of at most
8 Mi + 16 x elements cells, the budget stays within its limit, and applying ALL its merged regions
walks at most that many cells. -/
theorem xlsx_sheet_work_bounded (wb : WB) (letters : List Nat) (member elems maxRow : Nat)
    (regions : List Region) (hwb : wb.gridCells ≤ maxGridCells) (hcol : 0 ≤ columnToIndex letters)
    (hacc : (loadSheet wb ⟨member, elems, maxRow, (columnToIndex letters).toNat⟩).1 = true) :
    let maxCol := (columnToIndex letters).toNat
    maxCol < maxColumnNumber ∧
    maxRow * (maxCol + 1) ≤ maxGridCells + gridCellsPerElement * elems ∧
    (loadSheet wb ⟨member, elems, maxRow, maxCol⟩).2.gridCells ≤ maxGridCells ∧
    (mergeAll maxRow maxCol regions).2 ≤ maxGridCells + gridCellsPerElement * elems := by
  intro maxCol
  have hc := Tabula.C02Office.column_index_bounded letters
  have hinv := Tabula.C02Office.loadSheet_inv wb ⟨member, elems, maxRow, maxCol⟩ hwb
  have hm := Tabula.C02Office.merge_all_bounded maxRow maxCol regions
  have hcells : maxRow * (maxCol + 1) ≤ maxGridCells + gridCellsPerElement * elems := by
    have hacc' := hacc
    unfold loadSheet at hacc'
    have hA : allowanceFor wb ⟨member, elems, maxRow, maxCol⟩ ≤ gridCellsPerElement * elems := by
      unfold allowanceFor; split <;> simp
    generalize allowanceFor wb ⟨member, elems, maxRow, maxCol⟩ = A at *
    split at hacc'
    · simp at hacc'
    · rename_i hno
      simp only [not_and, Nat.not_lt] at hno
      by_cases hr : maxRow > 0
      · have h1 := hno hr
        have h2 : maxRow * (maxCol + 1) ≤ maxGridCells - wb.gridCells + A :=
          Nat.le_trans (Nat.mul_le_mul_left _ h1) (Nat.mul_div_le _ _)
        omega
      · have : maxRow = 0 := by omega
        simp [this]
  refine ⟨?_, hcells, hinv, Nat.le_trans hm hcells⟩
  have : ((columnToIndex letters).toNat : Int) = columnToIndex letters := Int.toNat_of_nonneg hcol
  have h2 := hc.2
  show (columnToIndex letters).toNat < maxColumnNumber
  omega

/-- the hypotheses are satisfiable: XFD512 with one cell element is accepted by a fresh workbook -/
example : 0 ≤ columnToIndex [88, 70, 68] ∧ (loadSheet ⟨0, []⟩ ⟨1, 1, 512, (columnToIndex [88, 70, 68]).toNat⟩).1 = true := by
  decide

theorem rowCols_le_length (row : List (Nat × Nat)) (h : ∀ c ∈ row, c.1 ≤ 1) : rowCols row ≤ row.length := by
  induction row with
  | nil => simp [rowCols]
  | cons c rest ih =>
    have h1 := h c List.mem_cons_self
    have h2 := ih (fun c hc => h c (List.mem_cons_of_mem _ hc))
    simp only [rowCols, List.map_cons, List.sum_cons, List.length_cons] at *
    omega

def maxRowLen : TRows → Nat
  | [] => 0
  | r :: rest => max r.length (maxRowLen rest)

theorem gridCols_le_maxRowLen (rows : TRows) (h : hasSpans rows = false) : gridCols rows ≤ maxRowLen rows := by
  induction rows with
  | nil => simp [gridCols, maxRowLen]
  | cons r rest ih =>
    simp only [hasSpans, List.any_cons, Bool.or_eq_false_iff] at h
    have h1 : ∀ c ∈ r, c.1 ≤ 1 := by
      intro c hc
      have := List.any_eq_false.mp h.1 c hc
      simp only [Bool.or_eq_true, decide_eq_true_eq, not_or, Nat.not_lt] at this
      exact this.1
    have := rowCols_le_length r h1
    have := ih (by simpa [hasSpans] using h.2)
    simp only [gridCols, maxRowLen]
    omega

theorem maxRowLen_of_shape (a b : TRows) (h : a.map List.length = b.map List.length) :
    maxRowLen a = maxRowLen b := by
  induction a generalizing b with
  | nil => cases b <;> simp_all [maxRowLen]
  | cons r rest ih =>
    cases b with
    | nil => simp at h
    | cons r' rest' =>
      simp only [List.map_cons, List.cons.injEq] at h
      simp only [maxRowLen, h.1, ih rest' h.2]

/-- **table_pipeline_bounded** (DOCX/ODT table: span attributes → cells → grid): for EVERY table —
any number of rows and cells, any span attribute values — the grid on which spans are processed
(rows x columns counted in spanned columns) has at most 2^20 cells, or at most as many as
rows x (cells of the longest row): the spans read from the file (each already cut to 1..1024 by
`acceptSpan`) cannot multiply. -/
theorem table_pipeline_bounded (raw : List (List (Option Int × Option Int))) :
    let rows : TRows := raw.map (fun r => r.map (fun c => (acceptSpan c.1, acceptSpan c.2)))
    let out := limitTableGrid rows
    out.length * gridCols out ≤ max maxTableGridCells (raw.length * maxRowLen rows) := by
  intro rows out
  have hlen : out.length = raw.length := by
    have := congrArg List.length (Tabula.C02Office.limitTableGrid_shape rows)
    simpa [rows] using this
  rcases Tabula.C02Office.table_grid_bounded rows with h | h
  · have h1 := gridCols_le_maxRowLen out h
    have h2 := maxRowLen_of_shape out rows (Tabula.C02Office.limitTableGrid_shape rows)
    have : out.length * gridCols out ≤ raw.length * maxRowLen rows := by
      rw [hlen, ← h2]; exact Nat.mul_le_mul_left _ h1
    omega
  · have : out.length * gridCols out ≤ maxTableGridCells := h
    omega

end Xlsx

section Pdf
open Tabula.BoundsCore Tabula.BoundsData

/-- **pdf_page_pipeline_bounded** (`reader.Open(f)` → `PageCount` → per page `ExtractText`): for EVERY
object graph, root, declared /Count, list of content stream lengths and content bytes: the page
walk ends within its step bound, never deeper than 10000; the page list has at most as many
entries; the content kept per page is at most 64 MiB + 1; parsing it never opens more than 500
containers. Each conjunct is the per-mechanism theorem; together they bound the work of the text
path in terms of the size of the file. -/
theorem pdf_page_pipeline_bounded (g : PGraph) (root : PV) (declared : Option Int) (lens : List Nat)
    (content : Tabula.Pdf.Str) :
    loadPagesWith g maxPageTreeDepth root ≠ .fuel ∧
    (∀ p k, loadPagesWith g maxPageTreeDepth root = .ok p k → k ≤ maxPageTreeDepth ∧ p ≤ pfuel g root + 1) ∧
    (∀ p, pageCount g root declared = some p → p ≤ pfuel g root + 1) ∧
    (∀ t, concatContents lens 0 = some t → t ≤ maxPageContentBytes + 1) ∧
    (Tabula.Pdf.CS.csParseT content).2 ≤ 500 :=
  ⟨Tabula.C02Core.page_tree_walk_bounded g _ root,
   fun p k h => Tabula.C02Core.page_tree_depth_bounded g _ root p k h,
   fun p h => Tabula.C02Core.page_count_bounded g root declared p h,
   fun t h => Tabula.C02Data.page_content_bounded lens 0 t (Nat.zero_le _) h,
   (parser_recursion_bounded content).2⟩

end Pdf

end Tabula.C02Bounds
