import TabulaModel.Lemmas.PdfErrors
/-!
# C06 — token errors propagate, at every call site, for every input

tabula fixes 9c10aa6 ("[ 1 ) ]" never returned) and b66a22e (an input ending inside a token looked
like a clean end of input) made `(*Parser).nextToken` record the first lexical error (`p.err`) and
hand out `TokenEOF` from then on.  The theorems below say, about the model of that code and for
EVERY byte string, that the discipline is complete:

* the recorded error is never cleared, and from the next token on the parser sees `TokenEOF`;
* `ParseObject` reports `io.EOF` exactly when its current token is `TokenEOF` and no error is
  recorded; arrays and dictionaries never report `io.EOF` (an error or a premature end inside a
  container is an error of the container);
* every successful call ends on a token boundary of the input (no byte of a later token is eaten, no
  token is seen twice), so the windows the harness observes (`c06.win`) are `NewParser` windows of
  rests of the input;
* a run of `ParseObject` calls ends with `io.EOF` ONLY IF the lexer tokenizes the whole input without
  an error; a lexical error anywhere (stray `)` or `>`, bad `#` escape, unterminated string or hex
  string, `{`, …) makes the run end with an error.

Helper lemmas: `Lemmas/PdfErrors.lean` (on top of `PdfCoreProgress.lean`).
-/
namespace Tabula.C06Errors
open Tabula.Pdf

/-- the lexer (comments are its tokens) reaches the end of `inp` without an error -/
abbrev Tokenizes (inp : Str) : Prop := Errs.Tokenizes inp

/-- `Tokenizes` is what the lexer run of `Model/LexPos.lean` (op `c06.lexp` / `c06.lex`) computes. -/
theorem tokenizes_iff (inp : Str) : (lexTokens inp).2 = .eof ↔ Tokenizes inp :=
  Errs.lexTokens_eof_iff inp

/-- `y` is what is left of `x` after one or more complete (non-comment) tokens, none of them the end of
input or the keyword `stream` -/
abbrev Reach (x y : Str) : Prop := Errs.Reach x y

/-- a rest reached over complete tokens is a strictly shorter suffix, and it tokenizes only if the whole does -/
theorem reach_facts (x y : Str) (h : Reach x y) :
    y <:+ x ∧ y.length < x.length ∧ (Tokenizes y → Tokenizes x) :=
  ⟨h.shorter.1, h.shorter.2, h.tokenizes⟩

example : Reach [49, 32, 50] [32, 50] :=
  Errs.Reach.one (t := .integer [49]) (by decide) (by decide) (by decide)

/-! ## the error flag -/

/-- `(*Parser).nextToken` never clears a recorded lexical error. -/
theorem error_is_sticky (s : PState) (h : s.err = true) : s.next.err = true :=
  Errs.next_err s h

/-- The parser state `NewParser` builds on any bytes satisfies: if a lexical error is recorded, the
lookahead slot holds `TokenEOF`; `nextToken` preserves this … -/
theorem error_means_eof_lookahead (x : Str) : (stateAt x).err = true → (stateAt x).peek = some .eof :=
  Errs.errInv_stateAt x

theorem error_discipline_preserved (s : PState) (h : s.err = true → s.peek = some .eof) :
    s.next.err = true → s.next.peek = some .eof :=
  Errs.errInv_next s h

/-- … so after a recorded error the very next current token is `TokenEOF`, with the error still
recorded: the input has ended for the parser. -/
theorem after_error_input_ends (s : PState) (hi : s.err = true → s.peek = some .eof) (he : s.err = true) :
    s.next.cur = some .eof ∧ s.next.err = true ∧ s.next.peek = some .eof :=
  Errs.after_error s hi he

example : (stateAt [49, 41]).err = true ∧ (stateAt [49, 41]).peek = some .eof := by decide

/-! ## which error is reported -/

/-- **`io.EOF` is reported exactly at a clean end**: current token `TokenEOF`, no lexical error recorded
(whatever the nesting depth). -/
theorem clean_eof_iff (f d : Nat) (s : PState) :
    parseObject (f + 1) d s = .error .eof ↔ s.cur = some .eof ∧ s.err = false :=
  Errs.parseObject_eof_iff f d s

/-- Arrays and dictionaries never report `io.EOF`: an element that fails, a missing `]` / `>>`, a key that
is not a name, an input that ends inside — all are errors of the container. -/
theorem containers_never_report_eof (f d : Nat) (s : PState) :
    (∀ acc, parseArray f d s acc ≠ .error .eof) ∧ (∀ acc, parseDict f d s acc ≠ .error .eof) :=
  ⟨fun acc => (Errs.containers_no_eof f).1 d s acc, fun acc => (Errs.containers_no_eof f).2 d s acc⟩

/-- … nor does the `num gen R` lookahead. -/
theorem number_never_reports_eof (s : PState) (v : Str) : parseNumber s v ≠ .error .eof :=
  Errs.parseNumber_no_eof s v

/-- With a recorded error and `TokenEOF` current, `ParseObject` reports the error, at any depth. -/
theorem recorded_error_is_reported (f d : Nat) (s : PState) (hc : s.cur = some .eof) (he : s.err = true) :
    parseObject (f + 1) d s = .error .err := by
  rw [parseObject, hc]
  simp [he]

example : (stateAt [41]).cur = some .eof ∧ (stateAt [41]).err = true := by decide

/-! ## landing on token boundaries -/

/-- **Every successful call of `ParseObject`, `parseArray`, `parseDict`** started on the window over the bytes
`x` (any bytes, any fuel, any depth, any accumulator) ends on the window over a rest `y` of `x` that is reached
over complete tokens: nothing of a later token is consumed, no token is seen twice. -/
theorem parse_lands_on_token_boundary (f d : Nat) (x : Str) :
    (∀ o s', parseObject f d (stateAt x) = .ok (o, s') → ∃ y, s' = stateAt y ∧ Reach x y) ∧
    (∀ acc o s', parseArray f d (stateAt x) acc = .ok (o, s') → ∃ y, s' = stateAt y ∧ Reach x y) ∧
    (∀ acc o s', parseDict f d (stateAt x) acc = .ok (o, s') → ∃ y, s' = stateAt y ∧ Reach x y) :=
  ⟨fun o s' h => (Errs.land f).1 d x o s' h,
   fun acc o s' h => (Errs.land f).2.1 d x acc o s' h,
   fun acc o s' h => (Errs.land f).2.2 d x acc o s' h⟩

example : (coreParse [91, 49, 93, 32, 53]).toOption.isSome = true := by decide +kernel

/-! ## a run of `ParseObject` calls -/

/-- **`io.EOF` only after every byte was tokenized**: if `ParseObject` called again and again ends with
`io.EOF`, the lexer tokenizes the whole input without an error. -/
theorem eof_only_if_tokenized (inp : Str) (h : (coreParseAll inp).2 = .eof) : Tokenizes inp :=
  Errs.coreParseAll_eof inp h

example : (coreParseAll [49, 32, 47, 65, 91, 93]).2 = .eof := by decide +kernel

/-- **A lexical error anywhere in the input is reported**: the run ends with an error, never with a clean
end of input — however many objects were read before it. -/
theorem lexical_error_is_reported (inp : Str) (h : ¬ Tokenizes inp) : (coreParseAll inp).2 = .err :=
  Errs.coreParseAll_lex_error inp h

/-- the same from any intermediate state `stateAt x`, with any per-call fuel and call bound -/
theorem eof_only_if_tokenized_from (F n : Nat) (x : Str) (acc os : List Obj)
    (h : Prog.parseSeq F n (stateAt x) acc = (os, some .eof)) : Tokenizes x :=
  Errs.parseSeq_eof F n x acc os h

/-- the witnesses of the two fixes, and inputs that end inside a token: none tokenizes … -/
example : ¬ Tokenizes [91, 32, 49, 32, 41, 32, 93] := by          -- "[ 1 ) ]"
  rw [← tokenizes_iff]; decide +kernel
example : ¬ Tokenizes [40, 97, 98, 99] := by                       -- "(abc"
  rw [← tokenizes_iff]; decide +kernel
example : ¬ Tokenizes [49, 32, 60, 52, 49] := by                   -- "1 <41"
  rw [← tokenizes_iff]; decide +kernel
example : ¬ Tokenizes [47, 65, 35, 52] := by                       -- "/A#4"
  rw [← tokenizes_iff]; decide +kernel
/-- … and a legal sequence does -/
example : Tokenizes [49, 32, 37, 99, 13, 10, 47, 65, 40, 41] := by -- "1 %c\r\n/A()"
  rw [← tokenizes_iff]; decide +kernel

/-! ## the observable window -/

/-- Every window the harness reads off the Go parser (`c06.win`: after `NewParser` and after every
successful `ParseObject`) obeys the discipline: a recorded error comes with `TokenEOF` in the lookahead slot. -/
theorem observed_windows_obey_discipline (inp : Str) :
    ∀ w ∈ (windowTrace inp).1, w.err = true → w.peek = some .eof :=
  Errs.windowTrace_inv inp

end Tabula.C06Errors
