import TabulaModel.Props.C04Bytes
import TabulaModel.Lemmas.XrefNest
/-!
# C04 — the limit on objects being loaded inside each other (reader/reader.go since 129dd3d)

Resolving an indirect `/Length` while its stream is being parsed re-enters `Reader.GetObject`.
The repair 129dd3d ("no input can exhaust the process") refuses the seventeenth object to be
loaded inside sixteen others (`maxNestedLoads = 16`, checked with `len(r.loading) >= 16` behind
the entry checks and the self-reference check, before the object is marked as loading).

* `nested_load_limit_is_error` — beyond the limit the model answers what the code answers;
* `nested_loads_bounded` — the recursion of a lookup is at most 16 `GetObject` calls deep on
  every file (the model's structural fuel, 17, is never what ends it);
* `nested_loads_within_limit` / `nested_loads_beyond_limit` — a chain of `d` nested loads
  (streams whose `/Length` is held by another object, object streams whose `/Length` is held by
  a member of another object stream, …) is answered exactly as written iff `d ≤ 16`.

A document that conforms to ISO 32000-1 nests at most three loads: a stream, its `/Length` held
by a member of an object stream, that object stream's own `/Length` held by a plain object
(7.5.7 forbids storing the `/Length` of an object stream inside an object stream). The
end-to-end theorems of `Props/C04Bytes.lean` (depth one) stand verbatim.
-/
namespace Tabula.C04N
open Tabula.XrefFile Tabula.XrefBytes Tabula.Pdf Tabula.Reader Tabula.C04B

/-- **nested_load_limit_is_error** (what the code answers beyond the bound): with 16 objects
already in the middle of being loaded, `GetObject` of any further object is an error — whatever
the table and the file say about it -/
theorem nested_load_limit_is_error (ext : Reader.Ext) (file : List Nat) (x : RawSection) (fuel : Nat)
    (loading : List Int) (n : Int) (h : 16 ≤ loading.length) :
    getObjectB ext file x fuel loading n = none :=
  getObjectB_limit ext file x fuel loading n h

/-- **nested_loads_bounded** (bounded work, every file): the lookup the reader makes
(`getObjectB` with 17 units of nesting fuel from an empty `loading` set) never runs out of that
fuel — more fuel gives the same answer on every file and table: no lookup is more than 16
`GetObject` calls deep, each call parsing one indirect object (and, for a compressed entry,
one object stream). Before 129dd3d the model needed `x.length + 2`: the depth was bounded only
by the number of objects. -/
theorem nested_loads_bounded (ext : Reader.Ext) (file : List Nat) (x : RawSection) (n : Int) (k : Nat) :
    getObjectB ext file x (maxNestedLoads + 1 + k) [] n = getObjectB ext file x (maxNestedLoads + 1) [] n :=
  getObjectB_fuel ext file x _ _ [] n (by simp) (by simp)

/-- … and the same at any nesting: with `loading` already being loaded, `17 - loading.length`
further levels are all there can be -/
theorem nested_loads_bounded_at (ext : Reader.Ext) (file : List Nat) (x : RawSection) (loading : List Int)
    (n : Int) (k : Nat) :
    getObjectB ext file x (maxNestedLoads + 1 - loading.length + k) loading n =
      getObjectB ext file x (maxNestedLoads + 1 - loading.length) loading n :=
  getObjectB_fuel ext file x _ _ loading n (by omega) (by omega)

/-! ### chains of nested loads -/

/-- at offset `off` of `file` stands the stream object `num` whose `/Length` is the reference
`m g R` (any legal spelling of everything) -/
def StreamRefAt (file : List Nat) (off : Int) (num : Nat) (b : Body) (m g : Int) : Prop :=
  ∃ (before : List Nat) (gen : Nat) (s1 s2 : Sep) (rest : List Nat),
    file = before ++ renderIndirect num gen s1 s2 b rest ∧ (before.length : Int) = off ∧
    num ≤ Tabula.A1.maxInt64 ∧ gen ≤ Tabula.A1.maxInt64 ∧ SepOk s1 ∧ s1 ≠ [] ∧ SepOk s2 ∧ s2 ≠ [] ∧
    b.OkRef m g ∧ Terminated rest

theorem uncompressedAt_streamRef (file : List Nat) (off : Int) (num : Nat) (b : Body) (m g : Int)
    (lenOf : Int → Option Int) (h : StreamRefAt file off num b m g)
    (hl : lenOf m = some (b.dataLen : Int)) : uncompressedAt file (num : Int) off lenOf = some b.value := by
  obtain ⟨before, gen, s1, s2, rest, hfile, hoff, hn, hg, h1, h1n, h2, h2n, hb, hT⟩ := h
  unfold uncompressedAt
  have hneg : ¬ (off < 0) := by omega
  have hto : off.toNat = before.length := by omega
  simp only [hneg, if_false, hto, hfile, List.drop_left]
  rw [parseIndirect_render lenOf num gen s1 s2 b rest hn hg h1 h1n h2 h2n (hb.ok lenOf hl) hT]
  simp

theorem uncompressedAt_streamRef_unresolved (file : List Nat) (off : Int) (num : Nat) (b : Body) (m g : Int)
    (lenOf : Int → Option Int) (h : StreamRefAt file off num b m g)
    (hl : lenOf m = none) : uncompressedAt file (num : Int) off lenOf = none := by
  obtain ⟨before, gen, s1, s2, rest, hfile, hoff, hn, hg, h1, h1n, h2, h2n, hb, hT⟩ := h
  unfold uncompressedAt
  have hneg : ¬ (off < 0) := by omega
  have hto : off.toNat = before.length := by omega
  simp only [hneg, if_false, hto, hfile, List.drop_left]
  rw [parseIndirect_render_unresolved lenOf num gen s1 s2 b rest m g hn hg h1 h1n h2 h2n hb hl hT]

/-- `Loads ext file x n v path`: by the table `x` and the bytes of `file`, object `n` is written
as the value `v`, and loading it loads the objects `path` inside each other (`n` first):
* `direct` — an in-use entry, the object needs no resolver (a plain value, a stream with a
  direct `/Length`);
* `stream` — an in-use entry, a stream whose `/Length` is `m g R`, and `m` is (by a chain of
  its own) the integer number of data bytes;
* `member` — a compressed entry, the object stream needs no resolver;
* `memberRef` — a compressed entry, the object stream's `/Length` is `m g R` as above (the
  object stream itself is read by `getObjectStream` without passing through `GetObject`: it
  does not count). -/
inductive Loads (ext : Reader.Ext) (file : List Nat) (x : RawSection) : Int → PVal → List Int → Prop
  | direct (num : Nat) (e : RawEntry) (b : Body) :
      getLastI x (num : Int) = some e → e.kind = .inUse → ObjectAt file e.f1 num b →
      Loads ext file x (num : Int) b.value [(num : Int)]
  | stream (num : Nat) (e : RawEntry) (b : Body) (m g : Int) (path : List Int) :
      getLastI x (num : Int) = some e → e.kind = .inUse → StreamRefAt file e.f1 num b m g →
      Loads ext file x m (.obj (.int (b.dataLen : Int))) path →
      Loads ext file x (num : Int) b.value ((num : Int) :: path)
  | member (n : Int) (e se : RawEntry) (stm : Nat) (pre : Sep) (kvs : List SObj) (close s3 : Sep)
      (seol : StreamEol) (data w4 : List Nat) (s5 : Sep) (os : Reader.ObjStm) (o : Obj) :
      getLastI x n = some e → e.kind = .compressed → e.f1 = (stm : Int) →
      getLastI x (stm : Int) = some se → se.kind ≠ .compressed →
      ObjectAt file se.f1 stm (.stream pre kvs close s3 seol data w4 s5) →
      Reader.mkObjStm ext (valueKVs kvs) data = .ok os → osSpec (.ok os) e.f2 = some (n, o) →
      Loads ext file x n (.obj o) [n]
  | memberRef (n : Int) (e se : RawEntry) (stm : Nat) (pre : Sep) (kvs : List SObj) (close s3 : Sep)
      (seol : StreamEol) (data w4 : List Nat) (s5 : Sep) (os : Reader.ObjStm) (o : Obj) (m g : Int)
      (path : List Int) :
      getLastI x n = some e → e.kind = .compressed → e.f1 = (stm : Int) →
      getLastI x (stm : Int) = some se → se.kind ≠ .compressed →
      StreamRefAt file se.f1 stm (.stream pre kvs close s3 seol data w4 s5) m g →
      Loads ext file x m (.obj (.int (data.length : Int))) path →
      Reader.mkObjStm ext (valueKVs kvs) data = .ok os → osSpec (.ok os) e.f2 = some (n, o) →
      Loads ext file x n (.obj o) (n :: path)

theorem Loads.path_pos {ext : Reader.Ext} {file : List Nat} {x : RawSection} {n : Int} {v : PVal} {path : List Int}
    (h : Loads ext file x n v path) : 1 ≤ path.length := by
  cases h <;> simp

/-- the member of a decoded object stream, as `getCompressedObject` extracts it -/
theorem memberAtI_of_spec (os : Reader.ObjStm) (n : Int) (idx : Int) (o : Obj)
    (hmem : osSpec (.ok os) idx = some (n, o)) : (memberAtI os n idx).map PVal.obj = some (.obj o) := by
  unfold osSpec at hmem
  unfold memberAtI
  by_cases hneg : idx < 0
  · simp [hneg] at hmem
  · simp only [hneg, if_false] at hmem ⊢
    cases hsl : Reader.memberSlice os idx.toNat with
    | none => rw [hsl] at hmem; simp at hmem
    | some p =>
      obtain ⟨num, bytes⟩ := p
      rw [hsl] at hmem
      simp only at hmem ⊢
      cases hp : coreParse bytes with
      | error err => rw [hp] at hmem; simp at hmem
      | ok r =>
        obtain ⟨o', st⟩ := r
        rw [hp] at hmem
        simp only [Option.some.injEq, Prod.mk.injEq] at hmem
        obtain ⟨rfl, rfl⟩ := hmem
        simp

/-- a chain that fits the limit is read exactly as written, at any nesting -/
theorem loads_within (ext : Reader.Ext) (file : List Nat) (x : RawSection) (n : Int) (v : PVal) (path : List Int)
    (h : Loads ext file x n v path) :
    ∀ (loading : List Int) (fuel : Nat), path.Nodup → (∀ a ∈ path, a ∉ loading) →
      loading.length + path.length ≤ maxNestedLoads → path.length ≤ fuel →
      getObjectB ext file x fuel loading n = some v := by
  induction h with
  | direct num e b hx he hobj =>
    intro loading fuel _ hdis hlim hfuel
    cases fuel with
    | zero => simp at hfuel
    | succ f =>
      exact lookup_in_use_at ext file x f loading num e b hx he hobj (hdis _ (by simp))
        (by simp at hlim; omega)
  | stream num e b m g path hx he hobj hsub ih =>
    intro loading fuel hnd hdis hlim hfuel
    cases fuel with
    | zero => simp at hfuel
    | succ f =>
      simp only [List.nodup_cons] at hnd
      simp only [List.length_cons] at hlim hfuel
      have hsubv := ih ((num : Int) :: loading) f hnd.2
        (by
          intro a ha hmem
          simp only [List.mem_cons] at hmem
          rcases hmem with rfl | hmem
          · exact hnd.1 ha
          · exact hdis a (by simp [ha]) hmem)
        (by simp only [List.length_cons]; omega) (by omega)
      have hc : loading.contains (num : Int) = false := by
        have := hdis (num : Int) (by simp)
        simpa using this
      have hl : ¬ (loading.length ≥ maxNestedLoads) := by
        have := hsub.path_pos; omega
      simp only [getObjectB, hx, he, hc, hl]
      simp only [Bool.false_eq_true, if_false]
      have : (decide (Kind.inUse = Kind.free)) = false := by decide
      simp only [this, Bool.false_eq_true, if_false, if_true]
      exact uncompressedAt_streamRef file e.f1 num b m g _ hobj (by rw [hsubv])
  | member n e se stm pre kvs close s3 seol data w4 s5 os o hx he hstm hs hse hobj hdec hmem =>
    intro loading fuel _ hdis hlim hfuel
    cases fuel with
    | zero => simp at hfuel
    | succ f =>
      exact lookup_compressed_at ext file x f loading n e se stm pre kvs close s3 seol data w4 s5 os o hx he hstm
        hs hse hobj hdec hmem (hdis _ (by simp)) (by simp at hlim; omega)
  | memberRef n e se stm pre kvs close s3 seol data w4 s5 os o m g path hx he hstm hs hse hobj hsub hdec hmem ih =>
    intro loading fuel hnd hdis hlim hfuel
    cases fuel with
    | zero => simp at hfuel
    | succ f =>
      simp only [List.nodup_cons] at hnd
      simp only [List.length_cons] at hlim hfuel
      have hsubv := ih (n :: loading) f hnd.2
        (by
          intro a ha hmem'
          simp only [List.mem_cons] at hmem'
          rcases hmem' with rfl | hmem'
          · exact hnd.1 ha
          · exact hdis a (by simp [ha]) hmem')
        (by simp only [List.length_cons]; omega) (by omega)
      have hc : loading.contains n = false := by
        have := hdis n (by simp)
        simpa using this
      have hl : ¬ (loading.length ≥ maxNestedLoads) := by
        have := hsub.path_pos; omega
      have hk1 : ¬ (e.kind = .free) := by rw [he]; decide
      have hk2 : ¬ (e.kind = .inUse) := by rw [he]; decide
      have hk3 : ¬ (se.kind = .compressed) := hse
      simp only [getObjectB, hx, hk1, hk2, if_false, hstm, hs, hk3, hc, hl]
      simp only [Bool.false_eq_true, if_false]
      rw [uncompressedAt_streamRef file se.f1 stm _ m g _ hobj (by rw [hsubv]; rfl)]
      simp only [Body.value, hdec]
      exact memberAtI_of_spec os n e.f2 o hmem

/-- a chain that does not fit the limit is an error, at any nesting and with any fuel -/
theorem loads_beyond (ext : Reader.Ext) (file : List Nat) (x : RawSection) (n : Int) (v : PVal) (path : List Int)
    (h : Loads ext file x n v path) :
    ∀ (loading : List Int) (fuel : Nat), maxNestedLoads < loading.length + path.length →
      getObjectB ext file x fuel loading n = none := by
  induction h with
  | direct num e b hx he hobj =>
    intro loading fuel hlim
    exact getObjectB_limit ext file x fuel loading _ (by simp at hlim; omega)
  | member n e se stm pre kvs close s3 seol data w4 s5 os o hx he hstm hs hse hobj hdec hmem =>
    intro loading fuel hlim
    exact getObjectB_limit ext file x fuel loading _ (by simp at hlim; omega)
  | stream num e b m g path hx he hobj hsub ih =>
    intro loading fuel hlim
    by_cases hl : maxNestedLoads ≤ loading.length
    · exact getObjectB_limit ext file x fuel loading _ hl
    · cases fuel with
      | zero => rfl
      | succ f =>
        simp only [List.length_cons] at hlim
        have hsubv := ih ((num : Int) :: loading) f (by simp only [List.length_cons]; omega)
        have hl' : ¬ (loading.length ≥ maxNestedLoads) := by omega
        have hu : ∀ lenOf : Int → Option Int, lenOf m = none → uncompressedAt file (num : Int) e.f1 lenOf = none :=
          fun lenOf h => uncompressedAt_streamRef_unresolved file e.f1 num b m g lenOf hobj h
        have hkf : ¬ (Kind.inUse = Kind.free) := by decide
        simp only [getObjectB, hx, he, hl', hkf, if_false, if_true]
        by_cases hc : loading.contains (num : Int) = true
        · simp only [hc, if_true]
        · simp only [hc, Bool.false_eq_true, if_false]
          rw [hu]
          simp only [hsubv]
  | memberRef n e se stm pre kvs close s3 seol data w4 s5 os o m g path hx he hstm hs hse hobj hsub hdec hmem ih =>
    intro loading fuel hlim
    by_cases hl : maxNestedLoads ≤ loading.length
    · exact getObjectB_limit ext file x fuel loading _ hl
    · cases fuel with
      | zero => rfl
      | succ f =>
        simp only [List.length_cons] at hlim
        have hsubv := ih (n :: loading) f (by simp only [List.length_cons]; omega)
        have hl' : ¬ (loading.length ≥ maxNestedLoads) := by omega
        have hk1 : ¬ (e.kind = .free) := by rw [he]; decide
        have hk2 : ¬ (e.kind = .inUse) := by rw [he]; decide
        have hk3 : ¬ (se.kind = .compressed) := hse
        have hu : ∀ lenOf : Int → Option Int, lenOf m = none → uncompressedAt file (stm : Int) se.f1 lenOf = none :=
          fun lenOf h => uncompressedAt_streamRef_unresolved file se.f1 stm _ m g lenOf hobj h
        simp only [getObjectB, hx, hk1, hk2, if_false, hstm, hs, hk3, hl']
        by_cases hc : loading.contains n = true
        · simp only [hc, if_true]
        · simp only [hc, Bool.false_eq_true, if_false]
          rw [hu]
          simp only [hsubv]

/-- **nested_loads_within_limit** (the property's first sentence at every nesting the code
allows): if by the table `reader.Open` keeps and the bytes of the file, object `n` is written as
`v` through a chain of `d ≤ 16` distinct objects loaded inside each other — each a stream or an
object-stream member whose (object stream's) `/Length` is held by the next, the last one needing
no resolver — then `reader.Open(file).GetObject(n)` is exactly `v`. -/
theorem nested_loads_within_limit (ext : Reader.Ext) (file : List Nat) (x : RawSection) (n : Int) (v : PVal)
    (path : List Int) (hopen : openFile ext file = .ok x) (h : Loads ext file x n v path)
    (hnd : path.Nodup) (hd : path.length ≤ 16) :
    lookup ext file n = .ok (some v) := by
  unfold lookup
  rw [hopen]
  simp only
  rw [loads_within ext file x n v path h [] (maxNestedLoads + 1) hnd (by simp)
    (by simp [maxNestedLoads]; omega) (by simp [maxNestedLoads]; omega)]

/-- **nested_loads_beyond_limit** (beyond the bound the model answers what the code answers):
the same chain with `d ≥ 17` objects is an error — although every object of it is written in
the file as the table says. This is what 129dd3d changed: before, the chain was answered at any
length (and the memory needed grew with its square). -/
theorem nested_loads_beyond_limit (ext : Reader.Ext) (file : List Nat) (x : RawSection) (n : Int) (v : PVal)
    (path : List Int) (hopen : openFile ext file = .ok x) (h : Loads ext file x n v path)
    (hd : 17 ≤ path.length) :
    lookup ext file n = .ok none := by
  unfold lookup
  rw [hopen]
  simp only
  rw [loads_beyond ext file x n v path h [] (maxNestedLoads + 1) (by simp [maxNestedLoads]; omega)]

/-! ### the hypotheses are satisfiable, and the edge of the bound -/

/-- **nested_loads_witness**: `Loads` is satisfiable by a chain of two — the file
`1 0 obj <</Length 2 0 R>> stream LF abc LF endstream endobj LF 2 0 obj 3 endobj LF` with the
table "1 in use at 0, 2 in use behind it": object 1 loads as the stream `abc`, loading object 2
inside it. -/
theorem nested_loads_witness (ext : Reader.Ext) :
    ∃ (file : List Nat) (x : RawSection) (kv : Dict),
      Loads ext file x 1 (.stream kv [97, 98, 99]) [1, 2] := by
  let lenKey : SObj := SObj.name [] [.raw 76, .raw 101, .raw 110, .raw 103, .raw 116, .raw 104]
  let kvs : List SObj := [lenKey, SObj.ref [.ws 32] 2 0 [.ws 32] [.ws 32]]
  let b1 : Body := .stream [.ws 10] kvs [] [.ws 10] .lf [97, 98, 99] [10] [.ws 10]
  let b2 : Body := .plain (SObj.int [.ws 10] false 0 3) [.ws 10]
  let o1 := renderIndirect 1 0 [.ws 32] [.ws 32] b1 []
  let o2 := renderIndirect 2 0 [.ws 32] [.ws 32] b2 []
  let file := o1 ++ ([10] ++ (o2 ++ [10]))
  let off2 : Int := ((o1 ++ [10] : List Nat).length : Int)
  let x : RawSection := [(1, ⟨.inUse, 0, 0⟩), (2, ⟨.inUse, off2, 0⟩)]
  have hws32 : SepOk [SepUnit.ws 32] := by
    intro u hu; simp at hu; subst hu; simp [SepUnit.Ok, isWs]
  have hws10 : SepOk [SepUnit.ws 10] := by
    intro u hu; simp at hu; subst hu; simp [SepUnit.Ok, isWs]
  have h1 : StreamRefAt file 0 1 b1 2 0 := by
    refine ⟨[], 0, [.ws 32], [.ws 32], [10] ++ (o2 ++ [10]), ?_, rfl, by decide, by decide, hws32, by simp,
      hws32, by simp, ?_, Prs.term_cons 10 _ (by decide)⟩
    · show o1 ++ _ = [] ++ _
      rw [renderIndirect_append 1 0 [.ws 32] [.ws 32] b1 ([10] ++ _)]
      simp [o1]
    · refine ⟨?_, ?_, hws10, ?_, hws10, by simp, ?_⟩
      · simp [kvs, lenKey, SObj.Valid, ValidKVs, SepOk, SepUnit.Ok, SObj.isName, keysOf, SObj.keyBytes, NPiece.Ok,
          isWs, isDelim, Tabula.A1.maxInt64]
      · simp [kvs, lenKey, SObj.value, Obj.depth, valueKVs, Obj.depthKV, maxNestingDepth]
      · intro c hc; simp at hc; subst hc; decide
      · simp [kvs, lenKey, valueKVs, SObj.keyBytes, SObj.value, dget, kLength, NPiece.byte]
  have h2 : ObjectAt file off2 2 b2 := by
    refine ⟨o1 ++ [10], 0, [.ws 32], [.ws 32], [10], ?_, rfl, by decide, by decide, hws32, by simp, hws32,
      by simp, ?_, Prs.term_cons 10 _ (by decide)⟩
    · show o1 ++ ([10] ++ (o2 ++ [10])) = _
      rw [renderIndirect_append 2 0 [.ws 32] [.ws 32] b2 [10]]
      simp [o2]
    · refine ⟨?_, ?_, hws10, ?_⟩
      · simp [SObj.Valid, SepOk, SepUnit.Ok, isWs]
      · simp [SObj.value, Obj.depth]
      · intro _; simp
  have hx1 : getLastI x ((1 : Nat) : Int) = some ⟨.inUse, 0, 0⟩ := by
    simp [x, getLastI]
  have hx2 : getLastI x ((2 : Nat) : Int) = some ⟨.inUse, off2, 0⟩ := by
    simp [x, getLastI]
  have l2 : Loads ext file x ((2 : Nat) : Int) b2.value [((2 : Nat) : Int)] :=
    .direct 2 _ b2 hx2 rfl h2
  have l1 : Loads ext file x ((1 : Nat) : Int) b1.value [((1 : Nat) : Int), ((2 : Nat) : Int)] :=
    .stream 1 _ b1 2 0 _ hx1 rfl h1 l2
  exact ⟨file, x, valueKVs kvs, l1⟩

/-- **at the edge of the bound**: in that file, object 1 — which loads object 2 inside itself —
is read as written while at most 14 other objects are being loaded (1 and 2 are then the 15th
and the 16th), and is an error with 15 others: the 17th load is refused although every byte is
as the table says. (The harness runs the code and the model on files whose chains are 15, 16,
17, 18, 40 and 300 loads long.) -/
theorem nested_loads_edge (ext : Reader.Ext) :
    ∃ (file : List Nat) (x : RawSection) (kv : Dict),
      getObjectB ext file x 17 (List.replicate 14 7) 1 = some (.stream kv [97, 98, 99]) ∧
      getObjectB ext file x 17 (List.replicate 15 7) 1 = none := by
  obtain ⟨file, x, kv, h⟩ := nested_loads_witness ext
  refine ⟨file, x, kv, ?_, ?_⟩
  · exact loads_within ext file x 1 _ _ h (List.replicate 14 7) 17 (by decide)
      (by
        intro a ha hm
        have := List.eq_of_mem_replicate hm
        subst this
        simp at ha)
      (by simp [maxNestedLoads]) (by simp)
  · exact loads_beyond ext file x 1 _ _ h (List.replicate 15 7) 17 (by simp [maxNestedLoads])

end Tabula.C04N
