import TabulaModel.Props.C20Api
import TabulaModel.Lemmas.EncXml
/-!
# C20, encryption metadata — the DRM decision for every encryption.xml

Theorems about `Model/EncXml.lean`: what `hasEncryptedContent` makes of the CONTENT of
META-INF/encryption.xml (the struct declarations of epubdoc/drm.go and their two
`UnmarshalXML` methods), composed with the gate (`Model/Drm.lean`), the archive
(`Model/Admit.lean`) and the public API.  The tokeniser of `encoding/xml` is the only
parameter left: the statements are for every element tree it can deliver.
Helper lemmas: `Lemmas/EncXml.lean`.
-/
set_option autoImplicit false
namespace Tabula.C20E
open Tabula.Detect Tabula.Drm Tabula.Admit Tabula.EncXml Tabula.C20 Tabula.C20A

/-! ## what is read from the file -/

/-- `enc_parse_error_iff`: the parse fails — and the gate refuses — exactly when the file
cannot be read or tokenised, or its first element is not called `encryption` (in whatever
namespace, with whatever attributes) -/
theorem enc_parse_error_iff (d : EncDoc) :
    encEntries d = none ↔
      d = none ∨ d = some .other ∨ ∃ n as ks, d = some (.elem n as ks) ∧ n ≠ sEncryption := by
  cases d with
  | none => simp [encEntries]
  | some root =>
    cases root with
    | other => simp [encEntries, unmarshalEnc]
    | elem n as ks =>
      by_cases hn : n = sEncryption
      · simp [encEntries, unmarshalEnc, hn]
      · simp [encEntries, unmarshalEnc, hn]

/-- `enc_entries_spec`: a readable file gives ONE entry per direct child `EncryptedData` of
the root, in document order; the entry's algorithm is the last unqualified `Algorithm`
attribute over the element's `EncryptionMethod` children, its reference the last
unqualified `URI` attribute over the `CipherReference` children of its `CipherData`
children (`""` when there is none).  Nothing else of the file is looked at. -/
theorem enc_entries_spec (d : EncDoc) (es : List Entry) :
    encEntries d = some es ↔
      ∃ as ks, d = some (.elem sEncryption as ks) ∧ es = (dataKids ks).map entryOf := by
  cases d with
  | none => simp [encEntries]
  | some root =>
    cases root with
    | other => simp [encEntries, unmarshalEnc]
    | elem n as ks =>
      by_cases hn : n = sEncryption
      · subst hn
        simp only [encEntries, Option.bind_some, unmarshalEnc, if_true, umRootKids_eq, Option.some.injEq,
          XNode.elem.injEq, true_and]
        constructor
        · intro h; exact ⟨as, ks, ⟨rfl, rfl⟩, h.symm⟩
        · rintro ⟨_, _, ⟨rfl, rfl⟩, h⟩; exact h.symm
      · simp only [encEntries, Option.bind_some, unmarshalEnc, hn, if_false]
        refine ⟨fun h => (by cases h), ?_⟩
        rintro ⟨_, _, h, _⟩
        injection h with h
        injection h with h
        exact absurd h hn

/-- `"META-INF/encryption.xml"`'s usual root attribute `xmlns="urn:oasis:names:tc:opendocument:xmlns:container"`,
abbreviated -/
def exNsAttr : XAttr := ⟨[], [120, 109, 108, 110, 115], [117, 114, 110, 58, 99]⟩

/-- a key element in front, one `EncryptedData` for a font (IDPF obfuscation) and one for a
chapter (AES) -/
def exTree : XNode :=
  .elem sEncryption [exNsAttr]
    [.other, .elem [75, 101, 121] [] [.elem sEncryptedData [] []],
     .elem sEncryptedData [⟨[], [73, 100], [49]⟩]
       [.elem sEncryptionMethod [⟨[], sAlgorithm, algoIdpf⟩] [], .other,
        .elem sCipherData [] [.elem sCipherReference [⟨[], sURI, uFont⟩] []]],
     .elem sEncryptedData []
       [.elem sCipherData [] [.other, .elem sCipherReference [⟨[], sURI, uCh1⟩] []],
        .elem sEncryptionMethod [⟨[], sAlgorithm, aes256⟩] [.elem [75] [] []]]]

example : encEntries (some exTree) = some [⟨algoIdpf, uFont⟩, ⟨aes256, uCh1⟩] := by decide

/-- every list of entries written the canonical way — root `encryption`, per entry an
`EncryptedData` holding `EncryptionMethod/@Algorithm`, a `KeyInfo` and
`CipherData/CipherReference/@URI`, white space in between — is read back exactly -/
def treeOfEntry (e : Entry) : XNode :=
  .elem sEncryptedData [⟨[], [73, 100], [101]⟩]
    [.other, .elem sEncryptionMethod [⟨[], sAlgorithm, e.algorithm⟩] [], .other,
     .elem [75, 101, 121, 73, 110, 102, 111] [] [.other],
     .elem sCipherData [] [.other, .elem sCipherReference [⟨[], sURI, e.uri⟩] [], .other], .other]

def treeOfEntries (es : List Entry) : XNode :=
  .elem sEncryption [exNsAttr] (es.flatMap fun e => [.other, treeOfEntry e])

theorem treeOfEntry_read (e : Entry) (rest : List XNode) :
    umRootKids (.other :: treeOfEntry e :: rest) = e :: umRootKids rest := by
  cases e with
  | mk a u =>
    have h1 : sCipherData ≠ sEncryptionMethod := by decide
    have h2 : ([75, 101, 121, 73, 110, 102, 111] : Str) ≠ sEncryptionMethod := by decide
    have h3 : ([75, 101, 121, 73, 110, 102, 111] : Str) ≠ sCipherData := by decide
    simp [umRootKids, treeOfEntry, umEncData, umMethod, umRef, umCipherData, lastAttr, h1, h2, h3]

theorem enc_reads_declared_entries (es : List Entry) : encEntries (some (treeOfEntries es)) = some es := by
  simp only [encEntries, Option.bind_some, treeOfEntries, unmarshalEnc, if_true, Option.some.injEq]
  induction es with
  | nil => rfl
  | cons e rest ih =>
    rw [List.flatMap_cons, List.cons_append, List.cons_append, List.nil_append, treeOfEntry_read, ih]

/-! ## what is NOT read -/

/-- `enc_foreign_nodes_inert`: text, comments, and elements under any other name — with
whatever they contain, an `EncryptedData` included — can stand anywhere at any of the three
levels without changing what is read: the entries are taken from DIRECT children only -/
theorem enc_foreign_nodes_inert (x : XNode) (a b : List XNode) :
    (x.named sEncryptedData = false → umRootKids (a ++ x :: b) = umRootKids (a ++ b)) ∧
    (x.named sEncryptionMethod = false → x.named sCipherData = false →
      ∀ cur, umEncData cur (a ++ x :: b) = umEncData cur (a ++ b)) ∧
    (x.named sCipherReference = false → ∀ cur, umCipherData cur (a ++ x :: b) = umCipherData cur (a ++ b)) := by
  refine ⟨?_, ?_, ?_⟩
  · intro hx
    rw [umRootKids_eq, umRootKids_eq, dataKids_append, dataKids_append, dataKids_skip x hx]
  · intro h1 h2 cur
    rw [umEncData_eq, umEncData_eq, attrsOfNamed_append, attrsOfNamed_append, kidsOfNamed_append,
      kidsOfNamed_append, attrsOfNamed_skip _ x h1, kidsOfNamed_skip _ x h2]
  · intro hx cur
    rw [umCipherData_eq, umCipherData_eq, attrsOfNamed_append, attrsOfNamed_append, attrsOfNamed_skip _ x hx]

/-- an `EncryptedData` one level too deep (inside `EncryptedKey`) is not an entry -/
example : (XNode.elem [69, 110, 99, 114, 121, 112, 116, 101, 100, 75, 101, 121] []
    [.elem sEncryptedData [] []]).named sEncryptedData = false := by decide

/-- `enc_qualified_attributes_inert`: an attribute in a namespace — a namespace declaration
`xmlns:Algorithm="…"`, a foreign `p:URI="…"` — or under another name is never the
algorithm or the reference, wherever it stands among the attributes -/
theorem enc_qualified_attributes_inert (l : Str) (a b : List XAttr) (x : XAttr)
    (hx : x.space ≠ [] ∨ x.loc ≠ l) : lastAttr l (a ++ x :: b) = lastAttr l (a ++ b) :=
  lastAttr_insert l a b x hx

/-- `"xmlns"` -/
def sXmlns : Str := [120, 109, 108, 110, 115]

example : (⟨sXmlns, sAlgorithm, algoIdpf⟩ : XAttr).space ≠ [] ∨ (⟨sXmlns, sAlgorithm, algoIdpf⟩ : XAttr).loc ≠ sAlgorithm :=
  Or.inl (by decide)

/-- `<EncryptionMethod Algorithm="…aes256-cbc" xmlns:Algorithm="http://www.idpf.org/2008/embedding"/>`
over `OEBPS/ch1.xhtml` -/
def exShadow : List XNode :=
  [.elem sEncryptionMethod [⟨[], sAlgorithm, aes256⟩, ⟨sXmlns, sAlgorithm, algoIdpf⟩] [],
   .elem sCipherData [] [.elem sCipherReference [⟨[], sURI, uCh1⟩] []]]

/-- the defect repaired in this round: with the attribute matching of a field tagged
`xml:"Algorithm,attr"` (any attribute with that local name, the last one wins) the
namespace declaration was read as the algorithm, and the AES-encrypted chapter passed the
gate as font obfuscation; the code as it is now refuses it -/
theorem pinned_namespace_declaration_shadows_counterexample :
    hasEncryptedContent [pinnedUmEncData ⟨[], []⟩ exShadow] = false ∧
    hasEncryptedContent [umEncData ⟨[], []⟩ exShadow] = true := by decide

/-! ## the algorithm test, for every algorithm string -/

/-- `obfuscation_iff`: `isFontObfuscation` on ANY string (no case folding, no trimming): the
two identifiers used in practice, exactly; or a string that contains `obfuscation` together
with `adobe.com` or `idpf.org` -/
theorem obfuscation_iff (a : Str) :
    isFontObfuscation a = true ↔
      a = algoIdpf ∨ a = algoAdobe ∨
      (hasSub sObfuscation a = true ∧ (hasSub sAdobeCom a = true ∨ hasSub sIdpfOrg a = true)) := by
  unfold isFontObfuscation
  by_cases h1 : a = algoIdpf ∨ a = algoAdobe
  · rw [if_pos h1]
    rcases h1 with h | h
    · simp [h]
    · simp [h]
  · rw [if_neg h1]
    have n1 : a ≠ algoIdpf := fun h => h1 (Or.inl h)
    have n2 : a ≠ algoAdobe := fun h => h1 (Or.inr h)
    cases hasSub sAdobeCom a <;> cases hasSub sIdpfOrg a <;> cases hasSub sObfuscation a <;> simp [n1, n2]

/-- the identifiers in another letter case, with a blank behind them, or the cipher
identifiers are not obfuscation -/
example : isFontObfuscation (upper algoIdpf) = false ∧ isFontObfuscation (algoIdpf ++ [32]) = false ∧
    isFontObfuscation aes256 = false := by decide

/-! ## the decision, for every encryption file -/

/-- `enc_decision`: `hasEncryptedContent` on the file — error (refused), or `true` iff
some direct `EncryptedData` child of the root `encryption` puts an algorithm that is not
font obfuscation on a reference with a content suffix -/
theorem enc_decision (d : EncDoc) :
    (hasEncryptedContentDoc d = none ↔ encEntries d = none) ∧
    (hasEncryptedContentDoc d = some true ↔
      ∃ as ks, d = some (.elem sEncryption as ks) ∧
        ∃ k ∈ dataKids ks, isFontObfuscation (algOf k) = false ∧ isContentFile (uriOf k) = true) := by
  refine ⟨by simp [hasEncryptedContentDoc], ?_⟩
  unfold hasEncryptedContentDoc
  cases he : encEntries d with
  | none =>
    simp only [Option.map_none]
    refine ⟨fun h => (by cases h), ?_⟩
    rintro ⟨as, ks, hd, _⟩
    have := (enc_entries_spec d _).2 ⟨as, ks, hd, rfl⟩
    rw [he] at this; cases this
  | some es =>
    obtain ⟨as, ks, hd, hes⟩ := (enc_entries_spec d es).1 he
    subst hd hes
    simp only [Option.map_some, Option.some.injEq, XNode.elem.injEq, true_and]
    rw [hasEncryptedContent_eq_any, List.any_eq_true]
    constructor
    · rintro ⟨e, hm, hb⟩
      obtain ⟨k, hk, rfl⟩ := List.mem_map.1 hm
      refine ⟨as, ks, ⟨rfl, rfl⟩, k, hk, ?_⟩
      simpa [entryBad, entryOf] using hb
    · rintro ⟨_, _, ⟨rfl, rfl⟩, k, hk, h1, h2⟩
      exact ⟨entryOf k, List.mem_map.2 ⟨k, hk, rfl⟩, by simp [entryBad, entryOf, h1, h2]⟩

/-- the decision does not depend on the order of the root's children -/
theorem enc_decision_child_order_independent (as as' : List XAttr) (ks ks' : List XNode) (hp : ks.Perm ks') :
    hasEncryptedContentDoc (some (.elem sEncryption as ks)) =
      hasEncryptedContentDoc (some (.elem sEncryption as' ks')) := by
  simp only [hasEncryptedContentDoc, encEntries, Option.bind_some, unmarshalEnc, if_true, Option.map_some,
    umRootKids_eq]
  rw [hasEncryptedContent_perm ((dataKids_perm hp).map entryOf)]

example : List.Perm [XNode.other, .elem sEncryptedData [] []] [.elem sEncryptedData [] [], .other] :=
  List.Perm.swap _ _ _

/-- `tree_drm_decision`: `checkForDRM` on the archive, with the encryption metadata as the
tokeniser delivers it.  Refused iff a member is named META-INF/rights.xml, or a member
named META-INF/encryption.xml cannot be read / tokenised / is not rooted in `encryption`,
or one of its direct `EncryptedData` children puts a non-obfuscation algorithm on a
content reference. -/
theorem tree_drm_decision (ms : List XMember) :
    archiveDRMX ms = true ↔
      (∃ m ∈ ms, m.name = nRights) ∨
      (∃ m ∈ ms, m.name = nEncryption ∧ encEntries m.doc = none) ∨
      (∃ m ∈ ms, m.name = nEncryption ∧ ∃ as ks, m.doc = some (.elem sEncryption as ks) ∧
        ∃ k ∈ dataKids ks, isFontObfuscation (algOf k) = false ∧ isContentFile (uriOf k) = true) := by
  unfold archiveDRMX
  rw [archive_drm_decision]
  constructor
  · rintro (⟨m, hm, h⟩ | ⟨m, hm, h1, h2⟩ | ⟨m, hm, h1, es, h2, e, he, h3, h4⟩)
    · obtain ⟨x, hx, rfl⟩ := List.mem_map.1 hm
      exact Or.inl ⟨x, hx, h⟩
    · obtain ⟨x, hx, rfl⟩ := List.mem_map.1 hm
      exact Or.inr (Or.inl ⟨x, hx, h1, h2⟩)
    · obtain ⟨x, hx, rfl⟩ := List.mem_map.1 hm
      obtain ⟨as, ks, hd, hes⟩ := (enc_entries_spec x.doc es).1 h2
      subst hes
      obtain ⟨k, hk, rfl⟩ := List.mem_map.1 he
      exact Or.inr (Or.inr ⟨x, hx, h1, as, ks, hd, k, hk, h3, h4⟩)
  · rintro (⟨x, hx, h⟩ | ⟨x, hx, h1, h2⟩ | ⟨x, hx, h1, as, ks, hd, k, hk, h3, h4⟩)
    · exact Or.inl ⟨x.toAMember, List.mem_map.2 ⟨x, hx, rfl⟩, h⟩
    · exact Or.inr (Or.inl ⟨x.toAMember, List.mem_map.2 ⟨x, hx, rfl⟩, h1, h2⟩)
    · refine Or.inr (Or.inr ⟨x.toAMember, List.mem_map.2 ⟨x, hx, rfl⟩, h1, (dataKids ks).map entryOf, ?_,
        entryOf k, List.mem_map.2 ⟨k, hk, rfl⟩, h3, h4⟩)
      exact (enc_entries_spec x.doc _).2 ⟨as, ks, hd, rfl⟩

/-- font-obfuscation-only archives pass: no rights file, every encryption file readable
and every one of its `EncryptedData` elements under an obfuscation algorithm — whatever
it covers -/
theorem tree_obfuscation_only_passes (ms : List XMember) (hr : ∀ m ∈ ms, m.name ≠ nRights)
    (hd : ∀ m ∈ ms, m.name = nEncryption → ∃ as ks, m.doc = some (.elem sEncryption as ks) ∧
      ∀ k ∈ dataKids ks, isFontObfuscation (algOf k) = true) :
    archiveDRMX ms = false := by
  cases h : archiveDRMX ms with
  | false => rfl
  | true =>
    exfalso
    rcases (tree_drm_decision ms).1 h with ⟨m, hm, hn⟩ | ⟨m, hm, hn, he⟩ | ⟨m, hm, hn, as, ks, hdoc, k, hk, ho, _⟩
    · exact hr m hm hn
    · obtain ⟨as, ks, hdoc, _⟩ := hd m hm hn
      have := (enc_entries_spec m.doc _).2 ⟨as, ks, hdoc, rfl⟩
      rw [he] at this; cases this
    · obtain ⟨as', ks', hdoc', hall⟩ := hd m hm hn
      rw [hdoc] at hdoc'
      cases hdoc'
      rw [hall k hk] at ho; cases ho

example : archiveDRMX [⟨nMimetype, some epubMime, none⟩,
    ⟨nEncryption, none, some (treeOfEntries [⟨algoIdpf, uFont⟩, ⟨algoAdobe, uCh1⟩])⟩] = false := by decide

example : archiveDRMX [⟨nEncryption, none, some exTree⟩] = true := by decide

/-! ## end to end: `tabula.Open(name).<op>()` on an EPUB, the metadata as a tree -/

/-- the file behind a name, with the archive's encryption metadata before `xml.Unmarshal` -/
def fileX (head : Str) (ms : List XMember) (acc : Format → Bool) : FileState :=
  .file head (some (ms.map XMember.toAMember)) acc

/-- `open_epub_drm_iff_tree`: an archive the sniffer takes for an EPUB, under an EPUB name
in any letter case and through any operation of the public API, gives `ErrDRMProtected`
exactly in the three cases of `tree_drm_decision` -/
theorem open_epub_drm_iff_tree (stem e : Str) (he : lower e = dotEpub) (rest : Str) (ms : List XMember)
    (acc : Format → Bool) (hfmt : archiveFormat (ms.map XMember.toAMember) = .epub) (k : TKind) :
    (openAndRun (stem ++ e) (fileX (sZipMagic ++ rest) ms acc) k).out = .drm ↔
      (∃ m ∈ ms, m.name = nRights) ∨
      (∃ m ∈ ms, m.name = nEncryption ∧ encEntries m.doc = none) ∨
      (∃ m ∈ ms, m.name = nEncryption ∧ ∃ as ks, m.doc = some (.elem sEncryption as ks) ∧
        ∃ d ∈ dataKids ks, isFontObfuscation (algOf d) = false ∧ isContentFile (uriOf d) = true) := by
  rw [← tree_drm_decision]
  unfold fileX archiveDRMX
  rw [open_epub_drm_iff stem e he rest _ acc hfmt k, ← archive_drm_decision]

example : archiveFormat (([⟨nMimetype, some epubMime, none⟩, ⟨nEncryption, none, some exTree⟩] : List XMember).map
    XMember.toAMember) = .epub := by decide

end Tabula.C20E
