import TabulaModel.Lemmas.BoundsCore
/-!
# C02 — bounded work in the PDF core (the guards of the C02 repairs, as theorems)

Each theorem is about a model function that mirrors one guarded Go function
(`Model/BoundsCore.lean`) and holds for EVERY input: no hypothesis restricts the file. The
model functions are diffed with the Go code by the ops `c02.readbytes`, `c02.load`, `c02.ptree2`,
`c02.objstm`, `c02.rdeep` (harness/c02/bounds_core.go).
-/
namespace Tabula.C02Core
open Tabula.BoundsCore

/-! ### 1. `Lexer.ReadBytes` -/

/-- **read_bytes_bounded**: whatever count `/Length` announces (2^31, 2^63-1, negative), the
bytes held when `ReadBytes` returns are at most the bytes the input still has, and at most the
count: memory follows the file, not the number in it. -/
theorem read_bytes_bounded (n : Int) (avail : Nat) :
    (readBytes n avail).held ≤ avail ∧ ((readBytes n avail).held : Int) ≤ max n 0 := by
  unfold readBytes
  by_cases h : n < 0
  · simp [h, ReadRes.held]; omega
  · simp only [h, if_false]
    by_cases h2 : avail < n.toNat
    · simp only [h2, if_true, ReadRes.held]; omega
    · simp only [h2, if_false, ReadRes.held]; omega

/-- beyond the data the answer is the documented error, with what was there -/
theorem read_bytes_short (n : Int) (avail : Nat) (h : (avail : Int) < n) :
    readBytes n avail = .eof avail := by
  unfold readBytes
  have h1 : ¬ n < 0 := by omega
  have h2 : avail < n.toNat := by omega
  simp [h1, h2]

theorem read_bytes_negative (n : Int) (avail : Nat) (h : n < 0) : readBytes n avail = .bad := by
  simp [readBytes, h]

example : readBytes 9223372036854775807 300 = .eof 300 := by decide
example : readBytes 2147483648 0 = .eof 0 := by decide
example : readBytes 300 300 = .ok 300 := by decide
example : readBytes (-1) 300 = .bad := by decide

/-! ### 2. `Reader.GetObject`: at most 16 loads inside each other -/

/-- **nested_loads_bounded**: for EVERY object graph (chains of indirect `/Length`, cycles, self
references), every cache and every object number, a top-level `GetObject` never has more
than 16 objects in the middle of being loaded, and the model recursion (17 levels of fuel)
is never exhausted: the recursion depth of `GetObject` is at most 16 whatever the file says. -/
theorem nested_loads_bounded (g : LGraph) (cache : List (Nat × LKind × Nat)) (n : Nat) :
    (getObjectTop g cache n).peak ≤ maxNestedLoads ∧ (getObjectTop g cache n).res ≠ .error .fuel := by
  unfold getObjectTop
  exact ⟨getObject_peak_le g _ cache [] n (by simp),
    getObject_no_fuel g _ cache [] n (by simp) (by simp)⟩

/-- … and over every HISTORY of calls on one reader (the object cache persists between them) -/
theorem nested_loads_bounded_hist (g : LGraph) (cache : List (Nat × LKind × Nat)) (calls : List Nat) :
    ∀ r ∈ getObjectHist g cache calls, r.peak ≤ maxNestedLoads ∧ r.res ≠ .error .fuel := by
  induction calls generalizing cache with
  | nil => intro r hr; simp [getObjectHist] at hr
  | cons n rest ih =>
    intro r hr
    simp only [getObjectHist, List.mem_cons] at hr
    rcases hr with rfl | hr
    · exact nested_loads_bounded g cache n
    · exact ih _ r hr

/-- a stream whose `/Length` is the stream itself is an error, not a recursion -/
theorem self_length_refused (g : LGraph) (n : Nat) (h : lookupL g n = some (.streamRef n)) :
    (getObjectTop g [] n).res = .error .selfRef := by
  unfold getObjectTop
  simp only [maxNestedLoads]
  rw [getObject]
  simp only [lookupL, List.find?_nil, List.length_nil]
  have h' := h
  unfold lookupL at h'
  split at h' <;> simp_all [getObject, lookupL, maxNestedLoads]

/-- the chain `1 → 2 → … → k → (k+1 : int)` of streams, each with the next as its `/Length` -/
def lengthChain : Nat → Nat → LGraph
  | 0, i => [(i, .int)]
  | k + 1, i => (i, .streamRef (i + 1)) :: lengthChain k (i + 1)

/-- at the edge: 16 streams inside each other are still followed (and fail for the type of the
length); with the 17th the answer is the documented nesting error -/
example : (getObjectTop (lengthChain 1 1) [] 1).res = .ok .stream := rfl
example : (getObjectTop (lengthChain 15 1) [] 1).res = .error .lengthType ∧
    (getObjectTop (lengthChain 15 1) [] 1).peak = 16 := ⟨rfl, rfl⟩
example : (getObjectTop (lengthChain 16 1) [] 1).res = .error .tooDeep ∧
    (getObjectTop (lengthChain 16 1) [] 1).peak = 16 := ⟨rfl, rfl⟩
example : (getObjectTop (lengthChain 5000 1) [] 1).peak ≤ 16 :=
  (nested_loads_bounded _ _ _).1
example : (getObjectTop [(1, .streamRef 2), (2, .streamRef 1)] [] 1).res = .error .selfRef := rfl
/-- a cache hit counts as the loads it stands for (8b2d749): with 16 streams inside each other the
first is refused on a fresh reader and still refused after the last two have been cached -/
example : (getObjectHist (lengthChain 16 1) [] [1, 17, 16, 1]).map (·.res)
    = [.error .tooDeep, .ok .int, .ok .stream, .error .tooDeep] := rfl

/-! ### 3. the page tree -/

/-- **page_tree_walk_bounded**: for EVERY object graph and EVERY root dictionary — cycles, self
references, shared subtrees, indirect `/Kids` arrays leading back into the tree, nodes
written inside arrays — `loadPages` ends within `pfuel g root` = (size of the root) + Σ over the
objects (1 + size) + 2 steps: the walk is linear in the size of the file. -/
theorem page_tree_walk_bounded (g : PGraph) (lim : Nat) (root : PV) :
    loadPagesWith g lim root ≠ .fuel := by
  unfold loadPagesWith
  cases h : traverseNode g lim 0 root [] [] 0 0 with
  | done p k => simp
  | error => simp
  | running s =>
    simp only
    apply prun_no_fuel
    have := traverseNode_decreases g lim 0 root [] [] 0 0 s h
    simp only [stackSize, pfuel] at *
    omega

/-- **page_tree_depth_bounded**: when the walk succeeds, `t.depth` never exceeded the limit (so
`traversePageNode` was never more than `lim` = 10000 activations deep), and the page list has
at most as many entries as steps were taken: it is sized by the leaves reached, never by a
number read from the file. -/
theorem page_tree_depth_bounded (g : PGraph) (lim : Nat) (root : PV) (p k : Nat)
    (h : loadPagesWith g lim root = .ok p k) : k ≤ lim ∧ p ≤ pfuel g root + 1 := by
  unfold loadPagesWith at h
  cases ht : traverseNode g lim 0 root [] [] 0 0 with
  | done p' k' => exact absurd ht (traverseNode_done _ _ _ _ _ _ _ _ _ _)
  | error => simp [ht] at h
  | running s =>
    simp only [ht] at h
    obtain ⟨h1, h2⟩ := traverseNode_inv g lim 0 root [] [] 0 0 s ht (Nat.zero_le _)
    obtain ⟨h3, h4⟩ := prun_ok_bounds g lim _ s p k h h1
    omega

/-- **page_count_ignores_declared_count**: `PageCount` is the number of leaves reached; the value
of the root's `/Count` (-1, 2^31, anything) has no influence. -/
theorem page_count_ignores_declared_count (g : PGraph) (root : PV) (c c' : Int) :
    pageCount g root (some c) = pageCount g root (some c') := rfl

theorem page_count_bounded (g : PGraph) (root : PV) (c : Option Int) (p : Nat)
    (h : pageCount g root c = some p) : p ≤ pfuel g root + 1 := by
  unfold pageCount at h
  cases c with
  | none => simp at h
  | some c =>
    simp only at h
    cases hl : loadPagesWith g maxPageTreeDepth root with
    | ok p' k =>
      simp only [hl, Option.some.injEq] at h
      subst h
      exact (page_tree_depth_bounded g _ root p' k hl).2
    | error => simp [hl] at h
    | fuel => simp [hl] at h

/-- a chain of `/Pages` nodes with one kid each, `k` levels below the root, then a page -/
def kidsChain : Nat → Nat → PGraph
  | 0, i => [(i, .page)]
  | k + 1, i => (i, .pages (.arr [.ref (i + 1)])) :: kidsChain k (i + 1)

/-- at the edge (limit lowered to 4 so that the kernel can evaluate it): a tree 4 levels deep is
walked, one of 5 levels is the documented error -/
example : loadPagesWith (kidsChain 2 2) 4 (.pages (.arr [.ref 2])) = .ok 1 4 := by decide
example : loadPagesWith (kidsChain 3 2) 4 (.pages (.arr [.ref 2])) = .error := by decide
/-- the witnesses of bb86423 and cd93b07: a node listing itself; a shared subtree; a `/Pages`
node written inside an indirect `/Kids` array that leads back to the array -/
example : loadPagesWith [(2, .pages (.arr [.ref 2]))] 10000 (.pages (.arr [.ref 2])) = .error := by
  decide
example : loadPagesWith [(2, .pages (.arr [.ref 3, .ref 3])), (3, .page)] 10000
    (.pages (.arr [.ref 2])) = .error := by decide
example : loadPagesWith [(3, .arr [.pages (.ref 3)])] 10000 (.pages (.ref 3)) = .error := by decide
/-- non-vacuity: an ordinary tree with an indirect `/Kids` array and an inline node -/
example : loadPagesWith [(2, .arr [.ref 3, .pages (.arr [.page, .ref 4])]), (3, .page), (4, .page)]
    10000 (.pages (.ref 2)) = .ok 3 3 := by decide

/-! ### 4. object streams -/

/-- **objstm_capacity_bounded**: the offset table is reserved for at most `/N` entries and at most
what the header can hold, whatever `/N` says. -/
theorem objstm_capacity_bounded (n headerLen : Nat) :
    objstmCapacity n headerLen ≤ n ∧ objstmCapacity n headerLen ≤ headerLen / 4 + 1 := by
  unfold objstmCapacity
  split <;> omega

theorem parsePairs_spec (n len : Nat) (toks : List (Option Int)) (ps : List (Int × Nat))
    (h : parsePairs n len toks = some ps) :
    ps.length = n ∧ 2 * n ≤ toks.length ∧ ∀ p ∈ ps, p.2 ≤ len := by
  induction n generalizing toks ps with
  | zero => simp [parsePairs] at h; subst h; simp
  | succ n ih =>
    match toks, h with
    | some a :: some off :: rest, h =>
      simp only [parsePairs] at h
      split at h
      · cases h
      · rename_i hoff
        cases hp : parsePairs n len rest with
        | none => simp [hp] at h
        | some ps' =>
          simp only [hp, Option.map_some, Option.some.injEq] at h
          subst h
          obtain ⟨h1, h2, h3⟩ := ih rest ps' hp
          refine ⟨by simp [h1], by simp; omega, ?_⟩
          intro p hp
          rcases List.mem_cons.mp hp with rfl | hp
          · simp only; omega
          · exact h3 p hp
    | [], h => simp [parsePairs] at h
    | [_], h => simp [parsePairs] at h
    | none :: _ :: _, h => simp [parsePairs] at h
    | some _ :: none :: _, h => simp [parsePairs] at h

/-- **objstm_header_bounded**: an object stream that opens has exactly `/N` pairs, `/N` is at most
half the number of objects in the header (so the header loop is bounded by the data, not by
`/N`), `/First` lies inside the data and every offset lies in `0..len`. -/
theorem objstm_header_bounded (n first : Int) (len : Nat) (toks : List (Option Int)) (s : ObjStm)
    (h : objstmOpen n first len toks = some s) :
    0 ≤ n ∧ (s.pairs.length : Int) = n ∧ 2 * s.pairs.length ≤ toks.length ∧
    s.first ≤ len ∧ s.decodedLen = len ∧ ∀ p ∈ s.pairs, p.2 ≤ len := by
  unfold objstmOpen at h
  split at h
  · cases h
  · rename_i hneg
    split at h
    · cases h
    · rename_i hf
      cases hp : parsePairs n.toNat len toks with
      | none => simp [hp] at h
      | some ps =>
        simp only [hp, Option.some.injEq] at h
        subst h
        obtain ⟨h1, h2, h3⟩ := parsePairs_spec _ _ _ _ hp
        refine ⟨by omega, by simp only [h1]; omega, by simpa [h1] using h2, by simp; omega, rfl, h3⟩

/-- **objstm_slice_in_bounds**: for EVERY index (negative, huge) and EVERY accepted header (offsets
out of order, equal, at the very end), the slice `decoded[offset:endOffset]` handed to the
parser satisfies `offset < len` and `offset ≤ endOffset ≤ len`: it cannot be out of range. -/
theorem objstm_slice_in_bounds (s : ObjStm) (index : Int) (num : Int) (a b : Nat)
    (h : objstmSlice s index = some (num, a, b)) :
    a < s.decodedLen ∧ a ≤ b ∧ b ≤ s.decodedLen ∧ 0 ≤ index ∧ index < s.pairs.length := by
  unfold objstmSlice at h
  split at h
  · cases h
  · rename_i hidx
    simp only at h
    split at h
    · cases h
    · split at h
      · cases h
      · rename_i hoff
        simp only [Option.some.injEq, Prod.mk.injEq] at h
        obtain ⟨_, ha, hb⟩ := h
        subst ha; subst hb
        refine ⟨by omega, ?_, ?_, by omega, by omega⟩
        · (repeat' split) <;> omega
        · (repeat' split) <;> omega

/-- witnesses of 78b7a87: `/N` 2^31 over a header of two pairs; a negative offset; an offset below
its predecessor (the object then extends to the end of the data) -/
example : objstmCapacity 2147483648 8 = 3 := by decide
example : objstmOpen 2147483648 8 20 [some 1, some 0, some 2, some 3] = none := by decide
example : objstmOpen 1 8 20 [some 1, some (-40)] = none := by decide
example : (objstmOpen 2 8 20 [some 1, some 5, some 2, some 1]).bind (objstmSlice · 0) =
    some (1, 13, 20) := by decide
/-- non-vacuity -/
example : (objstmOpen 2 8 20 [some 7, some 0, some 9, some 3]).bind (objstmSlice · 0) =
    some (7, 8, 11) := by decide

/-! ### 5. `ResolveDeep` -/

/-- **resolve_deep_terminates**: for every graph, mode and value the recursion of `ResolveDeep`
is never deeper than `lim + 1` (2001 activations for `Reader.ResolveDeep`): the model's fuel,
which only bounds the DEPTH, is never exhausted. -/
theorem resolve_deep_terminates (g : RGraph) (m : RMode) (v : RV) :
    (resolveDeepTop g m v).1 ≠ .error .fuel := by
  unfold resolveDeepTop
  exact resolveDeep_no_fuel g m _ [] 0 v _ (Nat.zero_le _) (by omega)

/-- **resolve_deep_fetches_once**: on EVERY object graph — cyclic, shared, `k` references on each
of `d` levels — one call of `ResolveDeep` asks `ResolveReference` for each object at most once. -/
theorem resolve_deep_fetches_once (g : RGraph) (m : RMode) (v : RV) :
    (resolveDeepTop g m v).2.fetched.Nodup := by
  unfold resolveDeepTop
  exact (resolveDeep_inv g m _ [] 0 v ⟨[], [], 0, 0⟩ ⟨List.nodup_nil, by simp⟩).1

/-- **resolve_deep_linear**: the number of activations of `resolveDeep` in one top-level call is at
most (size of the value) + (total size of the objects of the graph): linear work on any graph,
where the unrepaired code did `k^d`. -/
theorem resolve_deep_linear (g : RGraph) (m : RMode) (v : RV) :
    (resolveDeepTop g m v).2.calls ≤ v.size + totalSize g := by
  have h1 := resolveDeep_calls g m (m.lim + 1) [] 0 v ⟨[], [], 0, 0⟩
  have h2 := cost_le_totalSize g _ (resolve_deep_fetches_once g m v)
  unfold resolveDeepTop
  unfold resolveDeepTop at h2
  simp only [cost, List.map_nil, List.sum_nil] at h1 h2
  omega

/-- two references to the next array, 40 levels deep: 2^40 resolutions before 8b68946 -/
def dagLevels : Nat → Nat → RGraph
  | 0, i => [(i, .leaf 0)]
  | k + 1, i => (i, .arr [.ref (i + 1), .ref (i + 1)]) :: dagLevels k (i + 1)

theorem totalSize_dagLevels (k i : Nat) : totalSize (dagLevels k i) = 3 * k + 1 := by
  induction k generalizing i with
  | zero => simp [dagLevels, totalSize, RV.size]
  | succ k ih => simp [dagLevels, totalSize, RV.size, RV.sizeList, ih]; omega

example : (resolveDeepTop (dagLevels 40 1) readerMode (.ref 1)).2.calls ≤ 122 := by
  have := resolve_deep_linear (dagLevels 40 1) readerMode (.ref 1)
  rw [totalSize_dagLevels] at this
  simpa [RV.size] using this

/-- the witnesses of 4d61f20: a page and its parent (the reference back is left as it is), an
array holding itself; for the resolver the same cycle is the documented error -/
example : (resolveDeepTop [(1, .arr [.ref 2]), (2, .arr [.ref 1, .leaf 7])] readerMode (.ref 1)).1
    = .ok (.arr [.arr [.ref 1, .leaf 7]]) := rfl
example : (resolveDeepTop [(3, .arr [.ref 3])] readerMode (.ref 3)).1 = .ok (.arr [.ref 3]) := rfl
example : (resolveDeepTop [(3, .arr [.ref 3])] (resolverMode 100) (.ref 3)).1 = .error .circular := rfl
/-- a shared result counts as the resolution it stands for (48aa74b): object 2 is three levels
deep; met first at level 1 and again at level 3 it is refused there under a limit of 5,
whichever of the two places is visited first -/
example : (resolveDeepTop [(2, .arr [.arr [.leaf 7]])] (resolverMode 5) (.arr [.ref 2, .arr [.arr [.ref 2]]])).1
    = .error .tooDeep := rfl
example : (resolveDeepTop [(2, .arr [.arr [.leaf 7]])] (resolverMode 5) (.arr [.arr [.arr [.ref 2]], .ref 2])).1
    = .error .tooDeep := rfl
/-- at the edge of the depth limit (a small limit so that the kernel can evaluate it) -/
example : (resolveDeepTop [] ⟨3, true, false⟩ (.arr [.arr [.leaf 1]])).1 = .ok (.arr [.arr [.leaf 1]]) := rfl
example : (resolveDeepTop [] ⟨3, true, false⟩ (.arr [.arr [.arr [.leaf 1]]])).1 = .error .tooDeep := rfl

end Tabula.C02Core
