import TabulaModel.Lemmas.Sentences
import TabulaModel.Props.C13Api
import TabulaModel.Props.C13Overlap
/-!
# C13, deepening round, part 3 — sentence packing, `Chunker.Chunk`, `ChunkWithOverlapEnabled`

The mechanism "sentence packing for oversized elements" (`splitIntoSentences`,
`(*Chunker).splitBySentences` of `rag/chunker.go`) and the third observed API,
`NewChunkerWithConfig(c).ChunkWithOverlapEnabled(doc)`, on documents whose layout consists of
paragraphs.  Model: `Model/Sentences.lean` (ops `c13.sent`, `c13.chunk`, `c13.cwe`); lemmas:
`Lemmas/Sentences.lean`.  `cl` (the `unicode.IsLower/IsUpper/…` tables for non-ASCII runes)
is universally quantified: the theorems hold whatever the tables say.
-/
set_option linter.unusedVariables false
namespace Tabula.C13Sentences
open Tabula.Split Tabula.Sentences
open Tabula.Overlap hiding splitIntoSentences splitIntoSentences_pieces splitIntoSentences_content

/-- **sentences_conserve.** `splitIntoSentences` (chunker.go), for ANY bytes: the sentences are,
in order, disjoint substrings of `string([]rune(text))` with whitespace-only gaps, each valid
UTF-8 and non-empty; for valid UTF-8 text (where `string([]rune(text)) = text`) they contain
exactly the non-whitespace characters of the text, in order. -/
theorem sentences_conserve (cl : Classes) (text : Str) :
    Pieces (encodeRunes (decodeRunes text)) (splitIntoSentences cl text)
    ∧ (∀ t ∈ splitIntoSentences cl text, validUtf8 t = true ∧ t ≠ [])
    ∧ (validUtf8 text = true → Pieces text (splitIntoSentences cl text)
        ∧ (splitIntoSentences cl text).flatMap stripWs = stripWs text) := by
  obtain ⟨hp, hv⟩ := splitIntoSentences_pieces cl text
  refine ⟨hp, hv, fun h => ⟨?_, splitIntoSentences_content cl text h⟩⟩
  rw [encode_decode text h] at hp
  exact hp

/-- non-vacuity (the former panic's witness "text.B."): a capital after a full stop -/
example :
    splitIntoSentences [] ("It is text.B. And more".toList.map Char.toNat)
      = ["It is text.".toList.map Char.toNat, "B. And more".toList.map Char.toNat] := by
  decide +kernel

/-- **sentence_packing_conserves.** `splitBySentences` on a valid UTF-8 element: the chunk
texts are valid UTF-8 and contain exactly its non-whitespace characters, in order, for every
`MaxChunkSize`. -/
theorem sentence_packing_conserves (cl : Classes) (max : Nat) (text : Str) (hv : validUtf8 text = true) :
    (splitBySentences cl max text).flatMap stripWs = stripWs text
      ∧ ∀ o ∈ splitBySentences cl max text, validUtf8 o = true :=
  splitBySentences_content cl max text hv

/-- **sentence_packing_bound.** Every chunk `splitBySentences` produces has at most
`MaxChunkSize` bytes or is one single sentence (a sentence longer than the maximum is not
split further: `MaxChunkSize` is not the hard maximum of `SizeConfig`, and the property's
size bound is stated for `SplitToSize` only). -/
theorem sentence_packing_bound (cl : Classes) (max : Nat) (text : Str) :
    ∀ o ∈ splitBySentences cl max text, o.length ≤ max ∨ o ∈ splitIntoSentences cl text := by
  unfold splitBySentences
  exact packLoop_bound max (splitIntoSentences cl text) (splitIntoSentences cl text) [] []
    (fun s hs => hs) (Or.inl rfl) (by simp)

/-- … so when every sentence fits, every chunk fits -/
theorem sentence_packing_bound_of_short_sentences (cl : Classes) (max : Nat) (text : Str)
    (hs : ∀ s ∈ splitIntoSentences cl text, s.length ≤ max) :
    ∀ o ∈ splitBySentences cl max text, o.length ≤ max := by
  intro o ho
  rcases sentence_packing_bound cl max text o ho with h | h
  · exact h
  · exact hs o h

example :
    splitBySentences [] 25 ("One two three. Four five six. Seven eight.".toList.map Char.toNat)
      = ["One two three.".toList.map Char.toNat, "Four five six.".toList.map Char.toNat,
         "Seven eight.".toList.map Char.toNat] := by decide +kernel

/-- **chunk_conserves.** `Chunker.Chunk` on a document of valid UTF-8 paragraphs, every
`MaxChunkSize`/`MinChunkSize` (section chunk, paragraph packing with orphan merging, sentence
packing of oversized paragraphs): the chunk texts are valid UTF-8 and contain exactly the
non-whitespace characters of the paragraphs, in order. -/
theorem chunk_conserves (cl : Classes) (max min : Nat) (paras : List Str)
    (hv : ∀ p ∈ paras, validUtf8 p = true) :
    (chunkParagraphDoc cl max min paras).flatMap stripWs = paras.flatMap stripWs
      ∧ ∀ o ∈ chunkParagraphDoc cl max min paras, validUtf8 o = true := by
  have hsplit := splitSectionByParagraphs_content cl max min paras hv
  obtain ⟨hj, hs⟩ := Tabula.C13Api.joinParagraphs_content paras hv
  have hsec : (chunkSection cl max min paras).flatMap stripWs = paras.flatMap stripWs
      ∨ chunkSection cl max min paras = [] := by
    unfold chunkSection
    simp only
    split
    · right; rfl
    · split
      · left; simp [hs]
      · left; exact hsplit.1
  have hsecv : ∀ o ∈ chunkSection cl max min paras, validUtf8 o = true := by
    unfold chunkSection
    simp only
    split
    · simp
    · split
      · intro o ho; simp at ho; subst ho; exact hj
      · exact hsplit.2
  unfold chunkParagraphDoc
  split
  · rename_i h; subst h; simp
  · simp only
    split
    · exact hsplit
    · rename_i hne
      rcases hsec with h | h
      · exact ⟨h, hsecv⟩
      · exact absurd h hne

/-- **chunk_max_size.** `ChunkerConfig.MaxChunkSize` is honoured by `Chunker.Chunk` on a document
of valid UTF-8 paragraphs whenever (i) no paragraph is blank and (ii) every sentence of every
paragraph longer than the maximum fits in it (the code's last resort is "split at sentence
boundaries"; a sentence is never cut): then every chunk text has at most `MaxChunkSize` bytes,
for every `MinChunkSize` (orphan merging included).  The property's size clause is about the
hard maximum of `SizeConfig` (`C13.split_bound`, `C13Api.doc_bound`); this is the corresponding
statement for the other size limit of the package, in the form the code satisfies. -/
theorem chunk_max_size (cl : Classes) (max min : Nat) (paras : List Str)
    (hv : ∀ p ∈ paras, validUtf8 p = true) (hne : ∀ p ∈ paras, stripWs p ≠ [])
    (hs : ∀ p ∈ paras, p.length > max → ∀ t ∈ splitIntoSentences cl p, t.length ≤ max) :
    ∀ o ∈ chunkParagraphDoc cl max min paras, o.length ≤ max :=
  chunkParagraphDoc_bound cl max min paras hv hne hs

/-- non-vacuity of `chunk_max_size`: an oversized paragraph of short sentences after a small one -/
example :
    let paras : List Str := ["Alpha beta.".toList.map Char.toNat,
      "One two three. Four five six. Seven eight.".toList.map Char.toNat]
    (∀ p ∈ paras, validUtf8 p = true) ∧ (∀ p ∈ paras, stripWs p ≠ [])
      ∧ (∀ p ∈ paras, p.length > 30 → ∀ t ∈ splitIntoSentences [] p, t.length ≤ 30)
      ∧ (chunkParagraphDoc [] 30 3 paras).map List.length = [11, 29, 12] := by decide +kernel

/-- hypothesis (ii) is needed: a paragraph without sentence punctuation is one sentence and is
emitted whole although it has a space every five bytes (29 bytes at `MaxChunkSize` 20) -/
theorem chunk_max_size_long_sentence_counterexample :
    (chunkParagraphDoc [] 20 2 ["aaaa bbbb cccc dddd eeee ffff".toList.map Char.toNat]).map List.length = [29] := by
  decide +kernel

/-- **unpunctuated_paragraph_one_chunk.** The general form of the limitation above: an element
without `.`, `!`, `?` (every CJK paragraph: `。` is not a sentence end for `splitIntoSentences`)
is ONE sentence, so `splitBySentences` returns it whole (trimmed) for every `MaxChunkSize`,
however long it is.  Conservation and UTF-8 integrity hold (`sentence_packing_conserves`);
the size limit of `ChunkerConfig` does not apply to such elements. -/
theorem unpunctuated_paragraph_one_chunk (cl : Classes) (max : Nat) (text : Str)
    (hv : validUtf8 text = true)
    (hp : ∀ r ∈ decodeRunes text, (r == 46 || r == 33 || r == 63) = false)
    (hne : trimSpace text ≠ []) :
    splitBySentences cl max text = [trimSpace text] :=
  splitBySentences_noPunct cl max text hv hp hne

/-- non-vacuity: "日本語。次の文。" at `MaxChunkSize` 6 -/
example :
    let text : Str := [0xE6,0x97,0xA5, 0xE6,0x9C,0xAC, 0xE8,0xAA,0x9E, 0xE3,0x80,0x82, 0xE6,0xAC,0xA1, 0xE3,0x81,0xAE,
      0xE6,0x96,0x87, 0xE3,0x80,0x82]
    validUtf8 text = true ∧ (∀ r ∈ decodeRunes text, (r == 46 || r == 33 || r == 63) = false)
      ∧ trimSpace text ≠ [] ∧ splitBySentences [] 6 text = [text] := by decide +kernel

/-- hypothesis (i) is needed: `flushChunk` returns early on whitespace-only pending text without
resetting it, so a blank paragraph pads the next chunk beyond the maximum (10 blanks + blank
line + 15 bytes = 27 bytes at `MaxChunkSize` 20) -/
theorem chunk_max_size_blank_paragraph_counterexample :
    (chunkParagraphDoc [] 20 2 [List.replicate 10 32, "abcdefghijklmno".toList.map Char.toNat]).map List.length
      = [27] := by
  decide +kernel

/-- **cwe_property.** The statement of C13 for `ChunkWithOverlapEnabled` on a document of valid
UTF-8 paragraphs, for every `MaxChunkSize`, `MinChunkSize`, `OverlapSize`, `OverlapSentences`
and `IncludeSectionContext`: one output per base chunk; the base chunks (own contents) are
valid UTF-8 and contain exactly the non-whitespace characters of the paragraphs in order; the
first output is its own content; every later output is its own content, or overlap + blank
line + own content, where the overlap is valid UTF-8, has at most `3·OverlapSize` bytes and
its non-whitespace characters are a suffix of those of the PREVIOUS chunk's own content. -/
theorem cwe_property (cl : Classes) (max min overlapSize : Nat) (sentences ctx : Bool)
    (paras : List Str) (hv : ∀ p ∈ paras, validUtf8 p = true) :
    let own := chunkParagraphDoc cl max min paras
    let out := chunkWithOverlapEnabled cl max min overlapSize sentences ctx paras
    out.length = own.length
    ∧ own.flatMap stripWs = paras.flatMap stripWs
    ∧ (∀ o ∈ own, validUtf8 o = true)
    ∧ (∀ t, own[0]? = some t → out[0]? = some { has := false, pref := [], text := t })
    ∧ ∀ i p t, own[i]? = some p → own[i + 1]? = some t →
        ∃ o, out[i + 1]? = some o
          ∧ o.text = (if o.pref = [] then t else o.pref ++ [10, 10] ++ t)
          ∧ validUtf8 o.pref = true
          ∧ o.pref.length ≤ 3 * overlapSize
          ∧ ∃ x, stripWs p = x ++ stripWs o.pref := by
  intro own out
  obtain ⟨hc, hval⟩ := chunk_conserves cl max min paras hv
  have hout : out = applyOverlapAux cl (chunkerOverlapConfig overlapSize sentences ctx) none
      (own.map fun t => (t, ([] : Str))) := by
    show chunkWithOverlapEnabled cl max min overlapSize sentences ctx paras = _
    unfold chunkWithOverlapEnabled applyOverlapToChunks
    rw [zip_empty_titles]
  have hitems : ∀ it ∈ own.map (fun t => (t, ([] : Str))), validUtf8 it.1 = true := by
    intro it hit
    obtain ⟨t, ht, e⟩ := List.mem_map.mp hit
    subst e; exact hval t ht
  obtain ⟨h1, h2, h3⟩ := Tabula.C13Overlap.apply_overlap_property cl
    (chunkerOverlapConfig overlapSize sentences ctx) _ hitems
  rw [← hout] at h1 h2 h3
  refine ⟨by simpa using h1, hc, hval, ?_, ?_⟩
  · intro t ht
    exact h2 (t, []) (by simp [ht])
  · intro i p t hp ht
    obtain ⟨o, e1, e2, e3, e4, e5, e6, e7⟩ := h3 i (p, []) (t, []) (by simp [hp]) (by simp [ht])
    refine ⟨o, e1, ?_, e5, ?_, e7⟩
    · rw [e4]
      split
      · rfl
      · simp
    · have : (chunkerOverlapConfig overlapSize sentences ctx).maxOverlap = overlapSize * 3 := rfl
      omega

/-- non-vacuity: two paragraphs, the second oversized (sentence packing), character overlap 6 -/
example :
    (chunkWithOverlapEnabled [] 30 3 6 false false
      ["Alpha beta.".toList.map Char.toNat,
       "One two three. Four five six. Seven eight.".toList.map Char.toNat]).map (fun o => (o.has, o.pref.length))
      = [(false, 0), (true, 5), (true, 4)] := by decide +kernel

end Tabula.C13Sentences
