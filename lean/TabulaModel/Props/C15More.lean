import TabulaModel.Props.C15Pptx
import TabulaModel.Lemmas.MarkdownRag
/-!
# C15 — PPTX decks as a whole: the lines `pptx.(*Reader).markdown` writes and what a Markdown
reader gets back from them

So far only the single lines of a slide (title, list paragraph) were proved and the deck as a
whole was the oracle of the differential run. Here the builder contents of
`pptx.(*Reader).markdown` (`pptxSlides`, every slide of every deck, every exclusion option and
title level) is shown to be whole lines (`pptx_deck_lines`), and the heading / list item lines a
reader finds on them are exactly the slide titles and list paragraphs in source order
(`pptx_deck_headings`, `pptx_deck_items`, `pptx_deck_structure`); algebraic laws of the slide
selection and of the slide loop.
-/
namespace Tabula.C15More
open Tabula.A1 (Str dec)
open Tabula.Markdown Tabula.MarkdownDoc Tabula.C15Pptx

/-! ## helpers -/

theorem joinLines_flatMap {α} (g : α → List Str) (xs : List α) :
    joinLines (xs.flatMap g) = xs.flatMap fun x => joinLines (g x) := by
  induction xs with
  | nil => rfl
  | cons x xs ih => simp [List.flatMap_cons, joinLines_append, ih]

theorem filterMap_flatMap_lines {α β} (f : Str → Option β) (g : α → List Str) (xs : List α) :
    (xs.flatMap g).filterMap f = xs.flatMap fun x => (g x).filterMap f := by
  induction xs with
  | nil => rfl
  | cons x xs ih => simp [List.flatMap_cons, List.filterMap_append, ih]

theorem flatMap_congr_mem {α β} (xs : List α) (f g : α → List β) (h : ∀ x ∈ xs, f x = g x) :
    xs.flatMap f = xs.flatMap g := by
  induction xs with
  | nil => rfl
  | cons x xs ih =>
    rw [List.flatMap_cons, List.flatMap_cons, h x (by simp),
      ih (fun y hy => h y (List.mem_cons_of_mem _ hy))]

theorem flatMap_toList_eq_filterMap {α β} (g : α → Option β) (xs : List α) :
    (xs.flatMap fun x => (g x).toList) = xs.filterMap g := by
  induction xs with
  | nil => rfl
  | cons x xs ih =>
    rw [List.flatMap_cons, List.filterMap_cons, ih]
    cases g x <;> rfl

/-- a list item line numbered 1 of a single-line text is a single line -/
theorem listLine_one_noNl (d : Nat) (o : Bool) (t : Str) (h : 10 ∉ t) : 10 ∉ listLine ⟨d, o, 1, t⟩ := by
  have h49 : dec 1 = [49] := by simp [Tabula.A1.dec, Tabula.A1.decAux]
  intro hm
  cases o <;> simp [listLine, h49] at hm <;> exact h hm

/-! ## the lines of a paragraph, a block, a slide, a deck -/

/-- the lines one paragraph contributes: nothing when empty, its list item line, or its text and
an empty line -/
def paraLines (p : PPara) : List Str :=
  if p.text.isEmpty then []
  else if p.isBullet || p.isNumbered then [listLine ⟨p.level.toNat, p.isNumbered, 1, p.text⟩]
  else [p.text, []]

/-- a block is written unless it is the title block or an excluded footer / header placeholder -/
def blockShown (exH exF : Bool) (b : PBlock) : Bool :=
  !b.isTitle && !(exF && Tabula.HF.isFooterPlaceholder b.placeholder)
    && !(exH && Tabula.HF.isHeaderPlaceholder b.placeholder)

def blockLines (exH exF : Bool) (b : PBlock) : List Str :=
  if blockShown exH exF b then b.paras.flatMap paraLines else []

def slideLines (exH exF : Bool) (titleLevel : Int) (s : PSlide) : List Str :=
  (if s.title.isEmpty then [] else [atxLine titleLevel.toNat s.title, []])
    ++ s.content.flatMap (blockLines exH exF)

/-- the lines of the slide loop: `""`, `---`, `""` between two slides -/
def deckLines (exH exF : Bool) (titleLevel : Int) : List PSlide → Bool → List Str
  | [], _ => []
  | s :: rest, first =>
    (if first then [] else [[], hrLine, []]) ++ slideLines exH exF titleLevel s
      ++ deckLines exH exF titleLevel rest false

/-- a slide without tables whose notes are not written -/
def textOnly (notes : Bool) (s : PSlide) : Prop :=
  s.tables = [] ∧ (notes && !s.notes.isEmpty) = false

/-- every paragraph is written as whole lines, for every paragraph -/
theorem pptx_para_lines (p : PPara) : pptxPara p = joinLines (paraLines p) := by
  by_cases he : p.text.isEmpty = true
  · simp [pptxPara, paraLines, he, joinLines]
  · have he : p.text.isEmpty = false := by simpa using he
    by_cases hb : (p.isBullet || p.isNumbered) = true
    · rw [pptx_list_para_line p he hb]
      simp only [paraLines, he, Bool.false_eq_true, if_false, hb, if_true, joinLines_singleton]
    · have hb : (p.isBullet || p.isNumbered) = false := by simpa using hb
      rw [pptx_plain_para p he hb]
      simp only [paraLines, he, Bool.false_eq_true, if_false, hb, joinLines_cons, joinLines_nil]
      simp

/-- every block is written as whole lines, for every block and every exclusion option -/
theorem pptx_block_lines (exH exF : Bool) (b : PBlock) :
    pptxBlock exH exF b = joinLines (blockLines exH exF b) := by
  have hp : (b.paras.flatMap pptxPara) = joinLines (b.paras.flatMap paraLines) := by
    rw [joinLines_flatMap]
    congr 1
    funext p
    exact pptx_para_lines p
  unfold pptxBlock blockLines blockShown
  cases b.isTitle <;> cases exF <;> cases exH <;>
    cases Tabula.HF.isFooterPlaceholder b.placeholder <;>
    cases Tabula.HF.isHeaderPlaceholder b.placeholder <;> simp [hp, joinLines]

/-- a text-only slide is written as whole lines -/
theorem pptx_slide_lines (exH exF notes : Bool) (titleLevel : Int) (s : PSlide)
    (h : textOnly notes s) :
    pptxSlide exH exF notes titleLevel s = joinLines (slideLines exH exF titleLevel s) := by
  obtain ⟨ht, hn⟩ := h
  have hc : s.content.flatMap (pptxBlock exH exF)
      = joinLines (s.content.flatMap (blockLines exH exF)) := by
    rw [joinLines_flatMap]
    congr 1
    funext b
    exact pptx_block_lines exH exF b
  unfold pptxSlide slideLines
  rw [ht, hn, hc, joinLines_append]
  by_cases he : s.title.isEmpty = true
  · simp [he, joinLines]
  · have he : s.title.isEmpty = false := by simpa using he
    simp [he, joinLines_cons, joinLines_nil]

/-- **the builder of `pptx.(*Reader).markdown` holds whole lines**: for every deck of text-only
slides, every exclusion option and every title level the text before the final trimming is the
deck's lines, each followed by a newline -/
theorem pptx_deck_lines (exH exF notes : Bool) (titleLevel : Int) (ss : List PSlide)
    (h : ∀ s ∈ ss, textOnly notes s) (first : Bool) :
    pptxSlides exH exF notes titleLevel ss first
      = joinLines (deckLines exH exF titleLevel ss first) := by
  induction ss generalizing first with
  | nil => rfl
  | cons s rest ih =>
    have hsep : sTocEnd = joinLines [[], hrLine, []] := by decide
    unfold pptxSlides deckLines
    rw [ih (fun x hx => h x (List.mem_cons_of_mem _ hx)) false,
      pptx_slide_lines exH exF notes titleLevel s (h s (by simp)),
      joinLines_append, joinLines_append]
    cases first <;> simp [hsep, joinLines_nil]

/-- non-vacuity: a slide with notes that are not asked for is text-only; a slide whose notes are
written is not -/
example : textOnly false { title := [84], notes := [110] } ∧ ¬ textOnly true { title := [84], notes := [110] } := by
  unfold textOnly; decide

/-! ## what a reader finds on the lines -/

/-- a projection of the reader that sees nothing on an empty line and on `---` sees on the deck's
lines what it sees on the slides' lines, in slide order: the separators add nothing -/
theorem deck_filterMap {β} (f : Str → Option β) (hnil : f [] = none) (hhr : f hrLine = none)
    (exH exF : Bool) (titleLevel : Int) (ss : List PSlide) (first : Bool) :
    (deckLines exH exF titleLevel ss first).filterMap f
      = ss.flatMap fun s => (slideLines exH exF titleLevel s).filterMap f := by
  induction ss generalizing first with
  | nil => rfl
  | cons s rest ih =>
    unfold deckLines
    rw [List.filterMap_append, List.filterMap_append, ih false, List.flatMap_cons]
    cases first <;> simp [hnil, hhr]

/-- the heading a paragraph is read as: none for a list paragraph; a plain paragraph is read as
whatever its own text says -/
def paraHeading (p : PPara) : Option (Nat × Str) :=
  if p.text.isEmpty then none
  else if p.isBullet || p.isNumbered then none
  else headingOf p.text

/-- the list item a paragraph is read as: a list paragraph with its level, kind and text -/
def paraItem (p : PPara) : Option (Nat × Bool × Str) :=
  if p.text.isEmpty then none
  else if p.isBullet || p.isNumbered then some (p.level.toNat, p.isNumbered, p.text)
  else itemOf p.text

theorem para_headings (p : PPara) : (paraLines p).filterMap headingOf = (paraHeading p).toList := by
  unfold paraLines paraHeading
  by_cases he : p.text.isEmpty = true
  · simp [he]
  · by_cases hb : (p.isBullet || p.isNumbered) = true
    · simp [he, hb, headingOf_listLine]
    · simp only [he, hb, Bool.false_eq_true, if_false]
      cases hh : headingOf p.text <;> simp [hh, headingOf_nil]

theorem para_items (p : PPara) : (paraLines p).filterMap itemOf = (paraItem p).toList := by
  unfold paraLines paraItem
  by_cases he : p.text.isEmpty = true
  · simp [he]
  · by_cases hb : (p.isBullet || p.isNumbered) = true
    · simp [he, hb, itemOf_listLine]
    · simp only [he, hb, Bool.false_eq_true, if_false]
      cases hh : itemOf p.text <;> simp [hh, itemOf_nil]

/-- the paragraphs of a slide that are written, in order -/
def slideParas (exH exF : Bool) (s : PSlide) : List PPara :=
  s.content.flatMap fun b => if blockShown exH exF b then b.paras else []

theorem slide_content_filterMap {β} (f : Str → Option β) (exH exF : Bool) (s : PSlide) :
    (s.content.flatMap (blockLines exH exF)).filterMap f
      = (slideParas exH exF s).flatMap fun p => (paraLines p).filterMap f := by
  unfold slideParas
  rw [filterMap_flatMap_lines, List.flatMap_assoc]
  congr 1
  funext b
  unfold blockLines
  cases blockShown exH exF b <;> simp [filterMap_flatMap_lines]

/-- the titles of a deck as the headings a reader must find -/
def slideTitle (titleLevel : Int) (s : PSlide) : List (Nat × Str) :=
  if s.title.isEmpty then [] else [(titleLevel.toNat, s.title)]

/-- **headings of a deck**: for every deck, exclusion option and title level ≥ 1, the ATX lines
among the deck's lines are, slide by slide, the slide's title at the title level followed by
what the plain paragraphs' own texts read as — no list paragraph, separator or empty line is
ever a heading, no title is lost -/
theorem pptx_deck_headings (exH exF : Bool) (titleLevel : Int) (h1 : 1 ≤ titleLevel)
    (ss : List PSlide) (first : Bool) :
    (deckLines exH exF titleLevel ss first).filterMap headingOf
      = ss.flatMap fun s => slideTitle titleLevel s
          ++ (slideParas exH exF s).flatMap fun p => (paraHeading p).toList := by
  rw [deck_filterMap headingOf headingOf_nil (by decide)]
  congr 1
  funext s
  unfold slideLines slideTitle
  rw [List.filterMap_append, slide_content_filterMap]
  have hl : 1 ≤ titleLevel.toNat := by omega
  congr 1
  · by_cases he : s.title.isEmpty = true
    · simp [he]
    · simp [he, headingOf_atxLine _ _ hl, headingOf_nil]
  · congr 1
    funext p
    exact para_headings p

/-- **list items of a deck**: for every deck, exclusion option and title level ≥ 1, the list
item lines among the deck's lines are, in slide, block and paragraph order, every written list
paragraph with depth = its level, kind = numbered, and its text (followed for a plain paragraph
by what its own text reads as) — order, nesting depth and kind are kept -/
theorem pptx_deck_items (exH exF : Bool) (titleLevel : Int) (h1 : 1 ≤ titleLevel)
    (ss : List PSlide) (first : Bool) :
    (deckLines exH exF titleLevel ss first).filterMap itemOf
      = ss.flatMap fun s => (slideParas exH exF s).flatMap fun p => (paraItem p).toList := by
  rw [deck_filterMap itemOf itemOf_nil (by decide)]
  congr 1
  funext s
  unfold slideLines
  rw [List.filterMap_append, slide_content_filterMap]
  have hl : 1 ≤ titleLevel.toNat := by omega
  have e : (if s.title.isEmpty then [] else [atxLine titleLevel.toNat s.title, []]).filterMap itemOf
      = [] := by
    by_cases he : s.title.isEmpty = true
    · simp [he]
    · simp [he, itemOf_atxLine _ _ hl, itemOf_nil]
  rw [e, List.nil_append]
  congr 1
  funext p
  exact para_items p

/-- non-vacuity of the title level hypothesis: the level `MarkdownWithRAGOptions` passes is
`headingLevel 1 offset max`, at least 1 (`C15.heading_level_range`), e.g. for offset -2 -/
example : (1 : Int) ≤ headingLevel 1 (-2) 3 ∧ (1 : Int) ≤ headingLevel 1 7 0 := by decide

/-- a line the reader takes for paragraph text is neither a heading nor a list item -/
theorem isPara_not_structure (l : Str) (h : isPara l = true) : headingOf l = none ∧ itemOf l = none := by
  unfold isPara at h
  unfold headingOf itemOf
  cases hc : classify l <;> simp [hc] at h ⊢

/-- the list paragraphs of a slide as the reader must find them -/
def slideItems (exH exF : Bool) (s : PSlide) : List (Nat × Bool × Str) :=
  (slideParas exH exF s).filterMap fun p =>
    if p.text.isEmpty then none
    else if p.isBullet || p.isNumbered then some (p.level.toNat, p.isNumbered, p.text) else none

/-- **deck structure read back from the written text**: for every deck of text-only slides whose
titles and paragraph texts are single lines and whose plain paragraphs are paragraph text for
the reader, every exclusion option, note option and title level ≥ 1: splitting the builder's
text at newlines, the headings are exactly the non-empty slide titles in slide order at the
title level and the list items are exactly the written list paragraphs in order with their
depth, kind and text -/
theorem pptx_deck_structure (exH exF notes : Bool) (titleLevel : Int) (h1 : 1 ≤ titleLevel)
    (ss : List PSlide) (htext : ∀ s ∈ ss, textOnly notes s)
    (htitle : ∀ s ∈ ss, 10 ∉ s.title)
    (hpara : ∀ s ∈ ss, ∀ p ∈ slideParas exH exF s, 10 ∉ p.text ∧
      ((p.isBullet || p.isNumbered) = false → p.text.isEmpty = false → isPara p.text = true)) :
    (splitLines (pptxSlides exH exF notes titleLevel ss true)).filterMap headingOf
        = ss.flatMap (slideTitle titleLevel) ∧
    (splitLines (pptxSlides exH exF notes titleLevel ss true)).filterMap itemOf
        = ss.flatMap (slideItems exH exF) := by
  -- the lines carry no newline
  have hnl : ∀ l ∈ deckLines exH exF titleLevel ss true, 10 ∉ l := by
    have gen : ∀ (first : Bool) (ss : List PSlide), (∀ s ∈ ss, 10 ∉ s.title) →
        (∀ s ∈ ss, ∀ p ∈ slideParas exH exF s, 10 ∉ p.text) →
        ∀ l ∈ deckLines exH exF titleLevel ss first, 10 ∉ l := by
      intro first ss
      induction ss generalizing first with
      | nil => intro _ _ l hl; simp [deckLines] at hl
      | cons s rest ih =>
        intro ht hp l hl
        unfold deckLines at hl
        rcases List.mem_append.mp hl with hl | hl
        · rcases List.mem_append.mp hl with hl | hl
          · cases first
            · simp only [Bool.false_eq_true, if_false, List.mem_cons, List.not_mem_nil, or_false] at hl
              rcases hl with e | e | e <;> subst e <;> decide
            · simp at hl
          · unfold slideLines at hl
            rcases List.mem_append.mp hl with hl | hl
            · by_cases he : s.title.isEmpty = true
              · simp [he] at hl
              · simp only [he, Bool.false_eq_true, if_false, List.mem_cons, List.not_mem_nil, or_false] at hl
                rcases hl with e | e
                · subst e
                  have := ht s (by simp)
                  intro hm
                  simp only [atxLine, List.mem_append, List.mem_replicate, List.mem_cons] at hm
                  rcases hm with ⟨_, hm⟩ | hm | hm
                  · omega
                  · omega
                  · exact this hm
                · subst e; simp
            · obtain ⟨b, hb, hlb⟩ := List.mem_flatMap.mp hl
              unfold blockLines at hlb
              by_cases hs : blockShown exH exF b = true
              · simp only [hs, if_true] at hlb
                obtain ⟨p, hpm, hlp⟩ := List.mem_flatMap.mp hlb
                have hpt : 10 ∉ p.text := hp s (by simp) p (by
                  unfold slideParas
                  exact List.mem_flatMap.mpr ⟨b, hb, by simp [hs, hpm]⟩)
                unfold paraLines at hlp
                by_cases he : p.text.isEmpty = true
                · simp [he] at hlp
                · by_cases hbn : (p.isBullet || p.isNumbered) = true
                  · simp only [he, Bool.false_eq_true, if_false, hbn, if_true, List.mem_cons,
                      List.not_mem_nil, or_false] at hlp
                    subst hlp
                    exact listLine_one_noNl _ _ _ hpt
                  · simp only [he, Bool.false_eq_true, if_false, hbn, List.mem_cons,
                      List.not_mem_nil, or_false] at hlp
                    rcases hlp with e | e
                    · subst e; exact hpt
                    · subst e; simp
              · simp [hs] at hlb
        · exact ih false (fun x hx => ht x (List.mem_cons_of_mem _ hx))
            (fun x hx => hp x (List.mem_cons_of_mem _ hx)) l hl
    exact gen true ss htitle (fun s hs p hp => (hpara s hs p hp).1)
  rw [pptx_deck_lines exH exF notes titleLevel ss htext true, splitLines_joinLines _ hnl,
    List.filterMap_append, List.filterMap_append, pptx_deck_headings exH exF titleLevel h1,
    pptx_deck_items exH exF titleLevel h1]
  simp only [List.filterMap_cons, headingOf_nil, itemOf_nil, List.filterMap_nil, List.append_nil]
  constructor
  · refine flatMap_congr_mem _ _ _ (fun s hs => ?_)
    show slideTitle titleLevel s ++ _ = slideTitle titleLevel s
    have : ((slideParas exH exF s).flatMap fun p => (paraHeading p).toList) = [] := by
      rw [List.flatMap_eq_nil_iff]
      intro p hp
      unfold paraHeading
      by_cases he : p.text.isEmpty = true
      · simp [he]
      · by_cases hb : (p.isBullet || p.isNumbered) = true
        · simp [he, hb]
        · have hpa := (hpara s hs p hp).2 (by simpa using hb) (by simpa using he)
          simp [he, hb, (isPara_not_structure _ hpa).1]
    rw [this, List.append_nil]
  · refine flatMap_congr_mem _ _ _ (fun s hs => ?_)
    show ((slideParas exH exF s).flatMap fun p => (paraItem p).toList) = slideItems exH exF s
    unfold slideItems
    generalize hq : slideParas exH exF s = ps at *
    have hps : ∀ p ∈ ps, (paraItem p).toList = (if p.text.isEmpty then none
        else if p.isBullet || p.isNumbered then some (p.level.toNat, p.isNumbered, p.text)
        else none : Option (Nat × Bool × Str)).toList := by
      intro p hp
      unfold paraItem
      by_cases he : p.text.isEmpty = true
      · simp [he]
      · by_cases hb : (p.isBullet || p.isNumbered) = true
        · simp [he, hb]
        · have hpa := (hpara s hs p (hq ▸ hp)).2 (by simpa using hb) (by simpa using he)
          simp [he, hb, (isPara_not_structure _ hpa).2]
    rw [flatMap_congr_mem ps _ _ hps]
    exact flatMap_toList_eq_filterMap _ ps

/-- non-vacuity of the paragraph hypothesis: ordinary text is paragraph text for the reader; a
plain paragraph that spells a list item is not, which is why the hypothesis is needed -/
example : isPara [99, 32, 100] = true ∧ isPara [45, 32, 100] = false := by decide

/-- non-vacuity: a two-slide deck with a title, a nested first item, a numbered item, a plain
paragraph and an excluded footer block meets every hypothesis of `pptx_deck_structure` -/
example : (splitLines (pptxSlides false true false 2
      [{ title := [84], content := [{ paras := [{ text := [97], level := 1, isBullet := true },
                                                 { text := [98], isNumbered := true },
                                                 { text := [99] }] },
                                     { placeholder := [102, 116, 114], paras := [{ text := [120], isBullet := true }] }] },
       { content := [{ paras := [{ text := [100], isBullet := true }] }] }] true)).filterMap itemOf
    = [(1, false, [97]), (0, true, [98]), (0, false, [100])] := by decide

/-! ## no text is lost -/

/-- the lines of every slide of the deck are lines of the deck -/
theorem slideLines_sub_deck (exH exF : Bool) (titleLevel : Int) (ss : List PSlide) (first : Bool)
    (s : PSlide) (hs : s ∈ ss) (l : Str) (hl : l ∈ slideLines exH exF titleLevel s) :
    l ∈ deckLines exH exF titleLevel ss first := by
  induction ss generalizing first with
  | nil => simp at hs
  | cons x rest ih =>
    unfold deckLines
    rcases List.mem_cons.mp hs with e | hm
    · subst e
      exact List.mem_append_left _ (List.mem_append_right _ hl)
    · exact List.mem_append_right _ (ih false hm)

/-- **no title and no paragraph is lost**: for every deck, exclusion option and title level,
every non-empty title is on a line of the deck as the ATX heading of the title level, and every
non-empty paragraph of a block that is written is on a line of the deck — a list paragraph as
its list item line, a plain paragraph as its text -/
theorem pptx_deck_keeps_text (exH exF : Bool) (titleLevel : Int) (ss : List PSlide) (first : Bool)
    (s : PSlide) (hs : s ∈ ss) :
    (s.title.isEmpty = false → atxLine titleLevel.toNat s.title ∈ deckLines exH exF titleLevel ss first) ∧
    (∀ p ∈ slideParas exH exF s, p.text.isEmpty = false →
      (if p.isBullet || p.isNumbered then listLine ⟨p.level.toNat, p.isNumbered, 1, p.text⟩ else p.text)
        ∈ deckLines exH exF titleLevel ss first) := by
  constructor
  · intro ht
    apply slideLines_sub_deck exH exF titleLevel ss first s hs
    unfold slideLines
    simp [ht]
  · intro p hp hne
    apply slideLines_sub_deck exH exF titleLevel ss first s hs
    unfold slideLines
    apply List.mem_append_right
    unfold slideParas at hp
    obtain ⟨b, hb, hpb⟩ := List.mem_flatMap.mp hp
    refine List.mem_flatMap.mpr ⟨b, hb, ?_⟩
    unfold blockLines
    by_cases hsh : blockShown exH exF b = true
    · simp only [hsh, if_true] at hpb ⊢
      refine List.mem_flatMap.mpr ⟨p, hpb, ?_⟩
      unfold paraLines
      by_cases hbn : (p.isBullet || p.isNumbered) = true
      · simp [hne, hbn]
      · simp [hne, hbn]
    · simp [hsh] at hpb

/-! ## the slide loop and the slide selection -/

/-- the slide loop is compositional: a deck written in two parts -/
theorem pptx_slides_append (exH exF notes : Bool) (titleLevel : Int) (a b : List PSlide) (first : Bool) :
    pptxSlides exH exF notes titleLevel (a ++ b) first
      = pptxSlides exH exF notes titleLevel a first
          ++ pptxSlides exH exF notes titleLevel b (first && a.isEmpty) := by
  induction a generalizing first with
  | nil => simp [pptxSlides]
  | cons s rest ih =>
    simp [pptxSlides, ih false]

/-- no selection: every slide / sheet, in deck order -/
theorem selectIdx_none {α} (all : List α) : selectIdx all [] = all := by
  simp [selectIdx]

/-- a selection never invents a slide: whatever indices are asked for (negative, beyond the deck,
repeated), every selected slide is a slide of the deck and there are at most as many as asked -/
theorem selectIdx_sound {α} (all : List α) (sel : List Int) (hne : sel ≠ []) :
    (∀ x ∈ selectIdx all sel, x ∈ all) ∧ (selectIdx all sel).length ≤ sel.length := by
  have he : sel.isEmpty = false := by cases sel <;> simp_all
  unfold selectIdx
  simp only [he, Bool.false_eq_true, if_false]
  constructor
  · intro x hx
    obtain ⟨i, _, hi⟩ := List.mem_filterMap.mp hx
    by_cases hneg : i < 0
    · simp [hneg] at hi
    · simp only [hneg, if_false] at hi
      exact List.mem_of_getElem? hi
  · exact List.length_filterMap_le _ _

/-- a selection of valid indices picks exactly those slides, in the order asked -/
theorem selectIdx_valid {α} (all : List α) (sel : List Nat) (hne : sel ≠ [])
    (hv : ∀ i ∈ sel, i < all.length) :
    (selectIdx all (sel.map fun i : Nat => (i : Int))).map some = sel.map fun i => all[i]? := by
  have he : (sel.map fun i : Nat => (i : Int)).isEmpty = false := by cases sel <;> simp_all
  unfold selectIdx
  simp only [he, Bool.false_eq_true, if_false]
  clear he hne
  induction sel with
  | nil => rfl
  | cons i rest ih =>
    have hi := hv i (by simp)
    have hneg : ¬ ((i : Int) < 0) := by omega
    have e : ((i : Int)).toNat = i := by omega
    have ih2 := ih (fun x hx => hv x (List.mem_cons_of_mem _ hx))
    simp only [List.map_cons, List.filterMap_cons, hneg, if_false, e, List.getElem?_eq_getElem hi, ih2]

example : selectIdx [10, 20, 30] [2, -1, 7, 0, 2] = [30, 10, 30] := by decide

example : ([2, 0, 2] : List Nat) ≠ [] ∧ ∀ i ∈ ([2, 0, 2] : List Nat), i < [10, 20, 30].length := by decide

/-- `MarkdownWithOptions` is `MarkdownWithRAGOptions` without metadata, TOC and offset, for
every maximum level: titles stay level-1 headings -/
theorem pptx_with_options_eq_rag (ext : Ext) (exH exF notes : Bool) (sel : List Int) (o : MdOpts)
    (m : Meta) (slides : List PSlide) (hm : o.meta = false) (ht : o.toc = false) (ho : o.offset = 0) :
    pptxMarkdownRag ext exH exF notes sel o m slides
      = pptxMarkdownWithOptions exH exF notes sel slides := by
  have hl : headingLevel 1 0 o.max = 1 := by
    unfold headingLevel
    simp only
    split <;> omega
  unfold pptxMarkdownRag pptxMarkdownWithOptions
  simp [hm, ht, ho, hl]

/-- non-vacuity: the default options meet the hypotheses -/
example : defaultOpts.meta = false ∧ defaultOpts.toc = false ∧ defaultOpts.offset = 0 := by decide

end Tabula.C15More
