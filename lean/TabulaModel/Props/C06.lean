import TabulaModel.Lemmas.PdfName
import TabulaModel.Lemmas.PdfStr
import TabulaModel.Lemmas.PdfHex
import TabulaModel.Lemmas.PdfTok
import TabulaModel.Lemmas.PdfState
import TabulaModel.Lemmas.PdfParse
import TabulaModel.Lemmas.PdfCS
import TabulaModel.Lemmas.PdfReal
import TabulaModel.Lemmas.PdfSpell
import TabulaModel.Lemmas.PdfDepth
import TabulaModel.Lemmas.PdfBound
/-!
# C06 — PDF object syntax has one meaning for both parsers

Models: `Model/Lexer.lean`, `Model/Parser.lean` (core), `Model/CSParser.lean`
(contentstream), printer side `Model/Print.lean` (token spellings as piece
lists) and `Model/Spell.lean` (spelled object trees `SObj`: an object together
with one legal spelling of every token and separator).  "For every object and
every spelling" is "for every valid `SObj`".

Helper lemmas: `Lemmas/PdfName.lean`, `PdfStr.lean`, `PdfHex.lean`,
`PdfTok.lean`, `PdfState.lean`, `PdfParse.lean`, `PdfCS.lean`, `PdfDepth.lean`,
`PdfBound.lean`.

Nesting limit (tabula fix a3fd154, `maxNestingDepth = 500` in core/parser.go and
contentstream/parser.go): both parsers count the arrays and dictionaries that are open and refuse
to open number 501.  `Obj.depth` is 0 for scalars and references and one more than the deepest
element for a container, so an object parses iff `o.depth ≤ maxNestingDepth`: the round-trip
theorems of stage 3 carry exactly that (decidable) hypothesis, stage 4 proves the other half
(deeper objects are an error in BOTH parsers, nothing deeper is ever accepted) and that the
number of simultaneously open containers - the recursion depth of the parsers - stays within the
limit for every input whatsoever.  Instrumented models: `Model/ParserTrace.lean`.
-/
namespace Tabula.C06
open Tabula.Pdf
open Tabula.A1 (atoi dec)

/-! ## Stage 1 — token classes, every byte string, every spelling -/

/-- Names: every legal spelling (`#xx` or raw per byte, either hex case) of every byte string is
lexed back to exactly those bytes, and the lexer stops exactly at the end of the name. -/
theorem name_roundtrip (ps : List NPiece) (tail : Str) (hok : ∀ p ∈ ps, p.Ok) (ht : Terminated tail) :
    nextToken (47 :: renderName ps ++ tail) = some (.name (ps.map NPiece.byte), tail) :=
  nextToken_name ps tail hok ht

/-- … and every byte string has such a spelling (`printName`), so this is all names. -/
theorem name_roundtrip_bytes (bs : Str) (tail : Str) (hb : ∀ b ∈ bs, b < 256) (ht : Terminated tail) :
    nextToken (printName bs ++ tail) = some (.name bs, tail) := by
  have h := canonNPiece_ok bs hb
  have := nextToken_name (bs.map canonNPiece) tail h.1 ht
  rw [h.2] at this
  exact this

example : Terminated [32, 49] := Or.inr ⟨32, [49], rfl, by decide⟩
example : ∀ p ∈ [NPiece.raw 65, NPiece.esc 32 true false], p.Ok := by
  intro p hp
  simp only [List.mem_cons, List.not_mem_nil, or_false] at hp
  rcases hp with rfl | rfl
  · exact ⟨by decide, by decide, by decide⟩
  · show 32 < 256; omega

/-- the content-stream reader `parseName` on the same spellings -/
theorem cs_name_roundtrip (ps : List NPiece) (tail : Str) (hok : ∀ p ∈ ps, p.Ok) (ht : Terminated tail) :
    CS.nameLoop (renderName ps ++ tail) = (ps.map NPiece.byte, tail) :=
  cs_nameLoop_roundtrip ps tail hok ht

/-- Hex strings: any digit case, any white space between digits, optional missing last digit. -/
theorem hexstr_roundtrip (ps : List HPiece) (last : Option HLast) (wEnd tail : Str)
    (hps : ∀ p ∈ ps, p.Ok) (hlast : ∀ l, last = some l → l.Ok) (hw : AllWs wEnd) :
    ∃ ds, nextToken (renderHex ps last wEnd ++ tail) = some (.hexstr ds, tail) ∧
      hexPairs ds = hexValueOf ps last :=
  nextToken_hex ps last wEnd tail hps hlast hw

example : (⟨65, true, false, [32], []⟩ : HPiece).Ok := ⟨by decide, by intro c hc; simp at hc; subst hc; decide,
  by intro c hc; simp at hc⟩

/-- the content-stream reader `parseHexString` on the same spellings -/
theorem cs_hexstr_roundtrip (ps : List HPiece) (last : Option HLast) (wEnd tail : Str)
    (hps : ∀ p ∈ ps, p.Ok) (hlast : ∀ l, last = some l → l.Ok) (hw : AllWs wEnd) :
    CS.hexLoop (renderHexBody ps last wEnd ++ tail) = some (hexValueOf ps last, tail) :=
  Tabula.Pdf.cs_hexstr_roundtrip ps last wEnd tail hps hlast hw

/-- Literal strings: every escape choice per byte (raw, `\n`-style, 1–3 digit octal, balanced raw
or escaped parentheses, line continuations with any end-of-line marker). -/
theorem litstr_roundtrip (ps : List SPiece) (tail : Str) (h : ValidStr 0 ps) :
    nextToken (renderStr ps ++ tail) = some (.str (strBytes ps), tail) :=
  nextToken_lit ps tail h

/-- every byte string has a legal literal spelling -/
theorem litstr_every_bytes (bs : Str) (hb : ∀ b ∈ bs, b < 256) :
    ∃ ps, ValidStr 0 ps ∧ strBytes ps = bs :=
  ⟨_, (validStr_octal3 bs hb).1, (validStr_octal3 bs hb).2⟩

example : ValidStr 0 [SPiece.popen, SPiece.raw 65, SPiece.pclose, SPiece.octal 7 1, SPiece.named 10] := by
  simp [ValidStr, renderStrBody, SPiece.render, escChar, isOctal]

/-- the content-stream reader `parseString` is the same function as the document-level one, on
every input whatsoever -/
theorem parsers_agree_literal_strings (inp : Str) (d : Nat) : CS.strLoop d inp = strLoop d inp :=
  cs_strLoop_eq inp d

/-- whenever the document-level lexer accepts a name, `contentstream.parseName` gives the same bytes
and stops at the same place -/
theorem parsers_agree_names (inp v r : Str) (h : nameLoop inp = some (v, r)) : CS.nameLoop inp = (v, r) :=
  cs_nameLoop_agree inp v r h

/-- whenever the document-level lexer accepts a hex string, `contentstream.parseHexString` gives the
bytes the document-level parser computes from its digits, and stops at the same place -/
theorem parsers_agree_hex_strings (inp ds r : Str) (h : hexLoop inp = some (ds, r)) :
    CS.hexLoop inp = some (hexPairs ds, r) :=
  cs_hexLoop_agree inp ds r h

/-- Integers: optional `+`, leading zeros, the whole int64 range. -/
theorem int_roundtrip (plus : Bool) (zeros : Nat) (i : Int) (tail : Str) (ht : Terminated tail)
    (h1 : -(2 ^ 63 : Int) ≤ i) (h2 : i < (2 ^ 63 : Int)) :
    nextToken (printInt plus zeros i ++ tail) = some (.integer (printInt plus zeros i), tail) ∧
      atoi (printInt plus zeros i) = some i :=
  ⟨nextToken_int plus zeros i tail ht, atoi_printInt plus zeros i h1 h2⟩

/-! ## Stage 2 — the two-token lookahead for `num gen R` -/

theorem next_cur (s : PState) : s.next.cur = s.peek := by
  unfold PState.next
  split
  · rfl
  · split
    · rfl
    · split <;> rfl

/-- `a b R` is one reference: three tokens consumed, nothing else (for every parser state). -/
theorem ref_lookahead (s : PState) (va vb : Str) (a b : Int)
    (hp : s.peek = some (.integer vb)) (ha : atoi va = some a) (hb : atoi vb = some b)
    (hr : s.next.peek = some .ref) :
    parseNumber s va = .ok (.ref a b, s.next.next.next) := by
  unfold parseNumber
  simp only [ha, hp, hb, hr]

/-- `a b` not followed by `R` is the integer `a`, and the parser then stands on `b`: no token is
consumed twice or lost. -/
theorem ref_lookahead_two_ints (s : PState) (va vb : Str) (a b : Int)
    (hp : s.peek = some (.integer vb)) (ha : atoi va = some a) (hb : atoi vb = some b)
    (hr : s.next.peek ≠ some .ref) :
    parseNumber s va = .ok (.int a, s.next) ∧ s.next.cur = some (.integer vb) := by
  refine ⟨?_, by rw [next_cur, hp]⟩
  unfold parseNumber
  simp only [ha, hp, hb]

/-- advancing the window over the bytes: the state after one token is the state `NewParser` would
build on the bytes that token left unread -/
theorem window_advance (inp : Str) (t : Token) (r : Str) (h : lexSkip (inp.length + 1) inp = some (t, r))
    (hs : t ≠ .keyword kwStream) :
    (stateAt inp).cur = some t ∧ (stateAt inp).next = stateAt r ∧ (stateAt inp).peek = (stateAt r).cur :=
  ⟨stateAt_cur_of_lex inp t r h, stateAt_next inp t r h hs, stateAt_peek inp t r h hs⟩

/-- the same on bytes: `a b R` under every legal separator spelling -/
theorem ref_lookahead_bytes (n g : Nat) (pre s1 s2 : Sep) (rest : Str) (d : Nat)
    (hd : d ≤ maxNestingDepth)
    (hv : (SObj.ref pre n g s1 s2).Valid false) (ht : Terminated rest) (hnr : FirstNotR rest)
    (hnra : NoRefAhead rest) :
    parseObject 1 d (stateAt ((SObj.ref pre n g s1 s2).render ++ rest)) = .ok (.ref n g, stateAt rest) :=
  ref_bytes n g pre s1 s2 rest d hd hv ht hnr hnra

/-- `a b` (no `R`) on bytes: two integers, the second read from exactly where the first ended -/
theorem two_ints_lookahead_bytes (a b : Int) (p1 p2 : Sep) (rest : Str) (d : Nat)
    (hd : d ≤ maxNestingDepth)
    (h1 : (SObj.int p1 false 0 a).Valid false) (h2 : (SObj.int p2 false 0 b).Valid true)
    (ht : Terminated rest) (hnr : FirstNotR rest) (hnra : NoRefAhead rest) :
    parseObject 1 d (stateAt ((SObj.int p1 false 0 a).render ++ ((SObj.int p2 false 0 b).render ++ rest))) =
        .ok (.int a, stateAt ((SObj.int p2 false 0 b).render ++ rest)) ∧
      parseObject 1 d (stateAt ((SObj.int p2 false 0 b).render ++ rest)) = .ok (.int b, stateAt rest) :=
  two_ints_bytes a b p1 p2 rest d hd h1 h2 ht hnr hnra

/-- the number of open containers allowed around a token: any `d ≤ 500`, e.g. the innermost
position the limit permits -/
example : (500 : Nat) ≤ maxNestingDepth := by decide

/-! ## Stage 3 — whole object trees and whole programs

`SObj` (Model/Spell.lean) is an object tree together with ONE legal spelling of every token
(all the per-class choices of stage 1, plus sign / leading zeros on integers and sign, leading and
trailing zeros, `4.`, `.5` on reals) and of every separator (any mix of the six white-space bytes
and `%…EOL` comments with any end-of-line marker; empty wherever a delimiter makes separation
unnecessary).  `so.Valid` says the spelling is legal, `so.render` are the bytes, `so.value` the
object.  "∀ obj ∀ spelling" is "∀ valid so"; `every_object_has_a_spelling` shows that every
well-formed object is `so.value` for some valid `so`, so nothing is left out. -/

/-- The nesting limit of both parsers is 500 open arrays/dictionaries. -/
theorem nesting_limit_value : maxNestingDepth = 500 := rfl

/-- Document-level parser: every object tree of all nine kinds nested at most `maxNestingDepth`
(= 500) deep, under every legal spelling of every token and separator, optionally followed by
white space / comments, parses back to exactly the tree, and the parser stands exactly behind it. -/
theorem core_roundtrip (so : SObj) (trail : Sep) (hv : so.Valid false) (ht : SepOk trail)
    (hd : so.value.depth ≤ maxNestingDepth) :
    coreParse (so.render ++ renderSep trail) = .ok (so.value, stateAt (renderSep trail)) :=
  core_roundtrip_spelled so trail hv ht hd

/-- the hypotheses are satisfiable at the limit itself: 500 arrays around an integer, and 250
arrays around 250 dictionaries around a name -/
example : (nestArr 500 (SObj.int [] true 2 (-7))).Valid false ∧
    (nestArr 500 (SObj.int [] true 2 (-7))).value.depth ≤ maxNestingDepth := by
  refine ⟨nestArr_valid _ _ ?_, ?_⟩
  · simp [SObj.Valid, SepOk]
  · rw [nestArr_depth]; decide
example : (nestArr 250 (nestDict 250 (SObj.name [.ws 32] [.raw 65]))).Valid false ∧
    (nestArr 250 (nestDict 250 (SObj.name [.ws 32] [.raw 65]))).value.depth ≤ maxNestingDepth := by
  refine ⟨nestArr_valid _ _ (nestDict_valid 249 _ false ?_), ?_⟩
  · simp [SObj.Valid, SepOk, SepUnit.Ok, NPiece.Ok, isWs, isDelim]
  · rw [nestArr_depth, nestDict_depth]; decide

/-- … inside any context: `d` containers already open, what follows may be any bytes that end the
last token and do not start with `R` (`parse_roundtrip` is the induction behind `core_roundtrip`). -/
theorem core_roundtrip_in_context (so : SObj) (need : Bool) (rest : Str) (f d : Nat)
    (hv : so.Valid need) (hf : so.size ≤ f) (hd : d + so.value.depth ≤ maxNestingDepth)
    (hterm : so.endsRegular = true → Terminated rest)
    (hnr : FirstNotR rest) (hnra : NoRefAhead rest) :
    parseObject f d (stateAt (so.render ++ rest)) = .ok (so.value, stateAt rest) :=
  parse_roundtrip so need rest f d hv hf hd hterm hnr hnra

example : 498 + (nestArr 2 (SObj.null [])).value.depth ≤ maxNestingDepth := by
  rw [nestArr_depth]; decide

/-- every well-formed object (Model/WF.lean) has a legal spelling: the quantification over valid
`SObj` above covers every object -/
theorem every_object_has_a_spelling (o : Obj) (h : o.WF) (need : Bool) :
    ∃ so : SObj, so.Valid need ∧ so.value = o :=
  ⟨spell o, spell_valid_value o h need⟩

/-- the statement in its ∀ object form: every well-formed object nested at most `maxNestingDepth`
deep, written in ANY legal spelling of it, parses back to itself (and at least one spelling
exists) -/
theorem core_roundtrip_obj (o : Obj) (h : o.WF) (hd : o.depth ≤ maxNestingDepth) :
    (∃ so : SObj, so.Valid false ∧ so.value = o) ∧
      ∀ (so : SObj) (trail : Sep), so.Valid false → so.value = o → SepOk trail →
        coreParse (so.render ++ renderSep trail) = .ok (o, stateAt (renderSep trail)) := by
  refine ⟨⟨spell o, spell_valid_value o h false⟩, ?_⟩
  intro so trail hv hval ht
  rw [← hval] at hd ⊢
  exact core_roundtrip_spelled so trail hv ht hd

example : (Obj.arr [.dict [([75], .arr [.int 3, .name [65]])], .null]).depth ≤ maxNestingDepth := by decide

example : (SObj.arr [] [SObj.int [] true 2 (-7), SObj.real [.ws 32] ⟨false, false, [], [53]⟩,
    SObj.name [.comment [65] [13, 10]] [.raw 65]] [.ws 0]).Valid false := by
  simp [SObj.Valid, ValidList, SepOk, SepUnit.Ok, SObj.endsRegular, NPiece.Ok, RealSp.Ok, DigitStr, isWs,
    isDelim, isDigit]

/-- Content-stream parser: one operand (no indirect references: they cannot occur in content
streams) under every legal spelling, `d` containers already open and at most `maxNestingDepth`
open in all. -/
theorem cs_operand_roundtrip (so : SObj) (need : Bool) (rest : Str) (f d : Nat)
    (hv : so.Valid need) (hnr : so.noRef = true) (hf : so.size ≤ f)
    (hd : d + so.value.depth ≤ maxNestingDepth)
    (hrest : so.endsRegular = true → Terminated rest) :
    CS.parseOperand f d (so.render ++ rest) = some (so.value, rest) :=
  Tabula.Pdf.cs_operand_roundtrip so need rest f d hv hnr hf hd hrest

example : (nestDict 500 (SObj.lit [] [.raw 65])).noRef = true ∧
    0 + (nestDict 500 (SObj.lit [] [.raw 65])).value.depth ≤ maxNestingDepth := by
  refine ⟨nestDict_noRef _ _ rfl, ?_⟩
  rw [nestDict_depth]; decide

/-- Content-stream parser: a whole program whose operands nest at most `maxNestingDepth` deep,
under every legal spelling; operands stay grouped with the operator after them (operator names
incl. `'`, `"`, `T*`, `d0`; operators next to delimiters; booleans before `]`/`>>` and at top
level; comments anywhere between tokens). -/
theorem cs_roundtrip (ops : List SOp) (trail : Sep) (hv : ValidOps false ops) (ht : SepOk trail)
    (hd : ∀ o ∈ ops, Obj.depthList (valueList o.operands) ≤ maxNestingDepth) :
    CS.csParse (renderOps ops ++ renderSep trail) =
      some (ops.map fun o => { op := o.op, operands := valueList o.operands }) :=
  Tabula.Pdf.cs_roundtrip ops trail hv ht hd

example : ∀ o ∈ [(⟨[nestArr 500 (SObj.int [] false 0 1), SObj.lit [] [.raw 65]], [], [84, 74]⟩ : SOp)],
    Obj.depthList (valueList o.operands) ≤ maxNestingDepth := by
  intro o ho
  simp only [List.mem_singleton] at ho
  subst ho
  simp only [valueList, Obj.depthList, nestArr_depth]
  decide

/-- Both parsers give every printed operand nested at most `maxNestingDepth` deep the same value. -/
theorem agree_on_printed (so : SObj) (trail : Sep) (hv : so.Valid false) (hnr : so.noRef = true)
    (ht : SepOk trail) (hd : so.value.depth ≤ maxNestingDepth) :
    (∃ s, coreParse (so.render ++ renderSep trail) = .ok (so.value, s)) ∧
      CS.parseOperand so.size 0 (so.render ++ renderSep trail) = some (so.value, renderSep trail) := by
  refine ⟨⟨_, core_roundtrip_spelled so trail hv ht hd⟩, ?_⟩
  apply Tabula.Pdf.cs_operand_roundtrip so false (renderSep trail) so.size 0 hv hnr (Nat.le_refl _)
    (by omega)
  intro _
  cases trail with
  | nil => exact Or.inl rfl
  | cons u us => exact sep_terminated (u :: us) [] ht (by simp) |> fun h => by simpa using h

example : (nestArr 499 (nestDict 1 (SObj.bool [.ws 32] true))).noRef = true ∧
    (nestArr 499 (nestDict 1 (SObj.bool [.ws 32] true))).value.depth ≤ maxNestingDepth := by
  refine ⟨nestArr_noRef _ _ (nestDict_noRef _ _ rfl), ?_⟩
  rw [nestArr_depth, nestDict_depth]; decide

/-! ## Stage 4 — the nesting limit: the other half, agreement beyond it, bounded recursion -/

/-- Document-level parser: an object tree nested DEEPER than `maxNestingDepth`, in any legal
spelling, is an error (not a value, not end of input). -/
theorem core_too_deep (so : SObj) (trail : Sep) (hv : so.Valid false) (ht : SepOk trail)
    (hd : maxNestingDepth < so.value.depth) :
    coreParse (so.render ++ renderSep trail) = .error .err :=
  core_too_deep_spelled so trail hv ht hd

example : (nestArr 501 (SObj.int [] true 2 (-7))).Valid false ∧
    maxNestingDepth < (nestArr 501 (SObj.int [] true 2 (-7))).value.depth := by
  refine ⟨nestArr_valid _ _ ?_, ?_⟩
  · simp [SObj.Valid, SepOk]
  · rw [nestArr_depth]; decide

/-- … inside any context (whatever bytes follow): with `d` containers open, an object that would
need more than `maxNestingDepth` open at once is an error. -/
theorem core_too_deep_in_context (so : SObj) (need : Bool) (rest : Str) (f d : Nat)
    (hv : so.Valid need) (hf : so.size ≤ f) (hd : d ≤ maxNestingDepth)
    (hdeep : maxNestingDepth < d + so.value.depth) :
    parseObject f d (stateAt (so.render ++ rest)) = .error .err :=
  parse_too_deep so need rest f d hv hf hd hdeep

example : (499 : Nat) ≤ maxNestingDepth ∧ maxNestingDepth < 499 + (nestDict 2 (SObj.null [.ws 32])).value.depth := by
  rw [nestDict_depth]; decide

/-- The limit is exact: a legally spelled object round-trips through the document-level parser
if and only if it is nested at most `maxNestingDepth` deep. -/
theorem core_roundtrip_iff (so : SObj) (trail : Sep) (hv : so.Valid false) (ht : SepOk trail) :
    coreParse (so.render ++ renderSep trail) = .ok (so.value, stateAt (renderSep trail)) ↔
      so.value.depth ≤ maxNestingDepth := by
  constructor
  · intro h
    cases Nat.lt_or_ge maxNestingDepth so.value.depth with
    | inl hlt => rw [core_too_deep_spelled so trail hv ht hlt] at h; cases h
    | inr hge => exact hge
  · exact core_roundtrip_spelled so trail hv ht

/-- Content-stream parser: an operand that would need more than `maxNestingDepth` containers open
at once is an error. -/
theorem cs_operand_too_deep (so : SObj) (need : Bool) (rest : Str) (f d : Nat)
    (hv : so.Valid need) (hnr : so.noRef = true) (hf : so.size ≤ f)
    (hd : d ≤ maxNestingDepth) (hdeep : maxNestingDepth < d + so.value.depth)
    (hrest : so.endsRegular = true → Terminated rest) :
    CS.parseOperand f d (so.render ++ rest) = none :=
  Tabula.Pdf.cs_operand_too_deep so need rest f d hv hnr hf hd hdeep hrest

example : (nestDict 501 (SObj.lit [] [.raw 65])).noRef = true ∧
    maxNestingDepth < 0 + (nestDict 501 (SObj.lit [] [.raw 65])).value.depth := by
  refine ⟨nestDict_noRef _ _ rfl, ?_⟩
  rw [nestDict_depth]; decide

/-- Content-stream parser: a program one of whose operands is nested deeper than
`maxNestingDepth` makes `Parse` fail as a whole. -/
theorem cs_too_deep (ops : List SOp) (trail : Sep) (hv : ValidOps false ops) (ht : SepOk trail)
    (hd : ∃ o ∈ ops, maxNestingDepth < Obj.depthList (valueList o.operands)) :
    CS.csParse (renderOps ops ++ renderSep trail) = none :=
  Tabula.Pdf.cs_too_deep ops trail hv ht hd

example : ∃ o ∈ [(⟨[SObj.lit [] [.raw 65], nestArr 501 (SObj.int [] false 0 1)], [], [84, 74]⟩ : SOp)],
    maxNestingDepth < Obj.depthList (valueList o.operands) := by
  refine ⟨_, List.mem_singleton.2 rfl, ?_⟩
  simp only [valueList, Obj.depthList, nestArr_depth]
  decide

/-- Beyond the limit the two parsers still agree: every printed operand nested deeper than
`maxNestingDepth` is an error in both. -/
theorem agree_on_too_deep (so : SObj) (trail : Sep) (hv : so.Valid false) (hnr : so.noRef = true)
    (ht : SepOk trail) (hd : maxNestingDepth < so.value.depth) :
    coreParse (so.render ++ renderSep trail) = .error .err ∧
      CS.parseOperand so.size 0 (so.render ++ renderSep trail) = none := by
  refine ⟨core_too_deep_spelled so trail hv ht hd, ?_⟩
  apply Tabula.Pdf.cs_operand_too_deep so false (renderSep trail) so.size 0 hv hnr (Nat.le_refl _)
    (Nat.zero_le _) (by omega)
  intro _
  cases trail with
  | nil => exact Or.inl rfl
  | cons u us => exact sep_terminated (u :: us) [] ht (by simp) |> fun h => by simpa using h

example : (nestArr 250 (nestDict 251 (SObj.bool [.ws 32] true))).noRef = true ∧
    maxNestingDepth < (nestArr 250 (nestDict 251 (SObj.bool [.ws 32] true))).value.depth := by
  refine ⟨nestArr_noRef _ _ (nestDict_noRef _ _ rfl), ?_⟩
  rw [nestArr_depth, nestDict_depth]; decide

/-- Neither parser ever ACCEPTS anything deeper, whatever the bytes (legal spelling or not): a
value returned by the document-level parser is nested at most `maxNestingDepth` deep … -/
theorem core_accepts_within_limit (inp : Str) (o : Obj) (s : PState) (h : coreParse inp = .ok (o, s)) :
    o.depth ≤ maxNestingDepth :=
  core_accepts_shallow inp o s h

/-- … and so is every operand of every operation returned by the content-stream parser. -/
theorem cs_accepts_within_limit (inp : Str) (ops : List CS.Operation) (h : CS.csParse inp = some ops) :
    ∀ op ∈ ops, ∀ x ∈ op.operands, x.depth ≤ maxNestingDepth :=
  cs_accepts_shallow inp ops h

/-- Bounded recursion (the fact property C02 needs): for EVERY input, the instrumented
document-level parser (Model/ParserTrace.lean: the same code, also reporting the peak of `p.depth`,
i.e. the largest number of `parseArray`/`parseDict` activations on the stack at once) computes
exactly `coreParse`, and the peak is at most `maxNestingDepth`. -/
theorem core_recursion_bounded (inp : Str) :
    (coreParseT inp).1 = coreParse inp ∧ (coreParseT inp).2 ≤ maxNestingDepth :=
  core_peak_bounded inp

/-- … and the same for `contentstream.Parse` over all operands of a whole stream. -/
theorem cs_recursion_bounded (inp : Str) :
    (CS.csParseT inp).1 = CS.csParse inp ∧ (CS.csParseT inp).2 ≤ maxNestingDepth :=
  cs_peak_bounded inp

/-- … at every level of the recursion, from any admissible starting depth and with any fuel: the
three functions of each recursive knot never see `p.depth` above the limit. -/
theorem recursion_bounded_everywhere (f d : Nat) (hd : d ≤ maxNestingDepth) :
    (∀ s, (parseObjectT f d s).1 = parseObject f d s ∧ (parseObjectT f d s).2 ≤ maxNestingDepth) ∧
    (∀ s acc, (parseArrayT f d s acc).1 = parseArray f d s acc ∧
      (parseArrayT f d s acc).2 ≤ maxNestingDepth) ∧
    (∀ s acc, (parseDictT f d s acc).1 = parseDict f d s acc ∧
      (parseDictT f d s acc).2 ≤ maxNestingDepth) ∧
    (∀ inp, (CS.parseOperandT f d inp).1 = CS.parseOperand f d inp ∧
      (CS.parseOperandT f d inp).2 ≤ maxNestingDepth) ∧
    (∀ inp acc, (CS.parseArrayT f d inp acc).1 = CS.parseArray f d inp acc ∧
      (CS.parseArrayT f d inp acc).2 ≤ maxNestingDepth) ∧
    (∀ inp acc, (CS.parseDictT f d inp acc).1 = CS.parseDict f d inp acc ∧
      (CS.parseDictT f d inp acc).2 ≤ maxNestingDepth) :=
  ⟨fun s => ⟨((core_trace f).1 d s).1, ((core_trace f).1 d s).2 hd⟩,
   fun s acc => ⟨((core_trace f).2.1 d s acc).1, ((core_trace f).2.1 d s acc).2 hd⟩,
   fun s acc => ⟨((core_trace f).2.2 d s acc).1, ((core_trace f).2.2 d s acc).2 hd⟩,
   fun inp => ⟨((cs_trace f).1 d inp).1, ((cs_trace f).1 d inp).2 hd⟩,
   fun inp acc => ⟨((cs_trace f).2.1 d inp acc).1, ((cs_trace f).2.1 d inp acc).2 hd⟩,
   fun inp acc => ⟨((cs_trace f).2.2 d inp acc).1, ((cs_trace f).2.2 d inp acc).2 hd⟩⟩

example : (37 : Nat) ≤ maxNestingDepth := by decide

/-- the real-number value is the number written: `normReal` keeps m / 10^s and normalises -/
theorem real_value_meaning (m s : Nat) :
    m * 10 ^ (normReal m s).2 = (normReal m s).1 * 10 ^ s ∧ (normReal m s).2 ≤ s ∧
      ((normReal m s).2 = 0 ∨ (normReal m s).1 % 10 ≠ 0) :=
  normReal_spec m s

/-
Formerly kept here as "NOT proved": `parsers_agree` for ALL raw byte strings.  It is now a theorem:
`Tabula.C06Agree.parsers_agree_everywhere` / `parsers_agree` (`Props/C06Agree.lean`) — on every input on which
both parsers return a value it is the same value and both stand at the same byte (the reference `n g R`, which
content streams do not have, being the one object read differently).  Further parts of this property:
`Props/C06Progress.lean` (every call consumes input or fails; the fuel of the models is never reached),
`Props/C06Errors.lean` (lexical errors propagate; `io.EOF` only after everything was tokenized),
`Props/C06Number.lean`, `Props/C06Lexer.lean`, `Props/C06Space.lean` (numbers, hex strings, names, comments,
separators characterised for every input), `Props/C06Statement.lean` (the property text end to end, sequences).

Still not proved: the models are tied to the Go code by the correspondence run, not by proof.
-/

end Tabula.C06
