import TabulaModel.Props.C04Bytes
/-!
# C04 — the header of an object stream is checked before it sizes or slices anything
(core/objstm.go since 78b7a87)

`parseHeader` reads `/N` pairs "number offset" from the first `/First` bytes of the decoded data.
Since 78b7a87 an offset must lie within `0 .. len(decoded)` (`offset < 0 ||
offset > len(decoded)` is an error — `len(decoded)` itself passes and is refused later by
`GetObjectByIndex`), `/N` no longer sizes the table (`capacity = min(N, len(header)/4 + 1)`: a
reservation only, no answer depends on it), and a member whose successor starts before it
extends to the end of the data. The model (`Reader.headerPairs`, `Reader.mkObjStm`,
`Reader.memberSlice`) has these checks; here they are stated.
-/
namespace Tabula.C04OS
open Tabula.XrefFile Tabula.XrefBytes Tabula.Pdf Tabula.Reader

/-! ### beyond the bounds: an error, as in the code -/

/-- the loop of `parseHeader`: an offset outside `0 .. len` in one of the first `n` pairs ends it
with an error, whatever the other pairs are -/
theorem headerPairs_offset_outside (len : Nat) :
    ∀ (i n : Nat) (objs : List Obj) (b : Int), i < n → objs[2 * i + 1]? = some (.int b) →
      (b < 0 ∨ (len : Int) < b) → headerPairs len n objs = none := by
  intro i
  induction i with
  | zero =>
    intro n objs b hn hget hb
    cases n with
    | zero => omega
    | succ n =>
      match objs, hget with
      | x :: .int b' :: r, hget =>
        simp only [Nat.mul_zero, Nat.zero_add, List.getElem?_cons_succ, List.getElem?_cons_zero,
          Option.some.injEq, Obj.int.injEq] at hget
        subst hget
        cases x <;> simp only [headerPairs]
        have : b' < 0 ∨ b' > (len : Int) := by omega
        simp [this]
  | succ i ih =>
    intro n objs b hn hget hb
    cases n with
    | zero => omega
    | succ n =>
      match objs, hget with
      | [], hget => simp at hget
      | [_], hget => simp at hget
      | x :: y :: r, hget =>
        have e : 2 * (i + 1) + 1 = (2 * i + 1) + 1 + 1 := by omega
        rw [e] at hget
        simp only [List.getElem?_cons_succ] at hget
        have hr := ih n r b (by omega) hget hb
        cases x <;> cases y <;> simp only [headerPairs]
        split
        · rfl
        · rw [hr]; rfl

/-- `mkObjStm` fails as soon as the header loop does -/
theorem mkObjStm_error_of_header (ext : Reader.Ext) (kv : Dict) (data dec : List Nat) (n first : Int)
    (hN : dget kv kN = some (.int n)) (hF : dget kv kFirst = some (.int first))
    (hdec : decodeStream ext kv data = some dec)
    (hh : headerPairs dec.length n.toNat (coreParseAll (dec.take first.toNat)).1 = none) :
    mkObjStm ext kv data = .error .err := by
  unfold mkObjStm
  rw [hN, hF]
  cases dget kv Reader.kType with
  | none => rfl
  | some t =>
    cases t <;> try rfl
    simp only [hdec, hh]
    split
    · rfl
    · split <;> rfl

/-- **objstm_header_offset_outside_is_error** (what the code answers beyond the bound): if among
the first `/N` pairs of the header one offset is negative or greater than the length of the
decoded data, the object stream is refused as a whole — every member lookup through it is an
error (`C04Hs.objstm_header_error_every_time`), nothing is sliced. -/
theorem objstm_header_offset_outside_is_error (ext : Reader.Ext) (kv : Dict) (data dec : List Nat) (n first : Int)
    (i : Nat) (b : Int)
    (hN : dget kv kN = some (.int n)) (hF : dget kv kFirst = some (.int first))
    (hdec : decodeStream ext kv data = some dec) (hi : i < n.toNat)
    (hget : (coreParseAll (dec.take first.toNat)).1[2 * i + 1]? = some (.int b))
    (hb : b < 0 ∨ (dec.length : Int) < b) :
    mkObjStm ext kv data = .error .err :=
  mkObjStm_error_of_header ext kv data dec n first hN hF hdec
    (headerPairs_offset_outside dec.length i n.toNat _ b hi hget hb)

/-! ### bounded work -/

/-- what a successful header loop has read: exactly `n` pairs out of at least `2 n` objects,
every offset within `0 .. len` -/
theorem headerPairs_some (len : Nat) :
    ∀ (n : Nat) (objs : List Obj) (ps : List (Int × Nat)), headerPairs len n objs = some ps →
      ps.length = n ∧ 2 * n ≤ objs.length ∧ ∀ p ∈ ps, p.2 ≤ len := by
  intro n
  induction n with
  | zero =>
    intro objs ps h
    simp only [headerPairs, Option.some.injEq] at h
    subst h
    simp
  | succ n ih =>
    intro objs ps h
    match objs, h with
    | .int a :: .int b :: r, h =>
      simp only [headerPairs] at h
      split at h
      · cases h
      · rename_i hb
        cases hr : headerPairs len n r with
        | none => rw [hr] at h; cases h
        | some qs =>
          rw [hr] at h
          simp only [Option.map_some, Option.some.injEq] at h
          subst h
          obtain ⟨h1, h2, h3⟩ := ih r qs hr
          refine ⟨by simp [h1], by simp only [List.length_cons]; omega, ?_⟩
          intro p hp
          simp only [List.mem_cons] at hp
          rcases hp with rfl | hp
          · simp only; omega
          · exact h3 p hp

theorem go_length (inp : List Nat) : ∀ (n : Nat) (s : PState) (acc : List Obj),
    (coreParseAll.go inp n s acc).1.length ≤ acc.length + n := by
  intro n
  induction n with
  | zero => intro s acc; simp [coreParseAll.go]
  | succ n ih =>
    intro s acc
    simp only [coreParseAll.go]
    split
    · simp
    · rename_i o s' _
      have := ih s' (acc ++ [o])
      simp only [List.length_append, List.length_cons, List.length_nil] at this
      omega

/-- repeated `ParseObject` on `k` bytes yields at most `k + 2` objects (the loop bound of the
C06 model) -/
theorem coreParseAll_length (inp : List Nat) : (coreParseAll inp).1.length ≤ inp.length + 2 := by
  unfold coreParseAll
  have := go_length inp (inp.length + 2) (newParser inp) []
  simp only [List.length_nil, Nat.zero_add] at this
  split <;> rename_i h <;> rw [h] at this <;> exact this

/-- **objstm_offsets_bounded** (bounded work, every input): an object stream that opens holds
exactly `/N` header pairs, and that is at most `/First / 2 + 1` ≤ half the decoded data plus
one — whatever `/N` says, the table is never larger than what the header bytes can spell; the
header ends inside the data and every offset points inside the data or at its end. (The code's
reservation `min(N, len(header)/4 + 1)` is no part of any answer and is not modelled.) -/
theorem objstm_offsets_bounded (ext : Reader.Ext) (kv : Dict) (data : List Nat) (os : ObjStm)
    (h : mkObjStm ext kv data = .ok os) :
    (∃ n : Int, dget kv kN = some (.int n) ∧ os.offsets.length = n.toNat) ∧
      2 * os.offsets.length ≤ os.first + 2 ∧ os.first ≤ os.decoded.length ∧
      decodeStream ext kv data = some os.decoded ∧ ∀ p ∈ os.offsets, p.2 ≤ os.decoded.length := by
  unfold mkObjStm at h
  split at h
  · rename_i t n first hT hN hF
    split at h
    · cases h
    · cases hdec : decodeStream ext kv data with
      | none => rw [hdec] at h; cases h
      | some dec =>
        rw [hdec] at h
        simp only at h
        split at h
        · cases h
        · rename_i hfirst
          cases hh : headerPairs dec.length n.toNat (coreParseAll (dec.take first.toNat)).1 with
          | none => rw [hh] at h; cases h
          | some ps =>
            rw [hh] at h
            simp only [Except.ok.injEq] at h
            subst h
            obtain ⟨h1, h2, h3⟩ := headerPairs_some _ _ _ _ hh
            have hl := coreParseAll_length (dec.take first.toNat)
            simp only [List.length_take] at hl
            refine ⟨⟨n, hN, h1⟩, ?_, by simp only; omega, rfl, h3⟩
            simp only
            have : min first.toNat dec.length ≤ first.toNat := Nat.min_le_left _ _
            omega
  · cases h

/-- **objstm_n_beyond_header_is_error** (`/N 2147483648`, `/N 2^62`): an `/N` that asks for
more pairs than the header bytes can spell is refused — after reading what the header holds,
not after reserving `/N` entries -/
theorem objstm_n_beyond_header_is_error (ext : Reader.Ext) (kv : Dict) (data dec : List Nat) (n first : Int)
    (hN : dget kv kN = some (.int n)) (hF : dget kv kFirst = some (.int first))
    (hdec : decodeStream ext kv data = some dec) (hbig : first.toNat + 2 < 2 * n.toNat) :
    mkObjStm ext kv data = .error .err := by
  apply mkObjStm_error_of_header ext kv data dec n first hN hF hdec
  cases hh : headerPairs dec.length n.toNat (coreParseAll (dec.take first.toNat)).1 with
  | none => rfl
  | some ps =>
    obtain ⟨_, h2, _⟩ := headerPairs_some _ _ _ _ hh
    have hl := coreParseAll_length (dec.take first.toNat)
    simp only [List.length_take] at hl
    have : min first.toNat dec.length ≤ first.toNat := Nat.min_le_left _ _
    omega

theorem take_drop_infix {α : Type} (l : List α) (a k : Nat) :
    ∃ before after : List α, l = before ++ (l.drop a).take k ++ after :=
  ⟨l.take a, (l.drop a).drop k, by
    rw [List.append_assoc, List.take_append_drop k (l.drop a), List.take_append_drop a l]⟩

/-- **member_slice_inside** (bounded work, every input): the bytes `GetObjectByIndex` hands to
the parser are a contiguous part of the decoded data — never before its start, never beyond its
end, never an end before the start (a member whose successor's offset is smaller extends to the
end of the data) -/
theorem member_slice_inside (os : ObjStm) (i : Nat) (num : Int) (bytes : List Nat)
    (h : memberSlice os i = some (num, bytes)) :
    ∃ before after : List Nat, os.decoded = before ++ bytes ++ after := by
  unfold memberSlice at h
  split at h
  · cases h
  · rename_i num' rel hoff
    simp only at h
    split at h
    · cases h
    · simp only [Option.some.injEq, Prod.mk.injEq] at h
      obtain ⟨_, hb⟩ := h
      rw [← hb]
      exact take_drop_infix _ _ _

/-! ### at the edge -/

/-- an offset equal to the length of the decoded data passes the header check (the code
compares with `>`), one more is refused, and so is -1 -/
example : headerPairs 5 1 [.int 1, .int 5] = some [(1, 5)] ∧ headerPairs 5 1 [.int 1, .int 6] = none ∧
    headerPairs 5 1 [.int 1, .int (-1)] = none := by decide

/-- … but the member at `len(decoded)` is then refused by `GetObjectByIndex`
(`offset >= len(decoded)`), while the one at `len - 1` is its last byte -/
example : memberSlice ⟨0, [(1, 5)], [48, 32, 49, 32, 50]⟩ 0 = none ∧
    memberSlice ⟨0, [(1, 4)], [48, 32, 49, 32, 50]⟩ 0 = some (1, [50]) := by decide

/-- a successor that starts before the member: the member extends to the end of the data
(before 78b7a87: a slice with its end before its start) -/
example : memberSlice ⟨0, [(1, 2), (2, 0)], [48, 32, 49, 32, 50]⟩ 0 = some (1, [49, 32, 50]) := by decide

/-- `/N` = 2^62 over a header that spells one pair: refused by the loop (nothing is sized by `/N`) -/
example : headerPairs 5 4611686018427387904 [.int 1, .int 0] = none := by
  cases h : headerPairs 5 4611686018427387904 [.int 1, .int 0] with
  | none => rfl
  | some ps =>
    have := (headerPairs_some 5 _ _ ps h).2.1
    simp at this

end Tabula.C04OS
