import TabulaModel.Lemmas.PageSel
import TabulaModel.Lemmas.Builder
/-!
# C10 — Page selection and option chaining are algebraic; handles are released

Property theorems about `Model/PageSel.lean` (resolvePages and the page loops of
Text / Fragments / Document) and `Model/Builder.lean` (options, clone, the
configuration methods, and the handle store mirroring ensureReader / Close / the
deferred Close of every terminal operation).  Helper lemmas are in
`Lemmas/PageSel.lean` and `Lemmas/Builder.lean`.

The models follow the code *after* the three C10 fixes (AddPage keeps a preset
number; clone does not share a reader its parent owns; an inverted PageRange is
an error).  The `…_pinned_counterexample` theorems show, on the models of the
pinned code, the witnesses that made those fixes necessary.

Since the deepening round the store model has all fourteen terminal operations, the three
non-terminal ones, the format of the file and the `ensurePDFReader` path (fourth fix: a
PDF-only operation on a file of another format released nothing), so `derive_preserves_parent`,
`terminal_releases` and `close_idempotent` below quantify over all of them.  Further theorems:
`C10Life.lean` (every terminal operation, every format), `C10Hist.lean` (invariants over
histories), `C10E2E.lean` (the statement end to end over chains of calls), `C10Pipe.lean`
(options inside `Text`), `C10Meta.lean` (`Headings().PageIndex`, numbering of `Analyze`).

`specPages sel n` is the list of 0-based indices `k < n` with `k+1 ∈ sel`, in
document order: the "sorted, de-duplicated, 0-based" form of the selection,
defined without sorting.  Descriptor accounting (`fdCount`) is about the handle
store of the model; the real `/proc/self/fd` count is observed by the harness.
-/
namespace Tabula.C10
open Tabula.PageSel Tabula.Builder

/-! ## resolvePages -/

/-- `Pages()` with no argument / no call at all: no selection, i.e. every page -/
theorem resolve_none (n : Nat) : resolvePages [] n = .ok (List.range n) := rfl

/-- **resolve_spec**: for a non-empty selection, `resolvePages` returns the pages of the
set in document order iff every element is in `1..n`, and the range error otherwise. -/
theorem resolve_spec (sel : List Int) (n : Nat) (hne : sel ≠ []) :
    (InRange sel n → resolvePages sel n = .ok (specPages sel n)) ∧
    (¬ InRange sel n → resolvePages sel n = .error .range) := by
  have hemp : sel.isEmpty = false := by cases sel <;> simp_all
  constructor
  · intro h
    obtain ⟨l, hl, hnd, hmem⟩ := convLoop_ok n sel h []
    unfold resolvePages
    simp only [hemp, Bool.false_eq_true, if_false, hl]
    congr 1
    apply strictAsc_ext _ _ (isort_strictAsc l hnd) (specPages_strictAsc sel n)
    intro x
    rw [mem_isort, hmem, mem_specPages]
    constructor
    · rintro ⟨_, hx⟩
      have := h _ hx
      exact ⟨by omega, hx⟩
    · rintro ⟨_, hx⟩
      exact ⟨by simp, hx⟩
  · intro h
    unfold resolvePages
    simp only [hemp, Bool.false_eq_true, if_false, convLoop_error n sel h []]

example : InRange [3, 1, 3, 2] 5 ∧ ([3, 1, 3, 2] : List Int) ≠ [] ∧
    resolvePages [3, 1, 3, 2] 5 = .ok [0, 1, 2] := by
  refine ⟨?_, by simp, by decide⟩
  intro p hp
  simp at hp
  omega

example : ¬ InRange [2, 6] 5 := by
  intro h
  have := h 6 (by simp)
  omega

/-- the spec list is what "sorted, de-duplicated, 0-based" means: strictly ascending
(so sorted and without duplicates) and with exactly the members `p-1`, `p ∈ sel` -/
theorem spec_is_sorted_dedup (sel : List Int) (n : Nat) :
    StrictAsc (specPages sel n) ∧
    ∀ k : Nat, k ∈ specPages sel n ↔ k < n ∧ ((k : Int) + 1) ∈ sel :=
  ⟨specPages_strictAsc sel n, mem_specPages sel n⟩

/-- the result is a sorted permutation of the de-duplicated 0-based list the loop builds -/
theorem resolve_is_sort_of_dedup (sel : List Int) (n : Nat) (hne : sel ≠ []) (h : InRange sel n) :
    ∃ l, convLoop n [] sel = .ok l ∧ l.Nodup ∧ (specPages sel n).Perm l := by
  obtain ⟨l, hl, hnd, _⟩ := convLoop_ok n sel h []
  refine ⟨l, hl, hnd, ?_⟩
  have hr := (resolve_spec sel n hne).1 h
  have hemp : sel.isEmpty = false := by cases sel <;> simp_all
  unfold resolvePages at hr
  simp only [hemp, Bool.false_eq_true, if_false, hl, Except.ok.injEq] at hr
  rw [← hr]
  exact isort_perm l

/-- **resolve_set_invariant**: two spellings of the same set (any order, duplicates,
ranges expanded, split over several calls) give the same result -/
theorem resolve_set_invariant (s₁ s₂ : List Int) (n : Nat) (h : ∀ p, p ∈ s₁ ↔ p ∈ s₂) :
    resolvePages s₁ n = resolvePages s₂ n := by
  by_cases h₁ : s₁ = []
  · subst h₁
    have : s₂ = [] := by
      apply List.eq_nil_iff_forall_not_mem.mpr
      intro p hp
      have := (h p).mpr hp
      simp at this
    rw [this]
  · have h₂ : s₂ ≠ [] := by
      intro e
      subst e
      apply h₁
      apply List.eq_nil_iff_forall_not_mem.mpr
      intro p hp
      have := (h p).mp hp
      simp at this
    have hspec : specPages s₁ n = specPages s₂ n := by
      unfold specPages
      apply List.filter_congr
      intro k _
      exact decide_eq_decide.mpr (h _)
    by_cases hr : InRange s₁ n
    · have hr₂ : InRange s₂ n := fun p hp => hr p ((h p).mpr hp)
      rw [(resolve_spec s₁ n h₁).1 hr, (resolve_spec s₂ n h₂).1 hr₂, hspec]
    · have hr₂ : ¬ InRange s₂ n := fun c => hr (fun p hp => c p ((h p).mp hp))
      rw [(resolve_spec s₁ n h₁).2 hr, (resolve_spec s₂ n h₂).2 hr₂]

example : resolvePages [2, 3, 4, 2] 6 = resolvePages [4, 3, 3, 2] 6 :=
  resolve_set_invariant _ _ _ (by intro p; simp; omega)

/-- **resolve_ascending**: whatever is returned is strictly ascending and inside the document -/
theorem resolve_ascending (sel : List Int) (n : Nat) (l : List Nat)
    (h : resolvePages sel n = .ok l) : StrictAsc l ∧ ∀ k ∈ l, k < n := by
  by_cases hne : sel = []
  · subst hne
    rw [resolve_none] at h
    cases h
    exact ⟨List.pairwise_lt_range, fun k hk => List.mem_range.mp hk⟩
  · by_cases hr : InRange sel n
    · rw [(resolve_spec sel n hne).1 hr] at h
      cases h
      exact ⟨specPages_strictAsc sel n, fun k hk => ((mem_specPages sel n k).mp hk).1⟩
    · rw [(resolve_spec sel n hne).2 hr] at h
      cases h

example : resolvePages [5, 1] 5 = .ok [0, 4] := by decide

/-! ## per-page results -/

/-- **text_is_join**: `Text` on a valid selection is the texts of the selected pages, in
ascending page order, with the non-empty ones joined by "\n\n" -/
theorem text_is_join (pg : Nat → Except E Str) (f : Nat → Str) (sel : List Int) (n : Nat)
    (hne : sel ≠ []) (hr : InRange sel n) (hpg : ∀ k, k < n → pg k = .ok (f k)) :
    extractText pg sel n =
      .ok (sep.intercalate (((specPages sel n).map f).filter (· ≠ []))) := by
  unfold extractText
  rw [(resolve_spec sel n hne).1 hr]
  simp only [textOf]
  rw [collect_ok pg f _ (fun k hk => hpg k ((mem_specPages sel n k).mp hk).1)]
  simp only [foldl_textStep, textStep_nil_left, joinNE_eq_intercalate]

/-- without a selection: all pages -/
theorem text_no_selection (pg : Nat → Except E Str) (f : Nat → Str) (n : Nat)
    (hpg : ∀ k, k < n → pg k = .ok (f k)) :
    extractText pg [] n = .ok (sep.intercalate (((List.range n).map f).filter (· ≠ []))) := by
  unfold extractText
  rw [resolve_none]
  simp only [textOf]
  rw [collect_ok pg f _ (fun k hk => hpg k (List.mem_range.mp hk))]
  simp only [foldl_textStep, textStep_nil_left, joinNE_eq_intercalate]

/-- a page number outside the document is an error, for every terminal operation -/
theorem out_of_range_is_error {F : Type} (pt : Nat → Except E Str) (pf : Nat → Except E (List F))
    (sel : List Int) (n : Nat) (hne : sel ≠ []) (hr : ¬ InRange sel n) :
    extractText pt sel n = .error .range ∧ extractFragments pf sel n = .error .range ∧
    extractDocument sel n = .error .range := by
  unfold extractText extractFragments extractDocument
  rw [(resolve_spec sel n hne).2 hr]
  exact ⟨rfl, rfl, rfl⟩

example : extractText (fun k => .ok [65 + k]) [3, 1] 3 = .ok [65, 10, 10, 67] := by decide
example : extractText (fun k => .ok (if k = 1 then [] else [65 + k])) [3, 2, 1] 3
    = .ok [65, 10, 10, 67] := by decide

/-- **fragments_is_concat**: `Fragments` on a valid selection is the concatenation of the
per-page fragment lists in ascending page order -/
theorem fragments_is_concat {F : Type} (pg : Nat → Except E (List F)) (f : Nat → List F)
    (sel : List Int) (n : Nat) (hne : sel ≠ []) (hr : InRange sel n)
    (hpg : ∀ k, k < n → pg k = .ok (f k)) :
    extractFragments pg sel n = .ok ((specPages sel n).map f).flatten := by
  unfold extractFragments
  rw [(resolve_spec sel n hne).1 hr]
  simp only [fragmentsOf]
  rw [collect_ok pg f _ (fun k hk => hpg k ((mem_specPages sel n k).mp hk).1)]
  simp [foldl_append_flatten]

example : extractFragments (fun k => .ok [k, k]) [2, 1, 2] 3 = .ok [0, 0, 1, 1] := by decide

/-- a page that cannot be read fails the whole call (nothing partial is returned) -/
theorem unreadable_page_fails (pg : Nat → Except E Str) (sel : List Int) (n : Nat)
    (hne : sel ≠ []) (hr : InRange sel n)
    (hbad : ∃ k ∈ specPages sel n, ∃ e, pg k = .error e) :
    ∃ e, extractText pg sel n = .error e := by
  unfold extractText
  rw [(resolve_spec sel n hne).1 hr]
  obtain ⟨e, he⟩ := collect_error pg _ hbad
  exact ⟨e, by simp [textOf, he]⟩

/-! ## chained calls -/

theorem mem_rangeList (s t p : Int) : p ∈ rangeList s t ↔ s ≤ p ∧ p ≤ t := by
  unfold rangeList
  simp only [List.mem_map, List.mem_range]
  constructor
  · rintro ⟨i, hi, rfl⟩
    omega
  · rintro ⟨h1, h2⟩
    exact ⟨(p - s).toNat, by omega, by omega⟩

/-- **pages_compose**: chained `Pages` calls accumulate (`Pages a` then `Pages b` is
`Pages (a ++ b)`), `Pages()` is the identity on the options, `PageRange s t` with `s ≤ t`
is `Pages [s..t]`, and an inverted range makes the derived extractor an error value. -/
theorem pages_compose (e : Ext) (a b : List Int) (s t : Int) :
    ((e.derive (.pages a)).derive (.pages b)).opts = (e.derive (.pages (a ++ b))).opts ∧
    ((e.derive (.pages a)).derive (.pages b)).err = e.err ∧
    (e.derive (.pages [])).opts = e.opts ∧
    (s ≤ t → (e.derive (.pageRange s t)).opts = (e.derive (.pages (rangeList s t))).opts ∧
             (e.derive (.pageRange s t)).err = e.err) ∧
    (t < s → (e.derive (.pageRange s t)).err = true ∧ (e.derive (.pageRange s t)).opts = e.opts) := by
  refine ⟨?_, ?_, ?_, ?_, ?_⟩
  · simp [Ext.derive, applyCall, clone_opts, List.append_assoc]
  · simp [Ext.derive, applyCall, clone_err]
  · simp [Ext.derive, applyCall, clone_opts]
  · intro h
    have : ¬ (s > t) := by omega
    simp [Ext.derive, applyCall, this, clone_opts, clone_err]
  · intro h
    have : s > t := by omega
    simp [Ext.derive, applyCall, this, clone_opts]

/-- the order of chained calls does not matter for what is extracted -/
theorem pages_order_irrelevant (base a b : List Int) (n : Nat) :
    resolvePages (base ++ a ++ b) n = resolvePages (base ++ b ++ a) n :=
  resolve_set_invariant _ _ _ (by intro p; simp only [List.mem_append]; constructor <;>
    (rintro ((h | h) | h) <;> simp [h]))

example : resolvePages (rangeList 2 4 ++ [1, 3]) 5 = .ok [0, 1, 2, 3] := by decide

/-- the pinned `PageRange(5,3)` appends nothing, and the empty list means every page -/
theorem pageRange_inverted_pinned_counterexample :
    (applyCallOld (.pageRange 5 3) ({} : Ext).cloneOld).err = false ∧
    resolvePages (applyCallOld (.pageRange 5 3) ({} : Ext).cloneOld).opts.pages 5
      = .ok [0, 1, 2, 3, 4] := by decide

/-! ## page numbers -/

/-- **page_number_true**: page `i` of the document built for the resolved list `idx` carries
number `idx[i] + 1` and the content of source page `idx[i]`; chunk metadata inherits it. -/
theorem page_number_true (idx : List Nat) (hne : idx ≠ []) :
    documentOf idx = .ok (idx.map fun k => (⟨k + 1, k⟩ : MPage)) ∧
    ∀ d : List MPage, documentOf idx = .ok d →
      (∀ i : Nat, d[i]? = (idx[i]?).map fun k => (⟨k + 1, k⟩ : MPage)) ∧
      chunkPages d = idx.map fun k => (k, k + 1, k + 1) := by
  have hemp : idx.isEmpty = false := by cases idx <;> simp_all
  have hdoc : documentOf idx = .ok (idx.map fun k => (⟨k + 1, k⟩ : MPage)) := by
    unfold documentOf
    simp only [hemp, Bool.false_eq_true, if_false, foldl_addPage, List.nil_append]
  refine ⟨hdoc, ?_⟩
  intro d hd
  rw [hdoc] at hd
  cases hd
  refine ⟨fun i => by simp [List.getElem?_map], ?_⟩
  simp [chunkPages, List.map_map, Function.comp_def]

/-- end to end: `Pages(S).Document()` numbers its pages with the selected pages, ascending -/
theorem document_numbers (sel : List Int) (n : Nat) (hne : sel ≠ []) (hr : InRange sel n)
    (hsome : specPages sel n ≠ []) :
    extractDocument sel n = .ok ((specPages sel n).map fun k => (⟨k + 1, k⟩ : MPage)) := by
  unfold extractDocument
  rw [(resolve_spec sel n hne).1 hr]
  exact (page_number_true _ hsome).1

example : extractDocument [3] 4 = .ok [⟨3, 2⟩] := by decide

/-- the pinned `AddPage` renumbers: `Pages(3).Document()` reports page 1 -/
theorem addPage_pinned_counterexample : documentOfOld [2] = .ok [⟨1, 2⟩] := by decide

/-! ## builder: deriving never changes the parent -/

/-- configuration methods only read their receiver: the derived value has the parent's
options plus the one change, and the parent value is not part of the result -/
theorem derive_reads_only (s : Store) (i : Nat) (c : BCall) (e : Ext) (he : s.exts[i]? = some e) :
    (deriveOp s i c).1.exts = s.exts ++ [e.derive c] ∧ (deriveOp s i c).1.readers = s.readers := by
  simp [deriveOp, he]

/-- **derive_preserves_parent**: in any reachable store (ownership invariant), for every
sequence of operations in which extractor `i` is used only as the receiver of configuration
methods — while everything derived from it, and every other extractor, may be configured
further, counted, read, extracted and closed in any order — the record of `i` (options,
error, life-cycle flags) is unchanged and every later operation on `i` returns exactly what
it would have returned before the sequence. -/
theorem derive_preserves_parent (w : World) (s : Store) (hs : StoreInv s) (i : Nat)
    (hi : i < s.exts.length) (ops : List Op)
    (hops : ∀ op ∈ ops, op.mutates = true → op.target ≠ i) :
    (exec w s ops).exts[i]? = s.exts[i]? ∧
    ∀ op : Op, op.target = i → (step w (exec w s ops) op).2 = (step w s op).2 := by
  have hv := view_exec w i ops hs hi hops
  constructor
  · unfold view at hv
    cases h1 : (exec w s ops).exts[i]? with
    | none =>
      cases h2 : s.exts[i]? with
      | none => rfl
      | some e => rw [h1, h2] at hv; cases hv
    | some e1 =>
      cases h2 : s.exts[i]? with
      | none => rw [h1, h2] at hv; cases hv
      | some e2 =>
        rw [h1, h2] at hv
        simp only [Option.map_some, Option.some.injEq, Prod.mk.injEq] at hv
        rw [hv.1]
  · intro op hop
    rw [step_res, step_res, hop, hv]

/-- every state reachable from `Open(f)` or `FromReader(r)` satisfies the invariant, so the
theorem applies after any history -/
theorem reachable_inv (w : World) (ops : List Op) :
    StoreInv (exec w openBase ops) ∧ StoreInv (exec w readerBase ops) :=
  ⟨inv_exec w ops inv_openBase, inv_exec w ops inv_readerBase⟩

/-- non-vacuity: a history that opens the base, derives from it and uses the derived one -/
example : let w : World := ⟨true, some 3⟩
    let s := exec w openBase [.nonTerm 0 .pageCount, .derive 0 (.pages [1])]
    StoreInv s ∧ 0 < s.exts.length ∧
      (∀ op ∈ [Op.term 1 .text, Op.close 1, Op.derive 0 (.pages [2]), Op.term 2 .chunks],
        op.mutates = true → op.target ≠ 0) ∧
      (step w (exec w s [.term 1 .text, .close 1, .derive 0 (.pages [2]), .term 2 .chunks])
        (.term 0 .text)).2 = .pages [0, 1, 2] := by
  refine ⟨(reachable_inv _ _).1, by decide, by decide, by decide⟩

/-- the pinned `clone` shares the parent's reader together with its ownership flag:
`base.PageCount(); base.Pages(1).Text(); base.Text()` fails on the closed file, while the
repaired model returns all pages -/
theorem derive_preserves_parent_pinned_counterexample :
    let w : World := ⟨true, some 3⟩
    let ops := [Op.nonTerm 0 .pageCount, .derive 0 (.pages [1]), .term 1 .text, .term 0 .text]
    ((runOld w openBase ops).2.map (·.1)) = [.count 3, .none, .pages [0], .err] ∧
    ((run w openBase ops).2.map (·.1)) = [.count 3, .none, .pages [0], .pages [0, 1, 2]] := by
  decide

/-! ## handles -/

/-- **terminal_releases**: after any of the fourteen terminal operations on extractor `i`, on a
file of any format — successful or failed (builder error, file that cannot be opened,
unreadable page tree, page out of range, file closed under it, operation not supported for
the format) — `i` owns no reader, and the number of open descriptors has dropped
by exactly what `i` held before: nothing the operation opened stays open. -/
theorem terminal_releases (w : World) (k : Term) (s : Store) (hs : StoreInv s) (i : Nat)
    (e : Ext) (he : s.exts[i]? = some e) :
    ∃ e', (terminal w k s i).1.exts[i]? = some e' ∧ e'.owns = false ∧
      (terminal w k s i).1.fdCount + (if e.owns then 1 else 0) = s.fdCount := by
  rw [terminal_fst w k s i e he]
  split
  · rename_i hc
    have herr : e.err = true := by
      simp only [Bool.and_eq_true] at hc; exact hc.2
    have := hs.errNoOwn i e he herr
    exact ⟨e, he, this, by simp [this]⟩
  · split
    · exact mismatch_releases w hs he
    · exact termStore_releases w hs he

/-- a terminal operation on an extractor that held nothing leaves the descriptor count
where it was, whatever happened inside -/
theorem terminal_releases_fresh (w : World) (k : Term) (s : Store) (hs : StoreInv s) (i : Nat)
    (e : Ext) (he : s.exts[i]? = some e) (hown : e.owns = false) :
    (terminal w k s i).1.fdCount = s.fdCount := by
  obtain ⟨_, _, _, h⟩ := terminal_releases w k s hs i e he
  simpa [hown] using h

/-- `Open(f).…Text()` style one-shot use: zero descriptors before, zero after, success or not -/
example : ∀ w ∈ [(⟨true, some 3⟩ : World), ⟨false, none⟩, ⟨true, none⟩],
    ∀ k ∈ [Term.text, .fragments, .document, .chunks],
    ∀ c ∈ [BCall.pages [2], .pages [9], .pageRange 3 2, .byColumn],
      (exec w openBase [.derive 0 c, .term 1 k]).fdCount = 0 := by decide

/-- **close_idempotent**: a second `Close` returns the same (nil) result and changes nothing -/
theorem close_idempotent (s : Store) (i : Nat) :
    closeOp (closeOp s i).1 i = ((closeOp s i).1, (closeOp s i).2) ∧
    ((closeOp s i).2 = .closed ∨ s.exts[i]? = none) := by
  unfold closeOp
  cases he : s.exts[i]? with
  | none => simp [he]
  | some e =>
    have hi := lt_of_getElem? he
    refine ⟨?_, Or.inl rfl⟩
    unfold closeExt
    cases hown : e.owns with
    | false => simp [he, hown]
    | true =>
      cases hr : e.reader with
      | none => simp [he, hown, hr]
      | some r => simp [hown, hr, List.getElem?_set_self hi]

/-- `Close` releases what the extractor held (and a closed extractor can be used again:
`ensureReader` re-opens the file) -/
theorem close_releases (s : Store) (hs : StoreInv s) (i : Nat) (e : Ext)
    (he : s.exts[i]? = some e) :
    ∃ e', (closeOp s i).1.exts[i]? = some e' ∧ e'.owns = false ∧
      (closeOp s i).1.fdCount + (if e.owns then 1 else 0) = s.fdCount := by
  unfold closeOp
  simp only [he]
  exact closeExt_releases hs he

example : let w : World := ⟨true, some 2⟩
    (run w openBase [.nonTerm 0 .pageCount, .close 0, .close 0, .term 0 .text]).2
      = [(.count 2, 1), (.closed, 0), (.closed, 0), (.pages [0, 1], 0)] := by decide

end Tabula.C10
