import TabulaModel.Lemmas.FiltersSound
import TabulaModel.Lemmas.FiltersTotal
import TabulaModel.Lemmas.StreamDict
/-!
# C05, further all-input laws of the decoders: what comes out, and how much

The round trips (`Props/C05.lean`, `C05E`), the converse (`C05S`) and the error iffs (`C05Err`) say
*which* bytes a decoder returns. This file adds laws that hold for EVERY input string - conforming or
not, bytes or not - about the *shape* of whatever a decoder returns, and a few more insensitivity laws
of the ASCII decoders:

* `hex_output`, `a85_output`, `png_output`, `tiff_output`: the result of each decoder is a string of
  bytes (every element < 256, even when the model is fed numbers ≥ 256), and its length is fixed by
  the input: ASCIIHex exactly ⌈(significant characters)/2⌉ and never more than ⌈|data|/2⌉; ASCII85 at
  most 4·|data| (tight: `z`); the PNG predictor exactly |data| minus one tag byte per row; TIFF
  predictor 2 exactly |data|. No decoder invents or drops bytes beyond that.
* `predictor_output`, `flate_output`, `stage_output_bytes`, `chain_output_bytes`,
  `decode_output_bytes`: carried through `applyPredictor`, `FlateDecode`, `decodeWithFilter`, the
  filter-array loop and `Decode()` (dictionary level): if zlib and x/image/ccitt return bytes, then
  `Decode()` returns bytes on every dictionary and every data.
* `hex_case_insensitive`: folding `a`..`f` to `A`..`F` anywhere in ANY data changes neither the bytes
  nor the error; `hex_ws_erasure`: removing all white space at once changes nothing either.
* `a85_z_is_five_bangs`: at every group boundary `z` and `!!!!!` are interchangeable, whatever follows.
* `png_predictor_number_irrelevant`: `Predictor` 10..15 all select the same decoder (the per-row tag
  byte decides), for every data and geometry.
-/
namespace Tabula.C05More
open Tabula.Filters

abbrev Bytes (x : Str) : Prop := ∀ b ∈ x, b < 256

/-! ## helpers -/

theorem bytes_nil : Bytes [] := by intro b hb; cases hb

theorem bytes_cons {b : Nat} {x : Str} (hb : b < 256) (hx : Bytes x) : Bytes (b :: x) := by
  intro c hc
  rcases List.mem_cons.mp hc with rfl | h
  · exact hb
  · exact hx c h

theorem bytes_append {x y : Str} (hx : Bytes x) (hy : Bytes y) : Bytes (x ++ y) := by
  intro c hc
  rcases List.mem_append.mp hc with h | h
  · exact hx c h
  · exact hy c h

theorem bytes_reverse {x : Str} (hx : Bytes x) : Bytes x.reverse :=
  fun c hc => hx c (List.mem_reverse.mp hc)

theorem bytes_take {x : Str} (n : Nat) (hx : Bytes x) : Bytes (x.take n) :=
  fun c hc => hx c (List.mem_of_mem_take hc)

theorem flatten_reverse_length : ∀ (L : List Str), L.reverse.flatten.length = L.flatten.length
  | [] => rfl
  | r :: L => by
    have ih := flatten_reverse_length L
    simp only [List.reverse_cons, List.flatten_append, List.length_append, List.flatten_cons,
      List.flatten_nil, List.append_nil, ih]
    omega

theorem flatten_reverse_bytes {L : List Str} (h : ∀ r ∈ L, Bytes r) : Bytes L.reverse.flatten := by
  intro b hb
  obtain ⟨r, hr, hbr⟩ := List.mem_flatten.mp hb
  exact h r (List.mem_reverse.mp hr) b hbr

theorem takeWhile_len (p : Nat → Bool) : ∀ l : Str, (l.takeWhile p).length ≤ l.length
  | [] => by simp
  | a :: l => by
    simp only [List.takeWhile_cons]
    split
    · simp only [List.length_cons]; exact Nat.succ_le_succ (takeWhile_len p l)
    · simp

/-! ## ASCIIHex: the output is bytes, its length is fixed by the significant characters -/

theorem hexVals_out : ∀ (cs : Str) (vs : List Nat), hexVals cs = some vs →
    vs.length = cs.length ∧ ∀ v ∈ vs, v < 16
  | [], vs, h => by
    simp only [hexVals, Option.some.injEq] at h
    subst h
    exact ⟨rfl, by intro v hv; cases hv⟩
  | c :: cs, vs, h => by
    rw [hexVals] at h
    cases hc : hexVal c with
    | none => simp [hc] at h
    | some v =>
      cases hr : hexVals cs with
      | none => simp [hc, hr] at h
      | some ws =>
        simp [hc, hr] at h
        subst h
        obtain ⟨h1, h2⟩ := hexVals_out cs ws hr
        refine ⟨by simp [h1], ?_⟩
        intro u hu
        rcases List.mem_cons.mp hu with rfl | hu
        · exact (hexVal_some_props c _ hc).2.2
        · exact h2 u hu

theorem pairUp_out : ∀ (vs : List Nat), (∀ v ∈ vs, v < 16) →
    Bytes (pairUp vs) ∧ (pairUp vs).length = (vs.length + 1) / 2
  | [], _ => ⟨bytes_nil, rfl⟩
  | [h], hv => by
    have := hv h (by simp)
    refine ⟨?_, by simp [pairUp]⟩
    intro b hb
    simp only [pairUp, List.mem_singleton] at hb
    omega
  | h :: l :: r, hv => by
    have h1 := hv h (by simp)
    have h2 := hv l (by simp)
    obtain ⟨ih1, ih2⟩ := pairUp_out r (fun v hv' => hv v (by simp [hv']))
    refine ⟨?_, ?_⟩
    · intro b hb
      simp only [pairUp, List.mem_cons] at hb
      rcases hb with rfl | hb
      · omega
      · exact ih1 b hb
    · simp only [pairUp, List.length_cons, ih2]; omega

/-- **hex_output**: whatever `ASCIIHexDecode` returns - on ANY data - is a string of bytes, holds
exactly one byte per pair of significant characters (those before the first `>` that are not white
space; a final odd digit counts as a pair), and is therefore never longer than half the data, rounded
up. -/
theorem hex_output (s y : Str) (h : hexDecode s = some y) :
    Bytes y ∧ y.length = ((hexBodyOf s).length + 1) / 2 ∧ 2 * y.length ≤ s.length + 1 := by
  rw [hexDecode_eq_spec, hexSpec] at h
  cases hv : hexVals (hexBodyOf s) with
  | none => simp [hv] at h
  | some vs =>
    simp [hv] at h
    subst h
    obtain ⟨h1, h2⟩ := hexVals_out _ vs hv
    obtain ⟨h3, h4⟩ := pairUp_out vs h2
    have hb : (hexBodyOf s).length ≤ s.length := by
      unfold hexBodyOf
      exact Nat.le_trans (List.length_filter_le _ _) (takeWhile_len _ _)
    refine ⟨h3, by rw [h4, h1], ?_⟩
    rw [h4, h1]; omega

/-- not vacuous, and the bound is attained: three digits give two bytes -/
example : hexDecode [52, 49, 32, 52] = some [65, 64] ∧ 2 * [65, 64].length = [52, 49, 52].length + 1 := by decide
/-- the model is fed a number that is no byte: an error, not a non-byte -/
example : hexDecode [52, 300] = none := by decide

/-! ## ASCII85: bytes, at most four per character -/

theorem bytes4_bytes (v : Nat) : Bytes (bytes4 v) := by
  intro b hb
  simp only [bytes4, List.mem_cons, List.not_mem_nil, or_false] at hb
  rcases hb with rfl | rfl | rfl | rfl <;> exact Nat.mod_lt _ (by decide)

theorem a85Flush_out (ds g : List Nat) (h : a85Flush ds = some g) :
    Bytes g ∧ g.length ≤ ds.length - 1 := by
  by_cases hds : ds = []
  · simp [a85Flush, hds] at h
    subst h
    exact ⟨bytes_nil, Nat.zero_le _⟩
  · simp only [a85Flush, if_neg hds] at h
    split at h
    · cases h
    · obtain rfl := Option.some.inj h
      refine ⟨bytes_take _ (bytes4_bytes _), ?_⟩
      rw [List.length_take]
      exact Nat.min_le_left _ _

theorem a85Finish_out (ds acc y : Str) (ha : Bytes acc) (h : a85Finish ds acc = some y) :
    Bytes y ∧ y.length ≤ acc.length + ds.length := by
  unfold a85Finish at h
  cases hf : a85Flush ds with
  | none => simp [hf] at h
  | some g =>
    simp only [hf, Option.some.injEq] at h
    subst h
    obtain ⟨g1, g2⟩ := a85Flush_out ds g hf
    refine ⟨bytes_append (bytes_reverse ha) g1, ?_⟩
    simp only [List.length_append, List.length_reverse]
    omega

theorem a85Go_out (y : Str) : ∀ (s ds acc : Str), Bytes acc → a85Go s ds acc = some y →
    Bytes y ∧ y.length ≤ acc.length + 4 * s.length + ds.length := by
  intro s
  induction s with
  | nil =>
    intro ds acc ha h
    rw [a85Go_end] at h
    obtain ⟨h1, h2⟩ := a85Finish_out ds acc y ha h
    exact ⟨h1, by simp only [List.length_nil]; omega⟩
  | cons c rest ih =>
    intro ds acc ha h
    rw [a85Go] at h
    by_cases hws : isWs c = true
    · rw [if_pos hws] at h
      obtain ⟨h1, h2⟩ := ih ds acc ha h
      exact ⟨h1, by simp only [List.length_cons]; omega⟩
    · rw [if_neg hws] at h
      by_cases heod : c = 126 ∧ rest.head? = some 62
      · rw [if_pos heod] at h
        obtain ⟨h1, h2⟩ := a85Finish_out ds acc y ha h
        exact ⟨h1, by simp only [List.length_cons]; omega⟩
      · rw [if_neg heod] at h
        by_cases hz : ds = [] ∧ c = 122
        · rw [if_pos hz] at h
          have hb : Bytes (0 :: 0 :: 0 :: 0 :: acc) :=
            bytes_cons (by decide) (bytes_cons (by decide) (bytes_cons (by decide) (bytes_cons (by decide) ha)))
          obtain ⟨h1, h2⟩ := ih [] _ hb h
          refine ⟨h1, ?_⟩
          simp only [List.length_cons, List.length_nil] at h2 ⊢
          omega
        · rw [if_neg hz] at h
          by_cases hbad : c < 33 ∨ c > 117
          · rw [if_pos hbad] at h; cases h
          · rw [if_neg hbad] at h
            dsimp only at h
            by_cases h5 : (ds ++ [c - 33]).length = 5
            · rw [if_pos h5] at h
              cases hf : a85Flush (ds ++ [c - 33]) with
              | none => simp [hf] at h
              | some g =>
                simp only [hf] at h
                obtain ⟨g1, g2⟩ := a85Flush_out _ g hf
                obtain ⟨h1, h2⟩ := ih [] _ (bytes_append (bytes_reverse g1) ha) h
                refine ⟨h1, ?_⟩
                simp only [List.length_append, List.length_reverse, List.length_cons,
                  List.length_nil] at h2 g2 h5 ⊢
                omega
            · rw [if_neg h5] at h
              obtain ⟨h1, h2⟩ := ih _ acc ha h
              refine ⟨h1, ?_⟩
              simp only [List.length_append, List.length_cons, List.length_nil] at h2 ⊢
              omega

/-- **a85_output**: whatever `ASCII85Decode` returns - on ANY data - is a string of bytes and has at
most four bytes per character of the data (attained by `z`). -/
theorem a85_output (s y : Str) (h : a85Decode s = some y) : Bytes y ∧ y.length ≤ 4 * s.length := by
  obtain ⟨h1, h2⟩ := a85Go_out y s [] [] bytes_nil h
  refine ⟨h1, ?_⟩
  simp only [List.length_nil] at h2
  omega

/-- not vacuous, and the bound is attained -/
example : a85Decode [122] = some [0, 0, 0, 0] := by decide
example : a85Decode [56, 55, 99, 85, 82, 126, 62] = some [72, 101, 108, 108] := by decide

/-! ## predictors: bytes, and no byte invented or lost -/

theorem decRow_out (P : Str → Option Nat) : ∀ (fs done row : Str), Bytes done →
    decRow P fs done = some row → Bytes row ∧ row.length = done.length + fs.length
  | [], done, row, hd, h => by
    simp only [decRow, Option.some.injEq] at h
    subst h
    exact ⟨hd, by simp⟩
  | f :: fs, done, row, hd, h => by
    rw [decRow] at h
    cases hp : P done with
    | none => simp [hp] at h
    | some p =>
      simp only [hp] at h
      obtain ⟨h1, h2⟩ := decRow_out P fs (done ++ [(f + p) % 256]) row
        (bytes_append hd (bytes_cons (Nat.mod_lt _ (by decide)) bytes_nil)) h
      refine ⟨h1, ?_⟩
      simp only [List.length_append, List.length_cons, List.length_nil] at h2 ⊢
      omega

theorem pngRows_out (rowLen bpp : Nat) : ∀ (n : Nat) (data : Str) (prev : Option Str) (acc : List Str)
    (y : Str), (∀ r ∈ acc, Bytes r) → pngRows n rowLen bpp data prev acc = some y →
    Bytes y ∧ (data.length = n * (rowLen + 1) → y.length + n = acc.flatten.length + data.length)
  | 0, data, prev, acc, y, ha, h => by
    simp only [pngRows, Option.some.injEq] at h
    subst h
    refine ⟨flatten_reverse_bytes ha, ?_⟩
    intro hl
    rw [flatten_reverse_length]
    omega
  | n + 1, data, prev, acc, y, ha, h => by
    cases data with
    | nil => simp [pngRows] at h
    | cons tag body =>
      simp only [pngRows] at h
      cases hr : decodePNGRow (body.take rowLen) tag bpp prev with
      | none => simp [hr] at h
      | some row =>
        simp only [hr] at h
        obtain ⟨r1, r2⟩ := decRow_out _ _ [] row bytes_nil hr
        have ha' : ∀ r ∈ row :: acc, Bytes r := by
          intro r hr'
          rcases List.mem_cons.mp hr' with rfl | hr'
          · exact r1
          · exact ha r hr'
        obtain ⟨h1, h2⟩ := pngRows_out rowLen bpp n (body.drop rowLen) (some row) (row :: acc) y ha' h
        refine ⟨h1, ?_⟩
        intro hl
        simp only [List.length_cons, Nat.add_one_mul] at hl
        have hd : (body.drop rowLen).length = n * (rowLen + 1) := by
          simp only [List.length_drop]; omega
        have h3 := h2 hd
        simp only [List.length_take, List.length_nil] at r2
        simp only [List.flatten_cons, List.length_append, List.length_drop, List.length_cons] at h3 ⊢
        omega

/-- **png_output**: whatever `applyPNGPredictor` returns - on ANY data and parameters - is a string
of bytes, and it is exactly the data minus one filter-type byte per row: nothing else is dropped,
nothing is added. -/
theorem png_output (data : Str) (p : Params) (y : Str) (h : applyPNGPredictor data p = some y) :
    Bytes y ∧ ∃ rb, predictorRowBytes (p.columns.getD 1) (p.colors.getD 1) = some rb ∧
      y.length + data.length / (rb + 1) = data.length := by
  unfold applyPNGPredictor at h
  simp only at h
  by_cases hbpc : p.bpc.getD 8 ≠ 8
  · simp [hbpc] at h
  · simp only [hbpc, if_false] at h
    cases hrb : predictorRowBytes (p.columns.getD 1) (p.colors.getD 1) with
    | none => simp [hrb] at h
    | some rb =>
      simp only [hrb] at h
      by_cases hmod : data.length % (rb + 1) ≠ 0
      · simp [hmod] at h
      · simp only [hmod, if_false] at h
        have hmod' : data.length % (rb + 1) = 0 := by omega
        have hlen : data.length = data.length / (rb + 1) * (rb + 1) := by
          have := Nat.div_add_mod data.length (rb + 1)
          rw [hmod', Nat.add_zero, Nat.mul_comm] at this
          exact this.symm
        obtain ⟨h1, h2⟩ := pngRows_out rb _ _ data none [] y (by intro r hr; cases hr) h
        refine ⟨h1, rb, rfl, ?_⟩
        have h3 := h2 hlen
        simp only [List.flatten_nil, List.length_nil] at h3
        omega

example : applyPNGPredictor [1, 10, 5, 2, 1, 1] { columns := some 2 } = some [10, 15, 11, 16] := by decide

theorem tiffRows_out (rowSize colors : Nat) : ∀ (n : Nat) (data : Str) (acc : List Str) (y : Str),
    (∀ r ∈ acc, Bytes r) → tiffRows n rowSize colors data acc = some y →
    Bytes y ∧ (data.length = n * rowSize → y.length = acc.flatten.length + data.length)
  | 0, data, acc, y, ha, h => by
    simp only [tiffRows, Option.some.injEq] at h
    subst h
    refine ⟨flatten_reverse_bytes ha, ?_⟩
    intro hl
    rw [flatten_reverse_length]
    omega
  | n + 1, data, acc, y, ha, h => by
    simp only [tiffRows] at h
    cases hr : decRow (tiffPredicted colors) (data.take rowSize) [] with
    | none => simp [hr] at h
    | some row =>
      simp only [hr] at h
      obtain ⟨r1, r2⟩ := decRow_out _ _ [] row bytes_nil hr
      have ha' : ∀ r ∈ row :: acc, Bytes r := by
        intro r hr'
        rcases List.mem_cons.mp hr' with rfl | hr'
        · exact r1
        · exact ha r hr'
      obtain ⟨h1, h2⟩ := tiffRows_out rowSize colors n (data.drop rowSize) (row :: acc) y ha' h
      refine ⟨h1, ?_⟩
      intro hl
      simp only [Nat.add_one_mul] at hl
      have hd : (data.drop rowSize).length = n * rowSize := by
        simp only [List.length_drop]; omega
      have h3 := h2 hd
      simp only [List.length_take, List.length_nil] at r2
      simp only [List.flatten_cons, List.length_append, List.length_drop] at h3 ⊢
      omega

/-- **tiff_output**: whatever `applyTIFFPredictor2` returns - on ANY data and parameters - is a string
of bytes of exactly the length of the data. -/
theorem tiff_output (data : Str) (p : Params) (y : Str) (h : applyTIFFPredictor2 data p = some y) :
    Bytes y ∧ y.length = data.length := by
  unfold applyTIFFPredictor2 at h
  simp only at h
  by_cases hbpc : p.bpc.getD 8 ≠ 8
  · simp [hbpc] at h
  · simp only [hbpc, if_false] at h
    cases hrb : predictorRowBytes (p.columns.getD 1) (p.colors.getD 1) with
    | none => simp [hrb] at h
    | some rb =>
      simp only [hrb] at h
      by_cases hmod : data.length % rb ≠ 0
      · simp [hmod] at h
      · simp only [hmod, if_false] at h
        have hmod' : data.length % rb = 0 := by omega
        have hlen : data.length = data.length / rb * rb := by
          have := Nat.div_add_mod data.length rb
          rw [hmod', Nat.add_zero, Nat.mul_comm] at this
          exact this.symm
        obtain ⟨h1, h2⟩ := tiffRows_out rb _ _ data [] y (by intro r hr; cases hr) h
        refine ⟨h1, ?_⟩
        have h3 := h2 hlen
        simp only [List.flatten_nil, List.length_nil] at h3
        omega

example : applyTIFFPredictor2 [10, 5, 250, 1] { columns := some 2 } = some [10, 15, 250, 251] := by decide

/-- **predictor_output**: `applyPredictor` on bytes returns bytes, never more than it was given. -/
theorem predictor_output (data : Str) (pr : Int) (p : Params) (y : Str) (hd : Bytes data)
    (h : applyPredictor data pr p = some y) : Bytes y ∧ y.length ≤ data.length := by
  unfold applyPredictor at h
  split at h
  · obtain rfl := Option.some.inj h
    exact ⟨hd, Nat.le_refl _⟩
  · split at h
    · obtain ⟨h1, h2⟩ := tiff_output data p y h
      exact ⟨h1, Nat.le_of_eq h2⟩
    · split at h
      · obtain ⟨h1, rb, _, h2⟩ := png_output data p y h
        exact ⟨h1, Nat.le.intro h2⟩
      · cases h

/-- **flate_output**: if zlib's inflate returns bytes, `FlateDecode` (with any parameters) returns
bytes, at most as many as inflate produced. -/
theorem flate_output (inflate : Str → Option Str) (hinf : ∀ z dec, inflate z = some dec → Bytes dec)
    (data : Str) (params : Option Params) (y : Str) (h : flateDecode inflate data params = some y) :
    Bytes y ∧ ∃ dec, inflate data = some dec ∧ y.length ≤ dec.length := by
  unfold flateDecode at h
  cases hi : inflate data with
  | none => simp [hi] at h
  | some dec =>
    simp only [hi] at h
    have hd := hinf data dec hi
    refine ⟨?_, dec, rfl, ?_⟩ <;>
    · unfold flatePost at h
      split at h
      · obtain rfl := Option.some.inj h
        first | exact hd | exact Nat.le_refl _
      · split at h
        · obtain rfl := Option.some.inj h
          first | exact hd | exact Nat.le_refl _
        · split at h
          · first | exact (predictor_output _ _ _ _ hd h).1 | exact (predictor_output _ _ _ _ hd h).2
          · obtain rfl := Option.some.inj h
            first | exact hd | exact Nat.le_refl _

/-- what the two external decoders are assumed to return: bytes -/
def ExtBytes (ext : Ext) : Prop :=
  (∀ z dec, ext.inflate z = some dec → Bytes dec) ∧ (∀ a z out, ext.ccitt a z = some out → Bytes out)

theorem ccitt_output (rd : CcittArgs → Str → Option Str) (hrd : ∀ a z out, rd a z = some out → Bytes out)
    (data : Str) (params : Option Params) (y : Str) (h : ccittFaxDecode rd data params = some y) :
    Bytes y := by
  unfold ccittFaxDecode at h
  simp only at h
  split at h
  · cases h
  · split at h
    · cases h
    · unfold ccittLimit at h
      split at h
      · cases h
      · rename_i out hout
        simp only at h
        split at h
        · cases h
        · obtain rfl := Option.some.inj h
          exact bytes_take _ (hrd _ _ _ hout)

/-- **stage_output_bytes**: one `decodeWithFilter` step - any filter name, any parameters - maps bytes
to bytes (given that zlib and x/image/ccitt do). -/
theorem stage_output_bytes (ext : Ext) (hext : ExtBytes ext) (data name : Str) (params : Option Params)
    (y : Str) (hd : Bytes data) (h : decodeWithFilter ext data name params = some y) : Bytes y := by
  unfold decodeWithFilter at h
  split at h
  · exact (flate_output ext.inflate hext.1 data params y h).1
  split at h
  · exact (hex_output data y h).1
  split at h
  · exact (a85_output data y h).1
  split at h
  · cases h
  split at h
  · cases h
  split at h
  · exact ccitt_output ext.ccitt hext.2 data params y h
  split at h
  · cases h
  split at h
  · obtain rfl := Option.some.inj h; exact hd
  split at h
  · obtain rfl := Option.some.inj h; exact hd
  split at h
  · cases h
  · cases h

/-- **chain_output_bytes**: the filter-array loop of `Decode()` maps bytes to bytes. -/
theorem chain_output_bytes (ext : Ext) (hext : ExtBytes ext) (dp : DParms) :
    ∀ (fs : List FObj) (i : Nat) (data y : Str), Bytes data → decodeChain ext dp fs i data = some y → Bytes y
  | [], i, data, y, hd, h => by
    simp only [decodeChain, Option.some.injEq] at h
    subst h
    exact hd
  | .other :: fs, i, data, y, hd, h => by simp [decodeChain] at h
  | .name n :: fs, i, data, y, hd, h => by
    simp only [decodeChain] at h
    cases hs : decodeWithFilter ext data n (chainParams dp i) with
    | none => simp [hs] at h
    | some d =>
      simp only [hs] at h
      exact chain_output_bytes ext hext dp fs (i + 1) d y (stage_output_bytes ext hext data n _ d hd hs) h

/-- **decode_output_bytes**: `(*Stream).Decode()` - every dictionary (`Filter` a name, an array or
absent; `DecodeParms` anything), every data made of bytes: whatever it returns is made of bytes. -/
theorem decode_output_bytes (ext : Ext) (hext : ExtBytes ext) (d : Dict) (data y : Str) (hd : Bytes data)
    (h : streamDecodeD ext d data = some y) : Bytes y := by
  unfold streamDecodeD streamDecode at h
  split at h
  · obtain rfl := Option.some.inj h; exact hd
  · exact stage_output_bytes ext hext data _ _ y hd h
  · cases h
  · exact chain_output_bytes ext hext _ _ 0 data y hd h

/-- the hypothesis can be met: the "stored" inflate that hands bytes on and no CCITT decoder -/
example : ExtBytes { inflate := fun z => if z.all (· < 256) = true then some z else none, ccitt := fun _ _ => none } := by
  refine ⟨?_, ?_⟩
  · intro z dec h
    by_cases hz : z.all (· < 256) = true
    · simp only [hz, if_true, Option.some.injEq] at h
      subst h
      intro b hb
      have := List.all_eq_true.mp hz b hb
      simpa using this
    · simp [hz] at h
  · intro a z out h; cases h

/-! ## more insensitivity laws of the ASCII decoders, for all data -/

/-- fold the lower-case hexadecimal letters to upper case, leave everything else -/
def hexFold (c : Nat) : Nat := if 97 ≤ c ∧ c ≤ 102 then c - 32 else c

theorem hexFold_props (c : Nat) :
    isWs (hexFold c) = isWs c ∧ ((hexFold c = 62) = (c = 62)) ∧ hexVal (hexFold c) = hexVal c := by
  unfold hexFold
  split
  · rename_i h
    refine ⟨?_, ?_, ?_⟩
    · have e1 : isWs (c - 32) = false := by unfold isWs; simp; omega
      have e2 : isWs c = false := by unfold isWs; simp; omega
      rw [e1, e2]
    · apply propext; constructor <;> intro h' <;> omega
    · have a1 : ¬ (48 ≤ c - 32 ∧ c - 32 ≤ 57) := by omega
      have a2 : (65 ≤ c - 32 ∧ c - 32 ≤ 70) := by omega
      have b1 : ¬ (48 ≤ c ∧ c ≤ 57) := by omega
      have b2 : ¬ (65 ≤ c ∧ c ≤ 70) := by omega
      unfold hexVal
      rw [if_neg a1, if_pos a2, if_neg b1, if_neg b2, if_pos h]
      have e3 : c - 32 - 65 + 10 = c - 97 + 10 := by omega
      rw [e3]
  · exact ⟨rfl, rfl, rfl⟩

theorem hexGo_fold : ∀ (s : Str) (p : Option Nat) (acc : Str),
    hexGo (s.map hexFold) p acc = hexGo s p acc := by
  intro s
  induction s with
  | nil => intro p acc; rfl
  | cons c rest ih =>
    intro p acc
    obtain ⟨h1, h2, h3⟩ := hexFold_props c
    simp only [List.map_cons, hexGo, h1, h2, h3, ih]

/-- **hex_case_insensitive**: on ANY data, writing `a`..`f` as `A`..`F` (all of them, or - by the
same law applied to a part - any of them) changes neither the bytes nor the error. -/
theorem hex_case_insensitive (s : Str) : hexDecode (s.map hexFold) = hexDecode s :=
  hexGo_fold s none []

example : hexDecode ([52, 97, 32, 102, 70].map hexFold) = some [74, 255] := by decide

theorem hexGo_erase : ∀ (s : Str) (p : Option Nat) (acc : Str),
    hexGo (s.filter (fun c => !isWs c)) p acc = hexGo s p acc := by
  intro s
  induction s with
  | nil => intro p acc; rfl
  | cons c rest ih =>
    intro p acc
    by_cases hws : isWs c = true
    · have e : List.filter (fun c => !isWs c) (c :: rest) = List.filter (fun c => !isWs c) rest := by
        simp [hws]
      rw [e, ih]
      exact (hexGo_ws [c] rest p acc (by intro x hx; simp only [List.mem_singleton] at hx; rw [hx]; exact hws)).symm
    · have e : List.filter (fun c => !isWs c) (c :: rest) = c :: List.filter (fun c => !isWs c) rest := by
        simp [hws]
      rw [e]
      simp only [hexGo, ih]

/-- **hex_ws_erasure**: on ANY data, removing all white space at once changes neither the bytes nor
the error - the decoder sees the other characters only. -/
theorem hex_ws_erasure (s : Str) : hexDecode (s.filter (fun c => !isWs c)) = hexDecode s :=
  hexGo_erase s none []

/-- **a85_z_is_five_bangs**: wherever the ASCII85 decoder stands at a group boundary (any output so
far, any rest of the data), `z` and `!!!!!` are read alike. -/
theorem a85_z_is_five_bangs (rest acc : Str) :
    a85Go (33 :: 33 :: 33 :: 33 :: 33 :: rest) [] acc = a85Go (122 :: rest) [] acc ∧
    a85Decode (33 :: 33 :: 33 :: 33 :: 33 :: rest) = a85Decode (122 :: rest) := by
  have key : ∀ acc : Str, a85Go (33 :: 33 :: 33 :: 33 :: 33 :: rest) [] acc = a85Go (122 :: rest) [] acc := by
    intro acc
    have := a85Go_five 0 0 0 0 0 (by decide) (by decide) (by decide) (by decide) (by decide) rest acc
      [0, 0, 0, 0] (by decide)
    rw [a85Go_z]
    simpa using this
  exact ⟨key acc, key []⟩

/-- **png_predictor_number_irrelevant**: `Predictor` 10, 11, 12, 13, 14 and 15 select the same
decoder for every data and geometry - the filter type is read from each row's tag byte. -/
theorem png_predictor_number_irrelevant (data : Str) (p : Params) (pr pr2 : Int)
    (h : 10 ≤ pr ∧ pr ≤ 15) (h2 : 10 ≤ pr2 ∧ pr2 ≤ 15) :
    applyPredictor data pr p = applyPredictor data pr2 p ∧
    applyPredictor data pr p = applyPNGPredictor data p := by
  have e : ∀ q : Int, 10 ≤ q ∧ q ≤ 15 → applyPredictor data q p = applyPNGPredictor data p := by
    intro q hq
    unfold applyPredictor
    rw [if_neg (show ¬ q = 1 by omega), if_neg (show ¬ q = 2 by omega),
      if_pos (show q ≥ 10 ∧ q ≤ 15 from ⟨hq.1, hq.2⟩)]
  exact ⟨by rw [e pr h, e pr2 h2], e pr h⟩

example : (10 : Int) ≤ 12 ∧ (12 : Int) ≤ 15 := by decide

end Tabula.C05More
