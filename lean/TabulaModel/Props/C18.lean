import TabulaModel.Lemmas.Package
import TabulaModel.Lemmas.PackageSpine
/-!
# C18 — Multi-part documents are read in their declared order

Theorems about `Model/Package.lean` (the readers as they are after the three
`fix:` commits: PPTX slides from `sldIdLst`, `url.PathUnescape`, `path.Join` also
for a root-level OPF; and after `fix: a resource listed several times in an EPUB spine is
one chapter`, c53b79e). For every archive, parse table and declaration:

* `parts_follow_declaration_*` — the presented part list is the declared list,
  in declared order, each entry resolved and looked up, unreadable entries dropped;
* `archive_perm_invariant` — no dependence on the ZIP member order;
* `decoys_ignored_*` — members under names the declaration does not lead to change nothing;
* `count_is_declared_readable_*` — the count is the number of declared readable parts;
* `href_resolution` — percent-encoded hrefs resolve to `path.Join(base, p)`, `+` included.

EPUB, what changed with c53b79e and why: `loadChapters` now skips a spine entry whose
resolved href an earlier entry resolved to (300 itemrefs over one 2 MB chapter made
`Text()` return 629 MB). The property text says "each part's text appears in its own page
and only there", so this is the code the model follows. "The declared list" of an EPUB
is therefore `spineFirsts base manifest spine` (`Lemmas/PackageSpine.lean`, defined from
the declaration only): the spine entries with their positions, in spine order, later
repetitions of an already listed resource removed. The EPUB forms of
`parts_follow_declaration`, `count_is_declared_readable`, `text_stays_in_its_page` (and
the front-door equations built on them) speak about that list; everything else is
stated as before. New: `epub_no_resource_twice` (no resource is presented twice, for
every package), `epub_unrepeated_spine_as_before` / `parts_follow_declaration_epub_valid`
(a spine without repeated resources — every valid EPUB — is read exactly as before the
fix, so the earlier statements hold verbatim there), `epub_chapter_count_bounded` (at
most one chapter per distinct resolved href and per archive member).

PPTX: when the presentation declares nothing usable (`pptxDeclared … = some []`: no
`sldIdLst`, no relationship part, or no `r:id` with a target) the reader falls back to
file-name discovery; nothing is declared then, so the PPTX statements carry the
hypothesis that something is. `pptx_fallback_is_file_name_order` shows the fallback.
-/
namespace Tabula.C18
open Tabula.Package

/-! ### a concrete PPTX package (used by the non-vacuity examples) -/

/-- the docs of the PPTX example: 1 content types, 2 presentation with slide list
`[rB, rA]`, 3 relationships `rA ↦ slides/slide1.xml`, `rB ↦ slides/slide2.xml`,
11/12/19 slides -/
def exDocs : Docs := fun c =>
  if c = 2 then .presentation (some [[114, 66], [114, 65]])
  else if c = 3 then .rels [([114, 65], [115, 108, 105, 100, 101, 115, 47, 115, 108, 105, 100, 101, 49, 46, 120, 109, 108]),
      ([114, 66], [115, 108, 105, 100, 101, 115, 47, 115, 108, 105, 100, 101, 50, 46, 120, 109, 108])]
  else if c = 11 ∨ c = 12 ∨ c = 19 then .slide
  else .opaque

/-- ZIP order: slide1, slide9 (left over, undeclared), rels, slide2, presentation -/
def exArchive : Archive :=
  [(sCT, 1),
   ([112, 112, 116, 47, 115, 108, 105, 100, 101, 115, 47, 115, 108, 105, 100, 101, 49, 46, 120, 109, 108], 11),
   ([112, 112, 116, 47, 115, 108, 105, 100, 101, 115, 47, 115, 108, 105, 100, 101, 57, 46, 120, 109, 108], 19),
   (sPresRels, 3),
   ([112, 112, 116, 47, 115, 108, 105, 100, 101, 115, 47, 115, 108, 105, 100, 101, 50, 46, 120, 109, 108], 12),
   (sPres, 2)]

/-! ### specification side: declared entry ↦ resolved name ↦ archive lookup -/

/-- XLSX: the `i`-th declared sheet `(name, r:id)`: relationship target, normalised,
looked up (with the `xl/` retry), kept when it is a worksheet -/
def xlsxSpecPart (a : Archive) (x : Docs) (rels : List (Str × Str)) (e : (Str × Str) × Nat) : Option SheetPart :=
  (xlsxRead (lookup a) (xlsxTarget rels e.2 e.1.2)).bind fun c =>
    if x c = .sheet then some (e.2, c, e.1.1) else none

/-- PPTX: the `i`-th declared slide path looked up, kept when it is a slide -/
def pptxSpecPart (a : Archive) (x : Docs) (e : Str × Nat) : Option SlidePart :=
  (lookup a e.1).bind fun c => if x c = .slide then some (e.2, c) else none

/-- EPUB: the `i`-th spine idref: manifest href, percent-decoded and joined to the
package directory, looked up -/
def epubSpecPart (a : Archive) (base : Str) (manifest : List (Str × Str)) (e : Str × Nat) : Option ChapterPart :=
  (chapterPath base manifest e.1).bind fun p => (lookup a p).map fun c => (e.2, c, p, e.1)

/-! ### parts_follow_declaration -/

theorem parts_follow_declaration_xlsx (a : Archive) (x : Docs) (rels sheets : List (Str × Str))
    (h : xlsxDeclared (lookup a) x = some (rels, sheets)) :
    xlsxOpen a x =
      (let parts := sheets.zipIdx.filterMap (xlsxSpecPart a x rels)
       if parts = [] then none else some parts) := by
  have e : (fun e : (Str × Str) × Nat => xlsxPart (lookup a) x rels e.2 e.1) = xlsxSpecPart a x rels := by
    funext e
    unfold xlsxPart xlsxSpecPart
    cases xlsxRead (lookup a) (xlsxTarget rels e.2 e.1.2) <;> rfl
  unfold xlsxOpen xlsxOpenL
  rw [h]
  simp only [xlsxLoop, loopIdx_eq_filterMap, e]

theorem parts_follow_declaration_pptx (a : Archive) (x : Docs) (declared : List Str)
    (h : pptxDeclared (lookup a) x = some declared) (hne : declared ≠ []) :
    pptxOpen a x =
      (let parts := declared.zipIdx.filterMap (pptxSpecPart a x)
       if parts = [] then none else some parts) := by
  have e : (fun e : Str × Nat => pptxPart (lookup a) x e.2 e.1) = pptxSpecPart a x := by
    funext e
    unfold pptxPart pptxSpecPart
    cases lookup a e.1 <;> rfl
  unfold pptxOpen pptxOpenL
  rw [h]
  simp only [hne, if_false, pptxLoop, loopIdx_eq_filterMap, e]

/-- the per-entry step of the loop is the specification of one entry -/
theorem epubPart_eq_spec (a : Archive) (base : Str) (manifest : List (Str × Str)) :
    (fun e : Str × Nat => epubPart (lookup a) base manifest e.2 e.1) = epubSpecPart a base manifest := by
  funext e
  unfold epubPart epubSpecPart
  cases chapterPath base manifest e.1 with
  | none => rfl
  | some p => cases h' : lookup a p <;> simp [h']

/-- EPUB (restated after c53b79e): the presented chapter list is the spine with later
repetitions of an already listed resource removed (`spineFirsts`: first occurrences of
resolved hrefs, in spine order, original positions), each entry resolved and looked up,
unreadable entries dropped. Before the fix the list was `spine.zipIdx` itself; for a
spine without repeated resources it still is (`parts_follow_declaration_epub_valid`). -/
theorem parts_follow_declaration_epub (a : Archive) (x : Docs) (base : Str) (manifest : List (Str × Str))
    (spine : List Str) (h : epubDeclared (lookup a) x = some (base, manifest, spine)) :
    epubOpen a x =
      (let parts := (spineFirsts base manifest spine).filterMap (epubSpecPart a base manifest)
       if parts = [] then none else some parts) := by
  unfold epubOpen epubOpenL
  rw [h]
  simp only [epubLoop_eq_spineFirsts, epubPart_eq_spec]

/-- the slide paths really are the slide list in its own order: one path per `sldId`
whose `r:id` has a target, nothing else, no reordering -/
theorem pptx_paths_follow_sldIdLst (ids : List Str) (rels : List (Str × Str)) :
    declaredSlidePaths (some ids) (some rels) = ids.filterMap (slidePath rels) := rfl

/-! ### archive_perm_invariant -/

/-- The result does not depend on the ZIP member order: for EVERY permutation of the
member list (member names distinct). For PPTX this needs a declaration (the
file-name fallback breaks ties between equal slide numbers by archive position). -/
theorem archive_perm_invariant (a a' : Archive) (x : Docs)
    (hn : (a.map Prod.fst).Nodup) (hp : a.Perm a') :
    xlsxOpen a x = xlsxOpen a' x ∧ epubOpen a x = epubOpen a' x ∧
      (pptxDeclared (lookup a) x ≠ some [] → pptxOpen a x = pptxOpen a' x) := by
  have hl := lookup_perm_fun hn hp
  refine ⟨?_, ?_, ?_⟩
  · unfold xlsxOpen
    rw [hl]
  · unfold epubOpen
    rw [hl]
  · intro hd
    unfold pptxOpen pptxOpenL
    rw [← hl]
    cases h : pptxDeclared (lookup a) x with
    | none => rfl
    | some d =>
      have : d ≠ [] := by
        intro e
        subst e
        exact hd h
      simp only [this, if_false]

/-- non-vacuity: two distinct orders of the same members -/
example : ([([1], 1), ([2], 2)] : Archive).Perm [([2], 2), ([1], 1)] ∧
    (([([1], 1), ([2], 2)] : Archive).map Prod.fst).Nodup := by
  refine ⟨List.Perm.swap _ _ _, ?_⟩
  decide

/-! ### decoys_ignored -/

/-- every name the XLSX reader asks the archive for -/
def xlsxConsulted (look : Str → Option Nat) (x : Docs) : List Str :=
  [sCT, sWorkbook, sXlRels, sXlRelsAlt] ++
    match xlsxDeclared look x with
    | none => []
    | some (rels, sheets) =>
      sheets.zipIdx.flatMap fun e => [xlsxTarget rels e.2 e.1.2, xlsxAlt (xlsxTarget rels e.2 e.1.2)]

/-- every name the PPTX reader asks for when slides are declared -/
def pptxConsulted (look : Str → Option Nat) (x : Docs) : List Str :=
  [sCT, sPres, sPresRels] ++
    match pptxDeclared look x with
    | none => []
    | some d => d

/-- every name the EPUB reader asks for -/
def epubConsulted (look : Str → Option Nat) (x : Docs) : List Str :=
  sContainer ::
    match parseContainer look x with
    | none => []
    | some opf => opf ::
      match parseOPF look x opf with
      | none => []
      | some (base, manifest, spine) => spine.filterMap (chapterPath base manifest)

theorem agree_of_avoid {a extra : Archive} {names : List Str}
    (h : ∀ m ∈ extra, m.1 ∉ names) : ∀ n ∈ names, lookup (a ++ extra) n = lookup a n := by
  intro n hn
  apply lookup_append_other
  intro hmem
  obtain ⟨m, hm, rfl⟩ := List.mem_map.mp hmem
  exact h m hm hn

/-- XLSX: the reader's result is determined by the lookups at the consulted names -/
theorem xlsxOpenL_congr (look look' : Str → Option Nat) (x : Docs)
    (h : ∀ n ∈ xlsxConsulted look x, look' n = look n) : xlsxOpenL look' x = xlsxOpenL look x := by
  have h0 : look' sCT = look sCT := h _ (by simp [xlsxConsulted])
  have h1 : look' sWorkbook = look sWorkbook := h _ (by simp [xlsxConsulted])
  have h2 : look' sXlRels = look sXlRels := h _ (by simp [xlsxConsulted])
  have h3 : look' sXlRelsAlt = look sXlRelsAlt := h _ (by simp [xlsxConsulted])
  have hd : xlsxDeclared look' x = xlsxDeclared look x := by
    unfold xlsxDeclared xlsxRels
    rw [h0, h1, h2, h3]
  unfold xlsxOpenL
  rw [hd]
  cases hD : xlsxDeclared look x with
  | none => rfl
  | some rs =>
    obtain ⟨rels, sheets⟩ := rs
    have hl : xlsxLoop look' x rels 0 sheets = xlsxLoop look x rels 0 sheets := by
      simp only [xlsxLoop, loopIdx_eq_filterMap]
      apply filterMap_congr_mem
      intro e he
      have m1 : xlsxTarget rels e.2 e.1.2 ∈ xlsxConsulted look x := by
        simp only [xlsxConsulted, hD, List.mem_append, List.mem_flatMap]
        exact Or.inr ⟨e, he, by simp⟩
      have m2 : xlsxAlt (xlsxTarget rels e.2 e.1.2) ∈ xlsxConsulted look x := by
        simp only [xlsxConsulted, hD, List.mem_append, List.mem_flatMap]
        exact Or.inr ⟨e, he, by simp⟩
      simp only [xlsxPart, xlsxRead, h _ m1, h _ m2]
    simp only [hl]

/-- Adding members under names the declaration does not lead to (unreferenced sheets,
left-over parts, …) changes nothing — XLSX. -/
theorem decoys_ignored_xlsx (a extra : Archive) (x : Docs)
    (h : ∀ m ∈ extra, m.1 ∉ xlsxConsulted (lookup a) x) : xlsxOpen (a ++ extra) x = xlsxOpen a x :=
  xlsxOpenL_congr (lookup a) (lookup (a ++ extra)) x (agree_of_avoid h)

theorem pptxOpenL_congr (look look' : Str → Option Nat) (names names' : List Str) (x : Docs)
    (hdecl : pptxDeclared look x ≠ some [])
    (h : ∀ n ∈ pptxConsulted look x, look' n = look n) : pptxOpenL look' names' x = pptxOpenL look names x := by
  have h0 : look' sCT = look sCT := h _ (by simp [pptxConsulted])
  have h1 : look' sPres = look sPres := h _ (by simp [pptxConsulted])
  have h2 : look' sPresRels = look sPresRels := h _ (by simp [pptxConsulted])
  have hd : pptxDeclared look' x = pptxDeclared look x := by
    unfold pptxDeclared pptxRels
    rw [h0, h1, h2]
  unfold pptxOpenL
  rw [hd]
  cases hD : pptxDeclared look x with
  | none => rfl
  | some d =>
    have hne : d ≠ [] := by
      intro e
      subst e
      exact hdecl hD
    have hl : pptxLoop look' x 0 d = pptxLoop look x 0 d := by
      simp only [pptxLoop]
      apply loopIdx_congr
      intro p hp j
      have m : p ∈ pptxConsulted look x := by
        simp only [pptxConsulted, hD, List.mem_append]
        exact Or.inr hp
      simp only [pptxPart, h _ m]
    simp only [hne, if_false, hl]

/-- PPTX: left-over `ppt/slides/slideN.xml` parts and any other member the slide list
does not lead to change nothing (given that the presentation declares its slides). -/
theorem decoys_ignored_pptx (a extra : Archive) (x : Docs)
    (hdecl : pptxDeclared (lookup a) x ≠ some [])
    (h : ∀ m ∈ extra, m.1 ∉ pptxConsulted (lookup a) x) : pptxOpen (a ++ extra) x = pptxOpen a x :=
  pptxOpenL_congr (lookup a) (lookup (a ++ extra)) _ _ x hdecl (agree_of_avoid h)

theorem epubOpenL_congr (look look' : Str → Option Nat) (x : Docs)
    (h : ∀ n ∈ epubConsulted look x, look' n = look n) : epubOpenL look' x = epubOpenL look x := by
  have h0 : look' sContainer = look sContainer := h _ (by simp [epubConsulted])
  have hc : parseContainer look' x = parseContainer look x := by
    unfold parseContainer
    rw [h0]
  unfold epubOpenL epubDeclared
  rw [hc]
  cases hC : parseContainer look x with
  | none => rfl
  | some opf =>
    have h1 : look' opf = look opf := h _ (by simp [epubConsulted, hC])
    have ho : parseOPF look' x opf = parseOPF look x opf := by
      unfold parseOPF
      rw [h1]
    simp only [ho]
    cases hO : parseOPF look x opf with
    | none => rfl
    | some t =>
      obtain ⟨base, manifest, spine⟩ := t
      have hl : epubLoop look' base manifest 0 spine = epubLoop look base manifest 0 spine := by
        unfold epubLoop
        apply epubLoopS_congr
        intro p hp
        have m : p ∈ epubConsulted look x := by
          simp only [epubConsulted, hC, hO, List.mem_cons]
          exact Or.inr (Or.inr hp)
        exact h _ m
      simp only [hl]

/-- EPUB: content documents that are not in the spine (whether or not the manifest
lists them), NCX, nav, CSS, other package documents: members under names the spine
does not lead to change nothing. -/
theorem decoys_ignored_epub (a extra : Archive) (x : Docs)
    (h : ∀ m ∈ extra, m.1 ∉ epubConsulted (lookup a) x) : epubOpen (a ++ extra) x = epubOpen a x :=
  epubOpenL_congr (lookup a) (lookup (a ++ extra)) x (agree_of_avoid h)

/-! ### count_is_declared_readable -/

theorem eq_of_nonEmpty {α : Type} [DecidableEq α] {l parts : List α}
    (h : (if l = [] then none else some l) = some parts) : parts = l := by
  split at h
  · cases h
  · cases h
    rfl

theorem count_is_declared_readable_xlsx (a : Archive) (x : Docs) (rels sheets : List (Str × Str))
    (parts : List SheetPart) (h : xlsxDeclared (lookup a) x = some (rels, sheets))
    (ho : xlsxOpen a x = some parts) :
    parts.length = sheets.zipIdx.countP (fun e => (xlsxSpecPart a x rels e).isSome) := by
  rw [parts_follow_declaration_xlsx a x rels sheets h] at ho
  rw [eq_of_nonEmpty ho, length_filterMap_eq_countP]

theorem count_is_declared_readable_pptx (a : Archive) (x : Docs) (declared : List Str)
    (parts : List SlidePart) (h : pptxDeclared (lookup a) x = some declared) (hne : declared ≠ [])
    (ho : pptxOpen a x = some parts) :
    parts.length = declared.zipIdx.countP (fun e => (pptxSpecPart a x e).isSome) := by
  rw [parts_follow_declaration_pptx a x declared h hne] at ho
  rw [eq_of_nonEmpty ho, length_filterMap_eq_countP]

/-- EPUB (restated after c53b79e): the count is the number of readable entries of the
spine with later repetitions of a resource removed -/
theorem count_is_declared_readable_epub (a : Archive) (x : Docs) (base : Str) (manifest : List (Str × Str))
    (spine : List Str) (parts : List ChapterPart)
    (h : epubDeclared (lookup a) x = some (base, manifest, spine)) (ho : epubOpen a x = some parts) :
    parts.length = (spineFirsts base manifest spine).countP (fun e => (epubSpecPart a base manifest e).isSome) := by
  rw [parts_follow_declaration_epub a x base manifest spine h] at ho
  rw [eq_of_nonEmpty ho, length_filterMap_eq_countP]

/-! ### text_stays_in_its_page (model level: a page is the content id of one part) -/

/-- XLSX: something is a presented page iff it is the content of a declared entry (with
that entry's position as `Sheet.Index` and its declared name), resolved and readable.
Hence every declared readable part has its page and no page holds anything else. -/
theorem text_stays_in_its_page_xlsx (a : Archive) (x : Docs) (rels sheets : List (Str × Str))
    (parts : List SheetPart) (h : xlsxDeclared (lookup a) x = some (rels, sheets))
    (ho : xlsxOpen a x = some parts) (p : SheetPart) :
    p ∈ parts ↔ ∃ e ∈ sheets.zipIdx, xlsxSpecPart a x rels e = some p := by
  rw [parts_follow_declaration_xlsx a x rels sheets h] at ho
  rw [eq_of_nonEmpty ho, List.mem_filterMap]

theorem text_stays_in_its_page_pptx (a : Archive) (x : Docs) (declared : List Str)
    (parts : List SlidePart) (h : pptxDeclared (lookup a) x = some declared) (hne : declared ≠ [])
    (ho : pptxOpen a x = some parts) (p : SlidePart) :
    p ∈ parts ↔ ∃ e ∈ declared.zipIdx, pptxSpecPart a x e = some p := by
  rw [parts_follow_declaration_pptx a x declared h hne] at ho
  rw [eq_of_nonEmpty ho, List.mem_filterMap]

/-- EPUB (restated after c53b79e): a presented chapter is the content of a spine entry that
lists its resource for the first time, and every such readable entry has its chapter
(`epub_no_resource_twice`: and no resource has two) -/
theorem text_stays_in_its_page_epub (a : Archive) (x : Docs) (base : Str) (manifest : List (Str × Str))
    (spine : List Str) (parts : List ChapterPart)
    (h : epubDeclared (lookup a) x = some (base, manifest, spine)) (ho : epubOpen a x = some parts)
    (p : ChapterPart) :
    p ∈ parts ↔ ∃ e ∈ spineFirsts base manifest spine, epubSpecPart a base manifest e = some p := by
  rw [parts_follow_declaration_epub a x base manifest spine h] at ho
  rw [eq_of_nonEmpty ho, List.mem_filterMap]

/-! ### the three formats together -/

/-- **parts_follow_declaration** — for each format the presented part list is
`declared.filterMap (lookup archive ∘ resolve)` (non-empty, else `Open` fails); for EPUB
`declared` is the spine with later repetitions of a resource removed (`spineFirsts`). -/
theorem parts_follow_declaration (a : Archive) (x : Docs) :
    (∀ rels sheets, xlsxDeclared (lookup a) x = some (rels, sheets) →
      xlsxOpen a x = (let parts := sheets.zipIdx.filterMap (xlsxSpecPart a x rels)
                      if parts = [] then none else some parts)) ∧
    (∀ declared, pptxDeclared (lookup a) x = some declared → declared ≠ [] →
      pptxOpen a x = (let parts := declared.zipIdx.filterMap (pptxSpecPart a x)
                      if parts = [] then none else some parts)) ∧
    (∀ base manifest spine, epubDeclared (lookup a) x = some (base, manifest, spine) →
      epubOpen a x = (let parts := (spineFirsts base manifest spine).filterMap (epubSpecPart a base manifest)
                      if parts = [] then none else some parts)) :=
  ⟨parts_follow_declaration_xlsx a x, parts_follow_declaration_pptx a x, parts_follow_declaration_epub a x⟩

/-- **decoys_ignored** — adding unreferenced members changes nothing. -/
theorem decoys_ignored (a extra : Archive) (x : Docs) :
    ((∀ m ∈ extra, m.1 ∉ xlsxConsulted (lookup a) x) → xlsxOpen (a ++ extra) x = xlsxOpen a x) ∧
    (pptxDeclared (lookup a) x ≠ some [] → (∀ m ∈ extra, m.1 ∉ pptxConsulted (lookup a) x) →
      pptxOpen (a ++ extra) x = pptxOpen a x) ∧
    ((∀ m ∈ extra, m.1 ∉ epubConsulted (lookup a) x) → epubOpen (a ++ extra) x = epubOpen a x) :=
  ⟨decoys_ignored_xlsx a extra x, decoys_ignored_pptx a extra x, decoys_ignored_epub a extra x⟩

/-- non-vacuity of `decoys_ignored` for PPTX: the left-over `ppt/slides/slide9.xml` of
`exArchive` is not consulted -/
example : ([112, 112, 116, 47, 115, 108, 105, 100, 101, 115, 47, 115, 108, 105, 100, 101, 57, 46, 120, 109, 108] : Str)
    ∉ pptxConsulted (lookup exArchive) exDocs := by decide

/-- **count_is_declared_readable** — the reported count is the number of declared
entries that resolve to a readable part. -/
theorem count_is_declared_readable (a : Archive) (x : Docs) :
    (∀ rels sheets parts, xlsxDeclared (lookup a) x = some (rels, sheets) → xlsxOpen a x = some parts →
      parts.length = sheets.zipIdx.countP (fun e => (xlsxSpecPart a x rels e).isSome)) ∧
    (∀ declared parts, pptxDeclared (lookup a) x = some declared → declared ≠ [] → pptxOpen a x = some parts →
      parts.length = declared.zipIdx.countP (fun e => (pptxSpecPart a x e).isSome)) ∧
    (∀ base manifest spine parts, epubDeclared (lookup a) x = some (base, manifest, spine) →
      epubOpen a x = some parts →
      parts.length = (spineFirsts base manifest spine).countP (fun e => (epubSpecPart a base manifest e).isSome)) :=
  ⟨fun rels sheets parts => count_is_declared_readable_xlsx a x rels sheets parts,
   fun declared parts => count_is_declared_readable_pptx a x declared parts,
   fun base manifest spine parts => count_is_declared_readable_epub a x base manifest spine parts⟩

/-! ### href_resolution -/

/-- `resolveHref base (pctEncode p) = path.Join(base, p)` for every byte string `p`
(every byte, `+`, space, `%`, `/`, non-ASCII included) and every base. -/
theorem href_resolution (base p : Str) (hp : ∀ b ∈ p, b < 256) :
    resolveHref base (pctEncode p) = join2 base p := by
  unfold resolveHref
  rw [pathUnescape_pctEncode p hp]

/-- the same for the usual href spelling that leaves `/`, `+` and the other
sub-delimiters unescaped: a literal `+` stays a `+` (the B16 regression) -/
theorem href_resolution_literal_plus (base p : Str) (hp : ∀ b ∈ p, b < 256) :
    resolveHref base (pctEncodePath p) = join2 base p := by
  unfold resolveHref
  rw [pathUnescape_pctEncodePath p hp]

/-- non-vacuity and the shape of `join2`: `OEBPS` + `../x/./y.xhtml` is `x/y.xhtml`;
`c+1.xhtml` and `c%2B1.xhtml` both denote `OEBPS/c+1.xhtml`; with the package
document in the root `./c+1.xhtml` and `t/../c2` are normalised too. -/
example : join2 [79, 69, 66, 80, 83] [46, 46, 47, 120, 47, 46, 47, 121, 46, 120, 104, 116, 109, 108]
    = [120, 47, 121, 46, 120, 104, 116, 109, 108] := by decide
example : resolveHref [79, 69, 66, 80, 83] [99, 43, 49, 46, 120, 104, 116, 109, 108]
    = [79, 69, 66, 80, 83, 47, 99, 43, 49, 46, 120, 104, 116, 109, 108] := by decide
example : resolveHref [79, 69, 66, 80, 83] [99, 37, 50, 66, 49, 46, 120, 104, 116, 109, 108]
    = [79, 69, 66, 80, 83, 47, 99, 43, 49, 46, 120, 104, 116, 109, 108] := by decide
example : resolveHref [] [46, 47, 99, 43, 49, 46, 120, 104, 116, 109, 108]
    = [99, 43, 49, 46, 120, 104, 116, 109, 108] := by decide
example : resolveHref [] [116, 47, 46, 46, 47, 99, 50] = [99, 50] := by decide
example : pctEncode [97, 32, 98, 43] = [97, 37, 50, 48, 98, 37, 50, 66] := by decide

/-! ### concrete packages: declared order ≠ file-name order ≠ ZIP order -/

/-- slide2 comes first because the slide list says so, although slide1.xml has the
smaller number and the earlier ZIP position; the undeclared slide9.xml is not a slide -/
theorem pptx_declared_order_example : pptxOpen exArchive exDocs = some [(0, 12), (1, 11)] := by decide

/-- without a slide list (content id 2 opaque ⇒ here: a presentation without
`sldIdLst`) the reader falls back to file-name discovery in slide-number order -/
theorem pptx_fallback_is_file_name_order :
    pptxOpen exArchive (fun c => if c = 2 then .presentation none else exDocs c)
      = some [(0, 11), (1, 12), (2, 19)] := by decide

/-- hypotheses of the PPTX theorems are satisfiable -/
example : pptxDeclared (lookup exArchive) exDocs
    = some [[112, 112, 116, 47, 115, 108, 105, 100, 101, 115, 47, 115, 108, 105, 100, 101, 50, 46, 120, 109, 108],
            [112, 112, 116, 47, 115, 108, 105, 100, 101, 115, 47, 115, 108, 105, 100, 101, 49, 46, 120, 109, 108]] := by decide

/-- XLSX: workbook declares `Two` (→ worksheets/sheet2.xml) before `One`
(→ /xl/worksheets/sheet1.xml); a left-over third sheet part is ignored -/
theorem xlsx_declared_order_example :
    xlsxOpen
      [(sCT, 1), ([120, 108, 47, 119, 111, 114, 107, 115, 104, 101, 101, 116, 115, 47, 115, 104, 101, 101, 116, 49, 46, 120, 109, 108], 11),
       (sWorkbook, 2), (sXlRels, 3),
       ([120, 108, 47, 119, 111, 114, 107, 115, 104, 101, 101, 116, 115, 47, 115, 104, 101, 101, 116, 50, 46, 120, 109, 108], 12),
       ([120, 108, 47, 119, 111, 114, 107, 115, 104, 101, 101, 116, 115, 47, 115, 104, 101, 101, 116, 51, 46, 120, 109, 108], 13)]
      (fun c =>
        if c = 2 then .workbook [([84, 119, 111], [114, 66]), ([79, 110, 101], [114, 65])]
        else if c = 3 then .rels [([114, 65], [47, 120, 108, 47, 119, 111, 114, 107, 115, 104, 101, 101, 116, 115, 47, 115, 104, 101, 101, 116, 49, 46, 120, 109, 108]),
            ([114, 66], [119, 111, 114, 107, 115, 104, 101, 101, 116, 115, 47, 115, 104, 101, 101, 116, 50, 46, 120, 109, 108])]
        else if c = 11 ∨ c = 12 ∨ c = 13 then .sheet else .opaque)
      = some [(0, 12, [84, 119, 111]), (1, 11, [79, 110, 101])] := by decide

/-- EPUB: package document `OEBPS/content.opf`; spine `[i2, i1]`; `i2 ↦ ch/c+1.xhtml`
(literal `+`), `i1 ↦ ch/../c%2B1.xhtml`-style detour is covered by `href_resolution`;
here `i1 ↦ c1`. A manifest item that is not in the spine (`i3`) is not a chapter. -/
theorem epub_declared_order_example :
    epubOpen
      [([79, 69, 66, 80, 83, 47, 99, 49], 11), (sContainer, 1),
       ([79, 69, 66, 80, 83, 47, 99, 104, 47, 99, 43, 49, 46, 120, 104, 116, 109, 108], 12),
       ([79, 69, 66, 80, 83, 47, 99, 50], 13),
       ([79, 69, 66, 80, 83, 47, 99, 111, 110, 116, 101, 110, 116, 46, 111, 112, 102], 2)]
      (fun c =>
        if c = 1 then .container [([79, 69, 66, 80, 83, 47, 99, 111, 110, 116, 101, 110, 116, 46, 111, 112, 102], sOebps)]
        else if c = 2 then .opf [([105, 49], [99, 49]), ([105, 50], [99, 104, 47, 99, 43, 49, 46, 120, 104, 116, 109, 108]),
            ([105, 51], [99, 50])] [[105, 50], [105, 49]]
        else .opaque)
      = some [(0, 12, [79, 69, 66, 80, 83, 47, 99, 104, 47, 99, 43, 49, 46, 120, 104, 116, 109, 108], [105, 50]),
              (1, 11, [79, 69, 66, 80, 83, 47, 99, 49], [105, 49])] := by decide

/-! ### EPUB: a resource listed several times in the spine is one chapter (c53b79e) -/

/-- the specification list entry by entry: `(idref, k)` is followed iff it is the `k`-th
spine entry, the manifest knows the idref, and no EARLIER spine entry resolves to the same
archive name — a statement about the declaration only -/
theorem mem_spineFirsts (base : Str) (manifest : List (Str × Str)) (spine : List Str) (e : Str × Nat) :
    e ∈ spineFirsts base manifest spine ↔
      spine[e.2]? = some e.1 ∧ ∃ p, chapterPath base manifest e.1 = some p ∧
        ∀ j r, j < e.2 → spine[j]? = some r → chapterPath base manifest r ≠ some p := by
  obtain ⟨r, k⟩ := e
  unfold spineFirsts
  rw [List.mem_filter, List.mk_mem_zipIdx_iff_getElem?]
  have key : ∀ p, p ∈ (spine.take k).filterMap (chapterPath base manifest) ↔
      ∃ j r', j < k ∧ spine[j]? = some r' ∧ chapterPath base manifest r' = some p := by
    intro p
    rw [List.mem_filterMap]
    constructor
    · intro ⟨r', hr', hp⟩
      obtain ⟨j, hj⟩ := List.mem_iff_getElem?.mp hr'
      rw [List.getElem?_take] at hj
      split at hj
      · exact ⟨j, r', by assumption, hj, hp⟩
      · cases hj
    · intro ⟨j, r', hjk, hj, hp⟩
      refine ⟨r', List.mem_iff_getElem?.mpr ⟨j, ?_⟩, hp⟩
      rw [List.getElem?_take, if_pos hjk]
      exact hj
  constructor
  · intro ⟨hm, hf⟩
    refine ⟨hm, ?_⟩
    cases hcp : chapterPath base manifest r with
    | none => simp [hcp] at hf
    | some p =>
      simp only [hcp, decide_eq_true_eq] at hf
      refine ⟨p, rfl, ?_⟩
      intro j r' hjk hj hp
      exact hf ((key p).mpr ⟨j, r', hjk, hj, hp⟩)
  · intro ⟨hm, p, hcp, hf⟩
    refine ⟨hm, ?_⟩
    simp only [hcp, decide_eq_true_eq]
    intro hmem
    obtain ⟨j, r', hjk, hj, hp⟩ := (key p).mp hmem
    exact hf j r' hjk hj hp

/-- **(a) epub_no_resource_twice** — for EVERY archive and parse table: the archive names
of the presented chapters are pairwise distinct. No resource is a chapter twice, however
often and in whatever spelling the spine lists it. -/
theorem epub_no_resource_twice (a : Archive) (x : Docs) (parts : List ChapterPart)
    (ho : epubOpen a x = some parts) : (parts.map fun c => c.2.2.1).Nodup := by
  unfold epubOpen epubOpenL at ho
  cases hd : epubDeclared (lookup a) x with
  | none => simp [hd] at ho
  | some d =>
    obtain ⟨base, manifest, spine⟩ := d
    simp only [hd] at ho
    rw [eq_of_nonEmpty ho]
    exact (epubLoopS_paths (lookup a) base manifest [] 0 spine).2

/-- the same as a statement about pairs of chapters -/
theorem epub_no_resource_twice_pairwise (a : Archive) (x : Docs) (parts : List ChapterPart)
    (ho : epubOpen a x = some parts) : parts.Pairwise (fun c d => c.2.2.1 ≠ d.2.2.1) := by
  have := epub_no_resource_twice a x parts ho
  rw [List.Nodup, List.pairwise_map] at this
  exact this

/-- **(b) epub_unrepeated_spine_as_before** — when the spine lists no resource twice (the
resolved hrefs of its entries are pairwise distinct: every valid EPUB, EPUB 3 §3.4.13), the
loop of `loadChapters` is exactly the loop before the fix. -/
theorem epub_unrepeated_spine_as_before (look : Str → Option Nat) (base : Str) (manifest : List (Str × Str))
    (spine : List Str) (hnd : (spineHrefs base manifest spine).Nodup) :
    epubLoop look base manifest 0 spine = loopIdx (epubPart look base manifest) 0 spine :=
  epubLoopS_eq_loopIdx look base manifest [] 0 spine hnd (fun _ _ h => by cases h)

/-- hence, for such a spine, `parts_follow_declaration_epub` holds VERBATIM as it was
stated before the fix: the presented list is the whole spine in its own order, each
entry resolved and looked up, unreadable entries dropped -/
theorem parts_follow_declaration_epub_valid (a : Archive) (x : Docs) (base : Str) (manifest : List (Str × Str))
    (spine : List Str) (h : epubDeclared (lookup a) x = some (base, manifest, spine))
    (hnd : (spineHrefs base manifest spine).Nodup) :
    epubOpen a x =
      (let parts := spine.zipIdx.filterMap (epubSpecPart a base manifest)
       if parts = [] then none else some parts) := by
  unfold epubOpen epubOpenL
  rw [h]
  simp only [epub_unrepeated_spine_as_before _ _ _ _ hnd, loopIdx_eq_filterMap, epubPart_eq_spec]

/-- … and so do the count and the page statements, verbatim -/
theorem count_is_declared_readable_epub_valid (a : Archive) (x : Docs) (base : Str) (manifest : List (Str × Str))
    (spine : List Str) (parts : List ChapterPart)
    (h : epubDeclared (lookup a) x = some (base, manifest, spine))
    (hnd : (spineHrefs base manifest spine).Nodup) (ho : epubOpen a x = some parts) :
    parts.length = spine.zipIdx.countP (fun e => (epubSpecPart a base manifest e).isSome) := by
  rw [parts_follow_declaration_epub_valid a x base manifest spine h hnd] at ho
  rw [eq_of_nonEmpty ho, length_filterMap_eq_countP]

theorem text_stays_in_its_page_epub_valid (a : Archive) (x : Docs) (base : Str) (manifest : List (Str × Str))
    (spine : List Str) (parts : List ChapterPart)
    (h : epubDeclared (lookup a) x = some (base, manifest, spine))
    (hnd : (spineHrefs base manifest spine).Nodup) (ho : epubOpen a x = some parts) (p : ChapterPart) :
    p ∈ parts ↔ ∃ e ∈ spine.zipIdx, epubSpecPart a base manifest e = some p := by
  rw [parts_follow_declaration_epub_valid a x base manifest spine h hnd] at ho
  rw [eq_of_nonEmpty ho, List.mem_filterMap]

/-- for such a spine the specification list is the whole spine (entries the manifest does
not know aside: they are never chapters) -/
theorem spineFirsts_of_unrepeated (base : Str) (manifest : List (Str × Str)) (spine : List Str)
    (hnd : (spineHrefs base manifest spine).Nodup) :
    spineFirsts base manifest spine =
      spine.zipIdx.filter (fun e => (chapterPath base manifest e.1).isSome) := by
  have h1 := firstsFrom_eq_filter (chapterPath base manifest) [] 0 spine
  have h2 : ∀ (seen : List Str) (i : Nat) (l : List Str),
      (l.filterMap (chapterPath base manifest)).Nodup →
      (∀ q ∈ l.filterMap (chapterPath base manifest), q ∉ seen) →
      firstsFrom (chapterPath base manifest) seen (l.zipIdx i) =
        (l.zipIdx i).filter (fun e => (chapterPath base manifest e.1).isSome) := by
    intro seen i l
    induction l generalizing seen i with
    | nil => intros; rfl
    | cons r rest ih =>
      intro hn hd
      simp only [List.zipIdx_cons, firstsFrom, List.filter_cons]
      cases hcp : chapterPath base manifest r with
      | none =>
        simp only [List.filterMap_cons, hcp] at hn hd
        simpa using ih seen (i + 1) hn hd
      | some p =>
        simp only [List.filterMap_cons, hcp, List.nodup_cons] at hn hd
        have hs : p ∉ seen := hd p List.mem_cons_self
        have hd' : ∀ q ∈ rest.filterMap (chapterPath base manifest), q ∉ p :: seen := by
          intro q hq hmem
          rcases List.mem_cons.mp hmem with e | hmem
          · subst e
            exact hn.1 hq
          · exact hd q (List.mem_cons_of_mem _ hq) hmem
        simp only [hs, if_false, Option.isSome_some, if_true, ih (p :: seen) (i + 1) hn.2 hd']
  have h3 := h2 [] 0 spine hnd (fun _ _ h => by cases h)
  rw [← h3, h1]
  unfold spineFirsts
  apply List.filter_congr
  intro e _
  cases chapterPath base manifest e.1 with
  | none => rfl
  | some p => simp

/-- **(c) epub_chapter_count_bounded** — bounded output (the C02-relevant fact): the number
of chapters is at most the number of DISTINCT resolved hrefs of the spine, at most the
number of archive members, and at most the number of spine entries — whatever the
declaration repeats. -/
theorem epub_chapter_count_bounded (a : Archive) (x : Docs) (base : Str) (manifest : List (Str × Str))
    (spine : List Str) (parts : List ChapterPart)
    (h : epubDeclared (lookup a) x = some (base, manifest, spine)) (ho : epubOpen a x = some parts) :
    parts.length ≤ (spineHrefs base manifest spine).eraseDups.length ∧
      parts.length ≤ a.length ∧ parts.length ≤ spine.length := by
  have hnd := epub_no_resource_twice a x parts ho
  unfold epubOpen epubOpenL at ho
  simp only [h] at ho
  have hp := eq_of_nonEmpty ho
  have hpaths := (epubLoopS_paths (lookup a) base manifest [] 0 spine).1
  have hfound := epubLoopS_found (lookup a) base manifest [] 0 spine
  rw [← epubLoop, ← hp] at hpaths hfound
  refine ⟨?_, ?_, ?_⟩
  · have := hnd.length_le_of_subset (l₂ := (spineHrefs base manifest spine).eraseDups)
      (fun q hq => List.mem_eraseDups.mpr (hpaths q hq).2)
    simpa using this
  · have := hnd.length_le_of_subset (l₂ := a.map Prod.fst) (by
      intro q hq
      obtain ⟨c, hc, rfl⟩ := List.mem_map.mp hq
      exact List.mem_map.mpr ⟨(c.2.2.1, c.2.1), lookup_mem (hfound c hc), rfl⟩)
    simpa using this
  · rw [hp, epubLoop_eq_spineFirsts]
    refine Nat.le_trans (List.length_filterMap_le _ _) ?_
    unfold spineFirsts
    refine Nat.le_trans (List.length_filter_le _ _) ?_
    simp

/-- the general form: at most one chapter per element of ANY list of names that covers the
resolved hrefs of the spine -/
theorem epub_chapter_count_le_cover (a : Archive) (x : Docs) (base : Str) (manifest : List (Str × Str))
    (spine : List Str) (parts : List ChapterPart) (names : List Str)
    (h : epubDeclared (lookup a) x = some (base, manifest, spine)) (ho : epubOpen a x = some parts)
    (hc : ∀ p ∈ spineHrefs base manifest spine, p ∈ names) : parts.length ≤ names.length := by
  have hnd := epub_no_resource_twice a x parts ho
  unfold epubOpen epubOpenL at ho
  simp only [h] at ho
  have hp := eq_of_nonEmpty ho
  have hpaths := (epubLoopS_paths (lookup a) base manifest [] 0 spine).1
  rw [← epubLoop, ← hp] at hpaths
  have := hnd.length_le_of_subset (l₂ := names) (fun q hq => hc q (hpaths q hq).2)
  simpa using this

/-- a package whose spine reaches resources several times, in all three ways: package
document `content.opf` in the root; manifest `i1 ↦ c1`, `i2 ↦ ./c1`, `i3 ↦ x/../c%31`
(three spellings of the member `c1`), `i4 ↦ c2`, `i5 ↦ gone`, `i6 ↦ ./gone` (no such
member); spine `[i1, i4, i2, i1, i5, i3, i6, i4]` -/
def exRArchive : Archive :=
  [([99, 50], 12), (sContainer, 1), ([99, 111, 110, 116, 101, 110, 116, 46, 111, 112, 102], 2), ([99, 49], 11)]

def exRManifest : List (Str × Str) :=
  [([105, 49], [99, 49]), ([105, 50], [46, 47, 99, 49]), ([105, 51], [120, 47, 46, 46, 47, 99, 37, 51, 49]),
   ([105, 52], [99, 50]), ([105, 53], [103, 111, 110, 101]), ([105, 54], [46, 47, 103, 111, 110, 101])]

def exRSpine : List Str := [[105, 49], [105, 52], [105, 50], [105, 49], [105, 53], [105, 51], [105, 54], [105, 52]]

def exRDocs : Docs := fun c =>
  if c = 1 then .container [([99, 111, 110, 116, 101, 110, 116, 46, 111, 112, 102], sOebps)]
  else if c = 2 then .opf exRManifest exRSpine
  else .opaque

/-- each resource once, at its first position: `c1` (spine position 0) and `c2` (position
1); the repetitions at positions 2, 3, 5, 7 are not chapters, and neither is the second
reference (position 6) to the missing `gone` (position 4) -/
theorem epub_repeated_resources_example :
    epubOpen exRArchive exRDocs = some [(0, 11, [99, 49], [105, 49]), (1, 12, [99, 50], [105, 52])] := by decide

theorem epub_repeated_resources_spec_example :
    spineFirsts [] exRManifest exRSpine = [([105, 49], 0), ([105, 52], 1), ([105, 53], 4)] ∧
      (spineHrefs [] exRManifest exRSpine).eraseDups = [[99, 49], [99, 50], [103, 111, 110, 101]] := by decide

/-- before the fix the same package had six chapters (the old loop) -/
theorem epub_repeated_resources_before_fix_example :
    (loopIdx (epubPart (lookup exRArchive) [] exRManifest) 0 exRSpine).map (fun c => (c.1, c.2.1))
      = [(0, 11), (1, 12), (2, 11), (3, 11), (5, 11), (7, 12)] := by decide

/-- satisfiability of the hypotheses of (a) and (c): the package above opens and is declared -/
example : (epubOpen exRArchive exRDocs).isSome ∧
    epubDeclared (lookup exRArchive) exRDocs = some ([], exRManifest, exRSpine) := by decide

/-- satisfiability of the hypothesis of (b): the spine `[i2, i1]` of
`epub_declared_order_example` lists two different resources -/
example : (spineHrefs [79, 69, 66, 80, 83]
    [([105, 49], [99, 49]), ([105, 50], [99, 104, 47, 99, 43, 49, 46, 120, 104, 116, 109, 108]), ([105, 51], [99, 50])]
    [[105, 50], [105, 49]]).Nodup := by decide

/-- … and the spine of `exRDocs` does not satisfy it -/
example : ¬ (spineHrefs [] exRManifest exRSpine).Nodup := by decide

/-- satisfiability of `mem_spineFirsts`: `(i5, 4)` is followed, `(i3, 5)` is not -/
example : (([105, 53], 4) : Str × Nat) ∈ spineFirsts [] exRManifest exRSpine ∧
    (([105, 51], 5) : Str × Nat) ∉ spineFirsts [] exRManifest exRSpine := by decide

end Tabula.C18
