import TabulaModel.Lemmas.Package
/-!
# C18 — Multi-part documents are read in their declared order

Theorems about `Model/Package.lean` (the readers as they are after the three
`fix:` commits: PPTX slides from `sldIdLst`, `url.PathUnescape`, `path.Join` also
for a root-level OPF). For every archive, parse table and declaration:

* `parts_follow_declaration_*` — the presented part list is the declared list,
  in declared order, each entry resolved and looked up, unreadable entries dropped;
* `archive_perm_invariant` — no dependence on the ZIP member order;
* `decoys_ignored_*` — members under names the declaration does not lead to change nothing;
* `count_is_declared_readable_*` — the count is the number of declared readable parts;
* `href_resolution` — percent-encoded hrefs resolve to `path.Join(base, p)`, `+` included.

PPTX: when the presentation declares nothing usable (`pptxDeclared … = some []`: no
`sldIdLst`, no relationship part, or no `r:id` with a target) the reader falls back to
file-name discovery; nothing is declared then, so the PPTX statements carry the
hypothesis that something is. `pptx_fallback_is_file_name_order` shows the fallback.
-/
namespace Tabula.C18
open Tabula.Package

/-! ### a concrete PPTX package (used by the non-vacuity examples) -/

/-- the docs of the PPTX example: 1 content types, 2 presentation with slide list
`[rB, rA]`, 3 relationships `rA ↦ slides/slide1.xml`, `rB ↦ slides/slide2.xml`,
11/12/19 slides -/
def exDocs : Docs := fun c =>
  if c = 2 then .presentation (some [[114, 66], [114, 65]])
  else if c = 3 then .rels [([114, 65], [115, 108, 105, 100, 101, 115, 47, 115, 108, 105, 100, 101, 49, 46, 120, 109, 108]),
      ([114, 66], [115, 108, 105, 100, 101, 115, 47, 115, 108, 105, 100, 101, 50, 46, 120, 109, 108])]
  else if c = 11 ∨ c = 12 ∨ c = 19 then .slide
  else .opaque

/-- ZIP order: slide1, slide9 (left over, undeclared), rels, slide2, presentation -/
def exArchive : Archive :=
  [(sCT, 1),
   ([112, 112, 116, 47, 115, 108, 105, 100, 101, 115, 47, 115, 108, 105, 100, 101, 49, 46, 120, 109, 108], 11),
   ([112, 112, 116, 47, 115, 108, 105, 100, 101, 115, 47, 115, 108, 105, 100, 101, 57, 46, 120, 109, 108], 19),
   (sPresRels, 3),
   ([112, 112, 116, 47, 115, 108, 105, 100, 101, 115, 47, 115, 108, 105, 100, 101, 50, 46, 120, 109, 108], 12),
   (sPres, 2)]

/-! ### specification side: declared entry ↦ resolved name ↦ archive lookup -/

/-- XLSX: the `i`-th declared sheet `(name, r:id)`: relationship target, normalised,
looked up (with the `xl/` retry), kept when it is a worksheet -/
def xlsxSpecPart (a : Archive) (x : Docs) (rels : List (Str × Str)) (e : (Str × Str) × Nat) : Option SheetPart :=
  (xlsxRead (lookup a) (xlsxTarget rels e.2 e.1.2)).bind fun c =>
    if x c = .sheet then some (e.2, c, e.1.1) else none

/-- PPTX: the `i`-th declared slide path looked up, kept when it is a slide -/
def pptxSpecPart (a : Archive) (x : Docs) (e : Str × Nat) : Option SlidePart :=
  (lookup a e.1).bind fun c => if x c = .slide then some (e.2, c) else none

/-- EPUB: the `i`-th spine idref: manifest href, percent-decoded and joined to the
package directory, looked up -/
def epubSpecPart (a : Archive) (base : Str) (manifest : List (Str × Str)) (e : Str × Nat) : Option ChapterPart :=
  (chapterPath base manifest e.1).bind fun p => (lookup a p).map fun c => (e.2, c, p, e.1)

/-! ### parts_follow_declaration -/

theorem parts_follow_declaration_xlsx (a : Archive) (x : Docs) (rels sheets : List (Str × Str))
    (h : xlsxDeclared (lookup a) x = some (rels, sheets)) :
    xlsxOpen a x =
      (let parts := sheets.zipIdx.filterMap (xlsxSpecPart a x rels)
       if parts = [] then none else some parts) := by
  have e : (fun e : (Str × Str) × Nat => xlsxPart (lookup a) x rels e.2 e.1) = xlsxSpecPart a x rels := by
    funext e
    unfold xlsxPart xlsxSpecPart
    cases xlsxRead (lookup a) (xlsxTarget rels e.2 e.1.2) <;> rfl
  unfold xlsxOpen xlsxOpenL
  rw [h]
  simp only [xlsxLoop, loopIdx_eq_filterMap, e]

theorem parts_follow_declaration_pptx (a : Archive) (x : Docs) (declared : List Str)
    (h : pptxDeclared (lookup a) x = some declared) (hne : declared ≠ []) :
    pptxOpen a x =
      (let parts := declared.zipIdx.filterMap (pptxSpecPart a x)
       if parts = [] then none else some parts) := by
  have e : (fun e : Str × Nat => pptxPart (lookup a) x e.2 e.1) = pptxSpecPart a x := by
    funext e
    unfold pptxPart pptxSpecPart
    cases lookup a e.1 <;> rfl
  unfold pptxOpen pptxOpenL
  rw [h]
  simp only [hne, if_false, pptxLoop, loopIdx_eq_filterMap, e]

theorem parts_follow_declaration_epub (a : Archive) (x : Docs) (base : Str) (manifest : List (Str × Str))
    (spine : List Str) (h : epubDeclared (lookup a) x = some (base, manifest, spine)) :
    epubOpen a x =
      (let parts := spine.zipIdx.filterMap (epubSpecPart a base manifest)
       if parts = [] then none else some parts) := by
  have e : (fun e : Str × Nat => epubPart (lookup a) base manifest e.2 e.1) = epubSpecPart a base manifest := by
    funext e
    unfold epubPart epubSpecPart
    cases chapterPath base manifest e.1 with
    | none => rfl
    | some p => cases h' : lookup a p <;> simp [h']
  unfold epubOpen epubOpenL
  rw [h]
  simp only [epubLoop, loopIdx_eq_filterMap, e]

/-- the slide paths really are the slide list in its own order: one path per `sldId`
whose `r:id` has a target, nothing else, no reordering -/
theorem pptx_paths_follow_sldIdLst (ids : List Str) (rels : List (Str × Str)) :
    declaredSlidePaths (some ids) (some rels) = ids.filterMap (slidePath rels) := rfl

/-! ### archive_perm_invariant -/

/-- The result does not depend on the ZIP member order: for EVERY permutation of the
member list (member names distinct). For PPTX this needs a declaration (the
file-name fallback breaks ties between equal slide numbers by archive position). -/
theorem archive_perm_invariant (a a' : Archive) (x : Docs)
    (hn : (a.map Prod.fst).Nodup) (hp : a.Perm a') :
    xlsxOpen a x = xlsxOpen a' x ∧ epubOpen a x = epubOpen a' x ∧
      (pptxDeclared (lookup a) x ≠ some [] → pptxOpen a x = pptxOpen a' x) := by
  have hl := lookup_perm_fun hn hp
  refine ⟨?_, ?_, ?_⟩
  · unfold xlsxOpen
    rw [hl]
  · unfold epubOpen
    rw [hl]
  · intro hd
    unfold pptxOpen pptxOpenL
    rw [← hl]
    cases h : pptxDeclared (lookup a) x with
    | none => rfl
    | some d =>
      have : d ≠ [] := by
        intro e
        subst e
        exact hd h
      simp only [this, if_false]

/-- non-vacuity: two distinct orders of the same members -/
example : ([([1], 1), ([2], 2)] : Archive).Perm [([2], 2), ([1], 1)] ∧
    (([([1], 1), ([2], 2)] : Archive).map Prod.fst).Nodup := by
  refine ⟨List.Perm.swap _ _ _, ?_⟩
  decide

/-! ### decoys_ignored -/

/-- every name the XLSX reader asks the archive for -/
def xlsxConsulted (look : Str → Option Nat) (x : Docs) : List Str :=
  [sCT, sWorkbook, sXlRels, sXlRelsAlt] ++
    match xlsxDeclared look x with
    | none => []
    | some (rels, sheets) =>
      sheets.zipIdx.flatMap fun e => [xlsxTarget rels e.2 e.1.2, xlsxAlt (xlsxTarget rels e.2 e.1.2)]

/-- every name the PPTX reader asks for when slides are declared -/
def pptxConsulted (look : Str → Option Nat) (x : Docs) : List Str :=
  [sCT, sPres, sPresRels] ++
    match pptxDeclared look x with
    | none => []
    | some d => d

/-- every name the EPUB reader asks for -/
def epubConsulted (look : Str → Option Nat) (x : Docs) : List Str :=
  sContainer ::
    match parseContainer look x with
    | none => []
    | some opf => opf ::
      match parseOPF look x opf with
      | none => []
      | some (base, manifest, spine) => spine.filterMap (chapterPath base manifest)

theorem agree_of_avoid {a extra : Archive} {names : List Str}
    (h : ∀ m ∈ extra, m.1 ∉ names) : ∀ n ∈ names, lookup (a ++ extra) n = lookup a n := by
  intro n hn
  apply lookup_append_other
  intro hmem
  obtain ⟨m, hm, rfl⟩ := List.mem_map.mp hmem
  exact h m hm hn

/-- XLSX: the reader's result is determined by the lookups at the consulted names -/
theorem xlsxOpenL_congr (look look' : Str → Option Nat) (x : Docs)
    (h : ∀ n ∈ xlsxConsulted look x, look' n = look n) : xlsxOpenL look' x = xlsxOpenL look x := by
  have h0 : look' sCT = look sCT := h _ (by simp [xlsxConsulted])
  have h1 : look' sWorkbook = look sWorkbook := h _ (by simp [xlsxConsulted])
  have h2 : look' sXlRels = look sXlRels := h _ (by simp [xlsxConsulted])
  have h3 : look' sXlRelsAlt = look sXlRelsAlt := h _ (by simp [xlsxConsulted])
  have hd : xlsxDeclared look' x = xlsxDeclared look x := by
    unfold xlsxDeclared xlsxRels
    rw [h0, h1, h2, h3]
  unfold xlsxOpenL
  rw [hd]
  cases hD : xlsxDeclared look x with
  | none => rfl
  | some rs =>
    obtain ⟨rels, sheets⟩ := rs
    have hl : xlsxLoop look' x rels 0 sheets = xlsxLoop look x rels 0 sheets := by
      simp only [xlsxLoop, loopIdx_eq_filterMap]
      apply filterMap_congr_mem
      intro e he
      have m1 : xlsxTarget rels e.2 e.1.2 ∈ xlsxConsulted look x := by
        simp only [xlsxConsulted, hD, List.mem_append, List.mem_flatMap]
        exact Or.inr ⟨e, he, by simp⟩
      have m2 : xlsxAlt (xlsxTarget rels e.2 e.1.2) ∈ xlsxConsulted look x := by
        simp only [xlsxConsulted, hD, List.mem_append, List.mem_flatMap]
        exact Or.inr ⟨e, he, by simp⟩
      simp only [xlsxPart, xlsxRead, h _ m1, h _ m2]
    simp only [hl]

/-- Adding members under names the declaration does not lead to (unreferenced sheets,
left-over parts, …) changes nothing — XLSX. -/
theorem decoys_ignored_xlsx (a extra : Archive) (x : Docs)
    (h : ∀ m ∈ extra, m.1 ∉ xlsxConsulted (lookup a) x) : xlsxOpen (a ++ extra) x = xlsxOpen a x :=
  xlsxOpenL_congr (lookup a) (lookup (a ++ extra)) x (agree_of_avoid h)

theorem pptxOpenL_congr (look look' : Str → Option Nat) (names names' : List Str) (x : Docs)
    (hdecl : pptxDeclared look x ≠ some [])
    (h : ∀ n ∈ pptxConsulted look x, look' n = look n) : pptxOpenL look' names' x = pptxOpenL look names x := by
  have h0 : look' sCT = look sCT := h _ (by simp [pptxConsulted])
  have h1 : look' sPres = look sPres := h _ (by simp [pptxConsulted])
  have h2 : look' sPresRels = look sPresRels := h _ (by simp [pptxConsulted])
  have hd : pptxDeclared look' x = pptxDeclared look x := by
    unfold pptxDeclared pptxRels
    rw [h0, h1, h2]
  unfold pptxOpenL
  rw [hd]
  cases hD : pptxDeclared look x with
  | none => rfl
  | some d =>
    have hne : d ≠ [] := by
      intro e
      subst e
      exact hdecl hD
    have hl : pptxLoop look' x 0 d = pptxLoop look x 0 d := by
      simp only [pptxLoop]
      apply loopIdx_congr
      intro p hp j
      have m : p ∈ pptxConsulted look x := by
        simp only [pptxConsulted, hD, List.mem_append]
        exact Or.inr hp
      simp only [pptxPart, h _ m]
    simp only [hne, if_false, hl]

/-- PPTX: left-over `ppt/slides/slideN.xml` parts and any other member the slide list
does not lead to change nothing (given that the presentation declares its slides). -/
theorem decoys_ignored_pptx (a extra : Archive) (x : Docs)
    (hdecl : pptxDeclared (lookup a) x ≠ some [])
    (h : ∀ m ∈ extra, m.1 ∉ pptxConsulted (lookup a) x) : pptxOpen (a ++ extra) x = pptxOpen a x :=
  pptxOpenL_congr (lookup a) (lookup (a ++ extra)) _ _ x hdecl (agree_of_avoid h)

theorem epubOpenL_congr (look look' : Str → Option Nat) (x : Docs)
    (h : ∀ n ∈ epubConsulted look x, look' n = look n) : epubOpenL look' x = epubOpenL look x := by
  have h0 : look' sContainer = look sContainer := h _ (by simp [epubConsulted])
  have hc : parseContainer look' x = parseContainer look x := by
    unfold parseContainer
    rw [h0]
  unfold epubOpenL epubDeclared
  rw [hc]
  cases hC : parseContainer look x with
  | none => rfl
  | some opf =>
    have h1 : look' opf = look opf := h _ (by simp [epubConsulted, hC])
    have ho : parseOPF look' x opf = parseOPF look x opf := by
      unfold parseOPF
      rw [h1]
    simp only [ho]
    cases hO : parseOPF look x opf with
    | none => rfl
    | some t =>
      obtain ⟨base, manifest, spine⟩ := t
      have hl : epubLoop look' base manifest 0 spine = epubLoop look base manifest 0 spine := by
        simp only [epubLoop]
        apply loopIdx_congr
        intro r hr j
        unfold epubPart
        cases hp : chapterPath base manifest r with
        | none => rfl
        | some p =>
          have m : p ∈ epubConsulted look x := by
            simp only [epubConsulted, hC, hO, List.mem_cons, List.mem_filterMap]
            exact Or.inr (Or.inr ⟨r, hr, hp⟩)
          simp only [h _ m]
      simp only [hl]

/-- EPUB: content documents that are not in the spine (whether or not the manifest
lists them), NCX, nav, CSS, other package documents: members under names the spine
does not lead to change nothing. -/
theorem decoys_ignored_epub (a extra : Archive) (x : Docs)
    (h : ∀ m ∈ extra, m.1 ∉ epubConsulted (lookup a) x) : epubOpen (a ++ extra) x = epubOpen a x :=
  epubOpenL_congr (lookup a) (lookup (a ++ extra)) x (agree_of_avoid h)

/-! ### count_is_declared_readable -/

theorem eq_of_nonEmpty {α : Type} [DecidableEq α] {l parts : List α}
    (h : (if l = [] then none else some l) = some parts) : parts = l := by
  split at h
  · cases h
  · cases h
    rfl

theorem count_is_declared_readable_xlsx (a : Archive) (x : Docs) (rels sheets : List (Str × Str))
    (parts : List SheetPart) (h : xlsxDeclared (lookup a) x = some (rels, sheets))
    (ho : xlsxOpen a x = some parts) :
    parts.length = sheets.zipIdx.countP (fun e => (xlsxSpecPart a x rels e).isSome) := by
  rw [parts_follow_declaration_xlsx a x rels sheets h] at ho
  rw [eq_of_nonEmpty ho, length_filterMap_eq_countP]

theorem count_is_declared_readable_pptx (a : Archive) (x : Docs) (declared : List Str)
    (parts : List SlidePart) (h : pptxDeclared (lookup a) x = some declared) (hne : declared ≠ [])
    (ho : pptxOpen a x = some parts) :
    parts.length = declared.zipIdx.countP (fun e => (pptxSpecPart a x e).isSome) := by
  rw [parts_follow_declaration_pptx a x declared h hne] at ho
  rw [eq_of_nonEmpty ho, length_filterMap_eq_countP]

theorem count_is_declared_readable_epub (a : Archive) (x : Docs) (base : Str) (manifest : List (Str × Str))
    (spine : List Str) (parts : List ChapterPart)
    (h : epubDeclared (lookup a) x = some (base, manifest, spine)) (ho : epubOpen a x = some parts) :
    parts.length = spine.zipIdx.countP (fun e => (epubSpecPart a base manifest e).isSome) := by
  rw [parts_follow_declaration_epub a x base manifest spine h] at ho
  rw [eq_of_nonEmpty ho, length_filterMap_eq_countP]

/-! ### text_stays_in_its_page (model level: a page is the content id of one part) -/

/-- XLSX: something is a presented page iff it is the content of a declared entry (with
that entry's position as `Sheet.Index` and its declared name), resolved and readable.
Hence every declared readable part has its page and no page holds anything else. -/
theorem text_stays_in_its_page_xlsx (a : Archive) (x : Docs) (rels sheets : List (Str × Str))
    (parts : List SheetPart) (h : xlsxDeclared (lookup a) x = some (rels, sheets))
    (ho : xlsxOpen a x = some parts) (p : SheetPart) :
    p ∈ parts ↔ ∃ e ∈ sheets.zipIdx, xlsxSpecPart a x rels e = some p := by
  rw [parts_follow_declaration_xlsx a x rels sheets h] at ho
  rw [eq_of_nonEmpty ho, List.mem_filterMap]

theorem text_stays_in_its_page_pptx (a : Archive) (x : Docs) (declared : List Str)
    (parts : List SlidePart) (h : pptxDeclared (lookup a) x = some declared) (hne : declared ≠ [])
    (ho : pptxOpen a x = some parts) (p : SlidePart) :
    p ∈ parts ↔ ∃ e ∈ declared.zipIdx, pptxSpecPart a x e = some p := by
  rw [parts_follow_declaration_pptx a x declared h hne] at ho
  rw [eq_of_nonEmpty ho, List.mem_filterMap]

theorem text_stays_in_its_page_epub (a : Archive) (x : Docs) (base : Str) (manifest : List (Str × Str))
    (spine : List Str) (parts : List ChapterPart)
    (h : epubDeclared (lookup a) x = some (base, manifest, spine)) (ho : epubOpen a x = some parts)
    (p : ChapterPart) :
    p ∈ parts ↔ ∃ e ∈ spine.zipIdx, epubSpecPart a base manifest e = some p := by
  rw [parts_follow_declaration_epub a x base manifest spine h] at ho
  rw [eq_of_nonEmpty ho, List.mem_filterMap]

/-! ### the three formats together -/

/-- **parts_follow_declaration** — for each format the presented part list is
`declared.filterMap (lookup archive ∘ resolve)` (non-empty, else `Open` fails). -/
theorem parts_follow_declaration (a : Archive) (x : Docs) :
    (∀ rels sheets, xlsxDeclared (lookup a) x = some (rels, sheets) →
      xlsxOpen a x = (let parts := sheets.zipIdx.filterMap (xlsxSpecPart a x rels)
                      if parts = [] then none else some parts)) ∧
    (∀ declared, pptxDeclared (lookup a) x = some declared → declared ≠ [] →
      pptxOpen a x = (let parts := declared.zipIdx.filterMap (pptxSpecPart a x)
                      if parts = [] then none else some parts)) ∧
    (∀ base manifest spine, epubDeclared (lookup a) x = some (base, manifest, spine) →
      epubOpen a x = (let parts := spine.zipIdx.filterMap (epubSpecPart a base manifest)
                      if parts = [] then none else some parts)) :=
  ⟨parts_follow_declaration_xlsx a x, parts_follow_declaration_pptx a x, parts_follow_declaration_epub a x⟩

/-- **decoys_ignored** — adding unreferenced members changes nothing. -/
theorem decoys_ignored (a extra : Archive) (x : Docs) :
    ((∀ m ∈ extra, m.1 ∉ xlsxConsulted (lookup a) x) → xlsxOpen (a ++ extra) x = xlsxOpen a x) ∧
    (pptxDeclared (lookup a) x ≠ some [] → (∀ m ∈ extra, m.1 ∉ pptxConsulted (lookup a) x) →
      pptxOpen (a ++ extra) x = pptxOpen a x) ∧
    ((∀ m ∈ extra, m.1 ∉ epubConsulted (lookup a) x) → epubOpen (a ++ extra) x = epubOpen a x) :=
  ⟨decoys_ignored_xlsx a extra x, decoys_ignored_pptx a extra x, decoys_ignored_epub a extra x⟩

/-- non-vacuity of `decoys_ignored` for PPTX: the left-over `ppt/slides/slide9.xml` of
`exArchive` is not consulted -/
example : ([112, 112, 116, 47, 115, 108, 105, 100, 101, 115, 47, 115, 108, 105, 100, 101, 57, 46, 120, 109, 108] : Str)
    ∉ pptxConsulted (lookup exArchive) exDocs := by decide

/-- **count_is_declared_readable** — the reported count is the number of declared
entries that resolve to a readable part. -/
theorem count_is_declared_readable (a : Archive) (x : Docs) :
    (∀ rels sheets parts, xlsxDeclared (lookup a) x = some (rels, sheets) → xlsxOpen a x = some parts →
      parts.length = sheets.zipIdx.countP (fun e => (xlsxSpecPart a x rels e).isSome)) ∧
    (∀ declared parts, pptxDeclared (lookup a) x = some declared → declared ≠ [] → pptxOpen a x = some parts →
      parts.length = declared.zipIdx.countP (fun e => (pptxSpecPart a x e).isSome)) ∧
    (∀ base manifest spine parts, epubDeclared (lookup a) x = some (base, manifest, spine) →
      epubOpen a x = some parts →
      parts.length = spine.zipIdx.countP (fun e => (epubSpecPart a base manifest e).isSome)) :=
  ⟨fun rels sheets parts => count_is_declared_readable_xlsx a x rels sheets parts,
   fun declared parts => count_is_declared_readable_pptx a x declared parts,
   fun base manifest spine parts => count_is_declared_readable_epub a x base manifest spine parts⟩

/-! ### href_resolution -/

/-- `resolveHref base (pctEncode p) = path.Join(base, p)` for every byte string `p`
(every byte, `+`, space, `%`, `/`, non-ASCII included) and every base. -/
theorem href_resolution (base p : Str) (hp : ∀ b ∈ p, b < 256) :
    resolveHref base (pctEncode p) = join2 base p := by
  unfold resolveHref
  rw [pathUnescape_pctEncode p hp]

/-- the same for the usual href spelling that leaves `/`, `+` and the other
sub-delimiters unescaped: a literal `+` stays a `+` (the B16 regression) -/
theorem href_resolution_literal_plus (base p : Str) (hp : ∀ b ∈ p, b < 256) :
    resolveHref base (pctEncodePath p) = join2 base p := by
  unfold resolveHref
  rw [pathUnescape_pctEncodePath p hp]

/-- non-vacuity and the shape of `join2`: `OEBPS` + `../x/./y.xhtml` is `x/y.xhtml`;
`c+1.xhtml` and `c%2B1.xhtml` both denote `OEBPS/c+1.xhtml`; with the package
document in the root `./c+1.xhtml` and `t/../c2` are normalised too. -/
example : join2 [79, 69, 66, 80, 83] [46, 46, 47, 120, 47, 46, 47, 121, 46, 120, 104, 116, 109, 108]
    = [120, 47, 121, 46, 120, 104, 116, 109, 108] := by decide
example : resolveHref [79, 69, 66, 80, 83] [99, 43, 49, 46, 120, 104, 116, 109, 108]
    = [79, 69, 66, 80, 83, 47, 99, 43, 49, 46, 120, 104, 116, 109, 108] := by decide
example : resolveHref [79, 69, 66, 80, 83] [99, 37, 50, 66, 49, 46, 120, 104, 116, 109, 108]
    = [79, 69, 66, 80, 83, 47, 99, 43, 49, 46, 120, 104, 116, 109, 108] := by decide
example : resolveHref [] [46, 47, 99, 43, 49, 46, 120, 104, 116, 109, 108]
    = [99, 43, 49, 46, 120, 104, 116, 109, 108] := by decide
example : resolveHref [] [116, 47, 46, 46, 47, 99, 50] = [99, 50] := by decide
example : pctEncode [97, 32, 98, 43] = [97, 37, 50, 48, 98, 37, 50, 66] := by decide

/-! ### concrete packages: declared order ≠ file-name order ≠ ZIP order -/

/-- slide2 comes first because the slide list says so, although slide1.xml has the
smaller number and the earlier ZIP position; the undeclared slide9.xml is not a slide -/
theorem pptx_declared_order_example : pptxOpen exArchive exDocs = some [(0, 12), (1, 11)] := by decide

/-- without a slide list (content id 2 opaque ⇒ here: a presentation without
`sldIdLst`) the reader falls back to file-name discovery in slide-number order -/
theorem pptx_fallback_is_file_name_order :
    pptxOpen exArchive (fun c => if c = 2 then .presentation none else exDocs c)
      = some [(0, 11), (1, 12), (2, 19)] := by decide

/-- hypotheses of the PPTX theorems are satisfiable -/
example : pptxDeclared (lookup exArchive) exDocs
    = some [[112, 112, 116, 47, 115, 108, 105, 100, 101, 115, 47, 115, 108, 105, 100, 101, 50, 46, 120, 109, 108],
            [112, 112, 116, 47, 115, 108, 105, 100, 101, 115, 47, 115, 108, 105, 100, 101, 49, 46, 120, 109, 108]] := by decide

/-- XLSX: workbook declares `Two` (→ worksheets/sheet2.xml) before `One`
(→ /xl/worksheets/sheet1.xml); a left-over third sheet part is ignored -/
theorem xlsx_declared_order_example :
    xlsxOpen
      [(sCT, 1), ([120, 108, 47, 119, 111, 114, 107, 115, 104, 101, 101, 116, 115, 47, 115, 104, 101, 101, 116, 49, 46, 120, 109, 108], 11),
       (sWorkbook, 2), (sXlRels, 3),
       ([120, 108, 47, 119, 111, 114, 107, 115, 104, 101, 101, 116, 115, 47, 115, 104, 101, 101, 116, 50, 46, 120, 109, 108], 12),
       ([120, 108, 47, 119, 111, 114, 107, 115, 104, 101, 101, 116, 115, 47, 115, 104, 101, 101, 116, 51, 46, 120, 109, 108], 13)]
      (fun c =>
        if c = 2 then .workbook [([84, 119, 111], [114, 66]), ([79, 110, 101], [114, 65])]
        else if c = 3 then .rels [([114, 65], [47, 120, 108, 47, 119, 111, 114, 107, 115, 104, 101, 101, 116, 115, 47, 115, 104, 101, 101, 116, 49, 46, 120, 109, 108]),
            ([114, 66], [119, 111, 114, 107, 115, 104, 101, 101, 116, 115, 47, 115, 104, 101, 101, 116, 50, 46, 120, 109, 108])]
        else if c = 11 ∨ c = 12 ∨ c = 13 then .sheet else .opaque)
      = some [(0, 12, [84, 119, 111]), (1, 11, [79, 110, 101])] := by decide

/-- EPUB: package document `OEBPS/content.opf`; spine `[i2, i1]`; `i2 ↦ ch/c+1.xhtml`
(literal `+`), `i1 ↦ ch/../c%2B1.xhtml`-style detour is covered by `href_resolution`;
here `i1 ↦ c1`. A manifest item that is not in the spine (`i3`) is not a chapter. -/
theorem epub_declared_order_example :
    epubOpen
      [([79, 69, 66, 80, 83, 47, 99, 49], 11), (sContainer, 1),
       ([79, 69, 66, 80, 83, 47, 99, 104, 47, 99, 43, 49, 46, 120, 104, 116, 109, 108], 12),
       ([79, 69, 66, 80, 83, 47, 99, 50], 13),
       ([79, 69, 66, 80, 83, 47, 99, 111, 110, 116, 101, 110, 116, 46, 111, 112, 102], 2)]
      (fun c =>
        if c = 1 then .container [([79, 69, 66, 80, 83, 47, 99, 111, 110, 116, 101, 110, 116, 46, 111, 112, 102], sOebps)]
        else if c = 2 then .opf [([105, 49], [99, 49]), ([105, 50], [99, 104, 47, 99, 43, 49, 46, 120, 104, 116, 109, 108]),
            ([105, 51], [99, 50])] [[105, 50], [105, 49]]
        else .opaque)
      = some [(0, 12, [79, 69, 66, 80, 83, 47, 99, 104, 47, 99, 43, 49, 46, 120, 104, 116, 109, 108], [105, 50]),
              (1, 11, [79, 69, 66, 80, 83, 47, 99, 49], [105, 49])] := by decide

end Tabula.C18
