import TabulaModel.Props.C11Exact

/-!
# C11, further all-input laws of the filter

Laws of `HF.filterFragments` / `HF.excludePage` the property relies on and that were so far only
stated in comments of the model or compared by the differential run:

* the filter depends on the detected regions only as SETS (the order in which
  `findRepeatingPatterns` returns them — Go map iteration followed by an unstable sort — and
  duplicates are irrelevant), and only on the regions that list the page;
* a page no region lists is returned unchanged; a page that carries none of the detected
  patterns in the band of its kind is returned unchanged;
* more regions can only remove more (anti-monotone, as a sublist statement);
* what a region matches depends on the fragment text only through its trimmed, digit-normalised
  form; the horizontal position, width and font size of a fragment play no role in the filter;
* a document below the configured `MinPages` is returned unchanged.
-/

namespace Tabula.C11More
open Tabula.HF Tabula.C11 Tabula.C11Exact

/-! ## The filter sees the regions only through `isInHeaderFooter` -/

/-- two results that judge every fragment alike (and carry the same configuration) filter every
page alike — word-level and character-level -/
theorem filterFragments_congr (res res' : Result) (idx : Int) (hcfg : res.cfg = res'.cfg)
    (h : ∀ b f, isInHeaderFooter res idx b f = isInHeaderFooter res' idx b f)
    (fs : List Frag) (ph : Rat) :
    filterFragments res idx fs ph = filterFragments res' idx fs ph := by
  have hfun : isInHeaderFooter res idx = isInHeaderFooter res' idx :=
    funext fun b => funext fun f => h b f
  have hl : lineRemoved res idx = lineRemoved res' idx := by
    funext b g
    unfold lineRemoved
    rw [hfun]
  unfold filterFragments removedLines
  rw [hl, hfun, hcfg]

example : ∀ b f, isInHeaderFooter (detect defaultConfig exDoc) 0 b f =
    isInHeaderFooter (detect defaultConfig exDoc) 0 b f := fun _ _ => rfl

/-- the judgement depends on the header and footer lists only as sets -/
theorem isInHeaderFooter_congr (res res' : Result)
    (hh : ∀ r, r ∈ res.headers ↔ r ∈ res'.headers) (hf : ∀ r, r ∈ res.footers ↔ r ∈ res'.footers)
    (idx : Int) (b : Bands) (f : Frag) :
    isInHeaderFooter res idx b f = isInHeaderFooter res' idx b f := by
  rw [Bool.eq_iff_iff]
  simp only [isInHeaderFooter, Bool.or_eq_true, List.any_eq_true, hh, hf]

/-- **filter_regions_as_sets.** Two detection results with the same configuration whose header
lists have the same members and whose footer lists have the same members filter every page of
every kind identically: order and multiplicity of the regions are irrelevant. -/
theorem filter_regions_as_sets (res res' : Result) (hcfg : res.cfg = res'.cfg)
    (hh : ∀ r, r ∈ res.headers ↔ r ∈ res'.headers) (hf : ∀ r, r ∈ res.footers ↔ r ∈ res'.footers)
    (idx : Int) (fs : List Frag) (ph : Rat) :
    filterFragments res idx fs ph = filterFragments res' idx fs ph :=
  filterFragments_congr res res' idx hcfg (isInHeaderFooter_congr res res' hh hf idx) fs ph

/-- **filter_region_order_irrelevant.** The claim in the comment of `HF.findRepeatingPatterns`:
whatever order the map iteration and the unstable confidence sort leave the regions in, the
filter's result is the same. -/
theorem filter_region_order_irrelevant (hs hs' ft ft' : List Region) (cfg : Config)
    (hp : hs'.Perm hs) (fp : ft'.Perm ft) (idx : Int) (fs : List Frag) (ph : Rat) :
    filterFragments ⟨hs', ft', cfg⟩ idx fs ph = filterFragments ⟨hs, ft, cfg⟩ idx fs ph :=
  filter_regions_as_sets ⟨hs', ft', cfg⟩ ⟨hs, ft, cfg⟩ rfl (fun _ => hp.mem_iff) (fun _ => fp.mem_iff) idx fs ph

example : ([1, 2] : List Nat).Perm [2, 1] := by decide

/-- a region listed twice acts like the region listed once -/
theorem filter_region_duplicates_irrelevant (hs ft : List Region) (cfg : Config)
    (idx : Int) (fs : List Frag) (ph : Rat) :
    filterFragments ⟨hs ++ hs, ft ++ ft, cfg⟩ idx fs ph = filterFragments ⟨hs, ft, cfg⟩ idx fs ph :=
  filter_regions_as_sets ⟨hs ++ hs, ft ++ ft, cfg⟩ ⟨hs, ft, cfg⟩ rfl (fun r => by simp) (fun r => by simp) idx fs ph

/-! ## Only the regions that list the page act on it -/

/-- the detection result cut down to the regions that list page `idx` -/
def restrictTo (res : Result) (idx : Int) : Result :=
  ⟨res.headers.filter (fun r => r.pages.contains idx),
   res.footers.filter (fun r => r.pages.contains idx), res.cfg⟩

/-- **filter_only_listing_regions.** Filtering page `idx` with a detection result is filtering it
with the regions that list `idx`; all other regions are without effect on that page. -/
theorem filter_only_listing_regions (res : Result) (idx : Int) (fs : List Frag) (ph : Rat) :
    filterFragments res idx fs ph = filterFragments (restrictTo res idx) idx fs ph := by
  apply filterFragments_congr res (restrictTo res idx) idx rfl
  intro b f
  rw [Bool.eq_iff_iff]
  simp only [restrictTo, isInHeaderFooter, Bool.or_eq_true, List.any_eq_true, List.mem_filter,
    regionHits, Bool.and_eq_true]
  constructor
  · rintro (⟨r, hr, ⟨hp, hb⟩, hm⟩ | ⟨r, hr, ⟨hp, hb⟩, hm⟩)
    · exact Or.inl ⟨r, ⟨hr, hp⟩, ⟨hp, hb⟩, hm⟩
    · exact Or.inr ⟨r, ⟨hr, hp⟩, ⟨hp, hb⟩, hm⟩
  · rintro (⟨r, ⟨hr, _⟩, h⟩ | ⟨r, ⟨hr, _⟩, h⟩)
    · exact Or.inl ⟨r, hr, h⟩
    · exact Or.inr ⟨r, hr, h⟩

/-- **unlisted_page_unchanged.** A page that no region of the result lists is returned unchanged,
whatever it contains and wherever — word-level or character-level. -/
theorem unlisted_page_unchanged (res : Result) (idx : Int)
    (h : ∀ r, r ∈ res.headers ∨ r ∈ res.footers → idx ∉ r.pages) (fs : List Frag) (ph : Rat) :
    filterFragments res idx fs ph = fs := by
  rw [filter_only_listing_regions]
  apply filterFragments_no_regions
  · simp only [restrictTo]
    apply List.filter_eq_nil_iff.mpr
    intro r hr
    simpa [List.contains_iff_mem] using h r (Or.inl hr)
  · simp only [restrictTo]
    apply List.filter_eq_nil_iff.mpr
    intro r hr
    simpa [List.contains_iff_mem] using h r (Or.inr hr)

/-- the regions detected on `exDoc` list pages 0, 1, 2 only: page 7 is listed by none -/
example : ∀ r, r ∈ (detect defaultConfig exDoc).headers ∨ r ∈ (detect defaultConfig exDoc).footers →
    (7 : Int) ∉ r.pages := by
  have h1 : ∀ r ∈ (detect defaultConfig exDoc).headers, (7 : Int) ∉ r.pages := by decide +kernel
  have h2 : ∀ r ∈ (detect defaultConfig exDoc).footers, (7 : Int) ∉ r.pages := by decide +kernel
  intro r hr
  rcases hr with hr | hr
  · exact h1 r hr
  · exact h2 r hr

/-- **page_without_detected_text_unchanged.** Exclusion returns a page unchanged if, for each kind
of band, no page of that index carries (after line assembly) a fragment in the band whose trimmed,
digit-normalised text is the pattern of a detected region of that kind: the cover page or chapter
opener without the running header stays as it is, even though the header is detected elsewhere. -/
theorem page_without_detected_text_unchanged (cfg : Config) (pages : List Page) (p : Page)
    (h : ∀ k, ∀ r ∈ (detect cfg pages).regions k,
      ¬ ∃ q ∈ preprocessPages pages, q.index = p.index ∧
        ∃ f ∈ q.frags, inRegion k (bands cfg q.frags q.height) f = true ∧
          normalize (trimSpace f.text) = r.pattern) :
    excludePage cfg pages p = p.frags := by
  unfold excludePage
  apply unlisted_page_unchanged
  intro r hr hi
  rcases hr with hr | hr
  · exact h .header r hr ((region_pages_exact cfg pages .header r hr p.index).mp hi)
  · exact h .footer r hr ((region_pages_exact cfg pages .footer r hr p.index).mp hi)

/-- `exDoc` followed by a page that has body text only -/
def coverDoc : List Page :=
  exDoc ++ [{ index := 3, height := 792,
              frags := [{ text := [66, 111, 100, 121], x := 72, y := 400, w := 40, h := 12, fs := 12 }] }]

/-- the hypothesis is satisfiable with regions present: both bands of `coverDoc` have a detected
region, and page 3 carries neither pattern -/
example : (detect defaultConfig coverDoc).regions .header ≠ [] ∧
    (detect defaultConfig coverDoc).regions .footer ≠ [] ∧
    (∀ r ∈ (detect defaultConfig coverDoc).regions .header,
      ¬ ∃ q ∈ preprocessPages coverDoc, q.index = 3 ∧
        ∃ f ∈ q.frags, inRegion .header (bands defaultConfig q.frags q.height) f = true ∧
          normalize (trimSpace f.text) = r.pattern) ∧
    (∀ r ∈ (detect defaultConfig coverDoc).regions .footer,
      ¬ ∃ q ∈ preprocessPages coverDoc, q.index = 3 ∧
        ∃ f ∈ q.frags, inRegion .footer (bands defaultConfig q.frags q.height) f = true ∧
          normalize (trimSpace f.text) = r.pattern) := by
  refine ⟨by decide +kernel, by decide +kernel, by decide +kernel, by decide +kernel⟩

/-! ## More regions remove more -/

theorem filter_sublist_filter {α : Type} (p q : α → Bool) (h : ∀ a, p a = true → q a = true) :
    ∀ l : List α, (l.filter p).Sublist (l.filter q)
  | [] => List.Sublist.slnil
  | a :: l => by
    have ih := filter_sublist_filter p q h l
    cases hp : p a with
    | true =>
      rw [List.filter_cons_of_pos hp, List.filter_cons_of_pos (h a hp)]
      exact ih.cons₂ a
    | false =>
      rw [List.filter_cons_of_neg (by simp [hp])]
      cases hq : q a with
      | true => rw [List.filter_cons_of_pos hq]; exact ih.cons a
      | false => rw [List.filter_cons_of_neg (by simp [hq])]; exact ih

example : ∀ a : Nat, (fun n => decide (n < 2)) a = true → (fun n => decide (n < 5)) a = true := by
  intro a h; simp at h ⊢; omega

/-- a fragment judged a header or footer stays one when regions are added -/
theorem hit_mono (res res' : Result) (hh : ∀ r ∈ res.headers, r ∈ res'.headers)
    (hf : ∀ r ∈ res.footers, r ∈ res'.footers) (idx : Int) (b : Bands) (l : Frag) :
    Hit res idx b l → Hit res' idx b l := by
  rintro ⟨k, r, hr, rest⟩
  refine ⟨k, r, ?_, rest⟩
  cases k with
  | header => exact hh r hr
  | footer => exact hf r hr

/-- **removed_mono.** What is removed with fewer regions is removed with more. -/
theorem removed_mono (res res' : Result) (hcfg : res.cfg = res'.cfg)
    (hh : ∀ r ∈ res.headers, r ∈ res'.headers) (hf : ∀ r ∈ res.footers, r ∈ res'.footers)
    (idx : Int) (fs : List Frag) (ph : Rat) (f : Frag) :
    Removed res idx fs ph f → Removed res' idx fs ph f := by
  unfold Removed
  rw [hcfg]
  rintro (⟨hc, h⟩ | ⟨hc, g, hg, hfg, l, hl, h⟩)
  · exact Or.inl ⟨hc, hit_mono res res' hh hf _ _ _ h⟩
  · exact Or.inr ⟨hc, g, hg, hfg, l, hl, hit_mono res res' hh hf _ _ _ h⟩

/-- **more_regions_remove_more.** If every region of `res` is a region of `res'` (same
configuration), the page filtered with `res'` is a sublist of the page filtered with `res`:
e.g. excluding headers and footers keeps a sublist of what excluding headers alone keeps. -/
theorem more_regions_remove_more (res res' : Result) (hcfg : res.cfg = res'.cfg)
    (hh : ∀ r ∈ res.headers, r ∈ res'.headers) (hf : ∀ r ∈ res.footers, r ∈ res'.footers)
    (idx : Int) (fs : List Frag) (ph : Rat) :
    (filterFragments res' idx fs ph).Sublist (filterFragments res idx fs ph) := by
  rw [filterFragments_eq, filterFragments_eq]
  apply filter_sublist_filter
  intro f h'
  cases hr : isRemoved res idx fs ph f with
  | false => rfl
  | true =>
    have := (isRemoved_iff res' idx fs ph f).mpr
      (removed_mono res res' hcfg hh hf idx fs ph f ((isRemoved_iff res idx fs ph f).mp hr))
    simp [this] at h'

/-- headers only against headers and footers: the hypotheses hold -/
example : let res' := detect defaultConfig exDoc
    let res : Result := ⟨res'.headers, [], res'.cfg⟩
    res.cfg = res'.cfg ∧ (∀ r ∈ res.headers, r ∈ res'.headers) ∧ (∀ r ∈ res.footers, r ∈ res'.footers) := by
  refine ⟨rfl, fun r hr => hr, fun r hr => ?_⟩
  cases hr

/-! ## What a region matches -/

/-- **textsMatch_plain_iff.** For a region that is not a page-number region, `textsMatch` holds
exactly if the trimmed texts agree after digit normalisation (the literal comparison the code
tries first is subsumed). -/
theorem textsMatch_plain_iff (f r : Str) :
    textsMatch f r false = true ↔ normalize (trimSpace f) = normalize (trimSpace r) := by
  simp only [textsMatch, Bool.false_eq_true, if_false, Bool.or_eq_true, beq_iff_eq]
  constructor
  · rintro (h | h)
    · rw [h]
    · exact h
  · exact Or.inr

/-- `(*HeaderFooterRegion).matches` in closed form: a function of the trimmed, digit-normalised
fragment text alone -/
theorem regionMatches_eq (r : Region) (t : Str) :
    regionMatches r t =
      if r.isPageNumber then
        (isPageNumberPattern (normalize (trimSpace t)) ||
          (!r.pattern.isEmpty && normalize (trimSpace t) == r.pattern))
      else normalize (trimSpace t) == normalize (trimSpace r.text) := by
  cases hpn : r.isPageNumber with
  | true => simp [regionMatches, textsMatch, hpn]
  | false =>
    have h1 : textsMatch t r.text false = (normalize (trimSpace t) == normalize (trimSpace r.text)) := by
      rw [Bool.eq_iff_iff, textsMatch_plain_iff, beq_iff_eq]
    simp [regionMatches, hpn, h1]

/-- **regionMatches_digit_blind.** Every region treats two texts alike whose trimmed forms agree
up to their digit runs ("Page 3" and "Page 12", "ACME 2023" and "ACME 2024"). -/
theorem regionMatches_digit_blind (r : Region) (t1 t2 : Str)
    (h : normalize (trimSpace t1) = normalize (trimSpace t2)) :
    regionMatches r t1 = regionMatches r t2 := by
  rw [regionMatches_eq, regionMatches_eq, h]

example : normalize (trimSpace [80, 97, 103, 101, 32, 51]) =
    normalize (trimSpace [32, 80, 97, 103, 101, 32, 49, 50, 32]) := by decide +kernel

/-- surrounding white space of the fragment text is irrelevant -/
theorem regionMatches_trim_blind (r : Region) (t : Str) :
    regionMatches r (trimSpace t) = regionMatches r t :=
  regionMatches_digit_blind r _ _ (by rw [trimSpace_idem])

/-- **judged_by_place_and_pattern.** The judgement of a fragment (or assembled line) depends only
on its vertical place (`y`, `h`) and on its trimmed, digit-normalised text: horizontal position,
width and font size play no role in the filter (they do in detection, `hasConsistentPosition`). -/
theorem judged_by_place_and_pattern (res : Result) (idx : Int) (b : Bands) (f1 f2 : Frag)
    (hy : f1.y = f2.y) (hh : f1.h = f2.h)
    (ht : normalize (trimSpace f1.text) = normalize (trimSpace f2.text)) :
    isInHeaderFooter res idx b f1 = isInHeaderFooter res idx b f2 := by
  have e1 : inTop b f1 = inTop b f2 := by unfold inTop distTop; rw [hy, hh]
  have e2 : inBottom b f1 = inBottom b f2 := by unfold inBottom distBottom; rw [hy, hh]
  have e3 : ∀ r, regionMatches r f1.text = regionMatches r f2.text :=
    fun r => regionMatches_digit_blind r _ _ ht
  have e4 : ∀ ib, regionHits idx ib f1 = regionHits idx ib f2 := by
    intro ib; funext r; simp only [regionHits, e3]
  unfold isInHeaderFooter
  rw [e1, e2, e4, e4]

example : let f1 : Frag := { text := [51], x := 300, y := 30, w := 7, h := 12, fs := 12 }
    let f2 : Frag := { text := [49, 50], x := 20, y := 30, w := 14, h := 12, fs := 9 }
    f1.y = f2.y ∧ f1.h = f2.h ∧ normalize (trimSpace f1.text) = normalize (trimSpace f2.text) := by
  decide +kernel

/-- **page_number_region_hits.** A page-number region of a result removes, on every page it lists,
every fragment in its band whose trimmed, digit-normalised text is one of the page-number
patterns — whatever number the fragment shows. -/
theorem page_number_region_hits (res : Result) (idx : Int) (b : Bands) (f : Frag) (k : Kind) (r : Region)
    (hr : r ∈ res.regions k) (hpn : r.isPageNumber = true) (hi : idx ∈ r.pages)
    (hb : inRegion k b f = true) (hp : isPageNumberPattern (normalize (trimSpace f.text)) = true) :
    isInHeaderFooter res idx b f = true :=
  isInHeaderFooter_eq_true.mpr ⟨k, r, hr, hi, hb, by rw [regionMatches_eq]; simp [hpn, hp]⟩

/-- the footer region of `exDoc` is a page-number region listing page 1, and "- 57 -" is a
page-number pattern after normalisation -/
example : (∃ r ∈ (detect defaultConfig exDoc).regions .footer, r.isPageNumber = true ∧ (1 : Int) ∈ r.pages) ∧
    isPageNumberPattern (normalize (trimSpace [45, 32, 53, 55, 32, 45])) = true := by
  refine ⟨by decide +kernel, by decide +kernel⟩

/-! ## Character-level pages: a line goes as a whole or stays as a whole -/

/-- **charlevel_line_removed_whole.** On a character-level page, when the assembled line of a line
group is judged a header or footer, EVERY glyph of the group is missing from the filtered page —
the line is not thinned out glyph by glyph. -/
theorem charlevel_line_removed_whole (res : Result) (idx : Int) (fs : List Frag) (ph : Rat)
    (hc : isCharacterLevel fs = true) (g : List Frag) (hg : g ∈ charLines fs) (l : Frag)
    (hl : assembleLine g = some l)
    (hit : isInHeaderFooter res idx (bands res.cfg (assembleFragmentsIntoLines fs) ph) l = true) :
    ∀ f ∈ g, f ∉ filterFragments res idx fs ph := by
  intro f hf hmem
  have h1 := (mem_filterFragments.mp hmem).2
  have h2 := (isRemoved_charLevel_eq_true (res := res) (idx := idx) (ph := ph) hc).mpr ⟨g, hg, hf, l, hl, hit⟩
  rw [h2] at h1
  cases h1

example : let p := clPage 1 true
    isCharacterLevel p.frags = true ∧ ∃ g ∈ charLines p.frags, ∃ l, assembleLine g = some l ∧
      isInHeaderFooter (detect defaultConfig clDoc) 1
        (bands (detect defaultConfig clDoc).cfg (assembleFragmentsIntoLines p.frags) 792) l = true := by
  refine ⟨by decide +kernel, [{ text := [65], x := 72, y := 760, w := 6, h := 12, fs := 12 },
    { text := [98], x := 78, y := 760, w := 6, h := 12, fs := 12 },
    { text := [99], x := 84, y := 760, w := 6, h := 12, fs := 12 }], by decide +kernel,
    { text := [65, 98, 99], x := 72, y := 760, w := 18, h := 12, fs := 12 }, by decide +kernel, by decide +kernel⟩

/-- **charlevel_line_kept_whole.** Conversely, when no line group containing the glyph has an
assembled line that is judged a header or footer, the glyph stays: a glyph is never removed on
account of its own position. -/
theorem charlevel_line_kept_whole (res : Result) (idx : Int) (fs : List Frag) (ph : Rat)
    (hc : isCharacterLevel fs = true) (f : Frag) (hf : f ∈ fs)
    (h : ∀ g ∈ charLines fs, f ∈ g → ∀ l, assembleLine g = some l →
      isInHeaderFooter res idx (bands res.cfg (assembleFragmentsIntoLines fs) ph) l = false) :
    f ∈ filterFragments res idx fs ph := by
  rw [mem_filterFragments]
  refine ⟨hf, ?_⟩
  cases hr : isRemoved res idx fs ph f with
  | false => rfl
  | true =>
    obtain ⟨g, hg, hfg, l, hl, hit⟩ := (isRemoved_charLevel_eq_true hc).mp hr
    rw [h g hg hfg l hl] at hit
    cases hit

/-- with no regions at all the hypothesis holds for every glyph of the character-level witness -/
example : let p := clPage 1 true
    isCharacterLevel p.frags = true ∧ ∀ f ∈ p.frags, ∀ g ∈ charLines p.frags, f ∈ g → ∀ l, assembleLine g = some l →
      isInHeaderFooter ⟨[], [], defaultConfig⟩ 1
        (bands defaultConfig (assembleFragmentsIntoLines p.frags) 792) l = false := by
  refine ⟨by decide +kernel, fun f _ g _ _ l _ => isInHeaderFooter_no_regions rfl rfl _ _ _⟩

/-! ## Page-number patterns are recognised regardless of ASCII case -/

theorem lowerAscii_idem (c : Nat) : lowerAscii (lowerAscii c) = lowerAscii c := by
  unfold lowerAscii
  by_cases h : 65 ≤ c ∧ c ≤ 90
  · have h2 : ¬(65 ≤ c + 32 ∧ c + 32 ≤ 90) := by omega
    rw [if_pos h, if_neg h2]
  · rw [if_neg h, if_neg h]

/-- **isPageNumberPattern_case_blind.** Two texts whose trimmed forms agree up to ASCII case are
both page-number patterns or both not ("PAGE #" like "page #"). -/
theorem isPageNumberPattern_case_blind (t1 t2 : Str)
    (h : (trimSpace t1).map lowerAscii = (trimSpace t2).map lowerAscii) :
    isPageNumberPattern t1 = isPageNumberPattern t2 := by
  have e : equalFoldAscii (trimSpace t1) = equalFoldAscii (trimSpace t2) := by
    funext p
    simp only [equalFoldAscii, h]
  unfold isPageNumberPattern
  rw [e]

example : (trimSpace [80, 65, 71, 69, 32, 35]).map lowerAscii = (trimSpace [112, 97, 103, 101, 32, 35, 32]).map lowerAscii := by
  decide +kernel

/-- lower-casing the text does not change whether it is a page-number pattern, provided trimming
commutes with it on this text (it does whenever the text is ASCII) -/
theorem isPageNumberPattern_lower (t : Str)
    (h : trimSpace (t.map lowerAscii) = (trimSpace t).map lowerAscii) :
    isPageNumberPattern (t.map lowerAscii) = isPageNumberPattern t := by
  apply isPageNumberPattern_case_blind
  rw [h, List.map_map]
  apply List.map_congr_left
  intro c _
  exact lowerAscii_idem c

example : trimSpace (([32, 80, 65, 71, 69, 32, 35] : Str).map lowerAscii) =
    (trimSpace [32, 80, 65, 71, 69, 32, 35]).map lowerAscii := by decide +kernel

/-! ## Below the configured `MinPages` -/

/-- **below_minPages_identity.** A document with fewer pages than the configured `MinPages` is
returned unchanged, for every configuration (generalises `C11.single_page_identity`, which is the
case `MinPages ≤ 2`, to every threshold). -/
theorem below_minPages_identity (cfg : Config) (pages : List Page) (h : pages.length < cfg.minPages)
    (p : Page) : excludePage cfg pages p = p.frags := by
  unfold excludePage
  apply filterFragments_no_regions <;> simp [detect, h]

example : exDoc.length < ({ minPages := 5 } : Config).minPages := by decide

end Tabula.C11More
