import TabulaModel.Model.BoundsData
/-!
# C02 — bounded work on data-sized quantities of the PDF path

Theorems about `Model/BoundsData.lean`, each for EVERY input. Ops: `c02.ccitt`, `c02.gaps`,
`c02.topng`, `c02.jpeg`, `c02.cspace`, `c02.layout`, `c02.contents` (harness/c02/bounds_data.go).
-/
namespace Tabula.C02Data
open Tabula.BoundsData

/-! ### 1. CCITTFaxDecode -/

/-- **ccitt_output_bounded**: whatever `/Columns` and `/Rows` say and however much the decoder
could produce, at most 64 MiB + 1 bytes are read into memory; an accepted image has at most
64 MiB and is everything the decoder had; `Columns < 1` and `Rows < 0` read nothing. -/
theorem ccitt_output_bounded (columns rows : Int) (avail : Nat) :
    (ccittDecode columns rows avail).2 ≤ maxCCITTOutput + 1 ∧
    (∀ n, (ccittDecode columns rows avail).1 = .ok n → n ≤ maxCCITTOutput ∧ n = avail) ∧
    ((columns < 1 ∨ rows < 0) → ccittDecode columns rows avail = (.badParams, 0)) := by
  unfold ccittDecode
  generalize maxCCITTOutput = M
  refine ⟨?_, ?_, ?_⟩
  · split
    · simp
    · split
      · simp
      · simp only
        split <;> split <;> simp_all <;> omega
  · intro n
    split
    · simp
    · split
      · simp
      · simp only
        split <;> split <;> simp_all <;> omega
  · rintro (h | h)
    · simp [h]
    · by_cases hc : columns < 1 <;> simp [hc, h]

/-- beyond the limit the answer is the documented error -/
theorem ccitt_too_large (columns rows : Int) (avail : Nat) (hc : 1 ≤ columns) (hr : 0 ≤ rows)
    (h : maxCCITTOutput < avail) : (ccittDecode columns rows avail).1 = .tooLarge := by
  unfold ccittDecode
  generalize maxCCITTOutput = M at *
  have h1 : ¬ columns < 1 := by omega
  have h2 : ¬ rows < 0 := by omega
  have hread : (if avail > M + 1 then M + 1 else avail) > M := by split <;> omega
  simp only [h1, h2, if_false, hread, if_true]

example : ccittDecode 0 0 100 = (.badParams, 0) := by decide
example : ccittDecode 1048576 0 (2048 * 8 * 131072) = (.tooLarge, 67108865) := by decide
example : ccittDecode 8388608 64 67108864 = (.ok 67108864, 67108864) := by decide
example : ccittDecode 1728 0 216 = (.ok 216, 216) := by decide

/-! ### 2. the column histogram -/

/-- **histogram_size_bounded**: for EVERY page width the histogram has at most 2^20 buckets
(+1 for the difference array); a negative or absurd width allocates nothing. -/
theorem histogram_size_bounded (w : Int) (nb : Nat) (h : numBuckets w = some nb) :
    1 ≤ nb ∧ nb ≤ maxBuckets ∧ 0 ≤ w := by
  unfold numBuckets at h
  split at h
  · cases h
  · rename_i hw
    injection h with h
    subst h
    unfold maxBuckets at *
    omega

/-- **histogram_run_in_range**: for EVERY fragment position (negative, beyond the page, 2^62) the
two indices the repaired loop touches, `start` and `end+1`, lie inside the difference array of
`nb+1` entries: no index is out of range and the fragment costs two updates, not `end-start`. -/
theorem histogram_run_in_range (nb : Nat) (s e : Int) (a b : Nat) (h : clampRun nb s e = some (a, b)) :
    a ≤ b ∧ b + 1 < nb + 1 := by
  unfold clampRun at h
  split at h
  · rename_i hle
    simp only [Option.some.injEq, Prod.mk.injEq] at h
    obtain ⟨rfl, rfl⟩ := h
    unfold clampStart clampEnd at *
    split at hle <;> split at hle <;> omega
  · cases h

theorem bump_length (h : List Int) (i : Nat) (d : Int) : (bump h i d).length = h.length := by
  unfold bump; split <;> simp

theorem histDiff_length (nb : Nat) (frags : List (Int × Int)) (h : List Int) :
    (histDiff nb frags h).length = h.length := by
  induction frags generalizing h with
  | nil => rfl
  | cons p rest ih =>
    obtain ⟨s, e⟩ := p
    unfold histDiff
    split
    · rw [ih, bump_length, bump_length]
    · exact ih h

theorem prefixSumsGo_length (l : List Int) (acc : Int) (out : List Int) :
    (prefixSumsGo l acc out).length = l.length + out.length := by
  induction l generalizing acc out with
  | nil => simp [prefixSumsGo]
  | cons x rest ih => simp [prefixSumsGo, ih]; omega

theorem prefixSums_length (l : List Int) (acc : Int) : (prefixSums l acc).length = l.length := by
  simp [prefixSums, prefixSumsGo_length]

/-- **histogram_work_linear**: the histogram has exactly `nb` entries and is built in
`fragments + nb + 1` steps (`histSteps`), whatever the widths of the fragments: the cost is
fragments + buckets, not fragments x buckets. -/
theorem histogram_work_linear (nb : Nat) (frags : List (Int × Int)) :
    (histogram nb frags).length = nb ∧ histSteps nb frags = frags.length + nb + 1 := by
  refine ⟨?_, rfl⟩
  unfold histogram
  rw [List.length_take, prefixSums_length, histDiff_length]
  simp

/-- the sum of the entries 0..i of a list -/
def psum : List Int → Nat → Int
  | [], _ => 0
  | x :: _, 0 => x
  | x :: rest, i + 1 => x + psum rest i

theorem psum_set (h : List Int) (a i : Nat) (v x : Int) (ha : h[a]? = some v) :
    psum (h.set a x) i = psum h i + (if a ≤ i then x - v else 0) := by
  induction h generalizing a i with
  | nil => simp at ha
  | cons y rest ih =>
    cases a with
    | zero =>
      simp only [List.getElem?_cons_zero, Option.some.injEq] at ha
      subst ha
      cases i with
      | zero => simp [psum]; omega
      | succ i => simp [psum]; omega
    | succ a =>
      simp only [List.getElem?_cons_succ] at ha
      cases i with
      | zero => simp [psum]
      | succ i =>
        simp only [List.set_cons_succ, psum, ih a i ha]
        by_cases h1 : a ≤ i
        · simp [h1]; omega
        · simp [h1]

theorem psum_bump (h : List Int) (a i : Nat) (d : Int) (ha : a < h.length) :
    psum (bump h a d) i = psum h i + (if a ≤ i then d else 0) := by
  unfold bump
  have : h[a]? = some h[a] := List.getElem?_eq_getElem ha
  rw [this]
  simp only
  rw [psum_set h a i h[a] (h[a] + d) this]
  split <;> omega

theorem cover_cons (nb : Nat) (s e : Int) (rest : List (Int × Int)) (b : Nat) :
    cover nb ((s, e) :: rest) b =
      (match clampRun nb s e with
        | some (a, c) => if a ≤ b ∧ b ≤ c then 1 else 0
        | none => 0) + cover nb rest b := by
  unfold cover
  rw [List.filter_cons]
  cases hc : clampRun nb s e with
  | none => simp [hc]
  | some p =>
    obtain ⟨a, c⟩ := p
    simp only [hc]
    by_cases h : a ≤ b ∧ b ≤ c
    · simp [h]; omega
    · simp [h]

theorem psum_histDiff (nb : Nat) (frags : List (Int × Int)) (h : List Int) (hl : h.length = nb + 1)
    (b : Nat) (hb : b < nb) :
    psum (histDiff nb frags h) b = psum h b + cover nb frags b := by
  induction frags generalizing h with
  | nil => simp [histDiff, cover]
  | cons p rest ih =>
    obtain ⟨s, e⟩ := p
    rw [cover_cons]
    unfold histDiff
    cases hc : clampRun nb s e with
    | none => simp only [hc]; rw [ih h hl]; omega
    | some q =>
      obtain ⟨a, c⟩ := q
      simp only [hc]
      have hr := histogram_run_in_range nb s e a c hc
      rw [ih _ (by rw [bump_length, bump_length]; exact hl)]
      rw [psum_bump _ (c + 1) b (-1) (by rw [bump_length]; omega)]
      rw [psum_bump h a b 1 (by omega)]
      by_cases h1 : a ≤ b <;> by_cases h2 : b ≤ c <;> simp [h1, h2] <;> omega

theorem psum_replicate (n i : Nat) : psum (List.replicate n 0) i = 0 := by
  induction n generalizing i with
  | zero => simp [psum]
  | succ n ih =>
    cases i with
    | zero => simp [List.replicate_succ, psum]
    | succ i => simp [List.replicate_succ, psum, ih]

theorem range_map_cons (x : Int) (rest : List Int) (acc : Int) :
    (List.range (rest.length + 1)).map (fun i => acc + psum (x :: rest) i) =
      (acc + x) :: (List.range rest.length).map (fun i => acc + x + psum rest i) := by
  rw [List.range_succ_eq_map]
  simp only [List.map_cons, List.map_map, psum, List.cons.injEq, true_and]
  apply List.map_congr_left
  intro i _
  simp only [Function.comp, psum]
  omega

theorem prefixSumsGo_spec (l : List Int) (acc : Int) (out : List Int) :
    prefixSumsGo l acc out = out.reverse ++ (List.range l.length).map (fun i => acc + psum l i) := by
  induction l generalizing acc out with
  | nil => simp [prefixSumsGo]
  | cons x rest ih =>
    rw [prefixSumsGo, ih, List.length_cons, range_map_cons]
    simp

/-- **histogram_is_the_naive_histogram**: the repaired difference-array code computes, for EVERY
set of fragments and every number of buckets, exactly the histogram the replaced code built by
incrementing every bucket of every run: entry `b` is the number of fragments covering bucket `b`. -/
theorem histogram_is_the_naive_histogram (nb : Nat) (frags : List (Int × Int)) :
    histogram nb frags = histNaive nb frags := by
  apply List.ext_getElem?
  intro b
  by_cases hb : b < nb
  · unfold histogram histNaive prefixSums
    rw [prefixSumsGo_spec]
    have hlen : b < (histDiff nb frags (List.replicate (nb + 1) 0)).length := by
      rw [histDiff_length]; simp; omega
    simp only [List.reverse_nil, List.nil_append, List.getElem?_take, hb, if_true,
      List.getElem?_map, List.getElem?_range hlen, List.getElem?_range hb, Option.map_some,
      Int.zero_add]
    rw [psum_histDiff nb frags _ (by simp) b hb, psum_replicate]
    simp
  · have h1 : (histogram nb frags).length ≤ b := by rw [(histogram_work_linear nb frags).1]; omega
    have h2 : (histNaive nb frags).length ≤ b := by simp [histNaive]; omega
    rw [List.getElem?_eq_none h1, List.getElem?_eq_none h2]

/-- **column_gaps_bounded**: at most 5 gaps are reported for every page and every set of fragments -/
theorem column_gaps_bounded (w : Int) (frags : List (Int × Int)) : (findGaps w frags).length ≤ 5 := by
  have hcap : ∀ gaps : List (Nat × Nat), (capGaps gaps).length ≤ 5 := by
    intro gaps
    unfold capGaps
    split
    · rw [List.length_take]; omega
    · omega
  unfold findGaps
  split
  · simp
  · split
    · simp
    · unfold gapsIn
      simp only
      split
      · simp
      · exact hcap _

example : numBuckets 9223372036854775807 = none := by decide
example : numBuckets (-1) = none := by decide
example : numBuckets 5242879 = some 1048576 := by decide
example : numBuckets 5242880 = none := by decide
example : clampRun 100 (-7) 1000000 = some (0, 99) := by decide
example : histogram 6 [(0, 2), (1, 9), (4, 4)] = [1, 2, 2, 1, 2, 1] := by decide
example : histogram 6 [(0, 2), (1, 9), (4, 4)] = histNaive 6 [(0, 2), (1, 9), (4, 4)] := by decide
/-- two columns of text with a valley of 6 buckets between them -/
example : findGaps 612 [(2, 10), (2, 11), (17, 30), (18, 29)] = [(12, 17)] := by decide

/-! ### 3. images -/

/-- **image_allocation_bounded**: an image that passes the check has positive dimensions and at
most one pixel per bit of its data — for EVERY `/Width`, `/Height` (negative, 2^40, …). -/
theorem image_allocation_bounded (w h : Int) (len : Nat) (hf : imageFits w h len = true) :
    0 < w ∧ 0 < h ∧ w * h ≤ (len : Int) * 8 := by
  unfold imageFits at hf
  simp only [Bool.not_eq_true', Bool.or_eq_false_iff, decide_eq_false_iff_not, Int.not_le,
    Int.not_lt] at hf
  obtain ⟨⟨⟨hw, hh⟩, hwb⟩, hhb⟩ := hf
  refine ⟨hw, hh, ?_⟩
  have h1 : w * h ≤ w * ((len : Int) * 8 / w) := Int.mul_le_mul_of_nonneg_left hhb (by omega)
  have h2 : w * ((len : Int) * 8 / w) ≤ (len : Int) * 8 := Int.mul_ediv_self_le (by omega)
  omega

/-- **topng_pixels_bounded**: whatever `ToPNG` allocates and encodes has at most 8 pixels per byte
of image data. -/
theorem topng_pixels_bounded (cs : ImgCS) (bpc w h : Int) (len p : Nat)
    (hp : toPNG cs bpc w h len = .ok p) : p ≤ len * 8 ∧ (p : Int) = w * h := by
  unfold toPNG at hp
  split at hp
  · cases hp
  · rename_i hf
    have hf : imageFits w h len = true := by
      cases hi : imageFits w h len <;> simp_all
    obtain ⟨hw, hh, hb⟩ := image_allocation_bounded w h len hf
    have hwh : ((w.toNat * h.toNat : Nat) : Int) = w * h := by
      rw [Int.natCast_mul, Int.toNat_of_nonneg (by omega), Int.toNat_of_nonneg (by omega)]
    have hle : w.toNat * h.toNat ≤ len * 8 := by
      have : ((w.toNat * h.toNat : Nat) : Int) ≤ ((len * 8 : Nat) : Int) := by
        rw [hwh]; simpa using hb
      exact Int.ofNat_le.mp this
    simp only at hp
    split at hp
    · (repeat' split at hp) <;> first | (cases hp; exact ⟨hle, hwh⟩) | cases hp
    · (repeat' split at hp) <;> first | (cases hp; exact ⟨hle, hwh⟩) | cases hp
    · (repeat' split at hp) <;> first | (cases hp; exact ⟨hle, hwh⟩) | cases hp

/-- **jpeg_pixels_bounded**: a JPEG whose frame header passes the check announces at most 2^26 pixels -/
theorem jpeg_pixels_bounded (w h : Int) (hf : jpegFits w h = true) :
    0 < w ∧ 0 < h ∧ w * h ≤ (maxImagePixels : Int) := by
  unfold jpegFits at hf
  simp only [Bool.not_eq_true', Bool.or_eq_false_iff, decide_eq_false_iff_not, Int.not_le,
    Int.not_lt] at hf
  obtain ⟨⟨hw, hh⟩, hb⟩ := hf
  refine ⟨hw, hh, ?_⟩
  generalize (maxImagePixels : Int) = M at *
  have h1 : w * h ≤ (M / h) * h := Int.mul_le_mul_of_nonneg_right hb (by omega)
  have h2 : (M / h) * h ≤ M := Int.ediv_mul_le M (by omega)
  omega

example : imageFits (-4) 4 4 = false := by decide
example : imageFits 100000 100000 4 = false := by decide
example : imageFits 1099511627776 1099511627776 16 = false := by decide
example : toPNG .gray 8 2 2 4 = .ok 4 := rfl
example : toPNG .gray 1 8 4 4 = .ok 32 := rfl
example : toPNG .gray 1 8 5 4 = .error .fit := rfl
example : toPNG .gray 8 3 3 8 = .error .data := rfl
example : toPNG .gray 8 (-4) 4 100 = .error .fit := rfl
example : jpegFits 65535 65535 = false := by decide
example : jpegFits 8192 8192 = true := by decide
example : jpegFits 8193 8192 = false := by decide

/-- **colour_space_depth_bounded**: for EVERY object graph — an `/Indexed` space naming itself or a
cycle as its base — `parseColorSpace` ends, having followed at most 9 levels. -/
theorem colour_space_depth_bounded (g : List (Nat × CS)) (obj : CS) :
    ∃ name depth, parseColorSpace g obj = some (name, depth) ∧ depth ≤ maxColorSpaceDepth + 1 := by
  unfold parseColorSpace
  suffices h : ∀ fuel depth obj, maxColorSpaceDepth + 2 ≤ fuel + depth → depth ≤ maxColorSpaceDepth + 1 →
      ∃ name d, parseColorSpaceAt g fuel obj depth = some (name, d) ∧ d ≤ maxColorSpaceDepth + 1 from
    h _ 0 obj (by omega) (by omega)
  intro fuel
  induction fuel with
  | zero => intro depth obj h1 h2; omega
  | succ fuel ih =>
    intro depth obj h1 h2
    unfold parseColorSpaceAt
    split
    · exact ⟨0, depth, rfl, h2⟩
    · rename_i hd
      simp only
      split
      · exact ⟨0, depth, rfl, h2⟩
      · exact ⟨_, depth, rfl, h2⟩
      · exact ih (depth + 1) _ (by omega) (by omega)
      · exact ⟨3, depth, rfl, h2⟩
      · exact ⟨_, depth, rfl, h2⟩
      · exact ⟨0, depth, rfl, h2⟩

/-- the witness of 3b6b3b5 (`5 0 obj [/Indexed 5 0 R 1 (ab)]`) is DeviceGray after 9 levels; eight
nested Indexed spaces still reach their base, nine do not -/
example : parseColorSpace [(5, .indexed (.ref 5))] (.ref 5) = some (0, 9) := by decide
example : parseColorSpace []
    (.indexed (.indexed (.indexed (.indexed (.indexed (.indexed (.indexed (.indexed (.name 1))))))))) =
    some (1, 8) := by decide
example : parseColorSpace []
    (.indexed (.indexed (.indexed (.indexed (.indexed (.indexed (.indexed (.indexed (.indexed (.name 1)))))))))) =
    some (0, 9) := by decide

/-! ### 4. PreserveLayout -/

theorem clampGap_le (g : Int) : 1 ≤ clampGap g ∧ clampGap g ≤ maxGapLines := by
  unfold clampGap maxGapLines
  split
  · omega
  · split <;> omega

theorem clampCol_le (c : Int) : clampCol c ≤ maxCharsPerLine := by
  unfold clampCol maxCharsPerLine
  split
  · omega
  · split <;> omega

/-- the padding of one line adds up to at most 200 columns, wherever its fragments claim to be -/
theorem linePads_sum_le (frags : List (Int × Nat)) (cur : Nat) :
    (linePads frags cur).sum + min cur maxCharsPerLine ≤ maxCharsPerLine := by
  induction frags generalizing cur with
  | nil => simp [linePads]; omega
  | cons p rest ih =>
    obtain ⟨c, len⟩ := p
    have hc := clampCol_le c
    unfold linePads
    simp only
    split
    · have := ih (clampCol c + len)
      simp only [List.sum_cons]
      omega
    · have := ih (cur + len)
      simp only [List.sum_cons]
      omega

theorem linePads_length (frags : List (Int × Nat)) (cur : Nat) :
    (linePads frags cur).length = frags.length := by
  induction frags generalizing cur with
  | nil => rfl
  | cons p rest ih =>
    obtain ⟨c, len⟩ := p
    unfold linePads
    simp only
    split <;> simp [ih]

theorem zip_sum (a b : List Nat) (h : a.length = b.length) :
    ((a.zip b).map (fun p => p.1 + p.2)).sum = a.sum + b.sum := by
  induction a generalizing b with
  | nil => cases b <;> simp_all
  | cons x xs ih =>
    cases b with
    | nil => simp at h
    | cons y ys =>
      simp only [List.length_cons, Nat.add_right_cancel_iff] at h
      simp only [List.zip_cons_cons, List.map_cons, List.sum_cons, ih ys h]
      omega

/-- **preserve_layout_output_bounded**: for EVERY set of lines — positions 10^14 away, font sizes
10^-9, a /MediaBox 10^-9 wide — the text written is at most the text of the fragments plus 200
columns of padding per line plus 100 newlines per line. -/
theorem preserve_layout_output_bounded (lines : List PLine) (first : Bool) :
    outputLen (preserveLayout lines first) ≤
      textLen lines + maxCharsPerLine * lines.length + maxGapLines * lines.length := by
  induction lines generalizing first with
  | nil => simp [preserveLayout, outputLen, textLen]
  | cons ln rest ih =>
    have h1 := ih false
    have hp := linePads_sum_le ln.frags 0
    have hz := zip_sum (linePads ln.frags 0) (ln.frags.map Prod.snd) (by simp [linePads_length])
    have hg := (clampGap_le ln.gap).2
    simp only [preserveLayout, outputLen, textLen, List.map_cons, List.sum_cons, runLen, hz,
      List.length_cons] at *
    generalize maxCharsPerLine = C at *
    generalize maxGapLines = G at *
    have e1 : C * (rest.length + 1) = C * rest.length + C := by rw [Nat.mul_add]; simp
    have e2 : G * (rest.length + 1) = G * rest.length + G := by rw [Nat.mul_add]; simp
    rw [e1, e2]
    split <;> omega

/-- the witnesses of daef69b: x = 10^14 and a gap of 10^13 lines -/
example : preserveLayout [⟨0, [(0, 5)]⟩, ⟨10000000000000, [(100000000000000, 5)]⟩] true =
    [(0, [(0, 5)]), (100, [(200, 5)])] := by decide
example : preserveLayout [⟨0, [(-3, 2), (1, 2), (10, 1)]⟩, ⟨0, [(4, 1)]⟩] true =
    [(0, [(0, 2), (0, 2), (6, 1)]), (1, [(4, 1)])] := by decide

/-! ### 5. the content of one page -/

/-- **page_content_bounded**: however many streams `/Contents` names (and however often the same
one), the bytes concatenated never exceed 64 MiB + 1; beyond that the page is an error. -/
theorem page_content_bounded (lens : List Nat) (total t : Nat) (ht : total ≤ maxPageContentBytes + 1)
    (h : concatContents lens total = some t) : t ≤ maxPageContentBytes + 1 := by
  induction lens generalizing total with
  | nil => simp [concatContents] at h; omega
  | cons len rest ih =>
    unfold concatContents at h
    split at h
    · cases h
    · apply ih _ _ h
      split <;> omega

theorem page_content_refused (lens : List Nat) (len total : Nat)
    (h : maxPageContentBytes < total + len) : concatContents (len :: lens) total = none := by
  simp [concatContents, h]

example : concatContents (List.replicate 63 1048576) 0 = some 66060351 := by decide
example : concatContents (List.replicate 64 1048576) 0 = none := by decide

end Tabula.C02Data
