import TabulaModel.Lemmas.Html
import TabulaModel.Lemmas.Traverse
import TabulaModel.Lemmas.HtmlRepair
/-!
# C19 — HTML extraction keeps content; navigation filtering only narrows

Theorems about the model of htmldoc (Model/Dom, Nav, Html); helper lemmas in
Lemmas/Html.lean and Lemmas/Traverse.lean. All statements are for every DOM
tree of any depth (structural induction over the nested tree), every exclusion
predicate where one is quantified, and every list context.
-/
namespace Tabula.C19
open Tabula.Html

/-! ## the mode lattice -/

/-- pattern vocabulary inclusion: every word Standard matches, Aggressive matches
(re-proved whenever the vocabularies are regenerated) -/
theorem vocab_inclusion : ∀ x, x ∈ vocabOf .standard → x ∈ vocabOf .aggressive := by
  intro x h; exact h

/-- the vocabulary of Explicit is empty: Explicit never looks at class/id -/
theorem vocab_explicit_empty : vocabOf .explicit = [] ∧ vocabOf .none = [] := ⟨rfl, rfl⟩

/-- the combined pattern is exactly the union of the four documented groups -/
theorem vocab_excluded_is_union :
    vocabExcluded = vocabNav ++ vocabHeader ++ vocabFooter ++ vocabSidebar := by decide

/-- `excluded Explicit n → excluded Standard n → excluded Aggressive n` for every node at every position. -/
theorem mode_lattice (pos : Pos) (n : Dom) :
    (excluded .explicit pos n = true → excluded .standard pos n = true) ∧
    (excluded .standard pos n = true → excluded .aggressive pos n = true) := by
  cases n with
  | text s => simp [excluded]
  | other k => simp [excluded]
  | elem tag attrs kids =>
    constructor
    · intro h
      simp only [excluded, Mode.rank, Bool.and_eq_true, Bool.or_eq_true, bne_iff_ne, ne_eq] at h ⊢
      refine ⟨by decide, ?_⟩
      rcases h.2 with (h1 | h1) | h1
      · exact Or.inl (Or.inl h1)
      · exact absurd h1.1 (by decide)
      · exact absurd h1.1 (by decide)
    · intro h
      simp only [excluded, Mode.rank, Bool.and_eq_true, Bool.or_eq_true, bne_iff_ne, ne_eq] at h ⊢
      refine ⟨by decide, ?_⟩
      rcases h.2 with (h1 | h1) | h1
      · exact Or.inl (Or.inl h1)
      · exact Or.inl (Or.inr ⟨by decide, excludedPattern_mono _ _ vocab_inclusion attrs h1.2⟩)
      · exact absurd h1.1 (by decide)

/-- mode None excludes nothing -/
theorem none_excludes_nothing (pos : Pos) (n : Dom) : excluded .none pos n = false := by
  cases n <;> simp [excluded]

/-- the lattice as pointwise inclusion between consecutive modes -/
theorem mode_inclusion (pos : Pos) (n : Dom) :
    (excluded .none pos n = true → excluded .explicit pos n = true) ∧
    (excluded .explicit pos n = true → excluded .standard pos n = true) ∧
    (excluded .standard pos n = true → excluded .aggressive pos n = true) := by
  refine ⟨?_, (mode_lattice pos n).1, (mode_lattice pos n).2⟩
  rw [none_excludes_nothing]; intro h; cases h

/-! ## filtering only narrows -/

/-- `p ⊆ q` pointwise → `atoms q t` is a sublist of `atoms p t`, for every tree. -/
theorem filter_monotone (p q : Pos → Dom → Bool) (h : ∀ pos n, p pos n = true → q pos n = true)
    (w : Bool) (pos : Pos) (lc : LC) (t : Dom) :
    (atoms q w pos lc t).Sublist (atoms p w pos lc t) :=
  atoms_mono p q h w t pos lc

example : ∀ pos n, excluded .explicit pos n = true → excluded .standard pos n = true :=
  fun pos n => (mode_lattice pos n).1

/-- Aggressive <+ Standard <+ Explicit <+ None, on the specification -/
theorem mode_chain (w : Bool) (pos : Pos) (lc : LC) (t : Dom) :
    (atoms (excluded .aggressive) w pos lc t).Sublist (atoms (excluded .standard) w pos lc t) ∧
    (atoms (excluded .standard) w pos lc t).Sublist (atoms (excluded .explicit) w pos lc t) ∧
    (atoms (excluded .explicit) w pos lc t).Sublist (atoms (excluded .none) w pos lc t) :=
  ⟨filter_monotone _ _ (fun pos n => (mode_inclusion pos n).2.2) w pos lc t,
   filter_monotone _ _ (fun pos n => (mode_inclusion pos n).2.1) w pos lc t,
   filter_monotone _ _ (fun pos n => (mode_inclusion pos n).1) w pos lc t⟩

/-- mode None is the unfiltered specification, and every predicate returns a sublist of it -/
theorem none_is_everything (p : Pos → Dom → Bool) (w : Bool) (pos : Pos) (lc : LC) (t : Dom) :
    atoms (excluded .none) w pos lc t = atoms (fun _ _ => false) w pos lc t ∧
    (atoms p w pos lc t).Sublist (atoms (excluded .none) w pos lc t) := by
  have e : excluded .none = fun _ _ => false := by
    funext pos n; exact none_excludes_nothing pos n
  rw [e]
  exact ⟨rfl, filter_monotone _ p (fun _ _ h => by cases h) w pos lc t⟩

/-- Content outside the excluded subtrees is unchanged: among siblings `a ++ k :: b`, if two
predicates decide alike on every node of `a` and of `b` (at any depth), then whatever
happens inside `k` — e.g. `k` is excluded by one of them — the segments contributed by
`a` and `b` are identical and stay in place. -/
theorem outside_unchanged (p q : Pos → Dom → Bool) (w : Bool) (kp : Pos) (lc : LC) (a b : List Dom) (k : Dom)
    (ha : agreeL p q w kp a) (hb : agreeL p q w kp b) :
    atomsL q w kp lc (a ++ k :: b) = atomsL p w kp lc a ++ atoms q w kp lc k ++ atomsL p w kp lc b := by
  rw [atomsL_append]
  simp only [atomsL]
  rw [atomsL_agree p q w a kp lc ha, atomsL_agree p q w b kp lc hb, List.append_assoc]

/-- … and a subtree on which the predicates agree is returned identically -/
theorem agree_unchanged (p q : Pos → Dom → Bool) (w : Bool) (pos : Pos) (lc : LC) (t : Dom)
    (h : agree p q w pos t) : atoms q w pos lc t = atoms p w pos lc t :=
  atoms_agree p q w t pos lc h

example : agreeL (excluded .none) (excluded .aggressive) false .bodyChild
    [.elem T.p [] [.text [120]], .text [32]] := by
  simp [agreeL, agree, excluded, excludedExplicit, excludedLinkDensity, excludedPattern, getAttr, Mode.rank]
  decide

/-! ## the stateful traversal refines the specification -/

/-- Flattening the element list built by the traversal with its list state machine gives
exactly `atoms`: the state machine neither drops, duplicates nor reorders anything. -/
theorem traverse_refines_atoms (p : Pos → Dom → Bool) (body : Dom) :
    flatten (extractWith p body) = atomsOf p body := by
  unfold extractWith atomsOf
  have h0 : ({} : St).ok := fun _ => ⟨rfl, rfl⟩
  have h := trav_refines p (hasWrapper body) body .root {} h0
  have hf := flushList_flat (trav p (hasWrapper body) .root body {})
  have hi := flushList_items _ h.ok
  have e : (flushList (trav p (hasWrapper body) .root body {})).flat =
      flatten (flushList (trav p (hasWrapper body) .root body {})).out := by
    simp [St.flat, hi]
  rw [← e, hf, h.flat]
  simp [St.flat, St.lc, flatten]

/-- hence what the four modes return (element lists of `getElements`) is a chain of sublists -/
theorem extract_chain (body : Dom) :
    (flatten (extract .aggressive body)).Sublist (flatten (extract .standard body)) ∧
    (flatten (extract .standard body)).Sublist (flatten (extract .explicit body)) ∧
    (flatten (extract .explicit body)).Sublist (flatten (extract .none body)) := by
  unfold extract
  simp only [traverse_refines_atoms, atomsOf]
  exact mode_chain _ _ _ _

/-! ## content is returned once, in document order -/

/-- the text of an atom -/
def atomText : Atom → Str
  | .heading _ t => t | .para t => t | .item _ t => t | .cell c => c.text | .code t => t | .quote t => t

/-
Full statement (does NOT hold for the code, before or after fix 75d57dc): for every content
element that is neither skipped nor excluded, every text node inside it (outside script/style)
occurs in exactly one returned atom, atoms being in document order.

Before fix 75d57dc it failed for every p (or div) that has a block-level child: the traversal
only descended into it and the element's own text was never returned
(`content_once_in_order_pinned_counterexample`, about the old traversal `travOld`; finding
C19/content-missing-para-with-block-child, repaired).  Since the fix such a p/div returns its
own text — `paragraph_own_text_kept` below is that statement in full, for every tree.  What is
left: a child of such a paragraph that is neither inline content nor a content element itself — a
wrapper (span, a, form, section, …) around a block-level element — is traversed like a wrapper
anywhere else, and the wrapper's own direct text is returned by nothing
(`content_once_in_order_counterexample`; finding C19/content-missing-para-in-wrapper).  What is
proved:
-/
/-- (1) siblings contribute exactly one contiguous segment each, in sibling order;
(2) inside an element's text every text node occurs once, in document order;
(3) skipped elements (script, style, …) contribute neither atoms nor text;
(4) a heading / leaf paragraph / code / quote that is not excluded is returned as one atom
    carrying the whole text of the element. -/
theorem content_once_in_order_partial (p : Pos → Dom → Bool) (w : Bool) (kp : Pos) (lc : LC) :
    (∀ (a b : List Dom) (k : Dom),
      atomsL p w kp lc (a ++ k :: b) = atomsL p w kp lc a ++ atoms p w kp lc k ++ atomsL p w kp lc b) ∧
    (∀ (a b : List Dom) (s : Str), textRecL (a ++ .text s :: b) = textRecL a ++ s ++ textRecL b) ∧
    (∀ tag attrs kids, isSkip tag = true →
      atoms p w kp lc (.elem tag attrs kids) = [] ∧ textRec (.elem tag attrs kids) = []) ∧
    (∀ tag attrs kids, isSkip tag = false → p kp (.elem tag attrs kids) = false →
      trim (getTextContent (.elem tag attrs kids)) ≠ [] →
      (∀ lvl, classify tag = .heading lvl →
        atoms p w kp lc (.elem tag attrs kids) = [.heading lvl (trim (getTextContent (.elem tag attrs kids)))]) ∧
      (∀ isP, classify tag = .pdiv isP → isBlockContainer kids = false →
        atoms p w kp lc (.elem tag attrs kids) = [.para (trim (getTextContent (.elem tag attrs kids)))]) ∧
      (classify tag = .quote →
        atoms p w kp lc (.elem tag attrs kids) = [.quote (trim (getTextContent (.elem tag attrs kids)))])) := by
  refine ⟨?_, ?_, ?_, ?_⟩
  · intro a b k
    rw [atomsL_append]; simp only [atomsL, List.append_assoc]
  · intro a b s
    rw [textRecL_append]; simp only [textRecL, textRec, List.append_assoc]
  · intro tag attrs kids hs
    constructor
    · unfold atoms; simp [hs]
    · unfold textRec; simp [hs]
  · intro tag attrs kids hs hp ht
    have ht' : (trim (getTextContent (.elem tag attrs kids)) != []) = true := by simpa using ht
    refine ⟨?_, ?_, ?_⟩
    · intro lvl hc
      unfold atoms; simp only [hs, hp, hc, Bool.false_eq_true, if_false]; simp [ht]
    · intro isP hc hb
      unfold atoms; simp only [hs, hp, hc, Bool.false_eq_true, if_false]; simp [ht, hb]
    · intro hc
      unfold atoms; simp only [hs, hp, hc, Bool.false_eq_true, if_false]; simp [ht]

example : isSkip T.p = false ∧ classify T.p = .pdiv true ∧ isBlockContainer [.text [120]] = false ∧
    trim (getTextContent (.elem T.p [] [.text [120]])) ≠ [] := by decide

/-- THE REPAIRED FINDING, in full (fix 75d57dc; for every tree, predicate, position and list
context): a p/div that has a block-level child and is neither skipped nor excluded returns its
own text.  Its children are read in document order (`atomsM`):
(1) a maximal run `a` of inline children — text nodes, inline elements, anything that neither is
    nor contains an element the traversal handles itself — followed by another child `k` gives
    ONE paragraph carrying the text of all of `a` (`textRecL a`: by `text_nodes_once_in_order`
    every text node of `a` once, in document order), then the atoms of `k`, then the rest with a
    fresh run; a blank run gives nothing;
(2) a trailing run gives one paragraph in the same way;
(3) nothing is returned twice: an inline child, were it traversed, would contribute no atom
    (so its text is in the run's paragraph and nowhere else), and a child that is not inline is in
    no run. -/
theorem paragraph_own_text_kept (p : Pos → Dom → Bool) (w : Bool) (pos : Pos) (lc : LC)
    (tag : Str) (attrs : List (Str × Str)) (kids : List Dom) (isP : Bool)
    (hs : isSkip tag = false) (hp : p pos (.elem tag attrs kids) = false)
    (hc : classify tag = .pdiv isP) (hb : isBlockContainer kids = true) :
    atoms p w pos lc (.elem tag attrs kids) = atomsM p w (pos.kid w tag) lc kids [] ∧
    (∀ (a rest : List Dom) (k : Dom) (run : Str), isInlineL a = true → isInline k = false →
      atomsM p w (pos.kid w tag) lc (a ++ k :: rest) run =
        runAtoms (run ++ textRecL a) ++ atoms p w (pos.kid w tag) lc k ++ atomsM p w (pos.kid w tag) lc rest []) ∧
    (∀ (a : List Dom) (run : Str), isInlineL a = true →
      atomsM p w (pos.kid w tag) lc a run = runAtoms (run ++ textRecL a)) ∧
    (∀ run, trim run ≠ [] → runAtoms run = [.para (trim run)]) ∧
    (∀ run, trim run = [] → runAtoms run = []) ∧
    (∀ k, isInline k = true → atoms p w (pos.kid w tag) lc k = []) := by
  refine ⟨?_, ?_, ?_, ?_, ?_, ?_⟩
  · unfold atoms; simp only [hs, hp, hc, Bool.false_eq_true, if_false]; simp [hb]
  · intro a rest k run ha hk
    rw [atomsM_inline p w _ lc a (k :: rest) run ha, atomsM_block p w _ lc k rest _ hk]
  · intro a run ha
    have := atomsM_inline p w (pos.kid w tag) lc a [] run ha
    simpa [atomsM] using this
  · intro run h; simp [runAtoms, h]
  · intro run h; simp [runAtoms, h]
  · intro k hk; exact atoms_inline p w k _ lc hk

example : isSkip T.div = false ∧ classify T.div = .pdiv false ∧
    isBlockContainer [.text [120], .elem T.p [] [.text [121]]] = true ∧
    isInlineL [.text [120]] = true ∧ isInline (.elem T.p [] [.text [121]]) = false := by decide

/-- witness `<p>x<table><tr><td>c</td></tr></table></p>` (quirks-mode parse) -/
def witnessPTable : Dom :=
  .elem [98, 111, 100, 121] []
    [.elem T.p [] [.text [120], .elem T.table [] [.elem T.tbody [] [.elem T.tr [] [.elem T.td [] [.text [99]]]]]]]

/-- BEFORE fix 75d57dc (the old traversal `travOld`, Model/HtmlOld.lean): the paragraph's own
text "x" was in no returned atom, in any mode -/
theorem content_once_in_order_pinned_counterexample :
    flatten (extractOld .none witnessPTable) = [.cell ⟨[99], false, 1, 1⟩] ∧
    ¬ ∃ a, a ∈ flatten (extractOld .none witnessPTable) ∧ 120 ∈ atomText a := by
  decide +kernel

/-- since the fix it is a paragraph of its own, before the table, in every mode -/
theorem content_once_in_order_repaired_witness :
    flatten (extract .none witnessPTable) = [.para [120], .cell ⟨[99], false, 1, 1⟩] ∧
    flatten (extract .aggressive witnessPTable) = [.para [120], .cell ⟨[99], false, 1, 1⟩] := by
  decide +kernel

/-- `span` is not one of the tags the traversal knows: it is only traversed -/
def tagSpan : Str := [115, 112, 97, 110]

/-- witness `<p>x<table><tr><td>c</td></tr></table><span>y<table><tr><td>d</td></tr></table></span></p>`
(quirks-mode parse: neither table closes the p) -/
def witnessPWrapper : Dom :=
  .elem [98, 111, 100, 121] []
    [.elem T.p []
      [.text [120],
       .elem T.table [] [.elem T.tbody [] [.elem T.tr [] [.elem T.td [] [.text [99]]]]],
       .elem tagSpan [] [.text [121],
         .elem T.table [] [.elem T.tbody [] [.elem T.tr [] [.elem T.td [] [.text [100]]]]]]]]

/-- witness `<p>x<table><section>y<div>z</div></section><tr><td>c</td></tr></table></p>` (quirks-mode
parse; the section is foster-parented in front of the table, inside the p) -/
def witnessPSection : Dom :=
  .elem [98, 111, 100, 121] []
    [.elem T.p []
      [.text [120],
       .elem T.section [] [.text [121], .elem T.div [] [.text [122]]],
       .elem T.table [] [.elem T.tbody [] [.elem T.tr [] [.elem T.td [] [.text [99]]]]]]]

/-- what is left (finding C19/content-missing-para-in-wrapper): the paragraph's own "x" is
returned, but the "y" that sits in a wrapper around a table inside the paragraph is in no
returned atom, in any mode: the span is neither inline content (it holds a table) nor a content
element, so it is traversed, and a traversed element's direct text is returned by nothing -/
theorem content_once_in_order_counterexample :
    flatten (extract .none witnessPWrapper) =
      [.para [120], .cell ⟨[99], false, 1, 1⟩, .cell ⟨[100], false, 1, 1⟩] ∧
    ¬ ∃ a, a ∈ flatten (extract .none witnessPWrapper) ∧ 121 ∈ atomText a := by
  decide +kernel

/-- … the same for a sectioning element inside the paragraph: its own "y" is lost, the div inside
it is returned -/
theorem content_once_in_order_counterexample_section :
    flatten (extract .none witnessPSection) = [.para [120], .para [122], .cell ⟨[99], false, 1, 1⟩] ∧
    ¬ ∃ a, a ∈ flatten (extract .none witnessPSection) ∧ 121 ∈ atomText a := by
  decide +kernel

/-! ## the per-mode cache -/

/-- a call sequence on one reader -/
def run : Reader → List Mode → List (List Element)
  | _, [] => []
  | r, m :: ms => (getElements r m).1 :: run (getElements r m).2 ms

/-- every cached entry is the result for its own mode -/
def CacheOk (r : Reader) : Prop := ∀ m v, lookup r.cache m = some v → v = extract m r.body

theorem getElements_correct (r : Reader) (m : Mode) (h : CacheOk r) :
    (getElements r m).1 = extract m r.body ∧ (getElements r m).2.body = r.body ∧ CacheOk (getElements r m).2 := by
  unfold getElements
  by_cases hm : m = .none
  · subst hm; simp only [if_true]; exact ⟨trivial, trivial, h⟩
  · simp only [hm, if_false]
    cases hl : lookup r.cache m with
    | some v => exact ⟨h m v hl, rfl, h⟩
    | none =>
      refine ⟨rfl, rfl, ?_⟩
      intro m' v' hv
      simp only [lookup] at hv
      by_cases e : m = m'
      · subst e; simp at hv; exact hv.symm
      · simp [e] at hv; exact h m' v' hv

/-- `getElements m` returns the result for `m` regardless of which modes were asked before,
in any order and with any repetition (induction over the call sequence). -/
theorem cache_per_mode (body : Dom) (ms : List Mode) :
    run { body := body } ms = ms.map fun m => extract m body := by
  have gen : ∀ (ms : List Mode) (r : Reader), CacheOk r → run r ms = ms.map fun m => extract m r.body := by
    intro ms
    induction ms with
    | nil => intro r _; rfl
    | cons m ms ih =>
      intro r h
      have g := getElements_correct r m h
      simp only [run, List.map_cons]
      rw [g.1, ih _ g.2.2, g.2.1]
  exact gen ms { body := body } (fun m v hv => by simp [lookup] at hv)

example : CacheOk { body := .text [] } := fun m v hv => by simp [lookup] at hv

end Tabula.C19
