import TabulaModel.Model.MarkdownDoc
/-!
# C15 — call histories on one reader

The Markdown entry points of the DOCX, ODT, PPTX, XLSX readers and of `rag.ChunkCollection` do
not write to their receiver (`listCounters`, `inList`, … are locals of each call): in the model
they are functions of the reader's contents and the options of the call, so a rendering cannot
depend on earlier calls.  The HTML reader is the one with state between calls — the cache of
element lists per navigation mode (`getElements`) — and this file proves that the cache is
transparent: in every history of Markdown calls, each rendering is what a fresh reader gives for
that call's own options.
-/
namespace Tabula.C15Hist
open Tabula.A1 (Str)
open Tabula.MarkdownDoc

/-- the reader's elements are those of mode 0 and every cache entry is the extraction of its mode -/
def CacheOK (extract : Int → List HElem) (r : HReader) : Prop :=
  r.elements = extract 0 ∧ ∀ m els, cacheGet? r.cache m = some els → els = extract m

theorem cacheGet?_cons (c : List (Int × List HElem)) (m k : Int) (v : List HElem) :
    cacheGet? ((k, v) :: c) m = if k = m then some v else cacheGet? c m := by
  unfold cacheGet?
  by_cases h : k = m
  · simp [List.find?, h]
  · have : (k == m) = false := by simpa using h
    simp [List.find?, this, h]

/-- `getElements` returns the extraction of the mode and keeps the cache sound -/
theorem getElements_spec (extract : Int → List HElem) (r : HReader) (m : Int) (h : CacheOK extract r) :
    (getElements extract r m).1 = extract m ∧ CacheOK extract (getElements extract r m).2 := by
  unfold getElements
  by_cases hm : m = 0
  · subst hm
    simp only [if_true]
    exact ⟨h.1, h⟩
  · simp only [hm, if_false]
    cases hc : cacheGet? r.cache m with
    | some els => exact ⟨h.2 m els hc, h⟩
    | none =>
      refine ⟨rfl, h.1, ?_⟩
      intro k els hk
      simp only [cacheGet?_cons] at hk
      by_cases hkm : m = k
      · subst hkm
        simp only [if_true, Option.some.injEq] at hk
        exact hk.symm
      · simp only [hkm, if_false] at hk
        exact h.2 k els hk

/-- a freshly opened reader -/
def openReader (extract : Int → List HElem) : HReader := { elements := extract 0 }

theorem openReader_ok (extract : Int → List HElem) : CacheOK extract (openReader extract) := by
  refine ⟨rfl, ?_⟩
  intro m els h
  simp [openReader, cacheGet?] at h

/-- **history independence (HTML)**: on one reader, whatever Markdown calls were made before (any
number, any modes, any options), every call returns what the call's own options determine: the
rendering of the elements of its own mode under its own options. -/
theorem html_history_independent (ext : Ext) (m : HMeta) (extract : Int → List HElem) (calls : List HCall) :
    ∀ (r : HReader), CacheOK extract r →
      hRun ext m extract r calls = calls.map fun c => c.render ext m (extract c.mode) := by
  induction calls with
  | nil => intro r _; rfl
  | cons c cs ih =>
    intro r hr
    obtain ⟨h1, h2⟩ := getElements_spec extract r c.mode hr
    simp only [hRun, List.map_cons]
    have e1 : (hCall ext m extract r c).1 = c.render ext m (extract c.mode) := by
      simp only [hCall]; rw [h1]
    have e2 : (hCall ext m extract r c).2 = (getElements extract r c.mode).2 := rfl
    rw [e1, e2, ih _ h2]

/-- the same from a fresh reader: the k-th rendering of any history equals the one-call history -/
theorem html_history_fresh (ext : Ext) (m : HMeta) (extract : Int → List HElem) (calls : List HCall) :
    hRun ext m extract (openReader extract) calls
      = calls.map fun c => (hCall ext m extract (openReader extract) c).1 := by
  rw [html_history_independent ext m extract calls _ (openReader_ok extract)]
  apply List.map_congr_left
  intro c _
  have := (getElements_spec extract (openReader extract) c.mode (openReader_ok extract)).1
  simp only [hCall]
  rw [this]

/-- a repeated call returns the same string (the options are the same) even when other modes were
asked in between -/
theorem html_repeat_same (ext : Ext) (m : HMeta) (extract : Int → List HElem) (c : HCall) (between : List HCall) :
    (hRun ext m extract (openReader extract) (c :: between ++ [c])).head?
      = (hRun ext m extract (openReader extract) (c :: between ++ [c])).getLast? := by
  rw [html_history_independent ext m extract _ _ (openReader_ok extract)]
  have : c :: between ++ [c] = (c :: between) ++ [c] := rfl
  rw [this, List.map_append, List.getLast?_append]
  simp

example : hRun ⟨id, id⟩ {} (fun m => if m = 0 then [.para [97], .para [98]] else [.para [98]])
    (openReader fun m => if m = 0 then [.para [97], .para [98]] else [.para [98]])
    [.withOptions 2, .markdown, .withOptions 0, .withOptions 2]
    = [[98], [98], [97, 10, 10, 98], [98]] := by decide

end Tabula.C15Hist
