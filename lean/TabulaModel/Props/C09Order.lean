import TabulaModel.Props.C09
import TabulaModel.Model.LayoutOrder
import TabulaModel.Lemmas.LayoutOrder
/-!
# C09, second layer — the reading order and the text paths built on it, as closed functions

`Props/C09.lean` proves conservation for the ByColumn path with the section order and the line
order as arbitrary permutations (hypotheses `horder`, `hreorder`). Here `orderSections`,
`reorderLinesByY`, `buildSections`, `(*ReadingOrderDetector).Detect`, the separator rule of
`extractByColumn`, `GetParagraphs`, `assembleParagraphText`, `ParagraphLayout.GetText` and
`extractWithParagraphs` (with its two fall-backs) are modelled as the code has them
(`Model/LayoutOrder.lean`), and the theorems have NO hypotheses: they hold for every fragment
list, every gap list, every tolerance function, every stream-order decision, every direction,
every spanning decision and every paragraph break decision.
-/
namespace Tabula.C09Order
open Tabula.Layout List

/-! ## detect_lines_assigns_once -/

/-- `NewLineDetector().Detect(fs)`: every fragment with visible text is in exactly one line of
the RESULT (after the `MinLineWidth` filter), counted with multiplicity — the clause "each input
fragment is assigned to exactly one line" for the detector as a whole, for every tolerance and
every stream-order decision. (A fragment of white space only may be dropped with its line:
`C09.buildLines_keeps`.) -/
theorem detect_lines_assigns_once (tol minW : Rat) (preserve : List Frag → Bool) (fs : List Frag) (f : Frag)
    (hv : visible f.text = true) :
    ((detectLines tol minW preserve fs).map (List.count f)).sum = fs.count f := by
  unfold detectLines buildLines
  rw [sum_count_filter]
  · exact C09.lines_count tol preserve fs f
  · intro g _ hm
    unfold keepLine
    have h1 := visible_of_mem g f hm hv
    cases g with
    | nil => simp at hm
    | cons a g => simp [h1]

example : visible ([97] : Str) = true := by decide

/-- `NewParagraphDetector().DetectFromFragments(fs)`: the paragraphs are consecutive pieces of
the detected lines and their texts show the non-space characters of the fragments -/
theorem paragraphs_from_fragments_conserve (tol minW : Rat) (preserve : List Frag → Bool)
    (brk : List (List Frag) → List Frag → List (List Frag) → Bool) (fs : List Frag) :
    (detectParagraphs brk (detectLines tol minW preserve fs)).flatten = detectLines tol minW preserve fs ∧
    (nonspace (paragraphLayoutText (detectParagraphs brk (detectLines tol minW preserve fs)))).Perm
      (nonspace (textsOf fs)) := by
  refine ⟨detectParagraphs_flatten _ _, ?_⟩
  rw [nonspace_paragraphLayoutText, detectParagraphs_flatten]
  exact detectLines_nonspace tol minW preserve fs

/-! ## reading_order_partition -/

/-- `ReadingOrderResult.Fragments` is a permutation of the input: nothing is lost, invented or
repeated by building and ordering the sections. -/
theorem reading_order_partition (gaps : List Gap) (minCW minW : Rat) (isSpan keep : List Frag → List Frag → Bool)
    (tolOf : List Frag → Rat) (preserve : List Frag → Bool) (rtl : Bool) (fs : List Frag) :
    (readingOrder gaps minCW minW isSpan keep tolOf preserve rtl fs).fragments.Perm fs := by
  unfold readingOrder
  split
  · rename_i h; rw [(isEmpty_eq_true_iff fs).mp h]
  · exact (readingOrderOf_fragments _ _ _ _ _).trans (detectColumns_perm _ _ _ _ _)

/-- every fragment is in exactly one section (counted with multiplicity) -/
theorem reading_order_sections_count (gaps : List Gap) (minCW minW : Rat)
    (isSpan keep : List Frag → List Frag → Bool) (tolOf : List Frag → Rat) (preserve : List Frag → Bool)
    (rtl : Bool) (fs : List Frag) (f : Frag) :
    (((readingOrder gaps minCW minW isSpan keep tolOf preserve rtl fs).sections.map
      fun s => s.frags.count f).sum) = fs.count f := by
  have h := (reading_order_partition gaps minCW minW isSpan keep tolOf preserve rtl fs).count_eq f
  rw [← h]
  unfold readingOrder
  split
  · rfl
  · rw [readingOrderOf_fragments_eq, List.count_flatMap]
    rfl

/-- the sections of a reading order come from the section builder: each one's lines show the
non-space characters of its own fragments -/
theorem reading_order_section_lines (gaps : List Gap) (minCW minW : Rat)
    (isSpan keep : List Frag → List Frag → Bool) (tolOf : List Frag → Rat) (preserve : List Frag → Bool)
    (rtl : Bool) (fs : List Frag) :
    ∀ s ∈ (readingOrder gaps minCW minW isSpan keep tolOf preserve rtl fs).sections,
      (nonspace (textsOf s.lines.flatten)).Perm (nonspace (textsOf s.frags)) := by
  unfold readingOrder
  split
  · intro s hs; simp at hs
  · exact readingOrderOf_sections_ok _ _ _ _ _

/-- `ReadingOrderResult.Lines`: the lines of the reading order show exactly the non-space
characters of the input fragments -/
theorem reading_order_lines_conserve (gaps : List Gap) (minCW minW : Rat)
    (isSpan keep : List Frag → List Frag → Bool) (tolOf : List Frag → Rat) (preserve : List Frag → Bool)
    (rtl : Bool) (fs : List Frag) :
    (nonspace (textsOf (readingOrder gaps minCW minW isSpan keep tolOf preserve rtl fs).lines.flatten)).Perm
      (nonspace (textsOf fs)) := by
  have hp := reading_order_partition gaps minCW minW isSpan keep tolOf preserve rtl fs
  have hs := reading_order_section_lines gaps minCW minW isSpan keep tolOf preserve rtl fs
  by_cases hE : fs.isEmpty = true
  · rw [readingOrder_empty _ _ _ _ _ _ _ _ _ hE, (isEmpty_eq_true_iff fs).mp hE]
    exact List.Perm.refl _
  · rw [readingOrder_nonempty _ _ _ _ _ _ _ _ _ hE] at hp hs ⊢
    rw [readingOrderOf_lines_eq]
    rw [readingOrderOf_fragments_eq] at hp
    exact (secs_lines_nonspace _ hs).trans (textsOf_perm hp)

/-- every line of a built section holds a visible fragment exactly as often as the section does -/
theorem mkSection_assigns_once (tolOf : List Frag → Rat) (minW : Rat) (preserve : List Frag → Bool) (sp : Bool)
    (frs : List Frag) (f : Frag) (hv : visible f.text = true) :
    (mkSection tolOf minW preserve sp frs).lines.flatten.count f = (mkSection tolOf minW preserve sp frs).frags.count f := by
  unfold mkSection
  simp only
  rw [(reorderLinesByY_perm _).flatten.count_eq f, List.count_flatten]
  exact detect_lines_assigns_once _ _ _ _ f hv

theorem sections_assign_once (ss : List Sec) (f : Frag)
    (h : ∀ s ∈ ss, s.lines.flatten.count f = s.frags.count f) :
    (ss.flatMap (·.lines)).flatten.count f = (ss.flatMap (·.frags)).count f := by
  induction ss with
  | nil => rfl
  | cons s ss ih =>
    simp only [List.flatMap_cons, List.flatten_append, List.count_append]
    rw [h s (by simp), ih fun t ht => h t (List.mem_cons_of_mem _ ht)]

/-- the reading order as a whole: every fragment with visible text is in exactly one of its
lines (counted with multiplicity), for every outcome of every heuristic -/
theorem reading_order_lines_assign_once (gaps : List Gap) (minCW minW : Rat)
    (isSpan keep : List Frag → List Frag → Bool) (tolOf : List Frag → Rat) (preserve : List Frag → Bool)
    (rtl : Bool) (fs : List Frag) (f : Frag) (hv : visible f.text = true) :
    ((readingOrder gaps minCW minW isSpan keep tolOf preserve rtl fs).lines.map (List.count f)).sum = fs.count f := by
  rw [← List.count_flatten]
  have hp := (reading_order_partition gaps minCW minW isSpan keep tolOf preserve rtl fs).count_eq f
  rw [← hp]
  by_cases hE : fs.isEmpty = true
  · rw [readingOrder_empty _ _ _ _ _ _ _ _ _ hE]; rfl
  · rw [readingOrder_nonempty _ _ _ _ _ _ _ _ _ hE, readingOrderOf_lines_eq, readingOrderOf_fragments_eq]
    apply sections_assign_once
    intro s hs
    unfold readingOrderOf at hs
    have hm := (orderSections_perm rtl _).mem_iff.mp hs
    unfold buildSections at hm
    rcases List.mem_append.mp hm with h | h
    · split at h
      · simp at h
      · rw [List.mem_singleton] at h; subst h; exact mkSection_assigns_once _ _ _ _ _ f hv
    · rcases List.mem_map.mp h with ⟨c, _, rfl⟩
      exact mkSection_assigns_once _ _ _ _ _ f hv

/-- the line texts (`Line.Text`, what `Lines()` of the reading order shows) -/
theorem reading_order_line_texts_conserve (gaps : List Gap) (minCW minW : Rat)
    (isSpan keep : List Frag → List Frag → Bool) (tolOf : List Frag → Rat) (preserve : List Frag → Bool)
    (rtl : Bool) (fs : List Frag) :
    (nonspace (((readingOrder gaps minCW minW isSpan keep tolOf preserve rtl fs).lines.map lineText).flatten)).Perm
      (nonspace (textsOf fs)) := by
  rw [← lineTexts_nonspace']
  exact reading_order_lines_conserve gaps minCW minW isSpan keep tolOf preserve rtl fs

/-- the reading order of a non-empty page has at least one section: the fall-back of
`extractByColumn` to `assembleText` is taken only for an empty column layout -/
theorem reading_order_sections_nonempty (gaps : List Gap) (minCW minW : Rat)
    (isSpan keep : List Frag → List Frag → Bool) (tolOf : List Frag → Rat) (preserve : List Frag → Bool)
    (rtl : Bool) (fs : List Frag) (hne : fs ≠ []) :
    (readingOrder gaps minCW minW isSpan keep tolOf preserve rtl fs).sections ≠ [] := by
  intro h
  have hp := reading_order_partition gaps minCW minW isSpan keep tolOf preserve rtl fs
  have : (readingOrder gaps minCW minW isSpan keep tolOf preserve rtl fs).fragments = [] := by
    revert h
    unfold readingOrder
    split
    · intro _; rfl
    · intro h; rw [readingOrderOf_fragments_eq, h]; rfl
  rw [this] at hp
  exact hne hp.symm.eq_nil

example : ([⟨0, 72, 700, 30, 10, 10, [97]⟩] : List Frag) ≠ [] := by simp

/-! ## bycolumn_conserves -/

/-- `extractByColumn` given any reading order whose sections conserve their fragments -/
theorem byColumnOf_conserves (fs : List Frag) (ro : ReadingOrder)
    (hf : (ro.sections.flatMap (·.frags)).Perm fs) (hs : ∀ s ∈ ro.sections, SecOk s) :
    (nonspace (byColumnOf fs ro)).Perm (nonspace (textsOf fs)) := by
  unfold byColumnOf
  split
  · rename_i h; rw [(isEmpty_eq_true_iff fs).mp h]; exact List.Perm.refl _
  · split
    · rw [nonspace_assembleText]; exact textsOf_perm (stableSort_perm _ _)
    · rw [nonspace_sectionsTextAux]
      simp only [nonspace_nil, List.nil_append]
      exact (secs_lines_nonspace _ hs).trans (textsOf_perm hf)

/-- END TO END, `Open(f).ByColumn().Text()` for one page (after deduplication): for every
fragment list and every outcome of every heuristic the text has exactly the non-space characters
of the fragments. No hypothesis about the order of sections or lines: `orderSections` and
`reorderLinesByY` are the modelled code. -/
theorem bycolumn_conserves (gaps : List Gap) (minCW minW : Rat) (isSpan keep : List Frag → List Frag → Bool)
    (tolOf : List Frag → Rat) (preserve : List Frag → Bool) (rtl : Bool) (fs : List Frag) :
    (nonspace (extractByColumn gaps minCW minW isSpan keep tolOf preserve rtl fs)).Perm (nonspace (textsOf fs)) := by
  unfold extractByColumn
  apply byColumnOf_conserves
  · have h := reading_order_partition gaps minCW minW isSpan keep tolOf preserve rtl fs
    revert h
    unfold readingOrder
    split
    · exact id
    · rw [readingOrderOf_fragments_eq]; exact id
  · exact reading_order_section_lines gaps minCW minW isSpan keep tolOf preserve rtl fs

/-- composed with the one sanctioned removal -/
theorem bycolumn_pipeline_conserves (gaps : List Gap) (minCW minW : Rat)
    (isSpan keep : List Frag → List Frag → Bool) (tolOf : List Frag → Rat) (preserve : List Frag → Bool)
    (rtl : Bool) (raw : List Frag) :
    (nonspace (extractByColumn gaps minCW minW isSpan keep tolOf preserve rtl (dedupe raw))).Perm
      (nonspace (textsOf (dedupe raw))) :=
  bycolumn_conserves gaps minCW minW isSpan keep tolOf preserve rtl (dedupe raw)

/-! ## paragraphs of the reading order -/

/-- `(*ReadingOrderResult).GetParagraphs`: the paragraphs are consecutive pieces of the lines of
the reading order, in order — with one section as with many, for every break decision. -/
theorem ro_paragraphs_segment (gaps : List Gap) (minCW minW : Rat) (isSpan keep : List Frag → List Frag → Bool)
    (tolOf : List Frag → Rat) (preserve : List Frag → Bool) (rtl : Bool)
    (brkOf : List (List Frag) → List (List Frag) → List Frag → List (List Frag) → Bool) (fs : List Frag) :
    (roParagraphs brkOf (readingOrder gaps minCW minW isSpan keep tolOf preserve rtl fs)).flatten =
      (readingOrder gaps minCW minW isSpan keep tolOf preserve rtl fs).lines := by
  have hl : (readingOrder gaps minCW minW isSpan keep tolOf preserve rtl fs).lines =
      (readingOrder gaps minCW minW isSpan keep tolOf preserve rtl fs).sections.flatMap (·.lines) := by
    unfold readingOrder; split <;> rfl
  unfold roParagraphs
  split
  · rename_i h; rw [(isEmpty_eq_true_iff _).mp h]; rfl
  · split
    · exact detectParagraphs_flatten _ _
    · rw [flatMap_paragraphs_flatten, ← hl]

/-- no paragraph of the reading order is empty -/
theorem ro_paragraphs_nonempty (brkOf : List (List Frag) → List (List Frag) → List Frag → List (List Frag) → Bool)
    (ro : ReadingOrder) : ∀ p ∈ roParagraphs brkOf ro, p ≠ [] := by
  intro p hp
  unfold roParagraphs at hp
  split at hp
  · simp at hp
  · split at hp
    · exact segment_nonempty _ _ [] p hp
    · rcases List.mem_flatMap.mp hp with ⟨s, _, h⟩
      exact segment_nonempty _ _ [] p h

/-- `Paragraph.Text` (`assembleParagraphText`): the text of a paragraph has exactly the non-space
characters of its lines, hyphen rule included -/
theorem paragraph_text_conserves (p : List (List Frag)) :
    nonspace (paragraphText p) = nonspace (textsOf p.flatten) := nonspace_paragraphText p

/-- `Open(f).Paragraphs()` for one page / `ReadingOrderResult.GetParagraphs().GetText()`: the
paragraph texts of the reading order show exactly the non-space characters of the fragments. -/
theorem ro_paragraphs_conserve (gaps : List Gap) (minCW minW : Rat) (isSpan keep : List Frag → List Frag → Bool)
    (tolOf : List Frag → Rat) (preserve : List Frag → Bool) (rtl : Bool)
    (brkOf : List (List Frag) → List (List Frag) → List Frag → List (List Frag) → Bool) (fs : List Frag) :
    (nonspace (paragraphLayoutText
      (roParagraphs brkOf (readingOrder gaps minCW minW isSpan keep tolOf preserve rtl fs)))).Perm
      (nonspace (textsOf fs)) := by
  rw [nonspace_paragraphLayoutText, ro_paragraphs_segment]
  exact reading_order_lines_conserve gaps minCW minW isSpan keep tolOf preserve rtl fs

/-! ## joinparagraphs_conserves -/

/-- `extractWithParagraphs` given a reading order whose lines conserve the fragments -/
theorem withParagraphsOf_conserves
    (brkOf : List (List Frag) → List (List Frag) → List Frag → List (List Frag) → Bool)
    (tolOf : List Frag → Rat) (minW : Rat) (preserve : List Frag → Bool) (fs : List Frag) (ro : ReadingOrder)
    (hl : (nonspace (textsOf ro.lines.flatten)).Perm (nonspace (textsOf fs))) :
    (nonspace (withParagraphsOf brkOf tolOf minW preserve fs ro)).Perm (nonspace (textsOf fs)) := by
  unfold withParagraphsOf
  by_cases hE : fs.isEmpty = true
  · rw [if_pos hE, (isEmpty_eq_true_iff fs).mp hE]; exact List.Perm.refl _
  · rw [if_neg hE]
    simp only
    by_cases hL : (if (!ro.lines.isEmpty) = true then ro.lines else detectLines (tolOf fs) minW preserve fs).isEmpty = true
    · rw [if_pos hL, nonspace_assembleText]; exact textsOf_perm (stableSort_perm _ _)
    · rw [if_neg hL, nonspace_withParagraphsText, detectParagraphs_flatten]
      split
      · exact hl
      · exact detectLines_nonspace _ _ _ _

/-- END TO END, `Open(f).JoinParagraphs().Text()` for one page (after deduplication), both
fall-backs included: for every fragment list and every outcome of every heuristic the text has
exactly the non-space characters of the fragments. -/
theorem joinparagraphs_conserves (gaps : List Gap) (minCW minW : Rat) (isSpan keep : List Frag → List Frag → Bool)
    (tolOf : List Frag → Rat) (preserve : List Frag → Bool) (rtl : Bool)
    (brkOf : List (List Frag) → List (List Frag) → List Frag → List (List Frag) → Bool) (fs : List Frag) :
    (nonspace (extractWithParagraphs gaps minCW minW isSpan keep tolOf preserve rtl brkOf fs)).Perm
      (nonspace (textsOf fs)) := by
  unfold extractWithParagraphs
  exact withParagraphsOf_conserves _ _ _ _ _ _
    (reading_order_lines_conserve gaps minCW minW isSpan keep tolOf preserve rtl fs)

/-! ## witnesses: the functions do something -/

/-- a spanning title above two columns sorts before them; the columns left to right, or right
to left -/
example : sectionLess false ⟨true, [⟨0, 150, 700, 200, 14, 14, [84]⟩], []⟩ ⟨false, [⟨1, 72, 600, 100, 10, 10, [97]⟩], []⟩ = true ∧
    sectionLess false ⟨false, [⟨1, 72, 600, 100, 10, 10, [97]⟩], []⟩ ⟨false, [⟨2, 320, 600, 100, 10, 10, [98]⟩], []⟩ = true ∧
    sectionLess true ⟨false, [⟨1, 72, 600, 100, 10, 10, [97]⟩], []⟩ ⟨false, [⟨2, 320, 600, 100, 10, 10, [98]⟩], []⟩ = false := by
  decide +kernel

/-- one jump back of 100 pt in a line of three fragments keeps the stream order -/
example : preserveGo [⟨0, 300, 700, 30, 10, 10, [97]⟩, ⟨1, 200, 700, 30, 10, 10, [98]⟩, ⟨2, 240, 700, 30, 10, 10, [99]⟩] = true ∧
    preserveGo [⟨0, 200, 700, 30, 10, 10, [97]⟩, ⟨1, 240, 700, 30, 10, 10, [98]⟩, ⟨2, 300, 700, 30, 10, 10, [99]⟩] = false := by
  decide +kernel

/-- the hyphen rule: no blank after a line that ends in "-" -/
example : paragraphText [[⟨0, 0, 20, 10, 10, 10, [97, 45]⟩], [⟨1, 0, 8, 10, 10, 10, [98]⟩], [⟨2, 0, 0, 10, 10, 10, [99]⟩]]
    = [97, 45, 98, 32, 99] := by decide +kernel

end Tabula.C09Order
