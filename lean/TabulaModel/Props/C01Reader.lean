import TabulaModel.Lemmas.Reader
import TabulaModel.Lemmas.ReaderRenumber
import TabulaModel.Lemmas.ReaderRender
import TabulaModel.Lemmas.ReaderBounds
import TabulaModel.Props.C01
import TabulaModel.Props.C04
import TabulaModel.Props.C05
import TabulaModel.Props.C06
import TabulaModel.Props.C07
/-!
# C01 — layout invariance of the end-to-end reader model

`Reader.readPages : AbsFile → Ext → Except Err (List (List Str))` (Model/Reader.lean) is the
composition of the models of C04 (newest-revision lookup, object streams), C06 (object and
content syntax), C05 (filter chains), C01 (page tree, content join) and C07 (code → Unicode),
tied to `tabula.Open(file)…Fragments()` on whole files by the op `c01.read`.  The theorems
below say which differences between two abstract files `readPages` cannot see.  Each holds
for ALL abstract files (well-formed or not: where tabula fails, both sides fail alike).

Resource bounds of the code (repairs made for C02) are part of the model and of the theorems:
a page tree of more than 10000 levels is refused (86b42aa); an indirect `/Kids` array is
entered once (cd93b07); the decoded content of one page is at most 64 MiB (36a165b); arrays and
dictionaries nest at most 500 deep in both parsers (a3fd154, C06's models). Theorems 1-4 and 6
hold verbatim (both sides meet the same bounds); theorems 5 and 7 speak about content sizes
and carry the 64 MiB hypothesis; section 8 proves what happens at and beyond each bound and
that the work of the walk is bounded for every file. The limit of 16 nested object loads
(129dd3d) guards the re-entry of `GetObject` through an indirect `/Length` while a stream is
being parsed; the abstract file carries each stream's data, so that path (and its bound) is
outside this model: `getObject` nests at most two loads (an object inside an object stream).
-/
namespace Tabula.C01R
open Tabula.Reader
open Tabula.Xref (getLast mergeTables newest Section Entry)

/-! ## 1. only the newest entries, and the objects they name, are read -/

/-- **read_depends_on_newest**: two files whose merged cross-reference lookups agree on every
object number, whose object tables agree at the offsets those entries name, and whose newest
trailers name the same root, read the same pages — whatever else the files contain (stale
objects, superseded sections, their order and number). -/
theorem read_depends_on_newest (f f' : AbsFile) (ext : Ext)
    (hentry : ∀ n, entry f n = entry f' n)
    (hobjs : ∀ off, Names f off → getLast f.objs off = getLast f'.objs off)
    (hroot : rootOf f = rootOf f') (hd : prevDangling f = prevDangling f') :
    readPages f ext = readPages f' ext :=
  readPages_congr f f' ext (getObject_congr f f' ext hentry hobjs)
    (fuelOf_congr f f' fun n => by rw [hentry n]) hroot hd

/-- the entry of `n` after older revisions are put in front of a chain: unchanged where the
chain has an entry (C04 `merge_newest`) -/
theorem entry_prepend (older ts : List Section) (n : Nat)
    (hsup : ∀ t ∈ older, getLast t n ≠ none → newest ts n ≠ none) :
    getLast (mergeTables (older ++ ts)) n = getLast (mergeTables ts) n := by
  rw [C04.merge_newest, C04.merge_newest, newest_append]
  cases h : newest ts n with
  | some e => rfl
  | none =>
    have : getLast (mergeTables older) n = none := by
      rw [C04.merge_none_iff]
      intro t ht
      cases hg : getLast t n with
      | none => rfl
      | some e => exact absurd h (hsup t ht (by rw [hg]; simp))
    rw [C04.merge_newest] at this
    simp [this]

/-- **stale revisions are never read** (corollary, with C04's `merge_newest` /
`merge_none_iff`): put any number of older revisions in front of the `/Prev` chain of a file.
If every object number they mention has an entry in a later revision, and the objects the
newest entries name are where they were, the pages are the same: nothing of the older
revisions — entries or objects — is read. -/
theorem read_ignores_superseded_revisions (f f' : AbsFile) (ext : Ext) (older : List Section)
    (hsec : sections f' = older ++ sections f)
    (hsup : ∀ t ∈ older, ∀ n, getLast t n ≠ none → newest (sections f) n ≠ none)
    (hobjs : ∀ off, Names f off → getLast f.objs off = getLast f'.objs off)
    (hroot : rootOf f = rootOf f') (hd : prevDangling f = prevDangling f') :
    readPages f ext = readPages f' ext := by
  apply read_depends_on_newest f f' ext _ hobjs hroot hd
  intro n
  unfold entry xref
  rw [hsec, entry_prepend older (sections f) n (fun t ht => hsup t ht n)]

/-- satisfiability: a one-revision file and the same file after an incremental update that
rewrites object 1 (old copy at offset 10 stays in the file, new copy at 50) -/
example :
    let old : XSec := { entries := [(1, .at 10), (2, .at 20)], prev := none, root := some 2 }
    let new : XSec := { entries := [(1, .at 50)], prev := some 100, root := some 2 }
    let f : AbsFile := { objs := [], secs := [(200, { new with prev := none, entries := [(1, .at 50), (2, .at 20)] })], start := 200 }
    let f' : AbsFile := { objs := [], secs := [(100, old), (200, new)], start := 200 }
    (∀ n, n ≤ 3 → entry f n = entry f' n) ∧ rootOf f = rootOf f' ∧ prevDangling f = prevDangling f' := by
  decide

/-! ## 2. object streams -/

/-- **read_objstm_invariant**: let object `n` be a plain (non-stream) object `body` in `f`,
and let `f'` differ from `f` only in the newest entry of `n`, which now says "member `idx` of
object stream `stm`", where the bytes that `GetObjectByIndex` cuts out for that member (after
decoding the stream through its own filters and reading its header) are the same `body`
under the number `n`. Then the pages are the same. -/
theorem read_objstm_invariant (f f' : AbsFile) (ext : Ext) (n off stm idx : Nat) (body : Str) (os : ObjStm)
    (hobjs : f'.objs = f.objs)
    (hother : ∀ m, m ≠ n → entry f' m = entry f m)
    (hplain : entry f n = some (.at off)) (hbody : getLast f.objs off = some (n, .plain body))
    (hmember : entry f' n = some (.inStm stm idx))
    (hstm : loadObjStm f' ext stm = .ok os) (hslice : memberSlice os idx = some ((n : Int), body))
    (hroot : rootOf f' = rootOf f) (hd : prevDangling f' = prevDangling f) :
    readPages f' ext = readPages f ext := by
  have hobjAt : ∀ m o, objectAt f' m o = objectAt f m o := fun m o => by unfold objectAt; rw [hobjs]
  have hstmAt : ∀ m o, objStmAt f' ext m o = objStmAt f ext m o := fun m o => by
    unfold objStmAt; rw [hobjAt]
  -- an object stream is looked up the same way in both files
  have hload : ∀ s, loadObjStm f' ext s = loadObjStm f ext s ∨
      (s = n ∧ loadObjStm f' ext s = .error .err ∧ loadObjStm f ext s = .error .err) := by
    intro s
    by_cases hs : s = n
    · right
      subst hs
      refine ⟨rfl, ?_, ?_⟩
      · unfold loadObjStm; rw [hmember]
      · unfold loadObjStm; rw [hplain]
        simp only [objStmAt, objectAt, hbody, if_true, parseBody]
        cases Pdf.coreParse body with
        | error e => rfl
        | ok v => rfl
    · left
      unfold loadObjStm
      rw [hother s hs]
      cases entry f s with
      | none => rfl
      | some e => cases e <;> simp only [hstmAt]
  apply readPages_congr f' f ext _ _ hroot hd
  · intro m
    by_cases hm : m = n
    · subst hm
      unfold getObject
      rw [hmember, hplain]
      simp only [hstm, memberAt, hslice, objectAt, hbody, if_true, parseBody]
      cases Pdf.coreParse body with
      | error e => rfl
      | ok v => rfl
    · unfold getObject
      rw [hother m hm]
      cases entry f m with
      | none => rfl
      | some e =>
        cases e with
        | free nx => rfl
        | «at» o => simp only [hobjAt]
        | inStm s i =>
          simp only
          rcases hload s with h | ⟨_, h1, h2⟩
          · rw [h]
          · rw [h1, h2]
  · apply fuelOf_congr
    intro m
    by_cases hm : m = n
    · subst hm; rw [hmember, hplain]; rfl
    · rw [hother m hm]

/-- satisfiability of the member hypotheses: the decoded object stream `"7 0 12 "` with
`/First 4` holds one member, number 7, whose bytes are `"12 "` -/
example : memberSlice { first := 4, offsets := [(7, 0)], decoded := [55, 32, 48, 32, 49, 50, 32] } 0
    = some ((7 : Int), [49, 50, 32]) := by decide

/-! ## 3. filter chains -/

theorem mkObjStm_congr (ext : Ext) (kv kv' : Dict) (data data' : Str)
    (hdec : decodeStream ext kv' data' = decodeStream ext kv data)
    (h1 : dget kv' kType = dget kv kType) (h2 : dget kv' kN = dget kv kN)
    (h3 : dget kv' kFirst = dget kv kFirst) (h4 : dget kv' kExtends = dget kv kExtends) :
    mkObjStm ext kv' data' = mkObjStm ext kv data := by
  unfold mkObjStm
  rw [h1, h2, h3, h4, hdec]

/-- **read_stream_reencode**: replace one stream object (at offset `off`) by a stream whose
dictionary and raw data are different but whose `Decode()` result is the same (and, in case
it is an object stream, whose `/Type /N /First /Extends` are the same). The pages are the
same: nothing reads a stream's raw data or its `/Filter`, `/DecodeParms`, `/Length`. -/
theorem read_stream_reencode (f f' : AbsFile) (ext : Ext) (off num : Nat) (d d' data data' : Str)
    (kv kv' : Dict) (s s' : Pdf.PState)
    (hsecs : f'.secs = f.secs) (hstart : f'.start = f.start)
    (hat : getLast f.objs off = some (num, .stream d data))
    (hat' : getLast f'.objs off = some (num, .stream d' data'))
    (hoth : ∀ o, o ≠ off → getLast f'.objs o = getLast f.objs o)
    (hd : Pdf.coreParse d = .ok (.dict kv, s)) (hd' : Pdf.coreParse d' = .ok (.dict kv', s'))
    (hdec : decodeStream ext kv' data' = decodeStream ext kv data)
    (h1 : dget kv' kType = dget kv kType) (h2 : dget kv' kN = dget kv kN)
    (h3 : dget kv' kFirst = dget kv kFirst) (h4 : dget kv' kExtends = dget kv kExtends) :
    readPages f' ext = readPages f ext := by
  have hentry : ∀ n, entry f' n = entry f n := fun n => by
    unfold entry xref sections; rw [hsecs, hstart]
  have hobjAt : ∀ m o, (objectAt f' m o).map (toSVal ext) = (objectAt f m o).map (toSVal ext) := by
    intro m o
    by_cases ho : o = off
    · subst ho
      unfold objectAt
      rw [hat, hat']
      by_cases hnm : num = m
      · simp [hnm, parseBody, hd, hd', Except.map, toSVal, hdec]
      · simp [hnm, Except.map]
    · unfold objectAt; rw [hoth o ho]
  have hstmAt : ∀ m o, objStmAt f' ext m o = objStmAt f ext m o := by
    intro m o
    by_cases ho : o = off
    · subst ho
      unfold objStmAt objectAt
      rw [hat, hat']
      by_cases hnm : num = m
      · simp only [hnm, if_true, parseBody, hd, hd']
        exact mkObjStm_congr ext kv kv' data data' hdec h1 h2 h3 h4
      · simp only [hnm, if_false]
    · unfold objStmAt objectAt; rw [hoth o ho]
  apply readPages_congr f' f ext
  · intro n
    unfold getObject
    rw [hentry n]
    cases entry f n with
    | none => rfl
    | some e =>
      cases e with
      | free nx => rfl
      | «at» o =>
        simp only
        have := hobjAt n o
        cases h1 : objectAt f' n o <;> cases h2 : objectAt f n o <;> rw [h1, h2] at this <;>
          simp [Except.map] at this <;> simp [this]
      | inStm st i =>
        simp only
        have : loadObjStm f' ext st = loadObjStm f ext st := by
          unfold loadObjStm
          rw [hentry st]
          cases entry f st with
          | none => rfl
          | some e => cases e <;> simp only [hstmAt]
        rw [this]
  · exact fuelOf_congr f' f fun n => by rw [hentry n]
  · unfold rootOf; rw [hsecs, hstart]
  · unfold prevDangling; rw [hsecs]

/-- a stage's `/DecodeParms` element as an object (what a writer puts into the array) -/
def stageParmsObj : C05.Stage → Pdf.Obj
  | .hex _ _ | .a85 _ => .null
  | .flate _ e => if e then .dict [(kPredictor, .int 1)] else .null
  | .tiff _ colors columns => .dict [(kPredictor, .int 2), (kColors, .int colors), (kColumns, .int columns)]
  | .png _ pred colors columns _ =>
    .dict [(kPredictor, .int pred), (kColors, .int colors), (kColumns, .int columns)]

theorem pobjOf_stageParmsObj (st : C05.Stage) : pobjOf (some (stageParmsObj st)) = st.parms := by
  cases st with
  | hex a u => rfl
  | a85 a => rfl
  | flate a e => cases e <;> rfl
  | tiff a c1 c2 => rfl
  | png a p c1 c2 t => rfl

/-- a dictionary whose `/Filter` and `/DecodeParms` are the arrays of a conforming chain is
decoded by `streamDecode` on exactly that chain -/
theorem decodeStream_chain (ext : Ext) (kv : Dict) (ss : List C05.Stage) (data : Str)
    (hf : dget kv kFilter = some (.arr (ss.map fun st => .name st.name)))
    (hp : dget kv kDecodeParms = some (.arr (ss.map stageParmsObj))) :
    decodeStream ext kv data =
      Filters.streamDecode ext.filt (.array (ss.map fun st => Filters.FObj.name st.name))
        (.array (ss.map C05.Stage.parms)) data := by
  unfold decodeStream filterOf dparmsOf
  rw [hf, hp]
  simp only [List.map_map]
  have e1 : List.map (fobjOf ∘ fun st : C05.Stage => Pdf.Obj.name st.name) ss =
      ss.map fun st => Filters.FObj.name st.name := List.map_congr_left fun st _ => rfl
  have e2 : List.map ((fun o => pobjOf (some o)) ∘ stageParmsObj) ss = ss.map C05.Stage.parms :=
    List.map_congr_left fun st _ => pobjOf_stageParmsObj st
  rw [e1, e2]

/-- **read_filter_invariant** (with C05 `chain_roundtrip`): replace a stream whose data
decodes to the bytes `x` by ANY conforming encoding of `x` — any list of stages (ASCIIHex,
ASCII85, Flate with or without TIFF/PNG predictors, full or abbreviated names), written as
`/Filter` and `/DecodeParms` arrays, the data produced by the specification encoders. The
pages are the same. (`deflate` is any compressor that zlib's inflate inverts.) -/
theorem read_filter_invariant (f f' : AbsFile) (ext : Ext) (off num : Nat) (d d' data : Str)
    (kv kv' : Dict) (s s' : Pdf.PState) (x : Str) (ss : List C05.Stage) (deflate : Str → Str)
    (hsecs : f'.secs = f.secs) (hstart : f'.start = f.start)
    (hat : getLast f.objs off = some (num, .stream d data))
    (hat' : getLast f'.objs off = some (num, .stream d' (C05.encodeChain deflate ss x)))
    (hoth : ∀ o, o ≠ off → getLast f'.objs o = getLast f.objs o)
    (hd : Pdf.coreParse d = .ok (.dict kv, s)) (hd' : Pdf.coreParse d' = .ok (.dict kv', s'))
    (hplain : decodeStream ext kv data = some x)
    (hf : dget kv' kFilter = some (.arr (ss.map fun st => .name st.name)))
    (hp : dget kv' kDecodeParms = some (.arr (ss.map stageParmsObj)))
    (hz : ∀ z, ext.filt.inflate (deflate z) = some z) (hdb : ∀ z, ∀ c ∈ deflate z, c < 256)
    (hx : ∀ b ∈ x, b < 256) (hok : C05.ChainOK deflate ss x)
    (h1 : dget kv' kType = dget kv kType) (h2 : dget kv' kN = dget kv kN)
    (h3 : dget kv' kFirst = dget kv kFirst) (h4 : dget kv' kExtends = dget kv kExtends) :
    readPages f' ext = readPages f ext := by
  apply read_stream_reencode f f' ext off num d d' data _ kv kv' s s' hsecs hstart hat hat' hoth hd hd' _ h1 h2 h3 h4
  rw [hplain, decodeStream_chain ext kv' ss _ hf hp]
  exact C05.chain_roundtrip ext.filt deflate hz hdb ss x hx hok

/-- satisfiability: the chain of C05's own example, as `/Filter [/AHx /Fl /A85]` with a PNG
predictor on the Flate stage, read through `dget` from a dictionary -/
example :
    let ss : List C05.Stage := [.hex true false, .png true 12 1 3 [2, 4], .a85 false]
    let kv : Dict := [(kFilter, .arr (ss.map fun st => .name st.name)), (kDecodeParms, .arr (ss.map stageParmsObj))]
    dget kv kFilter = some (.arr (ss.map fun st => .name st.name)) ∧
      dget kv kDecodeParms = some (.arr (ss.map stageParmsObj)) ∧ C05.ChainOK id ss [1, 2, 3] := by
  refine ⟨rfl, rfl, ⟨trivial, ⟨by omega, by omega, by omega, by omega, by omega, ?_, ?_⟩, trivial, trivial⟩⟩
  · decide
  · decide

/-! ## 4. page-tree shape -/

/-- **read_tree_shape_invariant** (with C01 `flatten_spec`): two page trees — any depth, any
fan-out, inheritable keys at any levels — that have the same `/Contents` entries on their
leaves, left to right, and for every leaf the same nearest definer of `/Resources` on the path
from the root, show the same pages. -/
theorem read_tree_shape_invariant (res : Res) (ext : Ext) (t t' : RTree)
    (hl : (leafDicts t).map (fun d => dget d kContents) = (leafDicts t').map (fun d => dget d kContents))
    (hr : (PdfDoc.leafPaths (toPTree t)).map (fun p => (PdfDoc.resolvePath {} p).res) =
      (PdfDoc.leafPaths (toPTree t')).map (fun p => (PdfDoc.resolvePath {} p).res)) :
    pagesOfTree res ext t = pagesOfTree res ext t' := by
  unfold pagesOfTree pageSpecs
  rw [hl, C01.flatten_spec, C01.flatten_spec, List.map_map, List.map_map]
  exact congrArg _ (congrArg _ hr)

/-- … for two page trees that live in the same object store under two catalogs -/
theorem read_tree_shape_invariant_roots (res : Res) (ext : Ext) (fuel fuel' : Nat) (r r' : Nat) (t t' : RTree)
    (ht : pageTree res fuel (some r) = .ok t) (ht' : pageTree res fuel' (some r') = .ok t')
    (hl : (leafDicts t).map (fun d => dget d kContents) = (leafDicts t').map (fun d => dget d kContents))
    (hr : (PdfDoc.leafPaths (toPTree t)).map (fun p => (PdfDoc.resolvePath {} p).res) =
      (PdfDoc.leafPaths (toPTree t')).map (fun p => (PdfDoc.resolvePath {} p).res)) :
    readWith res ext fuel (some r) = readWith res ext fuel' (some r') := by
  unfold readWith
  rw [ht, ht']
  exact read_tree_shape_invariant res ext t t' hl hr

/-- satisfiability: `/Resources` on the root of a two-level tree, or on the intermediate node -/
example :
    let r : Pdf.Obj := .ref 5 0
    let c : Pdf.Obj := .ref 9 0
    let t : RTree := .node [(kResources, r)] [.node [] [.leaf [(kContents, c)]]]
    let t' : RTree := .node [] [.node [(kResources, r)] [.leaf [(kContents, c)]]]
    (leafDicts t).map (fun d => dget d kContents) = (leafDicts t').map (fun d => dget d kContents) ∧
    (PdfDoc.leafPaths (toPTree t)).map (fun p => (PdfDoc.resolvePath {} p).res) =
      (PdfDoc.leafPaths (toPTree t')).map (fun p => (PdfDoc.resolvePath {} p).res) := by
  refine ⟨rfl, rfl⟩

/-! ## 5. content split over several streams -/

open Tabula.Pdf in
/-- an empty content shows nothing (so the `len(allData) == 0` shortcut of
`extractTextWithFragments` is the general case) -/
theorem showStrings_nil (res : Res) (ext : Ext) (r : Option Pdf.Obj) : showStrings res ext r [] = .ok [] := by
  have := C06.cs_roundtrip [] [] trivial (fun _ h => by cases h) (fun _ h => by cases h)
  simp only [renderOps, renderSep, List.flatMap_nil, List.append_nil, List.map_nil] at this
  unfold showStrings
  rw [this]
  rfl

theorem pageStrings_content (res : Res) (ext : Ext) (c r : Option Pdf.Obj) (content : Str)
    (h : contentBytes res c = .ok (some content)) : pageStrings res ext c r = showStrings res ext r content := by
  unfold pageStrings
  rw [h]
  simp only
  split
  · next h0 => rw [h0, showStrings_nil]
  · rfl

open Tabula.Pdf in
/-- the operations of chunks written one after another and joined as tabula joins them -/
theorem csParse_join_chunks (cs : List Chunk) (hv : ValidOps false (glue [] cs).1) (ht : SepOk (glue [] cs).2)
    (hd : ∀ c ∈ cs, ∀ o ∈ c.1, Obj.depthList (valueList o.operands) ≤ maxNestingDepth) :
    CS.csParse (PdfDoc.joinContents (cs.map chunkBytes)) = some (cs.flatMap fun c => c.1.map opVal) := by
  have hv' := glue_withLF_valid cs [] [] false hv ht (fun _ h => by cases h) id
  have hd' : ∀ o ∈ (glue [] (cs.map withLF)).1, Obj.depthList (valueList o.operands) ≤ maxNestingDepth := by
    intro o ho
    obtain ⟨c, hc, o', ho', e⟩ := glue_mem _ _ o ho
    obtain ⟨c0, hc0, rfl⟩ := List.mem_map.mp hc
    rw [withLF_ops] at ho'
    rw [e]
    exact hd c0 hc0 o' ho'
  rw [join_chunks]
  have hr := glue_render (cs.map withLF) []
  have e0 : renderSep [] = [] := rfl
  rw [e0, List.nil_append] at hr
  rw [← hr, C06.cs_roundtrip _ _ hv'.1 hv'.2 hd']
  have := glue_values (cs.map withLF) []
  have e1 : (fun o : SOp => ({ op := o.op, operands := valueList o.operands } : CS.Operation)) = opVal := rfl
  rw [e1, this]
  simp [List.flatMap_map, withLF_ops]

open Tabula.Pdf in
/-- **what tabula's join guarantees** (`extractTextWithFragments` after the separator fix
9d65264: every non-empty decoded stream is followed by one line feed). Kept verbatim: it is
a statement about the bytes of the join (`joinContents`), which the code delivers whenever it
delivers a content at all (`C01.contents_split_bounded`), i.e. up to 64 MiB per page.
(a) For ANY parts, cut anywhere: the white-space-delimited words of the joined content are
the words of the parts in order (C01 `contents_split`); without the separator this fails
(`C01.concat_without_separator_counterexample`).
(b) For a content stream that is a legal spelling of a program (every token and separator
spelled in any way ISO 32000-1 allows, operands nested at most 500 deep, C06), cut into any number of chunks at operation
boundaries, each chunk with or without white space/comments at its end, some chunks possibly
empty: the joined content parses to exactly the operations of the chunks in order — the same
operations as the uncut stream (C06 `cs_roundtrip`). -/
theorem contents_join_guarantee (parts : List (List Nat)) (cs : List Chunk)
    (hv : ValidOps false (glue [] cs).1) (ht : SepOk (glue [] cs).2)
    (hd : ∀ c ∈ cs, ∀ o ∈ c.1, Obj.depthList (valueList o.operands) ≤ maxNestingDepth) :
    PdfDoc.words (PdfDoc.joinContents parts) = parts.flatMap PdfDoc.words ∧
    CS.csParse (PdfDoc.joinContents (cs.map chunkBytes)) = some (cs.flatMap fun c => c.1.map opVal) ∧
    CS.csParse (PdfDoc.joinContents [cs.flatMap chunkBytes]) = some (cs.flatMap fun c => c.1.map opVal) := by
  refine ⟨C01.contents_split parts, csParse_join_chunks cs hv ht hd, ?_⟩
  -- the uncut stream is the one-chunk split of the same program
  have h1 : cs.flatMap chunkBytes = chunkBytes (glue [] cs) := by
    have := glue_render cs []
    have e0 : renderSep [] = [] := rfl
    rw [e0, List.nil_append] at this
    exact this.symm
  have hg : glue [] [glue [] cs] = glue [] cs := by
    cases hops : (glue [] cs).1 with
    | nil =>
      have : glue [] cs = ([], (glue [] cs).2) := by rw [← hops]
      rw [this]; simp [glue]
    | cons o os =>
      have : glue [] cs = (o :: os, (glue [] cs).2) := by rw [← hops]
      rw [this]
      simp only [glue, List.nil_append, List.append_nil]
      have : o.setLead o.lead = o := by
        obtain ⟨operands, pre, op⟩ := o
        cases operands with
        | nil => rfl
        | cons x xs => cases x <;> rfl
      rw [this]
  have := csParse_join_chunks [glue [] cs] (by rw [hg]; exact hv) (by rw [hg]; exact ht) (by
    intro c hc o ho
    simp only [List.mem_cons, List.not_mem_nil, or_false] at hc
    subst hc
    obtain ⟨c', hc', o', ho', e⟩ := glue_mem _ _ o ho
    rw [e]
    exact hd c' hc' o' ho')
  simp only [List.map_cons, List.map_nil, List.flatMap_cons, List.flatMap_nil, List.append_nil] at this
  rw [h1, this, ← glue_values cs []]

/-
Full statement (not proved): cut the content at ANY boundary between two top-level tokens —
also between the operands of one operation, or between the last operand and its operator:

    theorem read_contents_split_invariant : … (parts cut at top-level token boundaries) …
        pageStrings res ext (some c1) r = pageStrings res ext (some c2) r

(Cutting at white space that is not a token boundary — inside a string literal or a comment —
does change the content: `(a b) Tj` cut at the blank shows `a\nb`.) What is missing is the
bookkeeping for a chunk that ends inside an operand list: `glue` below re-spells the separator
in front of the first token of an OPERATION only. For such cuts only the lexical statement
`contents_join_guarantee` (a) is proved, and the differential run covers them (the harness
cuts at every token boundary).
-/
/-- **read_contents_split_invariant_partial**: a page whose `/Contents` is one stream holding a
legally spelled program, and the page whose `/Contents` is an array of streams holding the
chunks of that program (cut at operation boundaries, see `contents_join_guarantee`), show the
same strings under the same resources — whatever filters the individual streams use —
provided the chunks, joined with tabula's separators, have at most 64 MiB.

Restated (new hypothesis `hsize`): since 36a165b `extractTextWithFragments` refuses a page
whose joined content exceeds `maxPageContentBytes`, and the split content is longer than the
uncut one by one separator per non-empty chunk. At the edge the invariance really fails: an
uncut stream of exactly 64 MiB is read, the same bytes in two streams are refused
(`C01.joinBounded_single` and the examples after it). `hsize` is on the SPLIT side, which is
the longer one (`C01.joinContents_flat_le`); both sides are then within the limit. -/
theorem read_contents_split_invariant_partial (res : Res) (ext : Ext) (r : Option Pdf.Obj) (cs : List Chunk)
    (hv : Pdf.ValidOps false (glue [] cs).1) (ht : Pdf.SepOk (glue [] cs).2)
    (hd : ∀ c ∈ cs, ∀ o ∈ c.1, Pdf.Obj.depthList (Pdf.valueList o.operands) ≤ Pdf.maxNestingDepth)
    (hsize : (PdfDoc.joinContents (cs.map chunkBytes)).length ≤ PdfDoc.maxPageContentBytes)
    (c1 c2 : Pdf.Obj) (xs : List Pdf.Obj) (vs : List SVal)
    (h1 : resolve res c1 = .ok (.stream (some (cs.flatMap chunkBytes))))
    (h2 : resolve res c2 = .ok (.obj (.arr xs))) (h3 : resolveAll res xs = .ok vs)
    (h4 : decodedParts vs = .ok (cs.map chunkBytes)) :
    pageStrings res ext (some c1) r = pageStrings res ext (some c2) r := by
  have hg := contents_join_guarantee [] cs hv ht hd
  have hflat : (cs.map chunkBytes).flatMap id = cs.flatMap chunkBytes := by
    simp [List.flatMap_map]
  have hsize1 : (PdfDoc.joinContents [cs.flatMap chunkBytes]).length ≤ PdfDoc.maxPageContentBytes := by
    have := C01.joinContents_flat_le (cs.map chunkBytes)
    rw [hflat] at this
    omega
  have hb1 : contentBytes res (some c1) = .ok (some (PdfDoc.joinContents [cs.flatMap chunkBytes])) := by
    simp [contentBytes, h1, decodedParts, joinParts, C01.joinBounded_within _ hsize1]
  have hb2 : contentBytes res (some c2) = .ok (some (PdfDoc.joinContents (cs.map chunkBytes))) := by
    simp [contentBytes, h2, h3, h4, joinParts, C01.joinBounded_within _ hsize]
  rw [pageStrings_content res ext _ r _ hb1, pageStrings_content res ext _ r _ hb2]
  unfold showStrings
  rw [hg.2.1, hg.2.2]

open Tabula.Pdf in
/-- satisfiability: `BT (a) Tj` and `ET` as two chunks without any white space at the cut —
legal only because the reader inserts its separator (`TjET` would be one word); the joined
chunks have 14 bytes -/
example :
    let cs : List Chunk :=
      [([⟨[], [], [66, 84]⟩, ⟨[.lit [.ws 32] [.raw 97]], [.ws 32], [84, 106]⟩], []), ([⟨[], [.ws 32], [69, 84]⟩], [])]
    (PdfDoc.joinContents (cs.map chunkBytes)).length ≤ PdfDoc.maxPageContentBytes := by decide

open Tabula.Pdf in
example :
    let cs : List Chunk :=
      [([⟨[], [], [66, 84]⟩, ⟨[.lit [.ws 32] [.raw 97]], [.ws 32], [84, 106]⟩], []), ([⟨[], [.ws 32], [69, 84]⟩], [])]
    ValidOps false (glue [] cs).1 ∧ SepOk (glue [] cs).2 := by
  simp [glue, ValidOps, ValidList, SObj.Valid, noRefList, SObj.noRef, SepOk, SepUnit.Ok, lastEndsRegular,
    SObj.endsRegular, OpName, SOp.setLead, SOp.lead, ValidStr, isWs, CS.isLetter, CS.isOpChar, CS.isKeywordObject,
    kwTrue, kwFalse, kwNull, isDigit]
  refine ⟨⟨66, [84], ?_⟩, ⟨84, [106], ?_⟩, ⟨69, [84], ?_⟩⟩ <;> simp

/-! ## 6. object numbering -/

/-- **read_renumber_invariant**: renumber the objects by any injective map `σ` — the object
that was number `n` is number `σ n`, and every reference inside every object (at any depth of
arrays and dictionaries) is rewritten accordingly, as is the trailer's `/Root`. Everything
above the object layer (catalog, page tree with its visited set, inheritance, contents,
resources, fonts, ToUnicode, interpretation) gives the same pages. Objects under numbers
outside the image of `σ` are unreachable and may be anything. -/
theorem read_renumber_invariant (σ : Nat → Nat) (hinj : ∀ a b, σ a = σ b → a = b) (res res' : Res)
    (h : Renumbered σ res res') (ext : Ext) (fuel r : Nat) :
    readWith res' ext fuel (some (σ r)) = readWith res ext fuel (some r) :=
  readWith_ren σ hinj res res' h ext fuel r

/-- … for two abstract files. The walk's fuel bound is a function of the largest object number
in use, so the two files must agree on it (e.g. `σ` permutes the numbers in use). -/
theorem read_renumber_invariant_files (σ : Nat → Nat) (hinj : ∀ a b, σ a = σ b → a = b) (f f' : AbsFile) (ext : Ext)
    (h : Renumbered σ (getObject f ext) (getObject f' ext))
    (hroot : rootOf f' = (rootOf f).map σ) (hfuel : fuelOf f' = fuelOf f)
    (hd : prevDangling f' = prevDangling f) :
    readPages f' ext = readPages f ext := by
  unfold readPages
  rw [hd, hroot, hfuel]
  split
  · rfl
  · cases rootOf f with
    | none => rfl
    | some r => exact readWith_ren σ hinj _ _ h ext _ r

/-- satisfiability: shifting every number by 10 -/
example : Renumbered (· + 10)
    (fun n => if n = 1 then .ok (.obj (.arr [.ref 2 0, .dict [(kKids, .ref 3 0)]])) else .error .err)
    (fun m => if m = 11 then .ok (.obj (.arr [.ref 12 0, .dict [(kKids, .ref 13 0)]])) else .error .err) := by
  intro n
  by_cases hn : n = 1
  · subst hn; simp [Except.map, renSVal, renObj, renList, renKV, renNum]
  · have : ¬ (n + 10 = 11) := by omega
    simp [hn, this, Except.map]

/-! ## 7. a writer in Lean: what is written is what is read -/

/-- `DecodeString` always answers (C07 `getencoding_total`) -/
theorem decodeString_isSome (ext : Ext) (f : FontDecode.Font) (b : List Nat) :
    (FontDecode.decodeString ext.nfc f b).isSome = true := by
  unfold FontDecode.decodeString FontDecode.preNFC
  rw [Option.isSome_map]
  cases f.toUnicode with
  | some cm => rfl
  | none =>
    simp only
    split
    · rfl
    · rfl
    · split
      · rw [Option.isSome_map]; exact C07.getencoding_total _
      · rfl

open Tabula.Pdf in
theorem parseBody_plain (so : SObj) (hv : so.Valid false) (hd : so.value.depth ≤ maxNestingDepth) :
    parseBody (.plain so.render) = .ok (.obj so.value) := by
  have := C06.core_roundtrip so [] hv (fun _ h => by cases h) hd
  have e : renderSep [] = [] := rfl
  rw [e, List.append_nil] at this
  simp [parseBody, this]

open Tabula.Pdf in
theorem parseBody_stream (sd : SObj) (kv : Dict) (data : List Nat) (hv : sd.Valid false)
    (hd : sd.value.depth ≤ maxNestingDepth) (hval : sd.value = .dict kv) :
    parseBody (.stream sd.render data) = .ok (.stream kv data) := by
  have := C06.core_roundtrip sd [] hv (fun _ h => by cases h) hd
  have e : renderSep [] = [] := rfl
  rw [e, List.append_nil, hval] at this
  simp [parseBody, this]

open Tabula.Pdf in
/-- the bytes of page `i`'s content stream as the spelling writes them -/
def progBytes (sp : Spelling) (i : Nat) : Reader.Str := renderOps (sp.prog i) ++ renderSep (sp.trail i)

open Tabula.Pdf in
/-- the objects read back from the rendered file are the base layout of the document -/
theorem baseStore_render (d : LDoc) (sp : Spelling) (hok : sp.Ok d) (ext : Ext) :
    BaseStore (getObject (renderBase d sp) ext) d (progBytes sp) := by
  have hnd := nodup_renderBase d sp
  have get := fun (p : Printed) (hp : p ∈ renderBaseList d sp) =>
    getObject_fileOf 1 (renderBaseList d sp) ext hnd p hp
  refine ⟨?_, ?_, ?_, ?_, ?_⟩
  · have := get ⟨1, .plain sp.cat.render⟩ (by simp [renderBaseList])
    simp only [parseBody_plain _ hok.cat.1 (by rw [hok.cat.2]; decide), hok.cat.2, Except.map, toSVal] at this
    exact this
  · have := get ⟨2, .plain sp.pages.render⟩ (by simp [renderBaseList])
    simp only [parseBody_plain _ hok.pages.1 (by rw [hok.pages.2, depth_pagesDict]; decide), hok.pages.2, Except.map, toSVal] at this
    exact this
  · have := get ⟨3, .plain sp.font.render⟩ (by simp [renderBaseList])
    simp only [parseBody_plain _ hok.font.1 (by rw [hok.font.2]; decide), hok.font.2, Except.map, toSVal] at this
    exact this
  · intro i hi
    have := get ⟨leafNum i, .plain (sp.leaf i).render⟩ (mem_page d sp i hi _ (by simp [pagePrinted]))
    simp only [parseBody_plain _ (hok.leaf i hi).1 (by rw [(hok.leaf i hi).2]; simp [leafDict, Obj.depth, Obj.depthKV, maxNestingDepth]), (hok.leaf i hi).2, Except.map, toSVal] at this
    exact this
  · intro i hi
    obtain ⟨hv, hdep, kv, hval, hnf⟩ := hok.cdict i hi
    obtain ⟨hvo, hto, hops⟩ := hok.prog i hi
    unfold progBytes
    refine ⟨?_, ?_⟩
    · have := get ⟨contNum i, .stream (sp.cdict i).render (renderOps (sp.prog i) ++ renderSep (sp.trail i))⟩
        (mem_page d sp i hi _ (by simp [pagePrinted]))
      rw [parseBody_stream (sp.cdict i) kv (renderOps (sp.prog i) ++ renderSep (sp.trail i)) hv hdep hval] at this
      unfold renderBase
      rw [this]
      simp [Except.map, toSVal, decodeStream, filterOf, hnf, Filters.streamDecode]
    · -- tabula's join of the single stream, parsed (theorem 5 with one chunk)
      have hg := contents_join_guarantee [] [(sp.prog i, sp.trail i)]
      have hglue : glue [] [(sp.prog i, sp.trail i)] = (sp.prog i, sp.trail i) := by
        cases hp : sp.prog i with
        | nil => simp [glue]
        | cons o os =>
          simp only [glue, List.nil_append, List.append_nil]
          have : o.setLead o.lead = o := by
            obtain ⟨operands, pre, op⟩ := o
            cases operands with
            | nil => rfl
            | cons x xs => cases x <;> rfl
          rw [this]
      have hdp : ∀ c ∈ [(sp.prog i, sp.trail i)], ∀ o ∈ c.1,
          Obj.depthList (valueList o.operands) ≤ maxNestingDepth := by
        intro c hc o ho
        simp only [List.mem_cons, List.not_mem_nil, or_false] at hc
        subst hc
        have hm : opVal o ∈ pageOps d[i] := by rw [← hops]; exact List.mem_map.mpr ⟨o, ho, rfl⟩
        have : Obj.depthList (opVal o).operands = 0 := by
          simp only [pageOps, List.mem_append, List.mem_cons, List.mem_map, List.not_mem_nil, or_false] at hm
          rcases hm with (h | h) | h
          · rcases h with h | h <;> rw [h] <;> rfl
          · obtain ⟨b, _, h⟩ := h; rw [← h]; rfl
          · rw [h]; rfl
        simp only [opVal] at this
        omega
      have := (hg (by rw [hglue]; exact hvo) (by rw [hglue]; exact hto) hdp).2.2
      simp only [List.flatMap_cons, List.flatMap_nil, List.append_nil, chunkBytes] at this
      rw [this, hops]

/-- the fuel of the rendered file covers the walk over its `d.length` leaves -/
theorem fuelOf_renderBase_ge (d : LDoc) (sp : Spelling) : fuelOf (renderBase d sp) ≥ 2 * d.length + 3 := by
  by_cases h0 : d.length = 0
  · have := fuelOf_fileOf_ge 1 (renderBaseList d sp) ⟨3, .plain sp.font.render⟩ (by simp [renderBaseList])
    unfold renderBase
    simp only at this
    omega
  · have hi : d.length - 1 < d.length := by omega
    have := fuelOf_fileOf_ge 1 (renderBaseList d sp)
      ⟨contNum (d.length - 1), .stream (sp.cdict (d.length - 1)).render
        (Pdf.renderOps (sp.prog (d.length - 1)) ++ Pdf.renderSep (sp.trail (d.length - 1)))⟩
      (mem_page d sp _ hi _ (by simp [pagePrinted]))
    unfold renderBase
    simp only [contNum] at this
    omega

/-- **read_render_partial** (`read_render` for the base layout): write the logical document
`d` (pages × lines, every line a byte string shown in one Type1/WinAnsi font) as catalog →
`/Pages` (carrying the `/Resources` its leaves inherit) → one leaf and one unfiltered content
stream `BT /F1 12 Tf (line) Tj … ET` per page, every object and every program in ANY legal
spelling (C06: any escapes, number forms, separators, comments), every page's program spelled
in at most 64 MiB. Reading the file gives, page by page and line by line, exactly the lines'
bytes decoded through WinAnsiEncoding and normalised — for every such document, any number of
pages and lines.

Restated (new hypothesis `hsize`): since 36a165b a page whose decoded content exceeds
`maxPageContentBytes = 64 MiB` is refused, so "for every document" became "for every document
whose pages are each spelled in at most 64 MiB"; `read_render_beyond` is the other half. The
other bounds do not restrict the statement: the base layout's page tree has two levels
(limit 10000), its `/Kids` array is direct, its objects nest at most 3 deep (limit 500; the
content dictionaries carry the hypothesis in `Spelling.Ok`), its operands not at all.

The full `read_render` (every layout the harness's writer produces) is this theorem composed
with 1–6: further revisions with stale objects (1), members of object streams (2), any filter
chain on the streams (3), deeper page trees (4), content cut into several streams (5), any
numbering (6). That composition — a Lean-side `render d lay` for all twelve layout dimensions
and the bookkeeping that its output satisfies the hypotheses of 1–6 — is not done; on the
generated layouts it is covered by the differential op `c01.read`. -/
theorem read_render_partial (d : LDoc) (sp : Spelling) (hok : sp.Ok d) (ext : Ext)
    (hsize : ∀ i, i < d.length → (progBytes sp i).length ≤ PdfDoc.maxPageContentBytes) :
    readPages (renderBase d sp) ext = .ok (d.map fun lines => lines.map (shown ext)) := by
  unfold readPages
  have hfuel := fuelOf_renderBase_ge d sp
  have hd : prevDangling (renderBase d sp) = false := prevDangling_fileOf _ _
  have hr : rootOf (renderBase d sp) = some 1 := rootOf_fileOf _ _
  rw [hd, hr]
  simp only [Bool.false_eq_true, if_false]
  exact readWith_base _ ext d (progBytes sp) (baseStore_render d sp hok ext)
    (fun b => decodeString_isSome ext defaultFont b) hsize _ hfuel

/-- **read_render_beyond**: the same document with ONE page spelled in more than 64 MiB (a
legal spelling: e.g. white space or comments between the operations) is not read: the reader
answers with an error — for the whole `Fragments()` call of that page, and so for the document
as the model reports it. A legal PDF page of that size is refused by design of the repair
36a165b; see the report for what this means for property C01. -/
theorem read_render_beyond (d : LDoc) (sp : Spelling) (hok : sp.Ok d) (ext : Ext)
    (hbig : ∃ i, i < d.length ∧ (progBytes sp i).length > PdfDoc.maxPageContentBytes) :
    readPages (renderBase d sp) ext = .error .err := by
  unfold readPages
  have hfuel := fuelOf_renderBase_ge d sp
  have hd : prevDangling (renderBase d sp) = false := prevDangling_fileOf _ _
  have hr : rootOf (renderBase d sp) = some 1 := rootOf_fileOf _ _
  rw [hd, hr]
  simp only [Bool.false_eq_true, if_false]
  exact readWith_base_beyond _ ext d (progBytes sp) (baseStore_render d sp hok ext)
    (fun b => decodeString_isSome ext defaultFont b) hbig _ hfuel

open Tabula.Pdf in
/-- satisfiability of `Spelling.Ok`: the one-page document with the line `Hi`, every object in
C06's canonical spelling (`spell`), the program `BT /F1 12 Tf (Hi) Tj ET` -/
example : Spelling.Ok
    { cat := spell catObj, pages := spell (.dict (pagesDict 1)), font := spell fontObj,
      leaf := fun i => spell (.dict (leafDict i)), cdict := fun _ => spell (.dict []),
      prog := fun _ => [⟨[], [], opBT⟩, ⟨[.name [.ws 32] [.raw 70, .raw 49], .int [.ws 32] false 0 12], [.ws 32], opTf⟩,
        ⟨[.lit [.ws 10] [.raw 72, .raw 105]], [], opTj⟩, ⟨[], [.ws 32], opET⟩],
      trail := fun _ => [] }
    [[[72, 105]]] := by
  have wf : ∀ o : Obj, o.WF → (spell o).Valid false ∧ (spell o).value = o := fun o h => spell_valid_value o h false
  refine ⟨wf _ ?_, wf _ ?_, wf _ ?_, ?_, ?_, ?_⟩
  · simp [catObj, Obj.WF, WFKV, keysKV, kType, kCatalog, kPages, Tabula.A1.maxInt64]
  · simp [pagesDict, kidsOf, leafNum, resDict, Obj.WF, WFKV, WFList, keysKV, kType, kPages, kKids, kCount, kResources,
      kFont, kF1, Tabula.A1.maxInt64, List.range']
  · simp [fontObj, Obj.WF, WFKV, keysKV, kType, kFont, kSubtype, kType1, kEncoding, kWinAnsiEncoding]
  · intro i hi
    have : i = 0 := by simpa using hi
    subst this
    exact wf _ (by simp [leafDict, contNum, Obj.WF, WFKV, keysKV, kType, kPage, kContents, Tabula.A1.maxInt64])
  · intro i _
    exact ⟨(wf _ (by simp [Obj.WF, WFKV, keysKV])).1, by rw [(wf _ (by simp [Obj.WF, WFKV, keysKV])).2]; decide, [],
      (wf _ (by simp [Obj.WF, WFKV, keysKV])).2, rfl⟩
  · intro i hi
    have : i = 0 := by simpa using hi
    subst this
    refine ⟨?_, ?_, ?_⟩
    · simp [ValidOps, ValidList, SObj.Valid, noRefList, SObj.noRef, SepOk, SepUnit.Ok, lastEndsRegular,
        SObj.endsRegular, OpName, ValidStr, NPiece.Ok, isWs, isDelim, CS.isLetter, CS.isOpChar, CS.isKeywordObject,
        kwTrue, kwFalse, kwNull, isDigit, opBT, opTf, opTj, opET, renderStrBody]
      refine ⟨⟨66, [84], ?_⟩, ⟨84, [102], ?_⟩, ⟨84, [106], ?_⟩, ⟨69, [84], ?_⟩⟩ <;> simp
    · intro u hu; cases hu
    · simp [opVal, pageOps, valueList, SObj.value, strBytes, SPiece.bytes, NPiece.byte, kF1]

/-! ## 8. the resource bounds of the reader (C02 repairs 86b42aa, cd93b07, 36a165b, a3fd154)

For each bound: (a) beyond it the model answers what the code answers — an error;
(b) the work is bounded for EVERY input; (c) the edge. -/

/-! ### 8.1 the page tree is traversed at most 10000 levels deep (86b42aa) -/

/-- (a) a node met at depth 10000 or more — `/Pages`, `/Page` or anything else, valid or not —
ends the walk with an error, before it is looked at -/
theorem walk_refuses_beyond_depth_limit (res : Res) (fuel dep : Nat) (vis : List Nat) (d : Dict)
    (h : dep ≥ PdfDoc.maxPageTreeDepth) : buildNode res (fuel + 1) dep vis d = .error .err :=
  buildNode_too_deep res fuel dep vis d h

/-- (b) for every object store: the page tree the reader delivers has at most 10000 levels — and
the recursion of `traversePageNode`, one call per level on a path, is at most that deep -/
theorem walk_depth_bounded (res : Res) (fuel : Nat) (root : Option Nat) (t : RTree)
    (h : pageTree res fuel root = .ok t) : PdfDoc.height (toPTree t) ≤ PdfDoc.maxPageTreeDepth :=
  pageTree_height res fuel root t h

/-- (c) the edge, on a store whose page tree is a list of `k` `/Pages` nodes above one page
(`k + 1` levels): it is read iff `k + 1 ≤ 10000`. Instances: `Reader.pageTree_chain` at
`k = 9999` (read) and `k = 10000` (refused), examples in Lemmas/ReaderBounds.lean. -/
theorem walk_depth_limit_edge (k fuel : Nat) (hf : fuel ≥ 2 * k + 1) :
    pageTree (chainRes k) fuel (some (k + 1)) =
      if k + 1 ≤ PdfDoc.maxPageTreeDepth then .ok (chainFrom k k) else .error .err :=
  pageTree_chain k fuel hf

example : pageTree (chainRes 9999) 20000 (some 10000) = .ok (chainFrom 9999 9999) := by
  rw [walk_depth_limit_edge 9999 20000 (by omega)]; rfl
example : pageTree (chainRes 10000) 30000 (some 10001) = .error .err := by
  rw [walk_depth_limit_edge 10000 30000 (by omega)]; rfl

/-! ### 8.2 an indirect `/Kids` array is traversed once (cd93b07) -/

/-- (a) a `/Pages` node whose `/Kids` is a reference to an object number already visited — an
array that another node has used, or a node — ends the walk with an error -/
theorem walk_kids_array_once (res : Res) (fuel dep : Nat) (vis : List Nat) (d : Dict) (n g : Int)
    (ht : dget d kType = some (.name kPages)) (hk : dget d kKids = some (.ref n g))
    (hn : 0 ≤ n) (hv : n.toNat ∈ vis) : buildNode res (fuel + 1) dep vis d = .error .err :=
  buildNode_kids_revisited res fuel dep vis d n g ht hk hn hv

/-- (c) two `/Pages` nodes naming the same (empty) indirect `/Kids` array: an error since
cd93b07 (`Reader.sharedKidsRes`; before: a page tree without pages) -/
example : pageTree sharedKidsRes 20 (some 1) = .error .err := by
  simp [pageTree, sharedKidsRes, resolve, dget, buildNode, buildKids, visitKidsRef, kType, kPages, kKids, kCount,
    PdfDoc.maxPageTreeDepth]

/-- (b) **the work of the walk is bounded by the size of the cross-reference table**, for every
file: every object number — node or `/Kids` array — is entered at most once, so the tree that
is built has at most one node per number that has an entry, plus the root … -/
theorem walk_work_bounded (f : AbsFile) (ext : Ext) (fuel : Nat) (root : Option Nat) (t : RTree)
    (h : pageTree (getObject f ext) fuel root = .ok t) : t.size ≤ maxKey (xref f) + 2 :=
  pageTree_size f ext fuel root t h

/-- … and the fuel `fuelOf f = 4 * (largest object number + 2)` the model gives the walk is
never used up: the answer `fuel` is impossible, for every file (so the walk of the model
always ends for a reason the code has too). -/
theorem read_never_answers_fuel (f : AbsFile) (ext : Ext) : readPages f ext ≠ .error .fuel :=
  readPages_never_fuel f ext

/-! ### 8.3 the decoded content of one page is limited to 64 MiB (36a165b) -/

theorem joinParts_bounded (ps : List Reader.Str) (content : Reader.Str) (h : joinParts ps = .ok (some content)) :
    content = PdfDoc.joinContents ps ∧ content.length ≤ PdfDoc.maxPageContentBytes + 1 := by
  unfold joinParts at h
  split at h
  · next c hc =>
    cases h
    exact ⟨(C01.contents_split_bounded ps _ hc).1, C01.joinBounded_bytes_kept ps _ hc⟩
  · cases h

/-- (b) **bounded work**: whatever the page's `/Contents` names — any number of streams of any
size, the same stream any number of times — the content that is kept and handed to the
content parser has at most `maxPageContentBytes + 1` bytes, for every object store -/
theorem page_content_bounded (res : Res) (c : Option Pdf.Obj) (content : Reader.Str)
    (h : contentBytes res c = .ok (some content)) : content.length ≤ PdfDoc.maxPageContentBytes + 1 := by
  unfold contentBytes at h
  repeat' split at h
  all_goals first
    | (cases h; done)
    | exact (joinParts_bounded _ _ h).2

/-- (a) **beyond the limit**: a `/Contents` array whose decoded streams, joined with the
separators, exceed the limit is an error of `extractTextWithFragments` (also for the page whose
text would be extracted from the first few bytes: nothing is truncated, the page is refused) -/
theorem page_content_beyond_limit_refused (res : Res) (c : Pdf.Obj) (xs : List Pdf.Obj) (vs : List SVal) (ps : List Reader.Str)
    (h2 : resolve res c = .ok (.obj (.arr xs))) (h3 : resolveAll res xs = .ok vs)
    (h4 : decodedParts vs = .ok ps)
    (hbig : (PdfDoc.joinContents ps).length > PdfDoc.maxPageContentBytes + 1) :
    contentBytes res (some c) = .error .err := by
  simp [contentBytes, h2, h3, h4, joinParts, C01.joinBounded_beyond ps hbig]

/-- (c) the edge: a page whose content is one stream of exactly 64 MiB is read, one byte more
is refused (for any resolver holding that stream under number `n`) -/
theorem page_content_limit_edge (res : Res) (n k : Nat)
    (hc : res n = .ok (.stream (some (List.replicate k 32)))) :
    contentBytes res (some (.ref n 0)) =
      if k ≤ PdfDoc.maxPageContentBytes then .ok (some (PdfDoc.joinContents [List.replicate k 32]))
      else .error .err := by
  split
  · exact contentBytes_one res n _ hc (by rw [List.length_replicate]; assumption)
  · exact contentBytes_one_beyond res n _ hc (by rw [List.length_replicate]; omega)

example (res : Res) (hc : res 7 = .ok (.stream (some (List.replicate 67108864 32)))) :
    contentBytes res (some (.ref (7 : Nat) 0)) = .ok (some (PdfDoc.joinContents [List.replicate 67108864 32])) := by
  rw [page_content_limit_edge res 7 67108864 hc, if_pos (by decide)]
example (res : Res) (hc : res 7 = .ok (.stream (some (List.replicate 67108865 32)))) :
    contentBytes res (some (.ref (7 : Nat) 0)) = .error .err := by
  rw [page_content_limit_edge res 7 67108865 hc, if_neg (by decide)]

/-! ### 8.4 arrays and dictionaries nest at most 500 deep (a3fd154, C06's parser models)

`Model/Reader.lean` parses every object body, object-stream header and member with C06's
`coreParse` and every page content with `csParse`, which carry the limit. The round-trip
theorems used above carry the hypothesis where it is needed: `contents_join_guarantee` and
`read_contents_split_invariant_partial` (`hd`: operands nested at most 500 deep),
`parseBody_plain` / `parseBody_stream` / `Spelling.Ok.cdict` (`value.depth ≤ maxNestingDepth`;
the fixed objects of the base layout are 1-3 deep, checked by `decide`). -/

open Tabula.Pdf in
/-- (a) an object whose body is a legal spelling of a value nested deeper than 500 does not load
(C06 `core_too_deep`) -/
theorem object_too_deep_refused (so : SObj) (hv : so.Valid false) (hd : maxNestingDepth < so.value.depth) :
    parseBody (.plain so.render) = .error .err := by
  have := C06.core_too_deep so [] hv (fun _ h => by cases h) hd
  have e : renderSep [] = [] := rfl
  rw [e, List.append_nil] at this
  simp [parseBody, this]

theorem parseBody_shallow (b : RawBody) (o : Pdf.Obj) (h : parseBody b = .ok (.obj o)) :
    o.depth ≤ Pdf.maxNestingDepth := by
  cases b with
  | plain body =>
    simp only [parseBody] at h
    split at h
    · next o' s hp =>
      cases h
      exact C06.core_accepts_within_limit body _ s hp
    · cases h
  | stream dd data =>
    simp only [parseBody] at h
    split at h <;> cases h

/-- (b) every object the reader model loads is nested at most 500 deep, whatever the file holds
(C06 `core_accepts_within_limit`): nothing above the object layer ever recurses deeper into
an object than that -/
theorem objects_loaded_shallow (f : AbsFile) (ext : Ext) (n : Nat) (o : Pdf.Obj) (h : getObject f ext n = .ok (.obj o)) :
    o.depth ≤ Pdf.maxNestingDepth := by
  unfold getObject at h
  split at h
  · cases h
  · cases h
  · split at h
    · next v hv =>
      unfold objectAt at hv
      split at hv
      · cases hv
      · split at hv
        · cases v with
          | obj o' =>
            simp only [toSVal] at h
            cases h
            exact parseBody_shallow _ _ hv
          | stream kv data => simp [toSVal] at h
        · cases hv
    · cases h
  · split at h
    · cases h
    · next os _ =>
      split at h
      · next o' hm =>
        cases h
        unfold memberAt at hm
        split at hm
        · cases hm
        · split at hm
          · cases hm
          · next o'' s hp =>
            split at hm
            · cases hm
              exact C06.core_accepts_within_limit _ _ s hp
            · cases hm
      · cases h


open Tabula.Pdf in
/-- (c) the edge: an array nested 501 deep does not load, one nested 500 deep does -/
example : parseBody (.plain (nestArr 501 (SObj.int [] true 2 (-7))).render) = .error .err :=
  object_too_deep_refused _ (nestArr_valid _ _ (by simp [SObj.Valid, SepOk])) (by rw [nestArr_depth]; decide)
open Tabula.Pdf in
example : parseBody (.plain (nestArr 500 (SObj.int [] true 2 (-7))).render) =
    .ok (.obj (nestArr 500 (SObj.int [] true 2 (-7))).value) :=
  parseBody_plain _ (nestArr_valid _ _ (by simp [SObj.Valid, SepOk])) (by rw [nestArr_depth]; decide)

/-! ## 9. fonts: the `/Differences` of a simple font's `/Encoding` dictionary (fix b3a0e07)

Was finding C01/font-text-differences: a Type1 or TrueType font whose `/Encoding` is a
dictionary with `/Differences` and that has no `/ToUnicode` was decoded through the base
encoding alone (`Type1Font.applyEncodingDifferences` counted the entries and dropped them,
TrueType fonts never looked at the array). The reader model's font component
(`parseFont` → `FontDecode.Font.differences` → `decodeShown`) follows the repaired code; the
code before the fix is kept as `decodeShownOld`. The specification of an array of runs
(`Differences.specRune`, ISO 32000-1 9.6.6.1) and the theorems about the font alone are C07's
(`C07.differences_parse`, `differences_override`, `differences_tounicode_precedence`). -/

/-- **read_font_differences** (the former finding, as a statement about the reader): a
string shown in a font the page's `/Font` dictionary binds to a Type1 or TrueType dictionary
without `/ToUnicode`, whose `/Encoding` dictionary carries `/Differences [runs]` - ANY list of
runs over ANY base encoding - is reported, code by code, as the character the differences
specify where they name the code (with a glyph name of the package's list) and as the base
encoding's character elsewhere, NFC last; for every byte string that does not start with a
byte-order mark. -/
theorem read_font_differences (res : Res) (ext : Ext) (fontsD : Dict) (cur : Str) (fd ed : Dict) (st std : Str)
    (hreg : dget fontsD cur = some (.dict fd))
    (hst : dget fd kSubtype = some (.name st))
    (hkind : (st = kType1 ∧ std = kStandardEncoding) ∨ (st = kTrueType ∧ std = kWinAnsiEncoding))
    (rs : List Differences.Run)
    (he : dget fd kEncoding = some (.dict ed))
    (hd : dget ed kDifferences = some (.arr (Differences.renderRuns rs)))
    (hw : widthsOk res fd = true) (htu : dget fd kToUnicode = none)
    (e : Encoding.Enc) (hbase : baseEncoding ed std ≠ []) (hge : Encoding.getEncoding (baseEncoding ed std) = some e)
    (data : Str) (hbytes : UTF16.AllBytes data) (hnb : C07.NoBOM data) :
    decodeShown res ext (some fontsD) cur data =
      .ok (ext.nfc (data.filterMap fun b =>
        match C07.specByte rs e.table b with
        | some r => if r ≠ 0 then some (UTF16.toRune r) else none
        | none => none)) := by
  obtain ⟨ds, hfont, hl⟩ := Differences.parseFont_differences res fd ed st std hst hkind rs he hd hw htu
  unfold decodeShown registered
  simp only [Option.bind_some, hreg, hfont]
  rw [C07.differences_override ext.nfc _ hbase e hge rs ds hl data hbytes hnb]
  rfl

/-- **read_font_differences_tounicode**: with a `/ToUnicode` CMap beside the `/Differences`
the CMap alone decides, as before the fix -/
theorem read_font_differences_tounicode (res : Res) (ext : Ext) (fontsD : Dict) (cur : Str) (o : Pdf.Obj)
    (cm : CMap.CMap) (enc : Str) (ds : FontDecode.Diffs)
    (hreg : dget fontsD cur = some o) (hfont : parseFont res o = some ⟨some cm, enc, ds⟩) (data : Str) :
    decodeShown res ext (some fontsD) cur data = .ok (ext.nfc (CMap.lookupString cm data)) ∧
    decodeShown res ext (some fontsD) cur data = decodeShownOld res ext (some fontsD) cur data := by
  unfold decodeShown decodeShownOld registered
  simp only [Option.bind_some, hreg, hfont]
  exact ⟨rfl, rfl⟩

/-- **read_font_no_differences_unchanged**: a string shown in a font without `/Differences`
(or with no font at all) is decoded exactly as before the fix -/
theorem read_font_no_differences_unchanged (res : Res) (ext : Ext) (fonts : Option Dict) (cur : Str) (data : Str)
    (h : ∀ f, (fonts.bind fun fd => registered res fd cur) = some f → f.differences = []) :
    decodeShown res ext fonts cur data = decodeShownOld res ext fonts cur data := by
  unfold decodeShown decodeShownOld
  cases hf : (fonts.bind fun fd => registered res fd cur) with
  | none => rfl
  | some f =>
    have hd := h f hf
    obtain ⟨tu, enc, ds⟩ := f
    simp only at hd
    subst hd
    rfl

/-- the `/Font` dictionary of the finding's witness: `/F1 << /Type /Font /Subtype /Type1
/Encoding << /BaseEncoding /WinAnsiEncoding /Differences [65 /Euro /eacute] >> >>` -/
def exDiffFonts : Dict :=
  [([70, 49], .dict [(kType, .name kFont), (kSubtype, .name kType1),
    (kEncoding, .dict [(kBaseEncoding, .name kWinAnsiEncoding),
      (kDifferences, .arr (Differences.renderRuns C07.exDiffRuns))])])]

/-- the hypotheses of `read_font_differences` are satisfiable (the witness), and what the
theorem gives there: `(AB)` shown in `/F1` is "€é", `(ABC)` is "€éC" -/
example (ext : Ext) :
    decodeShown (fun _ => .error .err) ext (some exDiffFonts) [47, 70, 49] [65, 66] = .ok (ext.nfc [0x20AC, 0xE9]) ∧
    decodeShown (fun _ => .error .err) ext (some exDiffFonts) [47, 70, 49] [65, 66, 67] = .ok (ext.nfc [0x20AC, 0xE9, 67]) := by
  have hf : (registered (fun _ => .error .err) exDiffFonts [47, 70, 49]).map
      (fun f => (f.toUnicode.isSome, f.encoding, f.differences)) =
      some (false, kWinAnsiEncoding, [(66, some 0xE9), (65, some 0x20AC)]) := by decide +kernel
  cases hr : registered (fun _ => .error .err) exDiffFonts [47, 70, 49] with
  | none => rw [hr] at hf; simp at hf
  | some f =>
    rw [hr] at hf
    obtain ⟨tu, enc, ds⟩ := f
    simp only [Option.map_some, Option.some.injEq, Prod.mk.injEq] at hf
    obtain ⟨h1, h2, h3⟩ := hf
    cases tu with
    | some cm => simp at h1
    | none =>
      subst h2 h3
      have p2 : FontDecode.preNFC ⟨none, kWinAnsiEncoding, [(66, some 0xE9), (65, some 0x20AC)]⟩ [65, 66] = some [0x20AC, 0xE9] := by
        decide +kernel
      have p3 : FontDecode.preNFC ⟨none, kWinAnsiEncoding, [(66, some 0xE9), (65, some 0x20AC)]⟩ [65, 66, 67] = some [0x20AC, 0xE9, 67] := by
        decide +kernel
      unfold decodeShown
      simp only [Option.bind_some, hr, FontDecode.decodeString, p2, p3, Option.map_some, and_self]

/-- **font_differences_pinned_counterexample**: the reader before b3a0e07 (`decodeShownOld`)
reports the witness's `(AB)` as "AB" - the base encoding's characters - although the font
defines "€é" (`nfc` = identity: both strings are in NFC) -/
theorem font_differences_pinned_counterexample (filt : Filters.Ext) :
    decodeShownOld (fun _ => .error .err) ⟨filt, id⟩ (some exDiffFonts) [47, 70, 49] [65, 66] = .ok [65, 66] ∧
    decodeShown (fun _ => .error .err) ⟨filt, id⟩ (some exDiffFonts) [47, 70, 49] [65, 66] = .ok [0x20AC, 0xE9] := by
  have hf : (registered (fun _ => .error .err) exDiffFonts [47, 70, 49]).map
      (fun f => (f.toUnicode.isSome, f.encoding, f.differences)) =
      some (false, kWinAnsiEncoding, [(66, some 0xE9), (65, some 0x20AC)]) := by decide +kernel
  cases hr : registered (fun _ => .error .err) exDiffFonts [47, 70, 49] with
  | none => rw [hr] at hf; simp at hf
  | some f =>
    rw [hr] at hf
    obtain ⟨tu, enc, ds⟩ := f
    simp only [Option.map_some, Option.some.injEq, Prod.mk.injEq] at hf
    obtain ⟨h1, h2, h3⟩ := hf
    cases tu with
    | some cm => simp at h1
    | none =>
      subst h2 h3
      have hp := C07.differences_pinned_counterexample
      unfold decodeShownOld decodeShown
      simp only [Option.bind_some, hr, hp.1, hp.2, and_self]

end Tabula.C01R
