import TabulaModel.Props.C09
import TabulaModel.Props.C09Order
import TabulaModel.Props.C09Text
import TabulaModel.Model.LayoutApi
/-!
# C09, end to end — the public API's model

The statement of C09 over `Open(f).Text()` in every text mode and over `Lines()`,
`Paragraphs()`, `ReadingOrder()`: for every document (list of pages), every option set and every
outcome of every heuristic on every page, the non-white-space characters of the result are, as a
multiset, those of the pages' fragments (plus the OCR text of pages without fragments, an
external result). The per-mechanism theorems of `C09`, `C09Order`, `C09Text` are chained here.
-/
namespace Tabula.C09Api
open Tabula.Layout List

/-- the dispatch returns one of its four candidates -/
theorem dispatch_is_candidate (o : TextOpts) (cl mc : Bool) (pl jp bc asm : Str) :
    textDispatch o cl mc pl jp bc asm = pl ∨ textDispatch o cl mc pl jp bc asm = jp ∨
    textDispatch o cl mc pl jp bc asm = bc ∨ textDispatch o cl mc pl jp bc asm = asm := by
  unfold textDispatch
  split
  · exact Or.inl rfl
  · split
    · exact Or.inr (Or.inl rfl)
    · split
      · exact Or.inr (Or.inr (Or.inl rfl))
      · split
        · exact Or.inr (Or.inr (Or.inl rfl))
        · exact Or.inr (Or.inr (Or.inr rfl))

/-- precedence of the options: PreserveLayout over JoinParagraphs over ByColumn over the
automatic choice -/
theorem dispatch_precedence (o : TextOpts) (cl mc : Bool) (pl jp bc asm : Str) :
    (o.preserveLayout = true → textDispatch o cl mc pl jp bc asm = pl) ∧
    (o.preserveLayout = false → o.joinParagraphs = true → textDispatch o cl mc pl jp bc asm = jp) ∧
    (o.preserveLayout = false → o.joinParagraphs = false → o.byColumn = true →
      textDispatch o cl mc pl jp bc asm = bc) := by
  unfold textDispatch
  refine ⟨fun h => by simp [h], fun h1 h2 => by simp [h1, h2], fun h1 h2 h3 => by simp [h1, h2, h3]⟩

/-- PAGE LEVEL, every text mode: `Text()`, `ByColumn()`, `JoinParagraphs()`, `PreserveLayout()`
in any combination, the automatic choice included — the text of a page has exactly the
non-space characters of its fragments. -/
theorem page_text_conserves (hz : Heur) (o : TextOpts) (widthZero : Bool) (fs : List Frag) :
    (nonspace (pageText hz o widthZero fs)).Perm (nonspace (textsOf fs)) := by
  unfold pageText
  rcases dispatch_is_candidate o (isCharacterLevel fs)
      (detectMultiColumn widthZero fs (hz.readingOrder fs).columnCount)
      (preserveLayoutGo hz.cw hz.lh0 fs)
      (extractWithParagraphs hz.gaps hz.minCW hz.minW hz.isSpan hz.keep hz.tolOf hz.preserve hz.rtl hz.brkOf fs)
      (extractByColumn hz.gaps hz.minCW hz.minW hz.isSpan hz.keep hz.tolOf hz.preserve hz.rtl fs)
      (assembleText fs) with h | h | h | h <;> rw [h]
  · exact C09.assemble_conserves_preserveLayoutGo hz.cw hz.lh0 fs
  · exact C09Order.joinparagraphs_conserves _ _ _ _ _ _ _ _ _ fs
  · exact C09Order.bycolumn_conserves _ _ _ _ _ _ _ _ fs
  · exact C09.assemble_conserves fs

/-- the same from the raw content-stream fragments: deduplication is the only removal -/
theorem page_text_pipeline_conserves (hz : Heur) (o : TextOpts) (widthZero : Bool) (raw : List Frag) :
    (nonspace (pageText hz o widthZero (dedupe raw))).Perm (nonspace (textsOf (dedupe raw))) :=
  page_text_conserves hz o widthZero (dedupe raw)

/-- what a page must show: its fragments' characters, or (no fragments) the OCR text -/
def pageChars (p : PageIn) : Str := if p.frags.isEmpty then nonspace p.ocr else nonspace (textsOf p.frags)

theorem page_in_text_conserves (o : TextOpts) (p : PageIn) : (nonspace (p.text o)).Perm (pageChars p) := by
  unfold PageIn.text pageChars
  split
  · exact List.Perm.refl _
  · exact page_text_conserves p.hz o p.widthZero p.frags

theorem nonspace_joinPages (i : Nat) (acc : Str) (ts : List Str) :
    nonspace (joinPages i acc ts) = nonspace acc ++ (ts.map nonspace).flatten := by
  induction ts generalizing i acc with
  | nil => simp [joinPages]
  | cons t ts ih =>
    simp only [joinPages, ih, nonspace_append, List.map_cons, List.flatten_cons, List.append_assoc]
    congr 1
    split <;> simp [nonspace, isSpaceByte]

/-- DOCUMENT LEVEL (the invariant of the page loop, by induction over the page list): for every
document, every option set and every heuristic outcome on every page, `Text()` shows exactly the
characters the pages must show — the joining of pages writes white space only, a page whose
text is empty adds nothing, no page is skipped or written twice. -/
theorem document_text_conserves (o : TextOpts) (pages : List PageIn) :
    (nonspace (docText o pages)).Perm (pages.map pageChars).flatten := by
  unfold docText
  rw [nonspace_joinPages]
  simp only [nonspace_nil, List.nil_append, List.map_map]
  induction pages with
  | nil => exact List.Perm.refl _
  | cons p ps ih =>
    simp only [List.map_cons, List.flatten_cons, Function.comp]
    exact (page_in_text_conserves o p).append ih

/-- appending a page to a document appends its characters: the history form of the invariant -/
theorem document_text_snoc (o : TextOpts) (pages : List PageIn) (p : PageIn) :
    (nonspace (docText o (pages ++ [p]))).Perm (nonspace (docText o pages) ++ pageChars p) := by
  refine (document_text_conserves o (pages ++ [p])).trans ?_
  simp only [List.map_append, List.flatten_append, List.map_cons, List.map_nil, List.flatten_cons,
    List.flatten_nil, List.append_nil]
  exact (document_text_conserves o pages).symm.append_right _

/-- `Lines()` over a document -/
theorem document_lines_conserve (pages : List PageIn) :
    (nonspace (textsOf (docLines pages).flatten)).Perm (nonspace (textsOf (pages.flatMap (·.frags)))) := by
  unfold docLines
  induction pages with
  | nil => exact List.Perm.refl _
  | cons p ps ih =>
    simp only [List.flatMap_cons, List.flatten_append, textsOf_append, nonspace_append]
    exact (detectLines_nonspace _ _ _ _).append ih

/-- `ReadingOrder().Fragments` over a document: a permutation of all pages' fragments, page by page -/
theorem document_reading_order_partition (pages : List PageIn) :
    (docReadingOrderFragments pages).Perm (pages.flatMap (·.frags)) := by
  unfold docReadingOrderFragments
  induction pages with
  | nil => exact List.Perm.refl _
  | cons p ps ih =>
    simp only [List.flatMap_cons]
    exact (C09Order.reading_order_partition _ _ _ _ _ _ _ _ _).append ih

/-- `ReadingOrder().Lines` over a document -/
theorem document_reading_order_lines_conserve (pages : List PageIn) :
    (nonspace (textsOf (docReadingOrderLines pages).flatten)).Perm
      (nonspace (textsOf (pages.flatMap (·.frags)))) := by
  unfold docReadingOrderLines
  induction pages with
  | nil => exact List.Perm.refl _
  | cons p ps ih =>
    simp only [List.flatMap_cons, List.flatten_append, textsOf_append, nonspace_append]
    exact (C09Order.reading_order_lines_conserve _ _ _ _ _ _ _ _ _).append ih

/-- `Paragraphs()` over a document: the paragraph texts show the characters of all fragments -/
theorem document_paragraphs_conserve (pages : List PageIn) :
    (nonspace ((docParagraphs pages).map paragraphText).flatten).Perm
      (nonspace (textsOf (pages.flatMap (·.frags)))) := by
  unfold docParagraphs
  induction pages with
  | nil => exact List.Perm.refl _
  | cons p ps ih =>
    simp only [List.flatMap_cons, List.map_append, List.flatten_append, textsOf_append, nonspace_append]
    refine List.Perm.append ?_ ih
    have h := C09Order.ro_paragraphs_conserve p.hz.gaps p.hz.minCW p.hz.minW p.hz.isSpan p.hz.keep p.hz.tolOf
      p.hz.preserve p.hz.rtl p.hz.brkOf p.frags
    rw [nonspace_paragraphLayoutText] at h
    have e : ∀ ps : List (List (List Frag)),
        nonspace (ps.map paragraphText).flatten = nonspace (textsOf ps.flatten.flatten) := by
      intro ps
      induction ps with
      | nil => rfl
      | cons q qs ihq =>
        simp only [List.map_cons, List.flatten_cons, nonspace_append, List.flatten_append, textsOf_append,
          nonspace_paragraphText, ihq]
    rw [e]
    exact h

/-! ## Analyze() -/

/-- `NewAnalyzer().Analyze(fs)`: every component of the result conserves the fragments — the
columns with the spanning group and the fragments of the reading order as permutations, the
lines, blocks (in `Fragments` and through `GetText`), paragraphs and `GetText()` in their
non-space characters. (The element tree is the recorded finding: `C09.element_tree_once_iff`.) -/
theorem analyze_conserves (hz : Heur) (bh : BlockHeur)
    (hs : ∀ l, (bh.srt l).Perm l) (hx : ∀ l, (bh.srtX l).Perm l) (hb : ∀ l, (bh.srtB l).Perm l)
    (fs : List Frag) :
    (analyze hz bh fs).columns.all.Perm fs ∧
    (analyze hz bh fs).readingOrder.fragments.Perm fs ∧
    (nonspace (textsOf (analyze hz bh fs).lines.flatten)).Perm (nonspace (textsOf fs)) ∧
    (nonspace (textsOf (blocksFrags (analyze hz bh fs).blocks))).Perm (nonspace (textsOf fs)) ∧
    (nonspace (blockLayoutText (analyze hz bh fs).blocks)).Perm (nonspace (textsOf fs)) ∧
    (nonspace (paragraphLayoutText (analyze hz bh fs).paragraphs)).Perm (nonspace (textsOf fs)) ∧
    (nonspace (analyze hz bh fs).text).Perm (nonspace (textsOf fs)) := by
  refine ⟨?_, ?_, ?_, ?_, ?_, ?_, ?_⟩
  · unfold analyze
    simp only
    split
    · rename_i h; rw [(isEmpty_eq_true_iff fs).mp h]; exact List.Perm.refl _
    · exact detectColumns_perm _ _ _ _ _
  · exact C09Order.reading_order_partition _ _ _ _ _ _ _ _ fs
  · unfold analyze
    simp only
    split
    · rename_i h; rw [(isEmpty_eq_true_iff fs).mp h]; exact List.Perm.refl _
    · exact detectLines_nonspace _ _ _ _
  · exact C09Text.block_detector_conserves _ _ _ hs hx hb _ _ _ _ fs
  · exact C09Text.block_layout_text_conserves _ _ _ hs hx hb _ _ _ _ fs
  · exact C09Order.ro_paragraphs_conserve _ _ _ _ _ _ _ _ _ fs
  · exact C09Text.reading_order_text_conserves _ _ _ _ _ _ _ _ fs

example : ∀ l : List Frag, (stableSort blLess l).Perm l := fun l => stableSort_perm _ l

/-! ## witnesses -/

/-- three pages, the middle one without fragments and without OCR text: one blank line between
the two texts, none doubled -/
example : joinPages 0 [] [[97], [], [98]] = [97, 10, 10, 98] := by decide +kernel

/-- the automatic choice: 12 one-letter fragments are character-level -/
example : isCharacterLevel (List.replicate 12 ⟨0, 0, 0, 5, 10, 10, [97]⟩) = true ∧
    isCharacterLevel (List.replicate 12 ⟨0, 0, 0, 5, 10, 10, [97, 98]⟩) = false := by decide +kernel

example : textDispatch ⟨false, true, true⟩ true true [1] [2] [3] [4] = [2] ∧
    textDispatch ⟨false, false, false⟩ false true [1] [2] [3] [4] = [3] ∧
    textDispatch ⟨false, false, false⟩ false false [1] [2] [3] [4] = [4] := by decide +kernel

end Tabula.C09Api
