import TabulaModel.Lemmas.LayoutElem
import TabulaModel.Props.C09Api
/-
C09, `AnalysisResult.Elements` of `(*Analyzer).Analyze`: EXACTLY which fragments the element tree
loses and which it shows more than once - for all inputs and all heuristic outcomes.

`element_tree_once` is false for the code as it is (recorded findings
C09/elements-lost-paragraph-covered-by-heading-or-list and
C09/elements-duplicated-heading-or-list-also-in-paragraph): it stays a finding. This file says
what holds instead, id by id:

* generic (any headings, lists, paragraphs): `element_tree_count`, `element_tree_lost_iff`,
  `element_tree_no_invention`, `element_tree_exact`;
* for the analyzer (`Model/LayoutElem.lean`: headings = accepted page paragraphs, lists = runs of
  list candidates as `groupIntoLists` builds them, paragraphs = those of the reading order):
  every input fragment occurs at most once among the headings, at most once among the lists and
  at most once among the paragraphs (`analysis_headings_once`, `analysis_lists_once`,
  `analysis_paragraphs_once`), so in `Elements()` it occurs
  [in a heading] + [in a list] + [its paragraph is not suppressed] times (`analysis_elements_exact`,
  at most 3: `analysis_elements_at_most_three`); it is LOST iff it is in no heading, in no list and
  its paragraph is suppressed (`analysis_elements_lost_iff`); nothing is invented
  (`analysis_elements_no_invention`); a page without headings and list candidates shows exactly
  the paragraphs of the reading order (`analysis_elements_plain`).
-/
namespace Tabula.C09Elem
open Tabula.Layout Tabula.C09

/-! ## any headings, lists and paragraphs -/

/-- the element tree id by id: an id occurs as often as in the headings, plus in the lists, plus
in the paragraphs that are not suppressed -/
theorem element_tree_count (ov : Box → Box → Bool) (hs ls ps : List Elem) (i : Nat) :
    (idsOf (elementTree ov hs ls ps)).count i =
      (idsOf hs).count i + (idsOf ls).count i +
        (idsOf (ps.filter fun p => !consumed ov hs ls p)).count i :=
  count_elementTree ov hs ls ps i

/-- nothing is invented: an id of the tree is an id of a heading, of a list or of a paragraph -/
theorem element_tree_no_invention (ov : Box → Box → Bool) (hs ls ps : List Elem) (i : Nat)
    (h : i ∈ idsOf (elementTree ov hs ls ps)) : i ∈ idsOf hs ∨ i ∈ idsOf ls ∨ i ∈ idsOf ps := by
  rcases (mem_elementTree ov hs ls ps i).mp h with h | h | ⟨p, hp, _, hi⟩
  · exact Or.inl h
  · exact Or.inr (Or.inl h)
  · exact Or.inr (Or.inr (List.mem_flatMap.mpr ⟨p, hp, hi⟩))

/-- EXACTLY what is lost: an id is missing from the tree iff no heading and no list shows it and
every paragraph that shows it is suppressed -/
theorem element_tree_lost_iff (ov : Box → Box → Bool) (hs ls ps : List Elem) (i : Nat) :
    i ∉ idsOf (elementTree ov hs ls ps) ↔
      i ∉ idsOf hs ∧ i ∉ idsOf ls ∧ ∀ p ∈ ps, i ∈ p.ids → consumed ov hs ls p = true := by
  unfold idsOf
  rw [mem_elementTree]
  constructor
  · intro h
    refine ⟨fun a => h (Or.inl a), fun a => h (Or.inr (Or.inl a)), ?_⟩
    intro p hp hi
    cases hc : consumed ov hs ls p
    · exact absurd (Or.inr (Or.inr ⟨p, hp, hc, hi⟩)) h
    · rfl
  · rintro ⟨h1, h2, h3⟩ (h | h | ⟨p, hp, hc, hi⟩)
    · exact h1 h
    · exact h2 h
    · rw [h3 p hp hi] at hc; exact Bool.noConfusion hc

/-- EXACTLY how often: when an id occurs at most once among the headings, the lists and the
paragraphs, it occurs in the tree [heading] + [list] + [paragraph not suppressed] times -/
theorem element_tree_exact (ov : Box → Box → Bool) (hs ls ps : List Elem) (i : Nat)
    (hh : (idsOf hs).count i ≤ 1) (hl : (idsOf ls).count i ≤ 1) (hp : (idsOf ps).count i ≤ 1) :
    (idsOf (elementTree ov hs ls ps)).count i =
      (if i ∈ idsOf hs then 1 else 0) + (if i ∈ idsOf ls then 1 else 0) +
        (if i ∈ idsOf (ps.filter fun p => !consumed ov hs ls p) then 1 else 0) := by
  rw [element_tree_count, count_eq_ite hh, count_eq_ite hl]
  have h3 : (idsOf (ps.filter fun p => !consumed ov hs ls p)).count i ≤ 1 :=
    Nat.le_trans ((sublist_flatMap _ List.filter_sublist).count_le i) hp
  rw [count_eq_ite h3]

example : (idsOf [⟨⟨0, 0, 1, 1⟩, [7]⟩]).count 7 ≤ 1 := by decide

/-! ## the analyzer -/

theorem pagePars_ids_le (hz : Heur) (bh : BlockHeur) (eh : ElemHeur) (fs : List Frag) (i : Nat) :
    ((pagePars hz bh eh fs).flatMap (·.ids)).count i ≤ (fs.map (·.id)).count i := by
  unfold pagePars
  rw [pars_ids, detectParagraphs_flatten]
  unfold analyze
  simp only
  split
  · exact Nat.zero_le _
  · exact detectLines_ids_le _ _ _ _ i

/-- a fragment occurs at most once among the headings (as often as in the input, at most) -/
theorem analysis_headings_once (hz : Heur) (bh : BlockHeur) (eh : ElemHeur) (fs : List Frag) (i : Nat) :
    (idsOf (headingElems (pagePars hz bh eh fs))).count i ≤ (fs.map (·.id)).count i :=
  Nat.le_trans ((headingElems_ids_sublist _).count_le i) (pagePars_ids_le hz bh eh fs i)

/-- a fragment occurs at most once among the lists: `groupIntoLists` puts a candidate into one
run, and a short run is dropped as a whole -/
theorem analysis_lists_once (hz : Heur) (bh : BlockHeur) (eh : ElemHeur) (fs : List Frag) (i : Nat) :
    (idsOf (listElems 2 2 (pagePars hz bh eh fs))).count i ≤ (fs.map (·.id)).count i :=
  Nat.le_trans ((listElems_ids_sublist 2 2 _).count_le i) (pagePars_ids_le hz bh eh fs i)

/-- a fragment occurs at most once among the paragraphs of the reading order -/
theorem analysis_paragraphs_once (hz : Heur) (bh : BlockHeur) (eh : ElemHeur) (fs : List Frag) (i : Nat) :
    (idsOf (roParElems hz bh eh fs)).count i ≤ (fs.map (·.id)).count i := by
  unfold roParElems idsOf
  rw [ropars_ids]
  unfold analyze Heur.readingOrder
  simp only
  rw [C09Order.ro_paragraphs_segment]
  exact readingOrder_lines_ids_le _ _ _ _ _ _ _ _ fs i

/-- `Elements()` invents nothing: every fragment id it shows is the id of an input fragment -/
theorem analysis_elements_no_invention (hz : Heur) (bh : BlockHeur) (eh : ElemHeur) (fs : List Frag) (i : Nat)
    (h : i ∈ idsOf (analysisElements hz bh eh fs)) : i ∈ fs.map (·.id) := by
  have pos : ∀ l : List Nat, i ∈ l → l.count i ≤ (fs.map (·.id)).count i → i ∈ fs.map (·.id) := by
    intro l hm hc
    have := List.count_pos_iff.mpr hm
    exact List.count_pos_iff.mp (by omega)
  unfold analysisElements pageElements at h
  rcases element_tree_no_invention _ _ _ _ i h with h | h | h
  · exact pos _ h (analysis_headings_once hz bh eh fs i)
  · exact pos _ h (analysis_lists_once hz bh eh fs i)
  · exact pos _ h (analysis_paragraphs_once hz bh eh fs i)

/-- EXACTLY how often a fragment occurs in `Elements()`, for every page with distinct fragment
ids and every outcome of every heuristic: [in a heading] + [in a list] + [in a paragraph that is
not suppressed] -/
theorem analysis_elements_exact (hz : Heur) (bh : BlockHeur) (eh : ElemHeur) (fs : List Frag) (i : Nat)
    (hn : (fs.map (·.id)).Nodup) :
    (idsOf (analysisElements hz bh eh fs)).count i =
      (if i ∈ idsOf (headingElems (pagePars hz bh eh fs)) then 1 else 0) +
      (if i ∈ idsOf (listElems 2 2 (pagePars hz bh eh fs)) then 1 else 0) +
      (if i ∈ idsOf ((roParElems hz bh eh fs).filter fun p => !consumed bboxOverlaps
          (headingElems (pagePars hz bh eh fs)) (listElems 2 2 (pagePars hz bh eh fs)) p) then 1 else 0) := by
  have h1 : (fs.map (·.id)).count i ≤ 1 := List.nodup_iff_count.mp hn i
  unfold analysisElements pageElements
  exact element_tree_exact _ _ _ _ i
    (Nat.le_trans (analysis_headings_once hz bh eh fs i) h1)
    (Nat.le_trans (analysis_lists_once hz bh eh fs i) h1)
    (Nat.le_trans (analysis_paragraphs_once hz bh eh fs i) h1)

example : ((([⟨0, 72, 700, 30, 10, 10, [97]⟩, ⟨1, 110, 700, 30, 10, 10, [98]⟩] : List Frag)).map (·.id)).Nodup := by
  decide

/-- a fragment is shown at most three times -/
theorem analysis_elements_at_most_three (hz : Heur) (bh : BlockHeur) (eh : ElemHeur) (fs : List Frag) (i : Nat)
    (hn : (fs.map (·.id)).Nodup) : (idsOf (analysisElements hz bh eh fs)).count i ≤ 3 := by
  rw [analysis_elements_exact hz bh eh fs i hn]
  split <;> split <;> split <;> omega

/-- EXACTLY which fragments `Elements()` loses: those that no heading and no list shows and whose
reading-order paragraph is suppressed by the box-overlap rule -/
theorem analysis_elements_lost_iff (hz : Heur) (bh : BlockHeur) (eh : ElemHeur) (fs : List Frag) (i : Nat) :
    i ∉ idsOf (analysisElements hz bh eh fs) ↔
      i ∉ idsOf (headingElems (pagePars hz bh eh fs)) ∧ i ∉ idsOf (listElems 2 2 (pagePars hz bh eh fs)) ∧
      ∀ p ∈ roParElems hz bh eh fs, i ∈ p.ids → consumed bboxOverlaps
        (headingElems (pagePars hz bh eh fs)) (listElems 2 2 (pagePars hz bh eh fs)) p = true := by
  unfold analysisElements pageElements
  exact element_tree_lost_iff _ _ _ _ i

/-- a page on which no paragraph is taken for a heading or a list item: `Elements()` are the
paragraphs of the reading order, nothing lost, nothing repeated -/
theorem analysis_elements_plain (hz : Heur) (bh : BlockHeur) (eh : ElemHeur) (fs : List Frag)
    (hH : ∀ p, (eh.info p).isH = false) (hL : ∀ p, (eh.info p).ty = 0) :
    analysisElements hz bh eh fs = roParElems hz bh eh fs := by
  unfold analysisElements pageElements
  have h1 : headingElems (pagePars hz bh eh fs) = [] := by
    unfold headingElems
    rw [List.filter_eq_nil_iff.mpr]
    · rfl
    · intro p hp
      unfold pagePars at hp
      rcases List.mem_map.mp hp with ⟨q, _, rfl⟩
      simp [mkPPar, hH q]
  have h2 : listElems 2 2 (pagePars hz bh eh fs) = [] := by
    unfold listElems
    rw [candsFrom_none]
    · rfl
    · intro p hp
      unfold pagePars at hp
      rcases List.mem_map.mp hp with ⟨q, _, rfl⟩
      exact hL q
  rw [h1, h2]
  exact element_tree_no_headings _ _

/-- ... and then they show exactly the characters of the fragments -/
theorem analysis_elements_plain_conserves (hz : Heur) (bh : BlockHeur) (eh : ElemHeur) (fs : List Frag)
    (hH : ∀ p, (eh.info p).isH = false) (hL : ∀ p, (eh.info p).ty = 0) :
    idsOf (analysisElements hz bh eh fs) = (analyze hz bh fs).paragraphs.flatten.flatten.map (·.id) ∧
    (nonspace (textsOf (analyze hz bh fs).paragraphs.flatten.flatten)).Perm (nonspace (textsOf fs)) := by
  refine ⟨?_, ?_⟩
  · rw [analysis_elements_plain hz bh eh fs hH hL]
    unfold roParElems idsOf
    exact ropars_ids _ _
  · unfold analyze Heur.readingOrder
    simp only
    rw [C09Order.ro_paragraphs_segment]
    exact C09Order.reading_order_lines_conserve _ _ _ _ _ _ _ _ fs

/-! ## `groupIntoLists` and `calculateListBBox` at witnesses -/

/-- three candidates: paragraphs 0 and 1 (bullets), paragraph 3 (bullet, within two font sizes
of paragraph 1), then a numbered item far below: one list of three items, the single numbered
item is no list -/
example :
    (groupIntoLists 2 2
      [(0, ⟨[0], ⟨72, 700, 100, 10⟩, 10, false, 1⟩), (1, ⟨[1], ⟨72, 688, 100, 10⟩, 10, false, 1⟩),
       (3, ⟨[3], ⟨72, 660, 100, 10⟩, 10, false, 1⟩), (5, ⟨[5], ⟨72, 400, 100, 10⟩, 10, false, 2⟩)]).map
      (fun g => g.map (·.1)) = [[0, 1, 3]] := by decide +kernel

/-- the gap rule at its edge: 20 points = 2.0 x 10 continues the list, 20.25 does not -/
example :
    listBreak 2 [(0, ⟨[0], ⟨72, 700, 100, 10⟩, 10, false, 1⟩)] (2, ⟨[2], ⟨72, 670, 100, 10⟩, 10, false, 1⟩) [] = false ∧
    listBreak 2 [(0, ⟨[0], ⟨72, 700, 100, 10⟩, 10, false, 1⟩)] (2, ⟨[2], ⟨72, 670 - 1/4, 100, 10⟩, 10, false, 1⟩) [] = true := by
  decide +kernel

example : listBox [⟨72, 700, 100, 10⟩, ⟨90, 688, 120, 10⟩, ⟨60, 690, 10, 30⟩] = ⟨60, 688, 150, 32⟩ := by
  decide +kernel

/-- the recorded loss, now located: fragment 1 is in the suppressed paragraph and in no heading -/
example :
    (1 : Nat) ∉ idsOf (elementTree bboxOverlaps [⟨⟨72, 700, 100, 12⟩, [0]⟩] [] [⟨⟨72, 688, 100, 24⟩, [0, 1]⟩]) ∧
    (idsOf (elementTree bboxOverlaps [⟨⟨72, 700, 100, 12⟩, [0]⟩] [] [⟨⟨72, 688, 100, 24⟩, [0, 1]⟩])).count 0 = 1 := by
  decide +kernel

end Tabula.C09Elem
